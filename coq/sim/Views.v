(** Reading the results collected so far BETWEEN simulation calls (C04): [Simulator.get_result()] hands out a
    [Simulation] that SHARES the simulator's model object ([model=self.model]); the views of
    src/mxlpy/simulation.py that evaluate the model ([.variables], [.fluxes], [get_args], [get_combined],
    [get_right_hand_side], [get_producers], [get_consumers]) re-apply every segment's recorded parameters to that
    model ([_compute_args]: [for res, p in zip(raw_variables, raw_parameters): self.model.update_parameters(p)]).
    What the model is left with is the regenerated fact [view_mode]:

      [ViewLastSegment]  the code as it is: the LAST segment's parameter values (a parameter update made since
                         that segment is undone -- finding view-read-reverts-parameter-update);
      [ViewRestores]     fixes/C04-views-restore-parameters.diff: the values found at entry are put back;
      [ViewUnknown]      any other shape (pinned-fact theorem fails; the correspondence rejects every case).

    [get_variables] without derived quantities / readouts / surrogates returns [raw_variables] and never touches
    the model ([touch = false]).  No proofs in this file. *)
From Coq Require Import QArith List Bool NArith.
From Sim Require Import Integrator Simulator Protocol.
Import ListNotations.

Inductive view_mode := ViewLastSegment | ViewRestores | ViewUnknown.

Section Views.
  Variables Y P U O : Type.
  Variable flow : P -> Q -> Y -> Q -> Y.
  Variable solve_ok : P -> Q -> Y -> Q -> bool.
  Variable conv : Y -> Y -> bool.
  Variable pupd : P -> U -> P.
  Variable yovr : Y -> O -> Y.
  Variable fx : sim_facts.
  Variable vm : view_mode.

  Notation sim := (sim Y P).

  Definition set_mp (s : sim) (p : P) : sim :=
    mkSim (s_y0 s) (s_vars s) (s_pars s) (s_shift s) (s_errs s) (s_int s) p.

  (** [get_result()]: [Some (raw_variables, raw_parameters)] when a [Simulation] is handed out, [None] for
      [Result(error)] (a recorded error, or nothing simulated yet) *)
  Definition get_result (s : sim) : option (list (segment Y) * list P) :=
    if has_errors Y P s then None
    else match s_vars s, s_pars s with
         | Some v, Some ps => Some (v, ps)
         | _, _ => None
         end.

  (** reading ONE view of a fresh [get_result()].  Only the model's parameter values can change. *)
  Definition read_view (s : sim) (touch : bool) : sim :=
    match get_result s with
    | None => s                                   (* nothing to read *)
    | Some (_, ps) =>
        if touch then
          match vm with
          | ViewLastSegment => match rev ps with p :: _ => set_mp s p | [] => s end
          | ViewRestores => s
          | ViewUnknown => s
          end
        else s
    end.

  (** the parameters in force ARE the ones recorded for the last segment (then even the unrepaired views
      change nothing) *)
  Definition in_force (s : sim) : Prop :=
    match get_result s with
    | None => True
    | Some (_, ps) => match rev ps with p :: _ => p = s_mp s | [] => True end
    end.

  (** histories with view reads *)
  Inductive vop :=
  | VOp (o : op U O)
  | VRead (touch : bool).

  Definition vrun_op (s : sim) (o : vop) : sim * outcome :=
    match o with
    | VOp o => run_op Y P U O flow solve_ok conv pupd yovr fx s o
    | VRead b => (read_view s b, Done)
    end.

  Fixpoint vrun (s : sim) (ops : list vop) : sim :=
    match ops with
    | [] => s
    | o :: rest => vrun (fst (vrun_op s o)) rest
    end.

  Fixpoint vtrace (s : sim) (ops : list vop) : list (sim * outcome) :=
    match ops with
    | [] => []
    | o :: rest => let r := vrun_op s o in r :: vtrace (fst r) rest
    end.

  (** what the simulating / bookkeeping operations of a history return, view reads left out *)
  Fixpoint vtrace_base (s : sim) (ops : list vop) : list (sim * outcome) :=
    match ops with
    | [] => []
    | VOp o :: rest => let r := vrun_op s (VOp o) in r :: vtrace_base (fst r) rest
    | VRead b :: rest => vtrace_base (read_view s b) rest
    end.

  (** the same history with the view reads erased *)
  Fixpoint erase (ops : list vop) : list (op U O) :=
    match ops with
    | [] => []
    | VOp o :: rest => o :: erase rest
    | VRead _ :: rest => erase rest
    end.

  (** every view of the history is read while the parameters in force are the last segment's *)
  Fixpoint views_in_force (s : sim) (ops : list vop) : Prop :=
    match ops with
    | [] => True
    | VOp o :: rest => views_in_force (fst (vrun_op s (VOp o))) rest
    | VRead b :: rest => in_force s /\ views_in_force (read_view s b) rest
    end.
End Views.

Arguments VOp {U O}.
Arguments VRead {U O}.
