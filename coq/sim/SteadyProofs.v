(** Proofs about what IS well defined around a steady-state run (C04), requested-once at ANY positive gap,
    and two corollaries for protocols (C14: the same grid handed to two calls; continuation after an override).

    The known finding steady-state-resets-integrator makes [Inv2] fail right after a steady-state run (the
    integrator is reset and not advanced).  What survives is the weaker [Wf] (the result ends in a row, the
    accumulated index is strictly increasing) -- and [update_variables] maps EVERY [Wf] state back into [Inv2]:
    the override is applied to the last reported row and the next segment starts from it.  Hence histories in
    which every steady-state run happens on a freshly (re)initialised integrator and is followed by
    update_variable(s) or clear_results keep the invariant ([history_invariant_steady]). *)
From Coq Require Import QArith List Bool NArith Lia Lqa.
From Sim Require Import Integrator Simulator Protocol SimProofs ProtocolProofs.
Import ListNotations.
Open Scope Q_scope.

Section SteadyProofs.
  Variables Y P U O : Type.
  Variable flow : P -> Q -> Y -> Q -> Y.
  Variable solve_ok : P -> Q -> Y -> Q -> bool.
  Variable conv : Y -> Y -> bool.
  Variable pupd : P -> U -> P.
  Variable yovr : Y -> O -> Y.
  Variable fx : sim_facts.
  Hypothesis good : good_facts fx.

  Notation sim := (sim Y P).
  Notation Inv2 := (Inv2 Y P).
  Notation run_op := (run_op Y P U O flow solve_ok conv pupd yovr fx).
  Notation run := (run Y P U O flow solve_ok conv pupd yovr fx).
  Notation op := (op U O).
  Notation steady := (simulate_to_steady_state Y P flow conv fx).
  Notation updvar := (update_variables Y P O yovr fx).
  Notation simulate_time_course := (simulate_time_course Y P flow solve_ok fx).

  (** what the steady-state theorems need from the regenerated facts *)
  Record good_steady : Prop := {
    g_ss_resets : f_ss_resets fx = true;
    g_ss_advances : f_ss_advances fx = false;
    g_skip_ss : f_skip_ss fx = false;
    g_ss_step : (0 < f_ss_step fx)%N
  }.

  (** the result ends in a row (or there is none and no shift), and the index is strictly increasing *)
  Definition Wf (s : sim) : Prop :=
    match s_vars s with
    | None => s_shift s = None
    | Some segs => exists r, last_row Y segs = Some r
    end /\ incr (index_of Y P s).

  Lemma last_row_shape (segs : list (segment Y)) r :
    last_row Y segs = Some r -> exists segs' sg, segs = segs' ++ [sg ++ [r]].
  Proof.
    unfold last_row. intro H.
    destruct (rev segs) as [|sg0 l] eqn:E; [discriminate|].
    destruct (rev sg0) as [|r0 l2] eqn:E2; [discriminate|].
    injection H as ->. exists (rev l), (rev l2).
    assert (H1 : segs = rev (sg0 :: l)) by (rewrite <- E, rev_involutive; reflexivity).
    assert (H2 : sg0 = rev (r :: l2)) by (rewrite <- E2, rev_involutive; reflexivity).
    rewrite H1, H2. reflexivity.
  Qed.

  Lemma Inv2_Wf s : Inv2 s -> Wf s.
  Proof.
    intros [HI _]. split.
    - unfold Inv in HI. destruct (s_vars s) as [segs|].
      + destruct HI as (segs' & sg & t & y & -> & _). exists (t, y). apply last_row_snoc.
      + exact (proj1 HI).
    - destruct (Inv_prior Y P s HI) as (r & _ & _ & Hinc & _). exact Hinc.
  Qed.

  (** update_variable(s) in ANY well-formed state -- in particular right after a steady-state run: the override is
      applied to the state the next segment has to start from ([start_state]: the last reported row, or the
      overridden state while an override is pending), the integrator is re-initialised there, the result is
      untouched, and the invariant of continued simulation holds again *)
  Lemma override_resyncs s o :
    Wf s ->
    Inv2 (fst (updvar s o)) /\ snd (updvar s o) = Done
    /\ i_y0 (s_int (fst (updvar s o))) = yovr (start_state Y P s) o
    /\ i_t0 (s_int (fst (updvar s o))) = 0
    /\ index_of Y P (fst (updvar s o)) = index_of Y P s
    /\ reached Y P (fst (updvar s o)) = reached Y P s
    /\ s_errs (fst (updvar s o)) = s_errs s /\ s_mp (fst (updvar s o)) = s_mp s
    /\ s_pars (fst (updvar s o)) = s_pars s /\ s_vars (fst (updvar s o)) = s_vars s.
  Proof.
    intros [Hs Hinc]. unfold update_variables, start_state. rewrite (g_updvar_keeps fx good).
    unfold Simulator.reached, Simulator.prior_t_end.
    destruct (s_vars s) as [segs|] eqn:Ev.
    - destruct Hs as [[t yl] Hl]. rewrite Hl. cbn [fst snd s_vars s_int s_errs s_mp s_pars integ_init i_y0 i_t0].
      rewrite Hl.
      destruct (last_row_shape _ _ Hl) as (segs' & sg & Hshape).
      split; [|repeat split; try reflexivity; unfold Simulator.index_of; cbn [s_vars]; rewrite Ev; reflexivity].
      split.
      + unfold Inv. cbn [s_vars]. exists segs', sg, t, yl. split; [exact Hshape|].
        split; [unfold Simulator.index_of in *; cbn [s_vars]; rewrite Ev in Hinc; exact Hinc|].
        unfold shiftv. cbn [s_int s_shift integ_init i_t0]. split; lra.
      + unfold VInv, start_state. cbn [s_vars s_int s_shift s_y0 integ_init i_y0]. rewrite Hl.
        assert (E : Qeq_bool t t = true) by (apply Qeq_bool_iff; reflexivity). rewrite E. reflexivity.
    - cbn [fst snd s_vars s_int s_errs s_mp s_pars integ_init i_y0 i_t0].
      split; [|repeat split; try reflexivity; unfold Simulator.index_of; cbn [s_vars]; rewrite Ev; reflexivity].
      split.
      + unfold Inv. cbn [s_vars s_shift s_int integ_init i_t0]. split; [exact Hs|lra].
      + unfold VInv, start_state. cbn [s_vars s_int s_y0 integ_init i_y0]. reflexivity.
  Qed.

  (** ** the steady-state loop *)
  Lemma steady_loop_spec (mf : P -> Q -> Y -> Q -> Y) p step fuel :
    0 < step -> forall tprev t y1,
    match steady_loop Y P mf conv p step fuel tprev t y1 with
    | (IOk tc, t', y') => tc = [(t', y')] /\ t <= t'
    | (INoSteady, _, _) => True
    | _ => False
    end.
  Proof.
    intro Hs. induction fuel as [|f IH]; intros tprev t y1; cbn [steady_loop]; [exact I|].
    destruct (conv y1 (mf p tprev y1 (t - tprev))); [split; [reflexivity|lra]|].
    specialize (IH t (t + step) (mf p tprev y1 (t - tprev))).
    destruct (steady_loop Y P mf conv p step f t (t + step) (mf p tprev y1 (t - tprev))) as [[r t'] y'].
    destruct r; try exact IH. destruct IH as [E L]. split; [exact E|lra].
  Qed.

  Definition ss_step : Q := inject_Z (Z.of_N (f_ss_step fx)).

  Lemma ss_step_pos : good_steady -> 0 < ss_step.
  Proof.
    intros gs. unfold ss_step. change 0 with (inject_Z 0). rewrite <- Zlt_Qlt.
    pose proof (g_ss_step gs). lia.
  Qed.

  (** [integrate_to_steady_state]: the integrator is reset (and stays reset); either no steady state, or ONE row
      stamped with an integrator time of at least one step *)
  Lemma integ_steady_spec (gs : good_steady) (mf : P -> Q -> Y -> Q -> Y) p ig :
    exists r, integrate_to_steady_state Y P mf conv fx p ig = (integ_reset Y ig, r)
      /\ (r = INoSteady \/ exists t y, r = IOk [(t, y)] /\ ss_step <= t).
  Proof.
    unfold integrate_to_steady_state. rewrite (g_ss_resets gs), (g_ss_advances gs). fold ss_step.
    pose proof (steady_loop_spec mf p ss_step (N.to_nat (f_ss_max fx)) (ss_step_pos gs)
                  0 (i_t0 (integ_reset Y ig) + ss_step) (i_y0 (integ_reset Y ig))) as H.
    destruct (steady_loop Y P mf conv p ss_step (N.to_nat (f_ss_max fx)) 0
                (i_t0 (integ_reset Y ig) + ss_step) (i_y0 (integ_reset Y ig))) as [[r t] y].
    destruct r as [tc| | | |]; try contradiction.
    - destruct H as [-> L]. eexists. split; [reflexivity|]. right. exists t, y. split; [reflexivity|].
      cbn [integ_reset i_t0] in L. lra.
    - eexists. split; [reflexivity|]. left. reflexivity.
  Qed.

  (** a steady-state run on a freshly (re)initialised integrator (its time is 0: new simulator, or right after
      update_variable(s) / clear_results) leaves a WELL-FORMED state: always returns; either nothing is appended
      (no steady state: the failure is recorded), or exactly one row is appended whose time stamp is later than
      the time reached -- the accumulated index stays strictly increasing; earlier segments are untouched *)
  Lemma steady_fresh (gs : good_steady) s :
    Inv2 s -> i_t0 (s_int s) == 0 ->
    Wf (fst (steady s)) /\ snd (steady s) = Done
    /\ (has_errors Y P s = false -> has_errors Y P (fst (steady s)) = false ->
        exists t y,
          s_vars (fst (steady s)) = Some (match s_vars s with None => [] | Some l => l end ++ [[(t, y)]])
          /\ index_of Y P (fst (steady s)) = index_of Y P s ++ [t]
          /\ reached Y P s + ss_step <= t
          /\ reached Y P (fst (steady s)) = t
          /\ s_pars (fst (steady s)) = Some (pars_list Y P s ++ [s_mp s])
          /\ s_shift (fst (steady s)) = s_shift s /\ s_y0 (fst (steady s)) = s_y0 s /\ s_mp (fst (steady s)) = s_mp s).
  Proof.
    intros HI Hfresh. pose proof (Inv2_Wf s HI) as HW.
    unfold simulate_to_steady_state. destruct (has_errors Y P s) eqn:Herr.
    { cbn [fst snd]. split; [exact HW|]. split; [reflexivity|]. intro; discriminate. }
    destruct (integ_steady_spec gs (mflow Y P flow fx s) (s_mp s) (s_int s)) as (r & E & Hr). rewrite E.
    destruct (Inv_prior Y P s (proj1 HI)) as (r0 & Hpr & Hsync & Hincr & Hmax & Hnone & _).
    pose proof (reached_prior Y P s r0 Hpr) as Hreach.
    destruct s as [y0 vars pars sh errs ig mp].
    cbn [s_int s_mp s_vars s_shift s_y0 s_pars s_errs] in *.
    destruct Hr as [->|(t & y & -> & Ht)]; unfold finish, set_int, handle_results;
      cbn [fst snd s_int s_mp s_vars s_shift s_y0 s_pars s_errs].
    - (* no steady state *)
      split; [exact HW|]. split; [reflexivity|].
      intros _ H. unfold Simulator.has_errors in H. cbn [s_errs] in H. destruct errs; discriminate.
    - rewrite (g_skip_ss gs). cbn [map fst snd].
      assert (Hlater : forall a, In a (index_of Y P (mkSim y0 vars pars sh errs ig mp)) -> a < add_shift sh t).
      { intros a Ha. specialize (Hmax a Ha). pose proof (ss_step_pos gs).
        unfold shiftv in Hsync. cbn [s_shift] in Hsync. unfold add_shift. destruct sh; lra. }
      assert (Hstamp : reached Y P (mkSim y0 vars pars sh errs ig mp) + ss_step <= add_shift sh t).
      { rewrite Hreach. unfold shiftv in Hsync. cbn [s_shift] in Hsync. unfold add_shift. destruct sh; lra. }
      unfold Simulator.index_of in *. cbn [s_vars] in *.
      destruct vars as [l|].
      + assert (Hidx : concat (map (seg_index Y) (l ++ [[(add_shift sh t, y)]]))
                       = concat (map (seg_index Y) l) ++ [add_shift sh t]) by (apply (concat_snoc Y)).
        split.
        * split.
          -- cbn [s_vars]. exists (add_shift sh t, y). change [(add_shift sh t, y)] with ([] ++ [(add_shift sh t, y)]).
             apply last_row_snoc.
          -- unfold Simulator.index_of. cbn [s_vars]. rewrite Hidx. apply incr_app.
             split; [exact Hincr|]. split; [cbn; split; [intros ? []|exact I]|].
             intros a b Ha [<-|[]]. apply Hlater. exact Ha.
        * split; [reflexivity|]. intros _ _. exists (add_shift sh t), y.
          split; [reflexivity|]. split; [exact Hidx|]. split; [exact Hstamp|].
          split; [|repeat split].
          unfold Simulator.reached, Simulator.prior_t_end. cbn [s_vars].
          change [(add_shift sh t, y)] with ([] ++ [(add_shift sh t, y)]). rewrite last_row_snoc. reflexivity.
      + split.
        * split.
          -- cbn [s_vars]. exists (add_shift sh t, y). reflexivity.
          -- unfold Simulator.index_of. cbn. split; [intros ? []|exact I].
        * split; [reflexivity|]. intros _ _. exists (add_shift sh t), y.
          split; [reflexivity|]. split; [reflexivity|]. split; [exact Hstamp|]. split; [reflexivity|].
          repeat split.
  Qed.

  (** ** histories WITH steady-state runs *)
  (** [fresh] = the integrator is known to be at its own time 0.  A steady-state run must find it there and must be
      followed by update_variable(s) (which restarts from the row the run reported) or clear_results. *)
  Fixpoint ok_hist (fresh : bool) (ops : list op) {struct ops} : Prop :=
    match ops with
    | [] => True
    | OSteady :: rest =>
        match rest with
        | OUpdVar _ :: r => fresh = true /\ ok_hist true r
        | OClear :: r => ok_hist true r
        | _ => False
        end
    | OUpdVar _ :: r => ok_hist true r
    | OClear :: r => ok_hist true r
    | OUpdPar _ :: r => ok_hist fresh r
    | _ :: r => ok_hist false r
    end.

  Lemma history_invariant_steady_n (gs : good_steady) n :
    forall ops fresh s, (length ops <= n)%nat -> ok_hist fresh ops -> Inv2 s ->
      (fresh = true -> i_t0 (s_int s) == 0) -> Inv2 (run s ops).
  Proof.
    induction n as [|n IH]; intros ops fresh s Hlen Hok HI Hfr.
    { destruct ops; [exact HI|cbn in Hlen; lia]. }
    destruct ops as [|o rest]; [exact HI|]. cbn [length] in Hlen.
    assert (Hno : forall fr', no_steady U O o -> ok_hist fr' rest ->
                   (fr' = true -> i_t0 (s_int (fst (run_op s o))) == 0) -> Inv2 (run s (o :: rest))).
    { intros fr' Hns Hok' Hfr'. cbn [Protocol.run]. apply (IH rest fr'); [lia|exact Hok'| |exact Hfr'].
      apply (run_op_inv2 Y P U O flow solve_ok conv pupd yovr fx good); assumption. }
    destruct o as [t st|pts|steps k|steps pts rel| |u|ov|].
    - apply (Hno false); [exact I|exact Hok|discriminate].
    - apply (Hno false); [exact I|exact Hok|discriminate].
    - apply (Hno false); [exact I|exact Hok|discriminate].
    - apply (Hno false); [exact I|exact Hok|discriminate].
    - (* a steady-state run *)
      destruct rest as [|o2 r]; [destruct Hok|]. cbn [length] in Hlen.
      destruct o2 as [t st|pts|steps k|steps pts rel| |u|ov|]; try (destruct Hok).
      + (* ... followed by an override *)
        subst fresh. cbn [Protocol.run Protocol.run_op].
        destruct (steady_fresh gs s HI (Hfr eq_refl)) as (HW & _).
        destruct (override_resyncs (fst (steady s)) ov HW) as (HI2 & _ & _ & Ht0 & _).
        apply (IH r true); [lia|assumption|exact HI2|]. intros _. rewrite Ht0. reflexivity.
      + (* ... followed by clear_results *)
        cbn [Protocol.run Protocol.run_op fst].
        apply (IH r true); [lia|exact Hok|apply clear_results_inv2|]. intros _. cbn. reflexivity.
    - apply (Hno fresh); [exact I|exact Hok|]. cbn [Protocol.run_op fst]. exact Hfr.
    - apply (Hno true); [exact I|exact Hok|]. intros _. cbn [Protocol.run_op].
      destruct (override_resyncs s ov (Inv2_Wf s HI)) as (_ & _ & _ & Ht0 & _). rewrite Ht0. reflexivity.
    - apply (Hno true); [exact I|exact Hok|]. intros _. cbn. reflexivity.
  Qed.

  Theorem history_invariant_steady (gs : good_steady) y0 p ops :
    ok_hist true ops -> Inv2 (run (sim_new Y P y0 p) ops).
  Proof.
    intro Hok. apply (history_invariant_steady_n gs (length ops) ops true); [lia|exact Hok|apply sim_new_inv2|].
    intros _. cbn. reflexivity.
  Qed.

  Theorem history_axis_increasing_steady (gs : good_steady) y0 p ops :
    ok_hist true ops -> incr (index_of Y P (run (sim_new Y P y0 p) ops)).
  Proof.
    intro Hok. destruct (history_invariant_steady gs y0 p ops Hok) as [HI _].
    destruct (Inv_prior Y P _ HI) as (r & _ & _ & Hinc & _). exact Hinc.
  Qed.

  (** ** requested-once at ANY positive gap: the model compares times exactly (no tolerance) *)
  Lemma tc_requested_once s pts :
    never_fails Y P solve_ok -> Inv2 s -> has_errors Y P s = false ->
    pts <> [] -> incr pts -> (forall t, In t pts -> reached Y P s < t) ->
    exists s2, simulate_time_course s pts = (s2, Done)
      /\ Inv2 s2 /\ has_errors Y P s2 = false
      /\ Qeql (index_of Y P s2) (base_index Y P s ++ pts)
      /\ reached Y P s2 == lastq pts 0.
  Proof.
    intros Hnf HI Herr Hne Hinc Hall.
    assert (Hlast : reached Y P s < lastq pts 0) by (apply Hall, lastq_In; exact Hne).
    destruct (time_course_spec Y P flow solve_ok fx good s pts HI Herr Hne) as (Hiff & Hdone & _ & Hacc).
    destruct (simulate_time_course s pts) as [s2 o] eqn:E. cbn [fst snd] in *.
    assert (Ho : o = Done).
    { apply Hdone. intro Hrv. apply Hiff in Hrv. destruct Hrv as [Hrv|Hrv]; [lra|].
      apply Hrv. apply incr_filter. exact Hinc. }
    subst o.
    destruct (time_course_done Y P flow solve_ok fx good s pts s2 Hnf HI Herr Hne E) as (_ & Herr2 & HI2).
    destruct (Hacc s2 eq_refl Herr2) as (h & rest & Hh & Hsync & _ & _ & Happ & Hnew & Hreach2).
    assert (Hfilt : filter (fun t => Qltb (reached Y P s) t) pts = pts).
    { apply filter_all. intros t Ht. apply Qltb_iff. apply Hall. exact Ht. }
    rewrite Hfilt in Hnew.
    exists s2. split; [reflexivity|]. split; [exact HI2|]. split; [exact Herr2|]. split; [|exact Hreach2].
    destruct Happ as (Hidx & _). rewrite Hidx. apply Qeql_app; [|exact Hnew].
    unfold base_index. destruct (s_vars s); [apply Qeql_refl|].
    constructor; [|constructor]. rewrite (add_shift_v Y P s h). rewrite Hh, Hsync. reflexivity.
  Qed.

  Theorem tc_tiny_gap s d later :
    never_fails Y P solve_ok -> Inv2 s -> has_errors Y P s = false ->
    0 < d -> incr ((reached Y P s + d) :: later) ->
    exists s2, simulate_time_course s ((reached Y P s + d) :: later) = (s2, Done)
      /\ Inv2 s2 /\ has_errors Y P s2 = false
      /\ Qeql (index_of Y P s2) (base_index Y P s ++ (reached Y P s + d) :: later)
      /\ reached Y P s2 == lastq ((reached Y P s + d) :: later) 0.
  Proof.
    intros Hnf HI Herr Hd Hinc.
    apply tc_requested_once; try assumption; [discriminate|].
    intros t [<-|Ht]; [lra|]. destruct Hinc as [Hx _]. specialize (Hx t Ht). lra.
  Qed.

  (** the prepend decision of [integrate_time_course] is an EXACT comparison: a first point that differs from the
      integrator's time by any amount is a new point and the integrator's time is put in front of it *)
  Lemma prepend_exact (ig : integ Y) t tp :
    ~ t == i_t0 ig -> tp_eff (i_t0 ig) (t :: tp) = i_t0 ig :: t :: tp.
  Proof.
    intro H. unfold tp_eff. apply Qeq_bool_false in H. rewrite H. reflexivity.
  Qed.

  Lemma itc_prepend_exact p (ig : integ Y) t tp :
    ~ t == i_t0 ig ->
    integrate_time_course Y P flow solve_ok p ig (t :: tp)
    = match solve_ivp Y P flow solve_ok p (i_y0 ig) (i_t0 ig :: t :: tp) with
      | IOk tc => (mkInteg (lastq (map fst tc) (i_t0 ig)) (last (map snd tc) (i_y0 ig)) (i_orig ig), IOk tc)
      | r => (ig, r)
      end.
  Proof.
    intro H. rewrite (itc_unfold Y P flow solve_ok p ig (t :: tp)) by discriminate.
    rewrite (prepend_exact ig t tp H). reflexivity.
  Qed.
End SteadyProofs.


(** * C14 corollaries: inputs are values; continuation after an override *)
Section ProtocolCorollaries.
  Variables Y P U O : Type.
  Variable flow : P -> Q -> Y -> Q -> Y.
  Variable solve_ok : P -> Q -> Y -> Q -> bool.
  Variable pupd : P -> U -> P.
  Variable yovr : Y -> O -> Y.
  Variable fx : sim_facts.
  Hypothesis good : good_facts fx.

  Notation sim := (sim Y P).
  Notation Inv2 := (Inv2 Y P).
  Notation ptc := (simulate_protocol_time_course Y P U flow solve_ok pupd fx).
  Notation updvar := (update_variables Y P O yovr fx).

  Lemma lastq_map_add (pts : list Q) c : pts <> [] -> lastq (map (fun t => t + c) pts) 0 == lastq pts 0 + c.
  Proof.
    intro H. assert (Hm : map (fun t => t + c) pts <> []) by (destruct pts; [congruence|discriminate]).
    rewrite (lastq_default _ 0 (0 + c) Hm).
    pose proof (lastq_map (fun t => t + c) pts 0) as H1. cbv beta in H1. rewrite H1. reflexivity.
  Qed.

  (** the requested grid is a VALUE: handing the same relative grid to two consecutive calls asks the second call
      for  its own start + the same offsets  (the first call cannot have changed what the second one is asked) *)
  Theorem ptc_same_grid_twice (s : sim) (steps : list (Q * U)) (pts : list Q) :
    never_fails Y P solve_ok -> Inv2 s -> has_errors Y P s = false ->
    pts <> [] -> steps <> [] -> Forall (fun st : Q * U => 0 < fst st) steps -> 0 < lastq pts 0 ->
    exists s1 s2,
      ptc s (make_protocol U steps) pts true = (s1, Done)
      /\ ptc s1 (make_protocol U steps) pts true = (s2, Done)
      /\ Inv2 s2 /\ has_errors Y P s2 = false
      /\ (let start := reached Y P s1 in
          let rows' := map (fun r : Q * U => (fst r + start, snd r)) (make_protocol U steps) in
          Qeql (index_of Y P s2)
               (index_of Y P s1 ++ win start (lastq (map fst rows') start)
                                       (qunion (map fst rows') (map (fun t => t + start) pts))))
      /\ reached Y P s1 == lastq (map fst (map (fun r : Q * U => (fst r + reached Y P s, snd r)) (make_protocol U steps)))
                                 (reached Y P s)
      /\ nsegs Y P s2 = (nsegs Y P s + length steps + length steps)%nat.
  Proof.
    intros Hnf HI Herr Hne Hsne Hpos Hlast.
    assert (Hlt : forall c, c < lastq (map (fun t => t + c) pts) 0).
    { intro c. rewrite (lastq_map_add pts c Hne). lra. }
    destruct (ptc_axis_exact Y P U flow solve_ok pupd fx good s steps pts true Hnf HI Herr Hne Hsne Hpos (Hlt _))
      as (s1 & E1 & HI1 & Herr1 & _ & _ & Hn1 & Hr1).
    destruct (ptc_axis_exact Y P U flow solve_ok pupd fx good s1 steps pts true Hnf HI1 Herr1 Hne Hsne Hpos (Hlt _))
      as (s2 & E2 & HI2 & Herr2 & Hidx2 & _ & Hn2 & _).
    exists s1, s2. split; [exact E1|]. split; [exact E2|]. split; [exact HI2|]. split; [exact Herr2|].
    split; [|split; [exact Hr1|lia]].
    cbv zeta. unfold base_index in Hidx2. unfold nsegs in Hn1.
    destruct (s_vars s1) as [l|]; [exact Hidx2|].
    exfalso. destruct steps; [congruence|]. cbn [length] in Hn1. lia.
  Qed.

  (** a protocol that CONTINUES after update_variable(s) (from any well-formed state, also right after a
      steady-state run): the override is applied to the state the next segment starts from, the protocol is
      accepted step by step from the time reached, and the first step's rows are the solution under the first
      step's values from the OVERRIDDEN state *)
  Theorem protocol_after_override (s : sim) (o : O) (steps : list (Q * U)) (k : nat) :
    never_fails Y P solve_ok -> Wf Y P s -> has_errors Y P s = false ->
    Forall (fun st : Q * U => 0 < fst st) steps ->
    let s' := fst (updvar s o) in
    Inv2 s' /\ i_y0 (s_int s') = yovr (start_state Y P s) o
    /\ index_of Y P s' = index_of Y P s /\ reached Y P s' = reached Y P s
    /\ (exists s2, simulate_protocol Y P U flow solve_ok pupd fx s' (make_protocol U steps) (S k) = (s2, Done)
          /\ Inv2 s2 /\ has_errors Y P s2 = false
          /\ pars_list Y P s2 = pars_list Y P s ++ scan_pars P U pupd (s_mp s) (map snd steps)
          /\ nsegs Y P s2 = (nsegs Y P s + length steps)%nat
          /\ (steps <> [] -> reached Y P s2 == reached Y P s + lastq (map fst (make_protocol U steps)) 0))
    /\ (forall u t_end m s1,
          simulate Y P flow solve_ok fx (update_parameters Y P U pupd s' u) t_end (Some (S m)) = (s1, Done) ->
          has_errors Y P s1 = false ->
          let s0 := update_parameters Y P U pupd s' u in
          s_mp s0 = pupd (s_mp s) u /\ i_y0 (s_int s0) = yovr (start_state Y P s) o
          /\ appended Y P flow s0 s1 (sim_h Y P s0 t_end m) (sim_rest Y P s0 t_end m)
          /\ reached Y P s1 == t_end).
  Proof.
    intros Hnf HW Herr Hpos.
    destruct (override_resyncs Y P O yovr fx good s o HW)
      as (HI' & _ & Hy0 & _ & Hidx & Hreach & Herrs & Hmp & Hpars & Hvars).
    cbv zeta.
    assert (Herr' : has_errors Y P (fst (updvar s o)) = false).
    { unfold has_errors in *. rewrite Herrs. exact Herr. }
    split; [exact HI'|]. split; [exact Hy0|]. split; [exact Hidx|]. split; [exact Hreach|]. split.
    - destruct (protocol_accepted Y P U flow solve_ok pupd fx good _ steps k Hnf HI' Herr' Hpos)
        as (s2 & E & HI2 & Herr2 & Hp & Hn & Hr).
      exists s2. split; [exact E|]. split; [exact HI2|]. split; [exact Herr2|].
      unfold pars_list, nsegs in *. rewrite Hpars, Hmp in Hp. rewrite Hvars in Hn. rewrite Hreach in Hr.
      split; [exact Hp|]. split; [exact Hn|exact Hr].
    - intros u t_end m s1 E Herr1.
      destruct (step_governs Y P U flow solve_ok pupd fx good _ u t_end m s1 HI' Herr' E Herr1)
        as (Hmp1 & _ & _ & _ & Happ & Hr1).
      split; [rewrite <- Hmp; exact Hmp1|]. split; [exact Hy0|]. split; [exact Happ|exact Hr1].
  Qed.
End ProtocolCorollaries.

Lemma good_steady_of_pinned fx : fx = pinned_facts -> good_steady fx.
Proof. intros ->. constructor; reflexivity. Qed.
