(** Executable histories in which every protocol goes THROUGH THE TABLE (ProtocolTable.v): a protocol
    operation written with the user's step dicts is run on what the loops read back from the frame's rows
    ([table_steps]).  Used by the correspondence check (the implementation is handed the step dicts in the key
    order written in the history) and by the [vm_compute] witnesses.  No proofs in this file. *)
From Coq Require Import QArith List Bool NArith.
From MxlBase Require Import ListX.
From Sim Require Import Integrator Simulator Protocol ProtocolTable SimExec.
Import ListNotations.
Open Scope Q_scope.

(** the operation the Simulator really performs; [None]: outside the modelled domain *)
Definition table_op (m : rows_mode) (o : xop) : option xop :=
  match o with
  | OProt steps n => match table_steps m steps with Some st => Some (OProt st n) | None => None end
  | OProtTc steps pts rel => match table_steps m steps with Some st => Some (OProtTc st pts rel) | None => None end
  | _ => Some o
  end.

Fixpoint table_ops (m : rows_mode) (ops : list xop) : option (list xop) :=
  match ops with
  | [] => Some []
  | o :: rest =>
      match table_op m o, table_ops m rest with
      | Some o', Some r => Some (o' :: r)
      | _, _ => None
      end
  end.

Definition xtrace_t (m : rows_mode) (fx : sim_facts) (s : xsim) (ops : list xop) : option (list (xsim * outcome)) :=
  match table_ops m ops with Some ops' => Some (xtrace fx s ops') | None => None end.

Definition xrun_t (m : rows_mode) (fx : sim_facts) (s : xsim) (ops : list xop) : option xsim :=
  match table_ops m ops with Some ops' => Some (xrun fx s ops') | None => None end.

(** a history outside the modelled domain (or an unrecognised table shape) agrees with nothing *)
Definition case_ok_t (m : rows_mode) (fx : sim_facts) (c : case) : bool :=
  match c with
  | (cv, y0, p0, ops, seen) =>
      match xtrace_t m fx (xnew y0 p0) ops with
      | Some tr => list_eqb (obs_eqb cv) (map obs_of tr) seen
      | None => false
      end
  end.

Definition mismatches_t (m : rows_mode) (fx : sim_facts) (cs : list case) : list nat :=
  filter_idx (fun c => negb (case_ok_t m fx c)) cs.

(** recorded parameters of every segment, for witnesses *)
Definition recorded_pars (s : xsim) : list (list Q) :=
  match s_pars s with None => [] | Some ps => map (map Qred) ps end.
