(** Executable instance of the simulator model used by the correspondence check and by the
    [vm_compute] witnesses: two variables (x, y), parameters (k, c, a, boom) with

        dx/dt = k*y + a*time        dy/dt = c

    whose solution is polynomial, hence exact on dyadic rationals in binary64 and in [Q]:
        y(t0+d) = y + c d,   x(t0+d) = x + k (y d + c d^2/2) + a ((t0+d)^2 - t0^2)/2.
    [boom <> 0] makes the (stand-in) solver report failure; the steady-state test is exact
    equality of consecutive iterates.  The SAME formulas are implemented independently in
    harness/c04_sim.py (the exact stand-in for scipy.integrate used with the real Scipy class). *)
From Coq Require Import QArith List Bool NArith.
From MxlBase Require Import ListX.
From Sim Require Import Integrator Simulator Protocol.
Import ListNotations.
Open Scope Q_scope.

Definition nthq (l : list Q) (i : nat) : Q := nth i l 0.

Fixpoint set_nth (l : list Q) (i : nat) (v : Q) : list Q :=
  match l, i with
  | [], _ => []
  | _ :: xs, O => v :: xs
  | x :: xs, S j => x :: set_nth xs j v
  end.

Definition apply_updates (l : list Q) (u : list (nat * Q)) : list Q :=
  fold_left (fun acc iv => set_nth acc (fst iv) (snd iv)) u l.

Definition xflow (p : list Q) (t0 : Q) (y : list Q) (d : Q) : list Q :=
  let k := nthq p 0 in let c := nthq p 1 in let a := nthq p 2 in
  let x0 := nthq y 0 in let y0 := nthq y 1 in
  [ Qred (x0 + k * (y0 * d + c * d * d / 2) + a * ((t0 + d) * (t0 + d) - t0 * t0) / 2) ;
    Qred (y0 + c * d) ].

Definition xsolve_ok (p : list Q) (_ : Q) (_ : list Q) (_ : Q) : bool := Qeq_bool (nthq p 3) 0.

Fixpoint qlist_eqb (a b : list Q) : bool :=
  match a, b with
  | [], [] => true
  | x :: a', y :: b' => Qeq_bool x y && qlist_eqb a' b'
  | _, _ => false
  end.

Definition xconv (y1 y2 : list Q) : bool := qlist_eqb y1 y2.

Definition xsim := sim (list Q) (list Q).
Definition xop := op (list (nat * Q)) (list (nat * Q)).

Definition xrun_op (fx : sim_facts) : xsim -> xop -> xsim * outcome :=
  run_op (list Q) (list Q) (list (nat * Q)) (list (nat * Q)) xflow xsolve_ok xconv apply_updates apply_updates fx.
Definition xrun (fx : sim_facts) : xsim -> list xop -> xsim :=
  run (list Q) (list Q) (list (nat * Q)) (list (nat * Q)) xflow xsolve_ok xconv apply_updates apply_updates fx.
Definition xtrace (fx : sim_facts) : xsim -> list xop -> list (xsim * outcome) :=
  trace (list Q) (list Q) (list (nat * Q)) (list (nat * Q)) xflow xsolve_ok xconv apply_updates apply_updates fx.
Definition xnew (y0 p : list Q) : xsim := sim_new (list Q) (list Q) y0 p.

(** * observations *)
(** outcome code: 0 returned, 1 ValueError, 2 IndexError; error code of get_result():
    0 none, 1 IntegrationFailure, 2 NoSteadyState (the FIRST recorded error) *)
Record obs := mkObs {
  o_out : nat;
  o_err : nat;
  o_segs : option (list (list (Q * list Q)));
  o_pars : option (list (list Q))
}.

Definition out_code (o : outcome) : nat :=
  match o with Done => 0 | RaisedValue => 1 | RaisedIndex => 2 end%nat.
(** [get_result()]: the first recorded error; IntegrationFailure when there is nothing to return *)
Definition err_code (s : xsim) : nat :=
  match s_errs s with
  | EIntegration :: _ => 1
  | ENoSteady :: _ => 2
  | [] => match s_vars s, s_pars s with Some _, Some _ => 0 | _, _ => 1 end
  end%nat.

Definition obs_of (r : xsim * outcome) : obs :=
  mkObs (out_code (snd r)) (err_code (fst r)) (s_vars (fst r)) (s_pars (fst r)).

Fixpoint list_eqb {A} (e : A -> A -> bool) (a b : list A) : bool :=
  match a, b with
  | [], [] => true
  | x :: a', y :: b' => e x y && list_eqb e a' b'
  | _, _ => false
  end.

Definition opt_eqb {A} (e : A -> A -> bool) (a b : option A) : bool :=
  match a, b with
  | None, None => true
  | Some x, Some y => e x y
  | _, _ => false
  end.

(** [cv] = compare the state values too (exact stand-in solver); otherwise only the time axis *)
Definition row_eqb (cv : bool) (a b : Q * list Q) : bool :=
  Qeq_bool (fst a) (fst b) && (negb cv || qlist_eqb (snd a) (snd b)).

Definition obs_eqb (cv : bool) (a b : obs) : bool :=
  Nat.eqb (o_out a) (o_out b) && Nat.eqb (o_err a) (o_err b)
  && opt_eqb (list_eqb (list_eqb (row_eqb cv))) (o_segs a) (o_segs b)
  && opt_eqb (list_eqb qlist_eqb) (o_pars a) (o_pars b).

(** one correspondence case: compare-values flag, y0, parameters, history, what /repo produced *)
Definition case := (bool * list Q * list Q * list xop * list obs)%type.

Definition case_ok (fx : sim_facts) (c : case) : bool :=
  match c with
  | (cv, y0, p0, ops, seen) =>
      list_eqb (obs_eqb cv) (map obs_of (xtrace fx (xnew y0 p0) ops)) seen
  end.

Definition mismatches (fx : sim_facts) (cs : list case) : list nat :=
  filter_idx (fun c => negb (case_ok fx c)) cs.

(** index of a state as a list, for witnesses *)
Definition xindex (s : xsim) : list Q := map Qred (index_of (list Q) (list Q) s).
