(** The TABLE that make_protocol (src/mxlpy/__init__.py) builds and that the two protocol loops of the
    Simulator read back row by row ([for t_end, pars in protocol.iterrows(): update_parameters(pars.to_dict())]).

    A step's values are a Python dict, i.e. a mapping written in SOME key order: an association list
    [(name, value)] with distinct names.  The frame has one column per parameter NAME (the names of the
    first step, in the order written there -- all steps of a protocol name the same parameters) and one
    row per step; what the loops hand to [update_parameters] is [row.to_dict()] = the column names zipped
    with the row's cells.  How a step's values get INTO its row is the regenerated fact [rows_mode]:

      RowsByName      shipped: [pd.DataFrame({end_i: pars_i}).T] -- the frame constructor aligns every
                      inner dict on its KEYS: cell (i, n) = pars_i[n]
      RowsPositional  seeded change C14-8: [np.array([list(pars_i.values()) ...])] with
                      [columns = list(steps[0][1])]: cell (i, j) = the j-th value AS WRITTEN in step i
      RowsUnknown     anything else (fail-closed)

    [None] = outside the modelled domain (a step naming other parameters than the first: NaN cells / a
    ragged array; an empty protocol under the positional shape).  No proofs in this file. *)
From Coq Require Import QArith List Bool Arith.
Import ListNotations.

Inductive rows_mode := RowsByName | RowsPositional | RowsUnknown.

Definition dict := list (nat * Q).            (* names are numbers, as everywhere in the executable instance *)

Definition keys (u : dict) : list nat := map fst u.

Fixpoint lookup (n : nat) (u : dict) : option Q :=
  match u with
  | [] => None
  | (m, v) :: rest => if Nat.eqb n m then Some v else lookup n rest
  end.

Fixpoint memb (n : nat) (l : list nat) : bool :=
  match l with
  | [] => false
  | m :: rest => Nat.eqb n m || memb n rest
  end.

Fixpoint nodupb (l : list nat) : bool :=
  match l with
  | [] => true
  | n :: rest => negb (memb n rest) && nodupb rest
  end.

(** cells of one row, aligned on the column names; [None] when the step does not give a column's value *)
Fixpoint by_name (names : list nat) (u : dict) : option dict :=
  match names with
  | [] => Some []
  | n :: ns =>
      match lookup n u, by_name ns u with
      | Some v, Some r => Some ((n, v) :: r)
      | _, _ => None
      end
  end.

(** [row.to_dict()] of the row built from step [u] under the column names [names] *)
Definition row_dict (m : rows_mode) (names : list nat) (u : dict) : option dict :=
  if negb (nodupb (keys u) && Nat.eqb (length u) (length names)) then None
  else match m with
       | RowsByName => by_name names u
       | RowsPositional => Some (combine names (map snd u))
       | RowsUnknown => None
       end.

Fixpoint rows_dicts (m : rows_mode) (names : list nat) (steps : list (Q * dict)) : option (list (Q * dict)) :=
  match steps with
  | [] => Some []
  | (d, u) :: rest =>
      match row_dict m names u, rows_dicts m names rest with
      | Some u', Some r => Some ((d, u') :: r)
      | _, _ => None
      end
  end.

(** the steps as the protocol loops see them: (duration, what [to_dict] of the step's row gives) *)
Definition table_steps (m : rows_mode) (steps : list (Q * dict)) : option (list (Q * dict)) :=
  match steps with
  | [] => match m with RowsByName => Some [] | _ => None end
  | (_, u0) :: _ => if nodupb (keys u0) then rows_dicts m (keys u0) steps else None
  end.
