(** Proofs about the protocol TABLE (ProtocolTable.v / TableExec.v), C14:
    a step's values reach [update_parameters] as the SAME MAPPING whatever key order the step was written in
    (shipped, by-name rows); regression facts for positional rows (seeded change C14-8). *)
From Coq Require Import QArith List Bool Arith Lia Permutation.
From Sim Require Import Integrator Simulator Protocol ProtocolTable SimExec TableExec GenSimFacts.
Import ListNotations.
Open Scope Q_scope.

(** ** association lists *)
Lemma memb_In n l : memb n l = true <-> In n l.
Proof.
  induction l as [|m r IH]; cbn [memb In]; [split; [discriminate|tauto]|].
  rewrite orb_true_iff, IH, Nat.eqb_eq. split; intros [H|H]; auto.
Qed.

Lemma nodupb_NoDup l : nodupb l = true <-> NoDup l.
Proof.
  induction l as [|m r IH]; cbn [nodupb]; [split; [constructor|reflexivity]|].
  rewrite andb_true_iff, negb_true_iff, IH. split.
  - intros [Hm Hr]. constructor; [|exact Hr]. intro Hin. apply memb_In in Hin. congruence.
  - intro H. inversion H as [|? ? Hm Hr]; subst. split; [|exact Hr].
    destruct (memb m r) eqn:E; [|reflexivity]. apply memb_In in E. contradiction.
Qed.

Lemma lookup_None n u : lookup n u = None <-> ~ In n (keys u).
Proof.
  induction u as [|[m v] r IH]; cbn [lookup keys map In fst]; [tauto|].
  destruct (Nat.eqb n m) eqn:E.
  - apply Nat.eqb_eq in E. subst. split; [discriminate|]. intro H. exfalso. apply H. left. reflexivity.
  - apply Nat.eqb_neq in E. rewrite IH. unfold keys. split; [intros H [Hm|Hin]; [congruence|contradiction]|tauto].
Qed.

Lemma lookup_Some_In n u v : lookup n u = Some v -> In n (keys u).
Proof.
  intro H. destruct (in_dec Nat.eq_dec n (keys u)) as [Hin|Hn]; [exact Hin|].
  apply lookup_None in Hn. congruence.
Qed.

(** ** by-name rows *)
Lemma by_name_keys names u u' : by_name names u = Some u' -> keys u' = names.
Proof.
  revert u'. induction names as [|n ns IH]; intros u' H; cbn [by_name] in H.
  - injection H as <-. reflexivity.
  - destruct (lookup n u) as [v|]; [|discriminate]. destruct (by_name ns u) as [r|]; [|discriminate].
    injection H as <-. cbn [keys map fst]. f_equal. exact (IH r eq_refl).
Qed.

Lemma by_name_lookup names u u' :
  NoDup names -> by_name names u = Some u' -> forall n, In n names -> lookup n u' = lookup n u.
Proof.
  revert u'. induction names as [|m ns IH]; intros u' Hnd H n Hin; [destruct Hin|].
  cbn [by_name] in H. destruct (lookup m u) as [v|] eqn:Em; [|discriminate].
  destruct (by_name ns u) as [r|] eqn:Er; [|discriminate]. injection H as <-.
  inversion Hnd as [|? ? Hm Hns]; subst. cbn [lookup].
  destruct (Nat.eqb n m) eqn:E.
  - apply Nat.eqb_eq in E. subst. symmetry. exact Em.
  - apply Nat.eqb_neq in E. destruct Hin as [->|Hin]; [congruence|]. exact (IH r Hns eq_refl n Hin).
Qed.

Lemma by_name_defined names u :
  (forall n, In n names -> In n (keys u)) -> exists u', by_name names u = Some u'.
Proof.
  induction names as [|m ns IH]; intro H; [exists []; reflexivity|].
  destruct IH as [r Hr]; [intros n Hn; apply H; right; exact Hn|].
  cbn [by_name]. destruct (lookup m u) as [v|] eqn:E.
  - rewrite Hr. eexists. reflexivity.
  - apply lookup_None in E. exfalso. apply E. apply H. left. reflexivity.
Qed.

(** the row read back is the step's mapping: every name, listed or not, looks up the same *)
Lemma row_by_name_same_mapping names u u' :
  NoDup names -> row_dict RowsByName names u = Some u' ->
  keys u' = names /\ forall n, lookup n u' = lookup n u.
Proof.
  intros Hnd H. unfold row_dict in H.
  destruct (nodupb (keys u)) eqn:Eu; cbn [andb negb] in H; [|discriminate].
  destruct (Nat.eqb (length u) (length names)) eqn:El; cbn [negb] in H; [|discriminate].
  apply nodupb_NoDup in Eu. apply Nat.eqb_eq in El.
  pose proof (by_name_keys _ _ _ H) as Hk. split; [exact Hk|]. intro n.
  destruct (in_dec Nat.eq_dec n names) as [Hin|Hn]; [exact (by_name_lookup _ _ _ Hnd H n Hin)|].
  assert (Hsub : incl names (keys u)).
  { intros m Hm. pose proof (by_name_lookup _ _ _ Hnd H m Hm) as E.
    destruct (lookup m u) as [v|] eqn:Ev; [exact (lookup_Some_In _ _ _ Ev)|].
    apply lookup_None in E. rewrite Hk in E. contradiction. }
  assert (Hsup : incl (keys u) names).
  { apply NoDup_length_incl; [exact Hnd| |exact Hsub]. unfold keys. rewrite map_length. lia. }
  assert (E1 : lookup n u' = None) by (apply lookup_None; rewrite Hk; exact Hn).
  assert (E2 : lookup n u = None) by (apply lookup_None; intro Hin; apply Hn; apply Hsup; exact Hin).
  congruence.
Qed.

Definition same_step (a b : Q * dict) : Prop :=
  fst b = fst a /\ NoDup (keys (snd a)) /\ NoDup (keys (snd b)) /\ forall n, lookup n (snd b) = lookup n (snd a).

Lemma rows_by_name_same names steps steps' :
  NoDup names -> rows_dicts RowsByName names steps = Some steps' -> Forall2 same_step steps steps'.
Proof.
  intro Hnd. revert steps'. induction steps as [|[d u] rest IH]; intros steps' H; cbn [rows_dicts] in H.
  - injection H as <-. constructor.
  - destruct (row_dict RowsByName names u) as [u'|] eqn:Eu; [|discriminate].
    destruct (rows_dicts RowsByName names rest) as [r|]; [|discriminate]. injection H as <-.
    constructor; [|exact (IH r eq_refl)].
    destruct (row_by_name_same_mapping _ _ _ Hnd Eu) as [Hk Hl]. unfold same_step. cbn [fst snd].
    split; [reflexivity|]. split; [|split; [rewrite Hk; exact Hnd|exact Hl]].
    unfold row_dict in Eu. destruct (nodupb (keys u)) eqn:E; [apply nodupb_NoDup; exact E|discriminate].
Qed.

Theorem table_row_is_the_step steps steps' :
  table_steps RowsByName steps = Some steps' -> Forall2 same_step steps steps'.
Proof.
  destruct steps as [|[d0 u0] rest]; cbn [table_steps]; intro H.
  - injection H as <-. constructor.
  - destruct (nodupb (keys u0)) eqn:E; [|discriminate]. apply nodupb_NoDup in E.
    exact (rows_by_name_same _ _ _ E H).
Qed.

(** every key order is accepted: steps whose key lists are permutations of the first step's *)
Lemma row_by_name_defined names u :
  NoDup names -> Permutation names (keys u) -> exists u', row_dict RowsByName names u = Some u'.
Proof.
  intros Hnd Hp. unfold row_dict.
  assert (E1 : nodupb (keys u) = true) by (apply nodupb_NoDup; exact (Permutation_NoDup Hp Hnd)).
  assert (E2 : Nat.eqb (length u) (length names) = true).
  { apply Nat.eqb_eq. rewrite (Permutation_length Hp). unfold keys. rewrite map_length. reflexivity. }
  rewrite E1, E2. cbn [andb negb]. apply by_name_defined. intros n Hn. exact (Permutation_in _ Hp Hn).
Qed.

Theorem table_accepts_any_key_order d0 u0 rest :
  NoDup (keys u0) -> Forall (fun s => Permutation (keys u0) (keys (snd s))) rest ->
  exists steps', table_steps RowsByName ((d0, u0) :: rest) = Some steps'.
Proof.
  intros Hnd Hall. cbn [table_steps]. pose proof Hnd as Eb. apply nodupb_NoDup in Eb. rewrite Eb.
  assert (Hall' : Forall (fun s => Permutation (keys u0) (keys (snd s))) ((d0, u0) :: rest))
    by (constructor; [apply Permutation_refl|exact Hall]).
  clear Hall Eb. induction ((d0, u0) :: rest) as [|[d u] r IH]; [exists []; reflexivity|].
  inversion Hall' as [|? ? Hu Hr]; subst. cbn [snd] in Hu.
  destruct (row_by_name_defined _ _ Hnd Hu) as [u' Eu]. destruct (IH Hr) as [r' Er].
  cbn [rows_dicts]. rewrite Eu, Er. eexists. reflexivity.
Qed.

(** ** positional rows: harmless exactly when every step is written in the first step's key order *)
Lemma combine_fst_snd (u : dict) : combine (map fst u) (map snd u) = u.
Proof. induction u as [|[n v] r IH]; [reflexivity|]. cbn [map combine fst snd]. rewrite IH. reflexivity. Qed.

Theorem positional_same_order_is_identity d0 u0 rest :
  NoDup (keys u0) -> Forall (fun s => keys (snd s) = keys u0) rest ->
  table_steps RowsPositional ((d0, u0) :: rest) = Some ((d0, u0) :: rest).
Proof.
  intros Hnd Hall. cbn [table_steps]. pose proof Hnd as Eb. apply nodupb_NoDup in Eb. rewrite Eb.
  assert (Hall' : Forall (fun s => keys (snd s) = keys u0) ((d0, u0) :: rest)) by (constructor; [reflexivity|exact Hall]).
  clear Hall. induction ((d0, u0) :: rest) as [|[d u] r IH]; [reflexivity|].
  inversion Hall' as [|? ? Hu Hr]; subst. cbn [snd] in Hu. cbn [rows_dicts]. rewrite (IH Hr).
  unfold row_dict. rewrite Hu, Eb.
  assert (El : Nat.eqb (length u) (length (keys u0)) = true).
  { apply Nat.eqb_eq. rewrite <- Hu. unfold keys. rewrite map_length. reflexivity. }
  rewrite El. cbn [andb negb]. rewrite <- Hu. unfold keys. rewrite combine_fst_snd. reflexivity.
Qed.

(** ** [Model.update_parameters(dict)] of the executable instance depends on the mapping only *)
Lemma set_nth_length l i v : length (set_nth l i v) = length l.
Proof. revert i. induction l as [|x r IH]; intros [|j]; cbn [set_nth length]; auto. Qed.

Lemma set_nth_nth l i v n :
  nth n (set_nth l i v) 0 = if Nat.eqb n i then (if Nat.ltb n (length l) then v else 0) else nth n l 0.
Proof.
  revert i n. induction l as [|x r IH]; intros i n.
  - cbn [set_nth length]. destruct i, n; cbn [nth Nat.eqb Nat.ltb Nat.leb]; try reflexivity.
    destruct (Nat.eqb n i); reflexivity.
  - destruct i as [|j], n as [|m]; cbn [set_nth nth length Nat.eqb]; try reflexivity.
    rewrite IH. destruct (Nat.eqb m j); [|reflexivity].
    change (Nat.ltb (S m) (S (length r))) with (Nat.ltb m (length r)). reflexivity.
Qed.

Lemma apply_updates_length u : forall p, length (apply_updates p u) = length p.
Proof.
  unfold apply_updates. induction u as [|[i v] r IH]; intro p; cbn [fold_left fst snd]; [reflexivity|].
  rewrite IH. apply set_nth_length.
Qed.

Lemma apply_updates_nth u : forall p n, NoDup (keys u) ->
  nth n (apply_updates p u) 0
  = match lookup n u with Some v => if Nat.ltb n (length p) then v else 0 | None => nth n p 0 end.
Proof.
  induction u as [|[i v] r IH]; intros p n Hnd; [reflexivity|].
  cbn [keys map fst] in Hnd. inversion Hnd as [|? ? Hi Hr]; subst.
  change (apply_updates p ((i, v) :: r)) with (apply_updates (set_nth p i v) r).
  rewrite (IH _ n Hr), set_nth_length, set_nth_nth. cbn [lookup].
  destruct (Nat.eqb n i) eqn:E.
  - apply Nat.eqb_eq in E. subst. assert (En : lookup i r = None) by (apply lookup_None; exact Hi).
    rewrite En. reflexivity.
  - reflexivity.
Qed.

Theorem apply_updates_mapping u u' p :
  NoDup (keys u) -> NoDup (keys u') -> (forall n, lookup n u' = lookup n u) ->
  apply_updates p u' = apply_updates p u.
Proof.
  intros H1 H2 Hl. apply (nth_ext _ _ 0 0); [rewrite !apply_updates_length; reflexivity|].
  intros n _. rewrite (apply_updates_nth u' p n H2), (apply_updates_nth u p n H1), Hl. reflexivity.
Qed.

(** ** the protocol loops see a step only through [update_parameters] *)
Section Ext.
  Variables Y P U O : Type.
  Variable flow : P -> Q -> Y -> Q -> Y.
  Variable solve_ok : P -> Q -> Y -> Q -> bool.
  Variable conv : Y -> Y -> bool.
  Variable pupd : P -> U -> P.
  Variable yovr : Y -> O -> Y.
  Variable fx : sim_facts.

  Definition ueq (a b : Q * U) : Prop := fst b = fst a /\ forall p, pupd p (snd b) = pupd p (snd a).

  Lemma upd_ext s u u' : (forall p, pupd p u' = pupd p u) -> update_parameters Y P U pupd s u' = update_parameters Y P U pupd s u.
  Proof. intro H. unfold update_parameters. rewrite H. reflexivity. Qed.

  Lemma make_protocol_from_ext t rows rows' :
    Forall2 ueq rows rows' -> Forall2 ueq (make_protocol_from U t rows) (make_protocol_from U t rows').
  Proof.
    intro H. revert t. induction H as [|[d u] [d' u'] r r' [Hd Hu] Hr IH]; intro t; cbn [make_protocol_from]; [constructor|].
    cbn [fst snd] in Hd, Hu. subst d'. constructor; [split; [reflexivity|exact Hu]|apply IH].
  Qed.

  Lemma protocol_loop_ext t n rows rows' :
    Forall2 ueq rows rows' -> forall s,
    protocol_loop Y P U flow solve_ok pupd fx s t n rows' = protocol_loop Y P U flow solve_ok pupd fx s t n rows.
  Proof.
    intro H. induction H as [|[d u] [d' u'] r r' [Hd Hu] Hr IH]; intro s; [reflexivity|].
    cbn [fst snd] in Hd, Hu. subst d'. cbn [protocol_loop]. rewrite (upd_ext s u u' Hu).
    destruct (simulate Y P flow solve_ok fx (update_parameters Y P U pupd s u) (t + d) (Some n)) as [s2 [| |]]; try reflexivity.
    destruct (s_vars s2); [apply IH|reflexivity].
  Qed.

  Lemma protocol_tc_loop_ext full rows rows' :
    Forall2 ueq rows rows' -> forall s t,
    protocol_tc_loop Y P U flow solve_ok pupd fx s t full rows' = protocol_tc_loop Y P U flow solve_ok pupd fx s t full rows.
  Proof.
    intro H. induction H as [|[d u] [d' u'] r r' [Hd Hu] Hr IH]; intros s t; [reflexivity|].
    cbn [fst snd] in Hd, Hu. subst d'. cbn [protocol_tc_loop]. rewrite (upd_ext s u u' Hu).
    match goal with |- context [simulate_time_course ?a ?b ?c ?d ?e ?f ?g] => destruct (simulate_time_course a b c d e f g) as [s2 [| |]] end;
      try reflexivity.
    destruct (s_vars s2); [apply IH|reflexivity].
  Qed.

  Lemma shift_rows_ext t rows rows' :
    Forall2 ueq rows rows' ->
    Forall2 ueq (map (fun r : Q * U => (fst r + t, snd r)) rows) (map (fun r : Q * U => (fst r + t, snd r)) rows')
    /\ map fst (map (fun r : Q * U => (fst r + t, snd r)) rows') = map fst (map (fun r : Q * U => (fst r + t, snd r)) rows).
  Proof.
    intro H. induction H as [|[d u] [d' u'] r r' [Hd Hu] Hr [IH1 IH2]]; [split; [constructor|reflexivity]|].
    cbn [fst snd] in Hd, Hu. subst d'. cbn [map fst snd]. split; [constructor; [split; [reflexivity|exact Hu]|exact IH1]|].
    f_equal. exact IH2.
  Qed.

  Theorem run_op_protocol_ext s steps steps' :
    Forall2 ueq steps steps' ->
    (forall n, run_op Y P U O flow solve_ok conv pupd yovr fx s (OProt steps' n)
               = run_op Y P U O flow solve_ok conv pupd yovr fx s (OProt steps n))
    /\ (forall pts rel, run_op Y P U O flow solve_ok conv pupd yovr fx s (OProtTc steps' pts rel)
                        = run_op Y P U O flow solve_ok conv pupd yovr fx s (OProtTc steps pts rel)).
  Proof.
    intro H. pose proof (make_protocol_from_ext 0 _ _ H) as Hm. split.
    - intro n. cbn [run_op]. unfold simulate_protocol, make_protocol.
      destruct (has_errors Y P s); [reflexivity|]. destruct (prior_t_end Y P s) as [t|]; [|reflexivity].
      apply protocol_loop_ext. exact Hm.
    - intros pts rel. cbn [run_op]. unfold simulate_protocol_time_course, make_protocol.
      destruct (has_errors Y P s); [reflexivity|]. destruct (prior_t_end Y P s) as [t|]; [|reflexivity].
      destruct (shift_rows_ext t _ _ Hm) as [H1 H2]. rewrite H2.
      destruct (if rel then map (fun t0 : Q => t0 + t) pts else pts) as [|p0 ps]; [reflexivity|].
      match goal with |- (if ?c then _ else _) = _ => destruct c end; [reflexivity|].
      apply protocol_tc_loop_ext. exact H1.
  Qed.
End Ext.

(** ** the executable instance: a protocol through the by-name table IS the protocol on the step dicts *)
Lemma same_step_ueq steps steps' :
  Forall2 same_step steps steps' -> Forall2 (ueq (list Q) (list (nat * Q)) apply_updates) steps steps'.
Proof.
  intro H. induction H as [|a b r r' (Hd & Ha & Hb & Hl) Hr IH]; constructor; [|exact IH].
  split; [exact Hd|]. intro p. exact (apply_updates_mapping _ _ p Ha Hb Hl).
Qed.

Theorem table_op_by_name fx s o o' :
  table_op RowsByName o = Some o' -> xrun_op fx s o' = xrun_op fx s o.
Proof.
  unfold xrun_op. destruct o; cbn [table_op]; intro H; try (injection H as <-; reflexivity).
  - destruct (table_steps RowsByName steps) as [st|] eqn:E; [|discriminate]. injection H as <-.
    apply (run_op_protocol_ext (list Q) (list Q) (list (nat * Q)) (list (nat * Q)) xflow xsolve_ok xconv apply_updates apply_updates fx s _ _
             (same_step_ueq _ _ (table_row_is_the_step _ _ E))).
  - destruct (table_steps RowsByName steps) as [st|] eqn:E; [|discriminate]. injection H as <-.
    apply (run_op_protocol_ext (list Q) (list Q) (list (nat * Q)) (list (nat * Q)) xflow xsolve_ok xconv apply_updates apply_updates fx s _ _
             (same_step_ueq _ _ (table_row_is_the_step _ _ E))).
Qed.

Theorem trace_through_table fx ops : forall s tr,
  xtrace_t RowsByName fx s ops = Some tr -> tr = xtrace fx s ops.
Proof.
  unfold xtrace_t. induction ops as [|o rest IH]; intros s tr H; cbn [table_ops] in H.
  - injection H as <-. reflexivity.
  - destruct (table_op RowsByName o) as [o'|] eqn:Eo; [|discriminate].
    destruct (table_ops RowsByName rest) as [r|] eqn:Er; [|discriminate]. injection H as <-.
    unfold xtrace in *. cbn [trace]. fold (xrun_op fx s o') (xrun_op fx s o).
    rewrite (table_op_by_name fx s o o' Eo). f_equal. apply IH. reflexivity.
Qed.

(** ** regression witness: positional rows (seeded change C14-8) *)
(** the demo's shape with dyadic numbers: [(1, {k: 2, c: 1/2}), (1/2, {c: 3, k: 1/4})] on x' = k*y, y' = c *)
Definition w_steps : list (Q * dict) := [(1, [(0%nat, 2); (1%nat, 1 # 2)]); (1 # 2, [(1%nat, 3); (0%nat, 1 # 4)])].
Definition w_new : xsim := xnew [1; 1] [1; 0; 0; 0].
Definition w_fx : sim_facts :=
  mkSimFacts FrameAbs CmpLe FrameAbs CmpLe CmpGe true true false true false 100%N 1000%N CmpLe CmpGt CmpLe true true true.

Lemma table_witness_by_name :
  table_steps RowsByName w_steps = Some [(1, [(0%nat, 2); (1%nat, 1 # 2)]); (1 # 2, [(0%nat, 1 # 4); (1%nat, 3)])].
Proof. vm_compute. reflexivity. Qed.

Lemma table_witness_positional :
  table_steps RowsPositional w_steps = Some [(1, [(0%nat, 2); (1%nat, 1 # 2)]); (1 # 2, [(0%nat, 3); (1%nat, 1 # 4)])].
Proof. vm_compute. reflexivity. Qed.

Lemma positional_rows_witness :
  (* shipped: the second step records k = 1/4, c = 3 *)
  option_map recorded_pars (xrun_t RowsByName w_fx w_new [OProt w_steps 1%nat]) = Some [[2; 1 # 2; 0; 0]; [1 # 4; 3; 0; 0]]
  (* positional rows: k = 3, c = 1/4 -- the values of the second step went to the wrong parameters *)
  /\ option_map recorded_pars (xrun_t RowsPositional w_fx w_new [OProt w_steps 1%nat]) = Some [[2; 1 # 2; 0; 0]; [3; 1 # 4; 0; 0]]
  (* and the time-course form, and the state reached, differ as well *)
  /\ option_map recorded_pars (xrun_t RowsPositional w_fx w_new [OProtTc w_steps [1 # 2; 5 # 4] false])
     = Some [[2; 1 # 2; 0; 0]; [3; 1 # 4; 0; 0]]
  /\ option_map (fun s => map (fun r => (Qred (fst r), map Qred (snd r))) (last (match s_vars s with Some v => v | None => [] end) []))
       (xrun_t RowsByName w_fx w_new [OProt w_steps 1%nat])
     <> option_map (fun s => map (fun r => (Qred (fst r), map Qred (snd r))) (last (match s_vars s with Some v => v | None => [] end) []))
       (xrun_t RowsPositional w_fx w_new [OProt w_steps 1%nat]).
Proof. repeat split; try (vm_compute; reflexivity). vm_compute. discriminate. Qed.

(** the same, stated for a regenerated fact [m] *)
Theorem trace_through_table_of m (Hm : m = RowsByName) fx ops s tr :
  xtrace_t m fx s ops = Some tr -> tr = xtrace fx s ops.
Proof. subst m. apply trace_through_table. Qed.

Theorem table_row_is_the_step_of m (Hm : m = RowsByName) steps steps' :
  table_steps m steps = Some steps' -> Forall2 same_step steps steps'.
Proof. subst m. apply table_row_is_the_step. Qed.

Theorem table_accepts_any_key_order_of m (Hm : m = RowsByName) d0 u0 rest :
  NoDup (keys u0) -> Forall (fun s => Permutation (keys u0) (keys (snd s))) rest ->
  exists steps', table_steps m ((d0, u0) :: rest) = Some steps'.
Proof. subst m. apply table_accepts_any_key_order. Qed.

Lemma table_nonvacuous :
  NoDup (keys [(0%nat, 2); (1%nat, 1 # 2)])
  /\ Forall (fun s : Q * dict => Permutation (keys [(0%nat, 2); (1%nat, 1 # 2)]) (keys (snd s))) [(1 # 2, [(1%nat, 3); (0%nat, 1 # 4)])]
  /\ table_steps gen_protocol_rows w_steps <> None
  /\ w_fx = gen_sim_facts.
Proof.
  split; [repeat constructor; cbn; intuition discriminate|]. split; [constructor; [apply perm_swap|constructor]|].
  split; [vm_compute; discriminate|vm_compute; reflexivity].
Qed.
