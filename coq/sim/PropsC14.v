(** C14 -- Protocols: each step's parameter values hold exactly over its interval.

    ONLY theorem statements, each closed by [exact <lemma>] + [Print Assumptions].  All statements
    are about [gen_sim_facts] (REGENERATED from /repo on every run; pinned by [C14_facts_pinned]).
    [Inv2] is the invariant of every state reachable without a steady-state run
    (PropsC04.C04_history_invariant_partial), so every theorem below also covers a protocol that
    CONTINUES an earlier simulation (incl. after update_variable(s)); the guard is C04's.
    [never_fails] = the solver reports success (an integration failure stops the protocol early:
    modelled, exercised by the correspondence, not part of the property). *)
From Coq Require Import QArith List Bool NArith.
From Coq Require Import Permutation.
From Sim Require Import Integrator Simulator Protocol ProtocolTable SimExec TableExec GenSimFacts SimProofs ProtocolProofs SteadyProofs Variants
  SwitchProofs TableProofs.
Import ListNotations.
Open Scope Q_scope.

Theorem C14_facts_pinned :
  gen_sim_facts =
    mkSimFacts FrameAbs CmpLe FrameAbs CmpLe CmpGe true true false true false 100 1000 CmpLe CmpGt CmpLe true true true.
Proof. vm_compute. reflexivity. Qed.
Print Assumptions C14_facts_pinned.

(** simulating a protocol IS applying each step's values and simulating to its cumulative end in
    turn (stopping at the first refusal): the operations issued are exactly
    [update_parameters u_i ; simulate (start + T_i, steps)] with T_i the cumulative ends of make_protocol
    and [start] the time reached when the protocol began *)
Theorem C14_protocol_is_manual :
  forall (Y P U O : Type) (flow : P -> Q -> Y -> Q -> Y) (solve_ok : P -> Q -> Y -> Q -> bool)
         (conv : Y -> Y -> bool) (pupd : P -> U -> P) (yovr : Y -> O -> Y)
         (s : sim Y P) (steps : list (Q * U)) (k : nat),
    (forall p t y t1, solve_ok p t y t1 = true) -> Inv2 Y P s -> has_errors Y P s = false ->
    simulate_protocol Y P U flow solve_ok pupd gen_sim_facts s (make_protocol U steps) (S k)
    = run_strict Y P U O flow solve_ok conv pupd yovr gen_sim_facts s
        (flat_map (fun r => [OUpdPar (snd r); OSim (reached Y P s + fst r) (Some (S k))]) (make_protocol U steps)).
Proof. exact (fun Y P U O flow solve_ok conv pupd yovr => protocol_is_manual Y P U O flow solve_ok conv pupd yovr gen_sim_facts (good_of_pinned _ C14_facts_pinned)). Qed.
Print Assumptions C14_protocol_is_manual.

(** make_protocol: cumulative ends *)
Theorem C14_make_protocol_cumulative :
  forall (U : Type) (t d : Q) (u : U) (rest : list (Q * U)),
    make_protocol_from U t ((d, u) :: rest) = (t + d, u) :: make_protocol_from U (t + d) rest
    /\ make_protocol U ((d, u) :: rest) = (0 + d, u) :: make_protocol_from U (0 + d) rest.
Proof. exact (fun U t d u rest => conj eq_refl eq_refl). Qed.
Print Assumptions C14_make_protocol_cumulative.

(** one step governs its interval: after [update_parameters u] an accepted [simulate] to the step's
    end appends rows that are the solution UNDER [pupd p u] from the state reached, stamped with
    times in (reached, end], and records [pupd p u] as the segment's raw_parameters *)
Theorem C14_step_governs :
  forall (Y P U : Type) (flow : P -> Q -> Y -> Q -> Y) (solve_ok : P -> Q -> Y -> Q -> bool) (pupd : P -> U -> P)
         (s : sim Y P) (u : U) (t_end : Q) (m : nat) (s' : sim Y P),
    Inv2 Y P s -> has_errors Y P s = false ->
    simulate Y P flow solve_ok gen_sim_facts (update_parameters Y P U pupd s u) t_end (Some (S m)) = (s', Done) ->
    has_errors Y P s' = false ->
    let s1 := update_parameters Y P U pupd s u in
    let h := sim_h Y P s1 t_end m in let rest := sim_rest Y P s1 t_end m in
    s_mp s1 = pupd (s_mp s) u
    /\ h == i_t0 (s_int s) /\ i_t0 (s_int s) + shiftv Y P s == reached Y P s
    /\ incr (h :: rest) /\ appended Y P flow s1 s' h rest
    /\ reached Y P s' == t_end.
Proof. exact (fun Y P U flow solve_ok pupd => step_governs Y P U flow solve_ok pupd gen_sim_facts (good_of_pinned _ C14_facts_pinned)). Qed.
Print Assumptions C14_step_governs.

(** the time-course form: once past its refusal test it IS
    [update_parameters u_i ; simulate_time_course (the union's points in (T_(i-1), T_i])] per step --
    half-open windows, so every point of the sorted duplicate-free union of boundaries and requested
    points that lies in (start, T_n] is requested in exactly one call; by C04_time_course_partial each
    call appends exactly its points (all are later than the time reached), each once *)
Theorem C14_protocol_time_course_is_manual :
  forall (Y P U O : Type) (flow : P -> Q -> Y -> Q -> Y) (solve_ok : P -> Q -> Y -> Q -> bool)
         (conv : Y -> Y -> bool) (pupd : P -> U -> P) (yovr : Y -> O -> Y)
         (rows : list (Q * U)) (s : sim Y P) (t_start : Q) (full : list Q),
    (forall p t y t1, solve_ok p t y t1 = true) -> Inv2 Y P s -> has_errors Y P s = false ->
    protocol_tc_loop Y P U flow solve_ok pupd gen_sim_facts s t_start full rows
    = run_strict Y P U O flow solve_ok conv pupd yovr gen_sim_facts s
        ((fix manual_tc (t0 : Q) (rows : list (Q * U)) : list (op U O) :=
            match rows with
            | [] => []
            | (t_end, u) :: rest =>
                OUpdPar u :: OTc (filter (fun t => Qltb t0 t && Qle_bool t t_end) full) :: manual_tc t_end rest
            end) t_start rows).
Proof. exact (fun Y P U O flow solve_ok conv pupd yovr rows s t_start full => protocol_tc_is_manual Y P U O flow solve_ok conv pupd yovr gen_sim_facts (good_of_pinned _ C14_facts_pinned) rows s t_start full eq_refl eq_refl). Qed.
Print Assumptions C14_protocol_time_course_is_manual.

(** a protocol with positive durations, started in any reachable state (fresh or continued, also after an
    override), is ACCEPTED step by step: it returns normally, appends exactly one segment per step, records for
    segment i the parameters after applying steps 1..i ([scan_pars]), and ends exactly at
    start + (cumulative end of the last step) *)
Theorem C14_protocol_accepted :
  forall (Y P U : Type) (flow : P -> Q -> Y -> Q -> Y) (solve_ok : P -> Q -> Y -> Q -> bool) (pupd : P -> U -> P)
         (s : sim Y P) (steps : list (Q * U)) (k : nat),
    (forall p t y t1, solve_ok p t y t1 = true) -> Inv2 Y P s -> has_errors Y P s = false ->
    Forall (fun st : Q * U => 0 < fst st) steps ->
    exists s', simulate_protocol Y P U flow solve_ok pupd gen_sim_facts s (make_protocol U steps) (S k) = (s', Done)
      /\ Inv2 Y P s' /\ has_errors Y P s' = false
      /\ pars_list Y P s' = pars_list Y P s ++ scan_pars P U pupd (s_mp s) (map snd steps)
      /\ nsegs Y P s' = (nsegs Y P s + length steps)%nat
      /\ (steps <> [] -> reached Y P s' == reached Y P s + lastq (map fst (make_protocol U steps)) 0).
Proof. exact (fun Y P U flow solve_ok pupd => protocol_accepted Y P U flow solve_ok pupd gen_sim_facts (good_of_pinned _ C14_facts_pinned)). Qed.
Print Assumptions C14_protocol_accepted.

(** the time-course form is refused (nothing changes) exactly when its last requested point, in absolute
    time, is not later than the time reached; otherwise it runs the loop over the sorted union *)
Theorem C14_time_course_refusal :
  forall (Y P U : Type) (flow : P -> Q -> Y -> Q -> Y) (solve_ok : P -> Q -> Y -> Q -> bool) (pupd : P -> U -> P)
         (s : sim Y P) (rows : list (Q * U)) (pts : list Q) (rel : bool),
    Inv2 Y P s -> has_errors Y P s = false -> pts <> [] ->
    let start := reached Y P s in
    let pts' := if rel then map (fun t => t + start) pts else pts in
    let rows' := map (fun r : Q * U => (fst r + start, snd r)) rows in
    (lastq pts' 0 <= start ->
       simulate_protocol_time_course Y P U flow solve_ok pupd gen_sim_facts s rows pts rel = (s, RaisedValue))
    /\ (start < lastq pts' 0 ->
       simulate_protocol_time_course Y P U flow solve_ok pupd gen_sim_facts s rows pts rel
       = protocol_tc_loop Y P U flow solve_ok pupd gen_sim_facts s start (qunion (map fst rows') pts') rows').
Proof. exact (fun Y P U flow solve_ok pupd => ptc_refusal Y P U flow solve_ok pupd gen_sim_facts (good_of_pinned _ C14_facts_pinned)). Qed.
Print Assumptions C14_time_course_refusal.

(** the time-course form returns EXACTLY the start time (of a fresh simulator; otherwise the index so far),
    then the points of the sorted duplicate-free union of step boundaries and requested points that lie in
    (start, T_n] -- each once (the whole index is strictly increasing by [Inv2]), nothing else; points beyond
    the last boundary are ignored; one segment per step, recorded with that step's parameter values.
    ([C14_union_exact]: the union's members are exactly the boundaries and the requested points.) *)
Theorem C14_axis_exact :
  forall (Y P U : Type) (flow : P -> Q -> Y -> Q -> Y) (solve_ok : P -> Q -> Y -> Q -> bool) (pupd : P -> U -> P)
         (s : sim Y P) (steps : list (Q * U)) (pts : list Q) (rel : bool),
    (forall p t y t1, solve_ok p t y t1 = true) -> Inv2 Y P s -> has_errors Y P s = false ->
    pts <> [] -> steps <> [] -> Forall (fun st : Q * U => 0 < fst st) steps ->
    let start := reached Y P s in
    let pts' := if rel then map (fun t => t + start) pts else pts in
    let rows' := map (fun r : Q * U => (fst r + start, snd r)) (make_protocol U steps) in
    let full := qunion (map fst rows') pts' in
    start < lastq pts' 0 ->
    exists s', simulate_protocol_time_course Y P U flow solve_ok pupd gen_sim_facts s (make_protocol U steps) pts rel = (s', Done)
      /\ Inv2 Y P s' /\ has_errors Y P s' = false
      /\ Qeql (index_of Y P s')
              ((match s_vars s with None => [reached Y P s] | Some _ => index_of Y P s end)
               ++ filter (fun t => Qltb start t && Qle_bool t (lastq (map fst rows') start)) full)
      /\ pars_list Y P s' = pars_list Y P s ++ scan_pars P U pupd (s_mp s) (map snd steps)
      /\ nsegs Y P s' = (nsegs Y P s + length steps)%nat
      /\ reached Y P s' == lastq (map fst rows') start.
Proof. exact (fun Y P U flow solve_ok pupd => ptc_axis_exact Y P U flow solve_ok pupd gen_sim_facts (good_of_pinned _ C14_facts_pinned)). Qed.
Print Assumptions C14_axis_exact.

(** the half-open windows partition the union: consecutive windows concatenate to the whole window *)
Theorem C14_windows_partition :
  forall (l : list Q) (lo mid hi : Q),
    incr l -> lo <= mid -> mid <= hi ->
    filter (fun t => Qltb lo t && Qle_bool t mid) l ++ filter (fun t => Qltb mid t && Qle_bool t hi) l
    = filter (fun t => Qltb lo t && Qle_bool t hi) l.
Proof. exact windows_partition. Qed.
Print Assumptions C14_windows_partition.

(** the union of boundaries and requested points is strictly increasing (hence duplicate free) and
    contains exactly those points *)
Theorem C14_union_exact :
  forall (a b : list Q),
    incr (qunion a b)
    /\ (forall x, In x a \/ In x b -> exists y, In y (qunion a b) /\ y == x)
    /\ (forall y, In y (qunion a b) -> In y a \/ In y b).
Proof. exact qunion_exact. Qed.
Print Assumptions C14_union_exact.

(** non-vacuity: a continued protocol (after an override) and a protocol time course *)
Example C14_nonvacuous :
  let st := [(1, [(0%nat, 2)]); (2, [(0%nat, 1 # 2)]); (1 # 2, [(0%nat, 0)])] in
  let ops : list xop := [OSim 2 (Some 2%nat); OUpdVar [(1%nat, 0)]; OProt st 2%nat;
                         OProtTc st [1 # 2; 1; 9 # 4; 3; 7 # 2; 9] true] in
  xindex (xrun gen_sim_facts (xnew [1; 1] [1; 1 # 2; 0; 0]) ops)
    = [0; 1; 2; 5 # 2; 3; 4; 5; 21 # 4; 11 # 2; 6; 13 # 2; 31 # 4; 17 # 2; 9]
  /\ (match s_pars (xrun gen_sim_facts (xnew [1; 1] [1; 1 # 2; 0; 0]) ops) with
      | Some l => map (fun p => Qred (nthq p 0)) l | None => [] end)
     = [1; 2; 1 # 2; 0; 2; 1 # 2; 0].
Proof. vm_compute. split; reflexivity. Qed.
Print Assumptions C14_nonvacuous.

(** the inputs of a call are VALUES.  In the model this is built into the operation semantics (an operation maps a
    state and its arguments to a new state and cannot touch the arguments); spelled out for the case that matters:
    the SAME relative grid handed to two consecutive protocol time courses (repeated cycles) asks the second call
    for ITS OWN start + the same offsets: both calls are accepted, and the second appends exactly the points of the
    union of its boundaries and  start2 + pts  inside (start2, start2 + T_n], where start2 is where the first call
    ended.  (The harness checks the other half of the tie on the implementation: after every call the caller's
    ndarray still holds the values it was given.) *)
Theorem C14_same_grid_twice :
  forall (Y P U : Type) (flow : P -> Q -> Y -> Q -> Y) (solve_ok : P -> Q -> Y -> Q -> bool) (pupd : P -> U -> P)
         (s : sim Y P) (steps : list (Q * U)) (pts : list Q),
    (forall p t y t1, solve_ok p t y t1 = true) -> Inv2 Y P s -> has_errors Y P s = false ->
    pts <> [] -> steps <> [] -> Forall (fun st : Q * U => 0 < fst st) steps -> 0 < lastq pts 0 ->
    exists s1 s2,
      simulate_protocol_time_course Y P U flow solve_ok pupd gen_sim_facts s (make_protocol U steps) pts true = (s1, Done)
      /\ simulate_protocol_time_course Y P U flow solve_ok pupd gen_sim_facts s1 (make_protocol U steps) pts true = (s2, Done)
      /\ Inv2 Y P s2 /\ has_errors Y P s2 = false
      /\ (let start := reached Y P s1 in
          let rows' := map (fun r : Q * U => (fst r + start, snd r)) (make_protocol U steps) in
          Qeql (index_of Y P s2)
               (index_of Y P s1
                ++ filter (fun t => Qltb start t && Qle_bool t (lastq (map fst rows') start))
                          (qunion (map fst rows') (map (fun t => t + start) pts))))
      /\ reached Y P s1 == lastq (map fst (map (fun r : Q * U => (fst r + reached Y P s, snd r)) (make_protocol U steps)))
                                 (reached Y P s)
      /\ nsegs Y P s2 = (nsegs Y P s + length steps + length steps)%nat.
Proof. exact (fun Y P U flow solve_ok pupd => ptc_same_grid_twice Y P U flow solve_ok pupd gen_sim_facts (good_of_pinned _ C14_facts_pinned)). Qed.
Print Assumptions C14_same_grid_twice.

(** a protocol that CONTINUES after update_variable(s), from ANY well-formed state ([Wf]: the result ends in a row
    and the index is increasing -- every state reachable without a steady-state run, and also the state right after
    a steady-state run, see PropsC04.C04_steady_on_fresh_integrator): the override is applied to the state the next
    segment starts from, the invariant holds, the protocol is accepted step by step from the time reached (one
    segment per step, each recorded with its step's values, ending at reached + T_n), and the rows of a step
    simulated in that state are the solution under the step's values from the OVERRIDDEN state *)
Theorem C14_continuation :
  forall (Y P U O : Type) (flow : P -> Q -> Y -> Q -> Y) (solve_ok : P -> Q -> Y -> Q -> bool) (pupd : P -> U -> P)
         (yovr : Y -> O -> Y) (s : sim Y P) (o : O) (steps : list (Q * U)) (k : nat),
    (forall p t y t1, solve_ok p t y t1 = true) -> Wf Y P s -> has_errors Y P s = false ->
    Forall (fun st : Q * U => 0 < fst st) steps ->
    let s' := fst (update_variables Y P O yovr gen_sim_facts s o) in
    Inv2 Y P s' /\ i_y0 (s_int s') = yovr (start_state Y P s) o
    /\ index_of Y P s' = index_of Y P s /\ reached Y P s' = reached Y P s
    /\ (exists s2, simulate_protocol Y P U flow solve_ok pupd gen_sim_facts s' (make_protocol U steps) (S k) = (s2, Done)
          /\ Inv2 Y P s2 /\ has_errors Y P s2 = false
          /\ pars_list Y P s2 = pars_list Y P s ++ scan_pars P U pupd (s_mp s) (map snd steps)
          /\ nsegs Y P s2 = (nsegs Y P s + length steps)%nat
          /\ (steps <> [] -> reached Y P s2 == reached Y P s + lastq (map fst (make_protocol U steps)) 0))
    /\ (forall u t_end m s1,
          simulate Y P flow solve_ok gen_sim_facts (update_parameters Y P U pupd s' u) t_end (Some (S m)) = (s1, Done) ->
          has_errors Y P s1 = false ->
          let s0 := update_parameters Y P U pupd s' u in
          s_mp s0 = pupd (s_mp s) u /\ i_y0 (s_int s0) = yovr (start_state Y P s) o
          /\ appended Y P flow s0 s1 (sim_h Y P s0 t_end m) (sim_rest Y P s0 t_end m)
          /\ reached Y P s1 == t_end).
Proof. exact (fun Y P U O flow solve_ok pupd yovr => protocol_after_override Y P U O flow solve_ok pupd yovr gen_sim_facts (good_of_pinned _ C14_facts_pinned)). Qed.
Print Assumptions C14_continuation.

(** non-vacuity of [C14_same_grid_twice]: simulate(2); two cycles of a 3 s protocol, both given the relative grid
    [1/2; 1; 9/4; 3]: the second cycle returns 5 + the same offsets *)
Example C14_same_grid_nonvacuous :
  let st := [(1, [(0%nat, 2)]); (2, [(0%nat, 1 # 2)])] in
  let ops : list xop := [OSim 2 (Some 2%nat); OProtTc st [1 # 2; 1; 9 # 4; 3] true; OProtTc st [1 # 2; 1; 9 # 4; 3] true] in
  xindex (xrun gen_sim_facts (xnew [1; 1] [1; 1 # 2; 0; 0]) ops)
    = [0; 1; 2; 5 # 2; 3; 17 # 4; 5; 11 # 2; 6; 29 # 4; 8].
Proof. vm_compute. reflexivity. Qed.
Print Assumptions C14_same_grid_nonvacuous.

(** ** dense sampling right after a switch (seeded change C14-4)

    ONE step of the time-course form: after [update_parameters u], a time course whose first requested point lies ANY
    d > 0 after the time reached -- the start of the step: the protocol's own start or an inner boundary (by
    [C14_protocol_time_course_is_manual] every step of the loop is such a call, its window holding exactly the union's
    points in (T_(i-1), T_i]) -- is accepted, appends exactly the requested points, THE FIRST ONE INCLUDED, and every new
    row is the solution under the step's values [pupd p u] from the state held at the boundary after [t - boundary]
    ([appended]: last segment = [(t + shift, flow (pupd p u) (h + shift) y0 (t - h))] for t in rest, with
    h + shift == reached): the step's values govern from the boundary itself, however close the first sample lies and
    at whatever absolute time; nothing in the model is tolerant *)
Theorem C14_tc_step_governs :
  forall (Y P U : Type) (flow : P -> Q -> Y -> Q -> Y) (solve_ok : P -> Q -> Y -> Q -> bool) (pupd : P -> U -> P)
         (s : sim Y P) (u : U) (d : Q) (later : list Q),
    (forall p t y t1, solve_ok p t y t1 = true) -> Inv2 Y P s -> has_errors Y P s = false ->
    0 < d -> incr ((reached Y P s + d) :: later) ->
    let s1 := update_parameters Y P U pupd s u in
    let pts := (reached Y P s + d) :: later in
    exists s2 h rest,
      simulate_time_course Y P flow solve_ok gen_sim_facts s1 pts = (s2, Done) /\ Inv2 Y P s2 /\ has_errors Y P s2 = false
      /\ s_mp s1 = pupd (s_mp s) u
      /\ h == i_t0 (s_int s) /\ i_t0 (s_int s) + shiftv Y P s == reached Y P s
      /\ i_y0 (s_int s) = start_state Y P s
      /\ appended Y P flow s1 s2 h rest
      /\ Qeql (map (add_shift (s_shift s)) rest) pts
      /\ reached Y P s2 == lastq pts 0.
Proof. exact (fun Y P U flow solve_ok pupd => tc_step_governs Y P U flow solve_ok pupd gen_sim_facts (good_of_pinned _ C14_facts_pinned)). Qed.
Print Assumptions C14_tc_step_governs.

(** non-vacuity: the simulator continued at t = 2048 is a reachable state ([Inv2]), a sample 2^-7 after it meets the
    hypotheses with k := 2; the sample is in the index and its row is the solution after 2^-7 under k = 2 from the
    state at t = 2048 *)
Example C14_tc_step_nonvacuous :
  Inv2 (list Q) (list Q) late_continued /\ has_errors (list Q) (list Q) late_continued = false
  /\ reached (list Q) (list Q) late_continued == 2048 /\ 0 < 1 # 128
  /\ incr ((reached (list Q) (list Q) late_continued + (1 # 128)) :: [2112])
  /\ xindex switch_after = [0; 512; 1024; 1536; 2048; 262145 # 128; 2112]
  /\ xstate_at late_continued 2048 = Some [1050625; 1025]
  /\ xstate_at switch_after (262145 # 128) = Some (xflow [2; 1 # 2; 0; 0] 2048 [1050625; 1025] (1 # 128)).
Proof. exact switch_nonvacuous. Qed.
Print Assumptions C14_tc_step_nonvacuous.

(** the modelled time-course functions with the ONE test "the grid already starts at the current time" of
    Scipy.integrate_time_course abstracted ([same], Variants.v) ARE the shipped model when the test is the exact
    comparison [time_points[0] != self.t0] (shape pinned by [f_shapes_ok]) *)
Theorem C14_exact_start_is_shipped :
  forall (Y P U : Type) (flow : P -> Q -> Y -> Q -> Y) (solve_ok : P -> Q -> Y -> Q -> bool) (pupd : P -> U -> P)
         (fx : sim_facts),
    (forall p (ig : integ Y) tp,
       integrate_time_course_by Y P flow solve_ok Qeq_bool p ig tp = integrate_time_course Y P flow solve_ok p ig tp)
    /\ (forall (s : sim Y P) pts,
       simulate_time_course_by Y P flow solve_ok fx Qeq_bool s pts = simulate_time_course Y P flow solve_ok fx s pts)
    /\ (forall (s : sim Y P) rows pts rel,
       simulate_protocol_time_course_by Y P U flow solve_ok pupd fx Qeq_bool s rows pts rel
       = simulate_protocol_time_course Y P U flow solve_ok pupd fx s rows pts rel).
Proof. exact (fun Y P U flow solve_ok pupd fx => conj (itc_by_exact Y P flow solve_ok) (conj (stc_by_exact Y P flow solve_ok fx) (sptc_by_exact Y P U flow solve_ok pupd fx))). Qed.
Print Assumptions C14_exact_start_is_shipped.

(** what ANY tolerant test does with a first point it takes for the current time: the integration starts AT that
    point with the state that belongs to the integrator's time -- the first row stamps the boundary's state at [t]
    (and is then dropped by the Simulator as the duplicated first row of a continued segment), every later row has
    run for [t' - t] instead of [t' - t0] *)
Theorem C14_tolerant_start_starts_late :
  forall (Y P : Type) (same : Q -> Q -> bool) (flow : P -> Q -> Y -> Q -> Y) (solve_ok : P -> Q -> Y -> Q -> bool)
         (p : P) (ig : integ Y) (t : Q) (tp : list Q),
    same t (i_t0 ig) = true -> tp <> [] -> incr (t :: tp) -> (forall p t y t1, solve_ok p t y t1 = true) ->
    snd (integrate_time_course_by Y P flow solve_ok same p ig (t :: tp))
    = IOk (map (fun t' => (t', flow p t (i_y0 ig) (t' - t))) (t :: tp)).
Proof. exact (fun Y P same flow solve_ok => itc_by_same_rows Y P same flow solve_ok). Qed.
Print Assumptions C14_tolerant_start_starts_late.

(** regression witness for seeded change C14-4 ([same := np_isclose]: |a - b| <= 1e-8 + 1e-5 |b|) on the executable
    instance x' = k*y, y' = 1/2:  a protocol with steps of 1024, 1024, 512 on a fresh simulator and the grid
    [512; 1024 + 2^-8; 1024.5; 1536; 2048 + 2^-9; 2304]:  the shipped shape returns start + every requested point +
    every boundary, the tolerant one loses the two samples right after the switches, and the state at the boundary
    2048 is no longer the one of "apply the values, simulate for the duration"; the same for a simulator continued at
    t = 2048 and a RELATIVE grid starting at 2^-7; at small absolute time (boundary at 1, sample 2^-8 later) the two
    shapes agree -- only late / long protocols show the difference *)
Theorem C14_close_start_refuted :
  xindex (xptc_by Qeq_bool late_fresh late_steps late_grid false)
    = [0; 512; 1024; 262145 # 256; 2049 # 2; 1536; 2048; 1048577 # 512; 2304; 2560]
  /\ xindex (xptc_by np_isclose late_fresh late_steps late_grid false)
    = [0; 512; 1024; 2049 # 2; 1536; 2048; 2304; 2560]
  /\ xstate_at (xptc_by Qeq_bool late_fresh late_steps late_grid false) 2048 = Some [920065; 1025]
  /\ xstate_at (xptc_by np_isclose late_fresh late_steps late_grid false) 2048 <> Some [920065; 1025]
  /\ xindex (xptc_by Qeq_bool late_continued cont_steps cont_grid true)
    = [0; 512; 1024; 1536; 2048; 262145 # 128; 2112; 2176; 278529 # 128; 2432]
  /\ xindex (xptc_by np_isclose late_continued cont_steps cont_grid true)
    = [0; 512; 1024; 1536; 2048; 2112; 2176; 2432]
  /\ xindex (xptc_by np_isclose late_fresh early_steps early_grid false) = [0; 1 # 2; 1; 257 # 256; 2; 3]
  /\ xptc_by np_isclose late_fresh early_steps early_grid false = xptc_by Qeq_bool late_fresh early_steps early_grid false.
Proof. exact close_start_refuted. Qed.
Print Assumptions C14_close_start_refuted.

(** * The protocol TABLE (closing pass for seeded change C14-8)

    A step's values are a Python dict: a mapping written in SOME key order ([dict] = association list with
    distinct names).  make_protocol puts them into a frame with one column per parameter NAME; the loops hand
    [row.to_dict()] to [update_parameters].  [gen_protocol_rows] (REGENERATED from make_protocol's body) says how a
    step's values get into its row: [RowsByName] (shipped: the frame constructor aligns the inner dicts on their
    keys) / [RowsPositional] (the values in the order WRITTEN, under the first step's key order) / [RowsUnknown]. *)
Theorem C14_protocol_rows_pinned : gen_protocol_rows = RowsByName.
Proof. vm_compute. reflexivity. Qed.
Print Assumptions C14_protocol_rows_pinned.

(** whatever key order each step is written in, what the loops read back from row i is step i's duration and
    step i's MAPPING: every name looks up the same value (names not mentioned: in neither) *)
Theorem C14_table_row_is_the_step :
  forall (steps steps' : list (Q * dict)),
    table_steps gen_protocol_rows steps = Some steps' ->
    Forall2 (fun a b => fst b = fst a /\ NoDup (keys (snd a)) /\ NoDup (keys (snd b))
                        /\ forall n, lookup n (snd b) = lookup n (snd a)) steps steps'.
Proof. exact (table_row_is_the_step_of gen_protocol_rows C14_protocol_rows_pinned). Qed.
Print Assumptions C14_table_row_is_the_step.

(** ... and every key order is accepted: steps naming the first step's parameters in ANY order build a table *)
Theorem C14_table_accepts_any_key_order :
  forall (d0 : Q) (u0 : dict) (rest : list (Q * dict)),
    NoDup (keys u0) -> Forall (fun s => Permutation (keys u0) (keys (snd s))) rest ->
    exists steps', table_steps gen_protocol_rows ((d0, u0) :: rest) = Some steps'.
Proof. exact (table_accepts_any_key_order_of gen_protocol_rows C14_protocol_rows_pinned). Qed.
Print Assumptions C14_table_accepts_any_key_order.

(** [Model.update_parameters(dict)] of the executable instance depends on the mapping only, not on the key order *)
Theorem C14_update_depends_on_mapping_only :
  forall (u u' : dict) (p : list Q),
    NoDup (keys u) -> NoDup (keys u') -> (forall n, lookup n u' = lookup n u) ->
    apply_updates p u' = apply_updates p u.
Proof. exact apply_updates_mapping. Qed.
Print Assumptions C14_update_depends_on_mapping_only.

(** hence a whole history whose protocols go THROUGH THE TABLE (each step written in its own key order) is the
    history of the step dicts themselves: states and outcomes after every operation are those of the model that all
    the theorems above are about (protocol form and time-course form) *)
Theorem C14_protocol_through_table :
  forall (ops : list xop) (s : xsim) (tr : list (xsim * outcome)),
    xtrace_t gen_protocol_rows gen_sim_facts s ops = Some tr -> tr = xtrace gen_sim_facts s ops.
Proof. exact (fun ops s tr => trace_through_table_of gen_protocol_rows C14_protocol_rows_pinned gen_sim_facts ops s tr). Qed.
Print Assumptions C14_protocol_through_table.

(** positional rows (seeded change C14-8) are harmless exactly on protocols whose steps are all written in the
    first step's key order -- the only kind the repository's own tests contain ... *)
Theorem C14_positional_rows_same_order_partial :
  forall (d0 : Q) (u0 : dict) (rest : list (Q * dict)),
    NoDup (keys u0) -> Forall (fun s => keys (snd s) = keys u0) rest ->
    table_steps RowsPositional ((d0, u0) :: rest) = Some ((d0, u0) :: rest).
Proof. exact positional_same_order_is_identity. Qed.
Print Assumptions C14_positional_rows_same_order_partial.

(** ... and wrong otherwise: regression witness [(1, {k: 2, c: 1/2}); (1/2, {c: 3, k: 1/4})] on x' = k*y, y' = c
    (the seeded change's demo with dyadic numbers): the second step's segment records k = 3, c = 1/4 instead of
    k = 1/4, c = 3, in both protocol forms, and the state reached differs *)
Theorem C14_positional_rows_refuted :
  table_steps RowsByName w_steps = Some [(1, [(0%nat, 2); (1%nat, 1 # 2)]); (1 # 2, [(0%nat, 1 # 4); (1%nat, 3)])]
  /\ table_steps RowsPositional w_steps = Some [(1, [(0%nat, 2); (1%nat, 1 # 2)]); (1 # 2, [(0%nat, 3); (1%nat, 1 # 4)])]
  /\ option_map recorded_pars (xrun_t RowsByName w_fx w_new [OProt w_steps 1%nat]) = Some [[2; 1 # 2; 0; 0]; [1 # 4; 3; 0; 0]]
  /\ option_map recorded_pars (xrun_t RowsPositional w_fx w_new [OProt w_steps 1%nat]) = Some [[2; 1 # 2; 0; 0]; [3; 1 # 4; 0; 0]]
  /\ option_map recorded_pars (xrun_t RowsPositional w_fx w_new [OProtTc w_steps [1 # 2; 5 # 4] false])
     = Some [[2; 1 # 2; 0; 0]; [3; 1 # 4; 0; 0]].
Proof. exact (conj table_witness_by_name (conj table_witness_positional
         (conj (proj1 positional_rows_witness) (conj (proj1 (proj2 positional_rows_witness)) (proj1 (proj2 (proj2 positional_rows_witness))))))). Qed.
Print Assumptions C14_positional_rows_refuted.

(** non-vacuity: the witness protocol (second step written the other way round) is accepted by the shipped table,
    meets the hypotheses of [C14_table_accepts_any_key_order], and [w_fx] is the regenerated fact vector *)
Example C14_table_nonvacuous :
  NoDup (keys [(0%nat, 2); (1%nat, 1 # 2)])
  /\ Forall (fun s : Q * dict => Permutation (keys [(0%nat, 2); (1%nat, 1 # 2)]) (keys (snd s))) [(1 # 2, [(1%nat, 3); (0%nat, 1 # 4)])]
  /\ table_steps gen_protocol_rows w_steps <> None
  /\ w_fx = gen_sim_facts.
Proof. exact table_nonvacuous. Qed.
