(** The value of the regenerated fact [gen_view_mode] the C04 check currently EXPECTS (pinned by
    [C04_view_mode_pinned]).  Flipped by tools/c04_switch.py:

      snapshot  (now)   ViewLastSegment -- /repo as it is; finding view-read-reverts-parameter-update is recorded
      repaired          ViewRestores    -- after fixes/C04-views-restore-parameters.diff became a `fix:` commit

    Every theorem about views is stated for an arbitrary / an explicitly named mode, so nothing but the pin
    depends on this file. *)
From Sim Require Import Views.
Definition C04_expected_view : view_mode := ViewRestores.
