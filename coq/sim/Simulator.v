(** Model of src/mxlpy/simulator.py (class Simulator): the time bookkeeping of continued
    simulation, statement by statement.  The model is parameterised by the facts regenerated
    from the source ([sim_facts]: frame of the refusal tests, comparisons, skipfirst arguments,
    steady-state reset/advance) so that it reproduces the code that exists -- including the
    unrepaired frame mix-up ([FrameMixed]) when the source still has it.

    State that matters: y0, variables (list of segments), simulation_parameters, _time_shift,
    _errors, the integrator object, and the parameter values of the (shared, mutable) model.
    No proofs in this file. *)
From Coq Require Import QArith List Bool NArith.
From Sim Require Import Integrator.
Import ListNotations.
Open Scope Q_scope.

Inductive simerr := EIntegration | ENoSteady.

(** what the caller of a Simulator method observes *)
Inductive outcome := Done | RaisedValue | RaisedIndex.

Section Simulator.
  Variables Y P U O : Type.
  Variable flow : P -> Q -> Y -> Q -> Y.
  Variable solve_ok : P -> Q -> Y -> Q -> bool.
  Variable conv : Y -> Y -> bool.
  Variable pupd : P -> U -> P.      (* Model.update_parameters(dict) *)
  Variable yovr : Y -> O -> Y.      (* last_row.to_dict() | overrides *)
  Variable fx : sim_facts.

  Definition segment := list (Q * Y).

  Record sim := mkSim {
    s_y0 : Y;
    s_vars : option (list segment);     (* self.variables *)
    s_pars : option (list P);           (* self.simulation_parameters *)
    s_shift : option Q;                 (* self._time_shift *)
    s_errs : list simerr;               (* self._errors *)
    s_int : integ Y;                    (* self.integrator *)
    s_mp : P                            (* self.model's parameter values *)
  }.

  (** [Simulator(model, y0)] and [_initialise_integrator] *)
  Definition sim_new (y0 : Y) (p : P) : sim := mkSim y0 None None None [] (integ_init Y y0) p.

  Definition clear_results (s : sim) : sim :=
    mkSim (s_y0 s) None None None [] (integ_init Y (s_y0 s)) (s_mp s).

  Definition set_int (s : sim) (ig : integ Y) : sim :=
    mkSim (s_y0 s) (s_vars s) (s_pars s) (s_shift s) (s_errs s) ig (s_mp s).

  Definition update_parameters (s : sim) (u : U) : sim :=
    mkSim (s_y0 s) (s_vars s) (s_pars s) (s_shift s) (s_errs s) (s_int s) (pupd (s_mp s) u).

  (** last row of the last segment: [variables[-1].index[-1]], [variables[-1].iloc[-1]];
      [None] = IndexError (an empty last segment) *)
  Definition last_row (segs : list segment) : option (Q * Y) :=
    match rev segs with
    | [] => None
    | sg :: _ => match rev sg with [] => None | r :: _ => Some r end
    end.

  (** [prior_t_end]: 0.0 when there are no results yet *)
  Definition prior_t_end (s : sim) : option Q :=
    match s_vars s with
    | None => Some 0
    | Some segs => match last_row segs with Some (t, _) => Some t | None => None end
    end.

  (** [update_variables] *)
  Definition update_variables (s : sim) (o : O) : sim * outcome :=
    match s_vars s with
    | None =>
        let y := yovr (s_y0 s) o in
        (mkSim y None (s_pars s) (s_shift s) (s_errs s) (integ_init Y y) (s_mp s), Done)
    | Some segs =>
        match last_row segs with
        | None => (s, RaisedIndex)
        | Some (t, yl) =>
            let base := if f_updvar_keeps fx
                        then match s_shift s with
                             | Some sh => if Qeq_bool sh t then s_y0 s else yl
                             | None => yl
                             end
                        else yl in
            let y := yovr base o in
            (mkSim y (s_vars s) (s_pars s) (Some t) (s_errs s) (integ_init Y y) (s_mp s), Done)
        end
    end.

  Definition sub_shift (sh : option Q) (t : Q) : Q := match sh with None => t | Some x => t - x end.
  Definition add_shift (sh : option Q) (t : Q) : Q := match sh with None => t | Some x => t + x end.

  (** the right-hand side [_initialise_integrator] hands to the integrator.  The integrator restarts at
      ITS time 0 after an override; the repaired code wraps the model so that it still sees absolute
      time ([rhs = lambda t, y: self.model(t + t_shift, y)], the same for the Jacobian), the unrepaired
      code passes the model itself (which then sees the shifted time).  [_time_shift] only changes
      together with a re-initialisation of the integrator (update_variables, clear_results), so the
      shift captured by the wrapper IS the current [s_shift]. *)
  Definition mflow (s : sim) : P -> Q -> Y -> Q -> Y :=
    if f_abs_time fx then fun p t y d => flow p (add_shift (s_shift s) t) y d else flow.
  Definition mok (s : sim) : P -> Q -> Y -> Q -> bool :=
    if f_abs_time fx
    then fun p t y t1 => solve_ok p (add_shift (s_shift s) t) y (add_shift (s_shift s) t1)
    else solve_ok.

  (** [_handle_simulation_results] for a returned [Result] (raises are handled by the callers) *)
  Definition handle_results (s : sim) (r : ires Y) (skipfirst : bool) : sim :=
    match r with
    | IOk tc =>
        let tc' := map (fun ty => (add_shift (s_shift s) (fst ty), snd ty)) tc in
        let vars' := match s_vars s with
                     | None => [tc']
                     | Some l => l ++ [if skipfirst then tl tc' else tc']
                     end in
        let pars' := match s_pars s with None => [] | Some l => l end ++ [s_mp s] in
        mkSim (s_y0 s) (Some vars') (Some pars') (s_shift s) (s_errs s) (s_int s) (s_mp s)
    | IFail => mkSim (s_y0 s) (s_vars s) (s_pars s) (s_shift s) (s_errs s ++ [EIntegration]) (s_int s) (s_mp s)
    | INoSteady => mkSim (s_y0 s) (s_vars s) (s_pars s) (s_shift s) (s_errs s ++ [ENoSteady]) (s_int s) (s_mp s)
    | IRaiseValue | IRaiseIndex => s
    end.

  Definition finish (s : sim) (ir : integ Y * ires Y) (skipfirst : bool) : sim * outcome :=
    let s1 := set_int s (fst ir) in
    match snd ir with
    | IRaiseValue => (s1, RaisedValue)
    | IRaiseIndex => (s1, RaisedIndex)
    | r => (handle_results s1 r skipfirst, Done)
    end.

  Definition has_errors (s : sim) : bool := match s_errs s with [] => false | _ => true end.

  (** the two operands of a refusal test, in the frame the source uses *)
  Definition framed (fr : frame) (sh : option Q) (t pr : Q) : Q * Q :=
    match fr with
    | FrameAbs => (t, pr)
    | FrameRel => (sub_shift sh t, sub_shift sh pr)
    | FrameMixed => (sub_shift sh t, pr)
    | FrameUnknown => (t, pr)
    end.

  (** [simulate(t_end, steps)] *)
  Definition simulate (s : sim) (t_end : Q) (steps : option nat) : sim * outcome :=
    if has_errors s then (s, Done)
    else match prior_t_end s with
         | None => (s, RaisedIndex)
         | Some pr =>
             let ab := framed (f_sim_frame fx) (s_shift s) t_end pr in
             if cmpb (f_sim_cmp fx) (fst ab) (snd ab) then (s, RaisedValue)
             else finish s (integrate Y P (mflow s) (mok s) (s_mp s) (s_int s) (sub_shift (s_shift s) t_end) steps)
                         (f_skip_sim fx)
         end.

  (** [simulate_time_course(time_points)] *)
  Definition simulate_time_course (s : sim) (pts : list Q) : sim * outcome :=
    if has_errors s then (s, Done)
    else match prior_t_end s with
         | None => (s, RaisedIndex)
         | Some pr =>
             match pts with
             | [] => (s, RaisedIndex)                       (* time_points[-1] on an empty array *)
             | p0 :: _ =>
                 let sh := s_shift s in
                 let ab := framed (f_tc_frame fx) sh (lastq pts p0) pr in
                 if cmpb (f_tc_cmp fx) (fst ab) (snd ab) then (s, RaisedValue)
                 else
                   let rel :=
                     match f_tc_frame fx with
                     | FrameAbs | FrameUnknown =>
                         map (sub_shift sh) (filter (fun t => cmpb (f_tc_keep fx) t pr) pts)
                     | FrameRel =>
                         filter (fun t => cmpb (f_tc_keep fx) t (sub_shift sh pr)) (map (sub_shift sh) pts)
                     | FrameMixed =>
                         filter (fun t => cmpb (f_tc_keep fx) t pr) (map (sub_shift sh) pts)
                     end in
                   finish s (integrate_time_course Y P (mflow s) (mok s) (s_mp s) (s_int s) rel) (f_skip_tc fx)
             end
         end.

  (** [simulate_to_steady_state] *)
  Definition simulate_to_steady_state (s : sim) : sim * outcome :=
    if has_errors s then (s, Done)
    else finish s (integrate_to_steady_state Y P (mflow s) conv fx (s_mp s) (s_int s)) (f_skip_ss fx).

  (** index of the accumulated result ([pd.concat(raw_variables).index]) *)
  Definition seg_index (sg : segment) : list Q := map fst sg.
  Definition index_of (s : sim) : list Q :=
    match s_vars s with None => [] | Some segs => concat (map seg_index segs) end.

  (** the absolute time already reached (what [prior_t_end] reads; 0 for an empty last segment) *)
  Definition reached (s : sim) : Q := match prior_t_end s with Some t => t | None => 0 end.
End Simulator.

Arguments mkSim {Y P}.
Arguments s_y0 {Y P}.
Arguments s_vars {Y P}.
Arguments s_pars {Y P}.
Arguments s_shift {Y P}.
Arguments s_errs {Y P}.
Arguments s_int {Y P}.
Arguments s_mp {Y P}.
