(** Variants of modelled functions that are NOT in /repo, kept as regression witnesses for seeded changes the
    check has to catch with a concrete history (the shipped shapes are pinned by [f_shapes_ok]).  No proofs.

    [handle_results_skipshift] = seeded change C04-4: [_handle_simulation_results] moves the segment back to
    absolute time only in the [elif skipfirst:] branch ("both belong to continuing an earlier run"), so the row of
    a steady-state run ([skipfirst=False]) that follows an override is appended in the restarted integrator's
    RELATIVE time. *)
From Coq Require Import QArith List Bool NArith.
From Sim Require Import Integrator Simulator.
Import ListNotations.
Open Scope Q_scope.

Section Variants.
  Variables Y P : Type.
  Variable flow : P -> Q -> Y -> Q -> Y.
  Variable conv : Y -> Y -> bool.
  Variable fx : sim_facts.

  Notation sim := (sim Y P).

  Definition handle_results_skipshift (s : sim) (r : ires Y) (skipfirst : bool) : sim :=
    match r with
    | IOk tc =>
        let tcs := map (fun ty => (add_shift (s_shift s) (fst ty), snd ty)) tc in
        let vars' := match s_vars s with
                     | None => [tc]                                  (* first result: there is no shift yet *)
                     | Some l => l ++ [if skipfirst then tl tcs else tc]
                     end in
        let pars' := match s_pars s with None => [] | Some l => l end ++ [s_mp s] in
        mkSim (s_y0 s) (Some vars') (Some pars') (s_shift s) (s_errs s) (s_int s) (s_mp s)
    | _ => handle_results Y P s r skipfirst
    end.

  Definition steady_skipshift (s : sim) : sim * outcome :=
    if has_errors Y P s then (s, Done)
    else
      let ir := integrate_to_steady_state Y P (mflow Y P flow fx s) conv fx (s_mp s) (s_int s) in
      let s1 := set_int Y P s (fst ir) in
      match snd ir with
      | IRaiseValue => (s1, RaisedValue)
      | IRaiseIndex => (s1, RaisedIndex)
      | r => (handle_results_skipshift s1 r (f_skip_ss fx), Done)
      end.
End Variants.
