(** Variants of modelled functions that are NOT in /repo, kept as regression witnesses for seeded changes the
    check has to catch with a concrete history (the shipped shapes are pinned by [f_shapes_ok]).  No proofs.

    [handle_results_skipshift] = seeded change C04-4: [_handle_simulation_results] moves the segment back to
    absolute time only in the [elif skipfirst:] branch ("both belong to continuing an earlier run"), so the row of
    a steady-state run ([skipfirst=False]) that follows an override is appended in the restarted integrator's
    RELATIVE time. *)
From Coq Require Import QArith Qabs List Bool NArith.
From Sim Require Import Integrator Simulator Protocol.
Import ListNotations.
Open Scope Q_scope.

Section Variants.
  Variables Y P : Type.
  Variable flow : P -> Q -> Y -> Q -> Y.
  Variable conv : Y -> Y -> bool.
  Variable fx : sim_facts.

  Notation sim := (sim Y P).

  Definition handle_results_skipshift (s : sim) (r : ires Y) (skipfirst : bool) : sim :=
    match r with
    | IOk tc =>
        let tcs := map (fun ty => (add_shift (s_shift s) (fst ty), snd ty)) tc in
        let vars' := match s_vars s with
                     | None => [tc]                                  (* first result: there is no shift yet *)
                     | Some l => l ++ [if skipfirst then tl tcs else tc]
                     end in
        let pars' := match s_pars s with None => [] | Some l => l end ++ [s_mp s] in
        mkSim (s_y0 s) (Some vars') (Some pars') (s_shift s) (s_errs s) (s_int s) (s_mp s)
    | _ => handle_results Y P s r skipfirst
    end.

  Definition steady_skipshift (s : sim) : sim * outcome :=
    if has_errors Y P s then (s, Done)
    else
      let ir := integrate_to_steady_state Y P (mflow Y P flow fx s) conv fx (s_mp s) (s_int s) in
      let s1 := set_int Y P s (fst ir) in
      match snd ir with
      | IRaiseValue => (s1, RaisedValue)
      | IRaiseIndex => (s1, RaisedIndex)
      | r => (handle_results_skipshift s1 r (f_skip_ss fx), Done)
      end.
End Variants.

(** * seeded change C14-4 (= C04-2): the decision of [Scipy.integrate_time_course] whether the current time [t0] has
    to be put in front of the requested grid, [time_points[0] != self.t0], made tolerant
    ([not np.isclose(time_points[0], self.t0)]).

    The functions below are the modelled ones (Integrator.integrate_time_course, Simulator.simulate_time_course,
    Protocol.protocol_tc_loop / simulate_protocol_time_course) with that ONE test abstracted into [same : Q -> Q -> bool]
    ("the grid already starts at the current time").  [same := Qeq_bool] IS the shipped model (proved in
    SwitchProofs.v: [*_by_exact]); [same := np_isclose] is the seeded shape. *)

(** [np.isclose(a, b, rtol, atol)]:  |a - b| <= atol + rtol * |b|  (b = the integrator's current time) *)
Definition isclose (rtol atol a b : Q) : bool := Qle_bool (Qabs (a - b)) (atol + rtol * Qabs b).
(** NumPy's defaults rtol = 1e-5, atol = 1e-8 *)
Definition np_isclose : Q -> Q -> bool := isclose (1 # 100000) (1 # 100000000).

Section IntegratorBy.
  Variables Y P : Type.
  Variable flow : P -> Q -> Y -> Q -> Y.
  Variable solve_ok : P -> Q -> Y -> Q -> bool.
  Variable same : Q -> Q -> bool.

  Definition integrate_time_course_by (p : P) (ig : integ Y) (tp : list Q) : integ Y * ires Y :=
    match tp with
    | [] => (ig, IRaiseIndex)
    | t :: _ =>
        let tp' := if negb (same t (i_t0 ig)) then i_t0 ig :: tp else tp in
        match solve_ivp Y P flow solve_ok p (i_y0 ig) tp' with
        | IOk tc =>
            (mkInteg (lastq (map fst tc) (i_t0 ig)) (last (map snd tc) (i_y0 ig)) (i_orig ig), IOk tc)
        | r => (ig, r)
        end
    end.
End IntegratorBy.

Section CloseStart.
  Variables Y P U : Type.
  Variable flow : P -> Q -> Y -> Q -> Y.
  Variable solve_ok : P -> Q -> Y -> Q -> bool.
  Variable pupd : P -> U -> P.
  Variable fx : sim_facts.
  Variable same : Q -> Q -> bool.

  Notation sim := (sim Y P).

  Definition simulate_time_course_by (s : sim) (pts : list Q) : sim * outcome :=
    if has_errors Y P s then (s, Done)
    else match prior_t_end Y P s with
         | None => (s, RaisedIndex)
         | Some pr =>
             match pts with
             | [] => (s, RaisedIndex)
             | p0 :: _ =>
                 let sh := s_shift s in
                 let ab := framed (f_tc_frame fx) sh (lastq pts p0) pr in
                 if cmpb (f_tc_cmp fx) (fst ab) (snd ab) then (s, RaisedValue)
                 else
                   let rel :=
                     match f_tc_frame fx with
                     | FrameAbs | FrameUnknown =>
                         map (sub_shift sh) (filter (fun t => cmpb (f_tc_keep fx) t pr) pts)
                     | FrameRel =>
                         filter (fun t => cmpb (f_tc_keep fx) t (sub_shift sh pr)) (map (sub_shift sh) pts)
                     | FrameMixed =>
                         filter (fun t => cmpb (f_tc_keep fx) t pr) (map (sub_shift sh) pts)
                     end in
                   finish Y P s (integrate_time_course_by Y P (mflow Y P flow fx s) (mok Y P solve_ok fx s) same
                                   (s_mp s) (s_int s) rel) (f_skip_tc fx)
             end
         end.

  Fixpoint protocol_tc_loop_by (s : sim) (t_start : Q) (full : list Q) (rows : list (Q * U)) : sim * outcome :=
    match rows with
    | [] => (s, Done)
    | (t_end, u) :: rest =>
        let s1 := update_parameters Y P U pupd s u in
        let sel := filter (fun t => cmpb (f_win_lo fx) t t_start && cmpb (f_win_hi fx) t t_end) full in
        match simulate_time_course_by s1 sel with
        | (s2, Done) =>
            match s_vars s2 with
            | None => (s2, Done)
            | Some _ => protocol_tc_loop_by s2 t_end full rest
            end
        | (s2, o) => (s2, o)
        end
    end.

  Definition simulate_protocol_time_course_by (s : sim) (rows : list (Q * U)) (pts : list Q) (rel : bool)
    : sim * outcome :=
    if has_errors Y P s then (s, Done)
    else match prior_t_end Y P s with
         | None => (s, RaisedIndex)
         | Some t_start =>
             let rows' := map (fun r => (fst r + t_start, snd r)) rows in
             let pts' := if rel then map (fun t => t + t_start) pts else pts in
             match pts' with
             | [] => (s, RaisedIndex)
             | p0 :: _ =>
                 if cmpb (f_ptc_cmp fx) (lastq pts' p0) t_start then (s, RaisedValue)
                 else protocol_tc_loop_by s t_start (Protocol.qunion (map fst rows') pts') rows'
             end
         end.
End CloseStart.

(** * seeded change C04-8: [Simulator.clear_results] no longer forgets a recorded failure.

    A refactoring moved the "no results" state ([variables], [dependent], [simulation_parameters], [_time_shift] := None)
    of [__init__] and [clear_results] into a helper [_drop_results()]; the line [self._errors = []] stayed behind in
    [__init__] only.  [clear_results_keeps_errors] is that shape; [run_op_ck] / [run_ck] / [trace_ck] are the history
    runners of Protocol.v with it in the place of [clear_results].  (FailureProofs.v: once a run has failed, NO history
    ever produces a result again.) *)
Section ClearKeeps.
  Variables Y P U O : Type.
  Variable flow : P -> Q -> Y -> Q -> Y.
  Variable solve_ok : P -> Q -> Y -> Q -> bool.
  Variable conv : Y -> Y -> bool.
  Variable pupd : P -> U -> P.
  Variable yovr : Y -> O -> Y.
  Variable fx : sim_facts.

  Notation sim := (sim Y P).

  Definition clear_results_keeps_errors (s : sim) : sim :=
    mkSim (s_y0 s) None None None (s_errs s) (integ_init Y (s_y0 s)) (s_mp s).

  Definition run_op_ck (s : sim) (o : op U O) : sim * outcome :=
    match o with
    | OClear => (clear_results_keeps_errors s, Done)
    | _ => run_op Y P U O flow solve_ok conv pupd yovr fx s o
    end.

  Fixpoint run_ck (s : sim) (ops : list (op U O)) : sim :=
    match ops with
    | [] => s
    | o :: rest => run_ck (fst (run_op_ck s o)) rest
    end.

  Fixpoint trace_ck (s : sim) (ops : list (op U O)) : list (sim * outcome) :=
    match ops with
    | [] => []
    | o :: rest => let r := run_op_ck s o in r :: trace_ck (fst r) rest
    end.
End ClearKeeps.
