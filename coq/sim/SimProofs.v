(** Proofs about the simulator model (C04).  General lemmas are proved for ANY facts record that
    satisfies [good_facts]; PropsC04.v instantiates them at the facts regenerated from /repo. *)
From Coq Require Import QArith List Bool NArith Lia Lqa.
From Sim Require Import Integrator Simulator Protocol.
Import ListNotations.
Open Scope Q_scope.

(** * boolean comparisons *)
Lemma Qltb_iff a b : Qltb a b = true <-> a < b.
Proof.
  unfold Qltb. rewrite negb_true_iff. split; intro H.
  - apply Qnot_le_lt. intro L. apply Qle_bool_iff in L. congruence.
  - destruct (Qle_bool b a) eqn:E; [|reflexivity]. apply Qle_bool_iff in E. exfalso. lra.
Qed.

Lemma Qltb_false a b : Qltb a b = false <-> b <= a.
Proof.
  split; intro H.
  - destruct (Qlt_le_dec a b) as [L|L]; [|exact L]. apply Qltb_iff in L. congruence.
  - destruct (Qltb a b) eqn:E; [|reflexivity]. apply Qltb_iff in E. exfalso. lra.
Qed.

Lemma Qle_bool_false a b : Qle_bool a b = false <-> b < a.
Proof.
  split; intro H.
  - apply Qnot_le_lt. intro L. apply Qle_bool_iff in L. congruence.
  - destruct (Qle_bool a b) eqn:E; [|reflexivity]. apply Qle_bool_iff in E. exfalso. lra.
Qed.

Lemma Qeq_bool_false a b : Qeq_bool a b = false <-> ~ a == b.
Proof.
  split; intro H.
  - intro E. apply Qeq_bool_iff in E. congruence.
  - destruct (Qeq_bool a b) eqn:E; [|reflexivity]. apply Qeq_bool_iff in E. contradiction.
Qed.

(** * strictly increasing lists *)
Fixpoint incr (l : list Q) : Prop :=
  match l with
  | [] => True
  | x :: r => (forall y, In y r -> x < y) /\ incr r
  end.

Lemma incrb_incr l : incrb l = true -> incr l.
Proof.
  induction l as [|x r IH]; [exact (fun _ => I)|].
  cbn [incrb]. destruct r as [|y r'].
  - intros _. cbn. split; [intros ? []|exact I].
  - intro H. apply andb_true_iff in H. destruct H as [Hxy Hr]. apply Qltb_iff in Hxy.
    specialize (IH Hr). split; [|exact IH].
    intros z [<-|Hz]; [exact Hxy|]. destruct IH as [Hy _]. specialize (Hy z Hz). lra.
Qed.

Lemma incr_incrb l : incr l -> incrb l = true.
Proof.
  induction l as [|x r IH]; [reflexivity|].
  intros [Hx Hr]. cbn [incrb]. destruct r as [|y r']; [reflexivity|].
  apply andb_true_iff. split; [apply Qltb_iff, Hx; left; reflexivity|exact (IH Hr)].
Qed.

Lemma incr_app l1 l2 :
  incr (l1 ++ l2) <-> incr l1 /\ incr l2 /\ (forall a b, In a l1 -> In b l2 -> a < b).
Proof.
  induction l1 as [|x r IH]; cbn [app incr].
  - split; [intro H; repeat split; [exact H | intros ? ? []] | intros (_ & H & _); exact H].
  - rewrite IH. split.
    + intros (Hx & Hr & H2 & H12). repeat split; try assumption.
      * intros y Hy. apply Hx. apply in_or_app. left. exact Hy.
      * intros a b [<-|Ha] Hb; [apply Hx; apply in_or_app; right; exact Hb | exact (H12 a b Ha Hb)].
    + intros ((Hx & Hr) & H2 & H12). repeat split; try assumption.
      * intros y Hy. apply in_app_or in Hy. destruct Hy as [Hy|Hy]; [exact (Hx y Hy)|apply H12; [left; reflexivity|exact Hy]].
      * intros a b Ha Hb. apply H12; [right; exact Ha|exact Hb].
Qed.

Lemma incr_map (f : Q -> Q) l :
  (forall a b, a < b -> f a < f b) -> incr l -> incr (map f l).
Proof.
  intros Hf. induction l as [|x r IH]; [exact (fun H => H)|].
  intros [Hx Hr]. cbn. split; [|exact (IH Hr)].
  intros y Hy. apply in_map_iff in Hy. destruct Hy as (z & <- & Hz). apply Hf, Hx, Hz.
Qed.

Lemma incr_filter (f : Q -> bool) l : incr l -> incr (filter f l).
Proof.
  induction l as [|x r IH]; [exact (fun H => H)|].
  intros [Hx Hr]. cbn. destruct (f x); [|exact (IH Hr)].
  split; [|exact (IH Hr)]. intros y Hy. apply filter_In in Hy. apply Hx, Hy.
Qed.

(** * last element *)
Lemma lastq_app l x d : lastq (l ++ [x]) d = x.
Proof.
  induction l as [|y r IH]; [reflexivity|].
  cbn [app lastq]. destruct (r ++ [x]) eqn:E; [destruct r; discriminate|]. exact IH.
Qed.

Lemma lastq_In l d : l <> [] -> In (lastq l d) l.
Proof.
  induction l as [|y r IH]; [congruence|]. intros _.
  destruct r as [|z r']; [left; reflexivity|].
  right. change (lastq (y :: z :: r') d) with (lastq (z :: r') d). apply IH. discriminate.
Qed.

Lemma lastq_cons x l d : l <> [] -> lastq (x :: l) d = lastq l d.
Proof. destruct l; [congruence|reflexivity]. Qed.

Lemma lastq_default l d d' : l <> [] -> lastq l d = lastq l d'.
Proof.
  induction l as [|y r IH]; [congruence|]. intros _.
  destruct r as [|z r']; [reflexivity|].
  change (lastq (z :: r') d = lastq (z :: r') d'). apply IH. discriminate.
Qed.

Lemma lastq_map (f : Q -> Q) l d : lastq (map f l) (f d) = f (lastq l d).
Proof.
  induction l as [|y r IH]; [reflexivity|].
  destruct r as [|z r']; [reflexivity|]. exact IH.
Qed.

Lemma lastq_map_fst {A} (g : Q -> A) l d : lastq (map fst (map (fun t => (t, g t)) l)) d = lastq l d.
Proof. rewrite map_map. cbn. rewrite map_id. reflexivity. Qed.

Lemma exists_last' (l : list Q) : l <> [] -> exists pre x, l = pre ++ [x].
Proof. intro H. destruct (exists_last H) as (pre & x & E). eauto. Qed.

(** the last element of a list dominates a strictly increasing list *)
Lemma incr_last_max pre x : incr (pre ++ [x]) -> forall a, In a pre -> a < x.
Proof. intros H a Ha. apply incr_app in H. destruct H as (_ & _ & H). apply H; [exact Ha|left; reflexivity]. Qed.

Lemma filter_last (f : Q -> bool) l d :
  l <> [] -> f (lastq l d) = true -> filter f l <> [] /\ lastq (filter f l) d = lastq l d.
Proof.
  induction l as [|y r IH]; [congruence|]. intros _ Hf.
  destruct r as [|z r'].
  - cbn in *. rewrite Hf. split; [discriminate|reflexivity].
  - change (lastq (y :: z :: r') d) with (lastq (z :: r') d) in *.
    destruct (IH ltac:(discriminate) Hf) as [Hne Hl].
    cbn [filter]. destruct (f y).
    + split; [discriminate|]. rewrite lastq_cons; [exact Hl|exact Hne].
    + split; [exact Hne|exact Hl].
Qed.

Lemma incr_bounds h rest :
  incr (h :: rest) -> rest <> [] ->
  forall t, In t (h :: rest) -> h <= t /\ t <= lastq rest h.
Proof.
  intros [Hh Hr] Hne t Ht.
  destruct (exists_last' rest Hne) as (pre & x & E). subst rest. rewrite lastq_app.
  destruct Ht as [<-|Ht].
  - split; [lra|]. specialize (Hh x). assert (h < x) by (apply Hh, in_or_app; right; left; reflexivity). lra.
  - split; [specialize (Hh t Ht); lra|].
    apply in_app_or in Ht. destruct Ht as [Ht|[<-|[]]]; [|lra].
    pose proof (incr_last_max pre x Hr t Ht). lra.
Qed.

Section SimProofs.
  Variables Y P U O : Type.
  Variable flow : P -> Q -> Y -> Q -> Y.
  Variable solve_ok : P -> Q -> Y -> Q -> bool.
  Variable conv : Y -> Y -> bool.
  Variable pupd : P -> U -> P.
  Variable yovr : Y -> O -> Y.
  Variable fx : sim_facts.

  Notation sim := (sim Y P).
  Notation solve_ivp := (solve_ivp Y P flow solve_ok).
  Notation integrate_time_course := (integrate_time_course Y P flow solve_ok).
  Notation integrate := (integrate Y P flow solve_ok).
  Notation simulate := (simulate Y P flow solve_ok fx).
  Notation simulate_time_course := (simulate_time_course Y P flow solve_ok fx).
  Notation index_of := (index_of Y P).
  Notation prior_t_end := (prior_t_end Y P).
  Notation reached := (reached Y P).
  Notation has_errors := (has_errors Y P).

  (** what the theorems need from the regenerated facts *)
  Record good_facts : Prop := {
    g_sim_frame : f_sim_frame fx = FrameAbs;
    g_sim_cmp : f_sim_cmp fx = CmpLe;
    g_tc_frame : f_tc_frame fx = FrameAbs;
    g_tc_cmp : f_tc_cmp fx = CmpLe;
    g_tc_keep : f_tc_keep fx = CmpGe;
    g_skip_sim : f_skip_sim fx = true;
    g_skip_tc : f_skip_tc fx = true;
    g_ptc_cmp : f_ptc_cmp fx = CmpLe;
    g_win_lo : f_win_lo fx = CmpGt;
    g_win_hi : f_win_hi fx = CmpLe;
    g_updvar_keeps : f_updvar_keeps fx = true
  }.

  (** ** the solver's contract on a forward span *)
  Lemma solve_ivp_forward p y0 h rest :
    rest <> [] -> h < lastq rest h ->
    solve_ivp p y0 (h :: rest) =
      if incrb (h :: rest)
      then if solve_ok p h y0 (lastq rest h)
           then IOk (map (fun t => (t, flow p h y0 (t - h))) (h :: rest))
           else IFail
      else IRaiseValue.
  Proof.
    intros Hne Hlt. unfold Integrator.solve_ivp.
    rewrite (lastq_cons h rest h Hne).
    set (tf := lastq rest h) in *.
    assert (Hmin : Qmin' h tf = h) by (unfold Qmin'; destruct (Qle_bool h tf) eqn:E; [reflexivity|apply Qle_bool_false in E; lra]).
    assert (Hmax : Qmax' h tf = tf) by (unfold Qmax'; destruct (Qle_bool h tf) eqn:E; [reflexivity|apply Qle_bool_false in E; lra]).
    rewrite Hmin, Hmax.
    destruct (incrb (h :: rest)) eqn:Hin.
    - assert (Hw : forallb (fun t => Qle_bool h t && Qle_bool t tf) (h :: rest) = true).
      { apply forallb_forall. intros t Ht.
        destruct (incr_bounds h rest (incrb_incr _ Hin) Hne t Ht) as [A B].
        apply andb_true_iff. split; apply Qle_bool_iff; assumption. }
      rewrite Hw. cbn [negb andb].
      rewrite andb_false_r. cbn [negb].
      assert (E1 : Qltb tf h = false) by (apply Qltb_false; lra). rewrite E1. cbn [andb].
      assert (E2 : Qeq_bool h tf = false) by (apply Qeq_bool_false; lra). rewrite E2. reflexivity.
    - destruct (negb (forallb (fun t => Qle_bool h t && Qle_bool t tf) (h :: rest))); [reflexivity|].
      assert (E0 : Qltb h tf = true) by (apply Qltb_iff; exact Hlt). rewrite E0. reflexivity.
  Qed.

  Definition shiftv (s : sim) : Q := match s_shift s with None => 0 | Some x => x end.

  Lemma sub_shift_v s t : sub_shift (s_shift s) t == t - shiftv s.
  Proof. unfold sub_shift, shiftv. destruct (s_shift s); lra. Qed.
  Lemma add_shift_v s t : add_shift (s_shift s) t == t + shiftv s.
  Proof. unfold add_shift, shiftv. destruct (s_shift s); lra. Qed.

  (** ** the invariant of every reachable state (no steady-state run in the history) *)
  Definition Inv (s : sim) : Prop :=
    match s_vars s with
    | None => s_shift s = None /\ i_t0 (s_int s) == 0
    | Some segs =>
        exists segs' sg t y, segs = segs' ++ [sg ++ [(t, y)]]
          /\ incr (index_of s) /\ i_t0 (s_int s) + shiftv s == t
    end.

  Lemma last_row_snoc (segs' : list (segment Y)) sg (r : Q * Y) :
    last_row Y (segs' ++ [sg ++ [r]]) = Some r.
  Proof. unfold last_row. rewrite rev_unit. rewrite rev_unit. reflexivity. Qed.

  Lemma index_snoc (segs' : list (segment Y)) sg t (y : Y) :
    concat (map (seg_index Y) (segs' ++ [sg ++ [(t, y)]]))
    = (concat (map (seg_index Y) segs') ++ map fst sg) ++ [t].
  Proof.
    rewrite map_app, concat_app. cbn. unfold seg_index. rewrite map_app. cbn.
    rewrite app_nil_r, app_assoc. reflexivity.
  Qed.

  (** what the invariant says about [prior_t_end] *)
  Lemma Inv_prior s :
    Inv s ->
    exists r, prior_t_end s = Some r /\ i_t0 (s_int s) + shiftv s == r /\ incr (index_of s)
              /\ (forall a, In a (index_of s) -> a <= r)
              /\ (s_vars s = None -> s_shift s = None /\ r = 0)
              /\ (s_vars s <> None -> exists pre, index_of s = pre ++ [r]).
  Proof.
    unfold Inv, Simulator.prior_t_end, Simulator.index_of. destruct (s_vars s) as [segs|] eqn:Ev.
    - intros (segs' & sg & t & y & -> & Hinc & Ht0). exists t.
      rewrite last_row_snoc. rewrite index_snoc in *.
      repeat split; try assumption.
      + intros a Ha. apply in_app_or in Ha. destruct Ha as [Ha|[<-|[]]]; [|lra].
        pose proof (incr_last_max _ _ Hinc a Ha). lra.
      + discriminate.
      + discriminate.
      + intros _. eexists. reflexivity.
    - intros [Hs Ht0]. exists 0. unfold shiftv. rewrite Hs.
      split; [reflexivity|]. split; [lra|]. split; [exact I|]. split; [intros a []|].
      split; [intros _; split; reflexivity|congruence].
  Qed.

  (** ** one call of the integrator on a forward stretch, followed by [_handle_simulation_results] *)
  Definition tp_eff (t0 : Q) (tp : list Q) : list Q :=
    match tp with [] => [] | t :: _ => if negb (Qeq_bool t t0) then t0 :: tp else tp end.

  Lemma itc_unfold p ig tp :
    tp <> [] ->
    integrate_time_course p ig tp =
      match solve_ivp p (i_y0 ig) (tp_eff (i_t0 ig) tp) with
      | IOk tc => (mkInteg (lastq (map fst tc) (i_t0 ig)) (last (map snd tc) (i_y0 ig)) (i_orig ig), IOk tc)
      | r => (ig, r)
      end.
  Proof. destruct tp; [congruence|reflexivity]. Qed.

  Lemma tp_eff_shape t0 tp :
    tp <> [] ->
    exists h rest, tp_eff t0 tp = h :: rest /\ h == t0
      /\ ((h = t0 /\ rest = tp /\ forall d, ~ hd d tp == t0) \/ tp = h :: rest).
  Proof.
    destruct tp as [|t r]; [congruence|]. intros _. unfold tp_eff.
    destruct (Qeq_bool t t0) eqn:E; cbn [negb].
    - exists t, r. split; [reflexivity|]. split; [apply Qeq_bool_iff; exact E|right; reflexivity].
    - exists t0, (t :: r). split; [reflexivity|]. split; [reflexivity|]. left.
      split; [reflexivity|]. split; [reflexivity|]. intros d. cbn. apply Qeq_bool_false. exact E.
  Qed.

  (** the state after an accepted integration: rows [(t + shift, flow ...)] for the points after the first *)
  Definition new_rows (s : sim) (h : Q) (pts : list Q) : segment Y :=
    map (fun t => (add_shift (s_shift s) t, flow (s_mp s) h (i_y0 (s_int s)) (t - h))) pts.

  Definition pars_list (s : sim) : list P := match s_pars s with None => [] | Some l => l end.

  Definition after_ok (s : sim) (h : Q) (rest : list Q) : sim :=
    mkSim (s_y0 s)
      (Some (match s_vars s with
             | None => [new_rows s h (h :: rest)]
             | Some l => l ++ [new_rows s h rest]
             end))
      (Some (pars_list s ++ [s_mp s])) (s_shift s) (s_errs s)
      (mkInteg (lastq rest h) (flow (s_mp s) h (i_y0 (s_int s)) (lastq rest h - h)) (i_orig (s_int s)))
      (s_mp s).

  Definition after_fail (s : sim) : sim :=
    mkSim (s_y0 s) (s_vars s) (s_pars s) (s_shift s) (s_errs s ++ [EIntegration]) (s_int s) (s_mp s).

  Lemma last_map_snd (g : Q -> Y) l h d :
    last (map snd (map (fun t => (t, g t)) (h :: l))) d = g (lastq l h).
  Proof.
    rewrite map_map. cbn [snd]. revert h. induction l as [|x r IH]; intro h; [reflexivity|].
    change (last (map (fun t => g t) (h :: x :: r)) d) with (last (map (fun t => g t) (x :: r)) d).
    rewrite IH. destruct r as [|z r']; [reflexivity|].
    change (lastq (h :: x :: z :: r') h) with (lastq (z :: r') h).
    change (lastq (x :: z :: r') h) with (lastq (z :: r') h).
    change (lastq (z :: r') x) with (lastq (z :: r') x).
    f_equal. apply lastq_default. discriminate.
  Qed.

  Lemma finish_itc (s : sim) tp h rest :
    tp <> [] -> tp_eff (i_t0 (s_int s)) tp = h :: rest -> rest <> [] -> h < lastq rest h ->
    finish Y P s (integrate_time_course (s_mp s) (s_int s) tp) true =
      if incrb (h :: rest)
      then if solve_ok (s_mp s) h (i_y0 (s_int s)) (lastq rest h)
           then (after_ok s h rest, Done)
           else (after_fail s, Done)
      else (s, RaisedValue).
  Proof.
    intros Hne Heff Hr Hlt. rewrite (itc_unfold _ _ _ Hne), Heff.
    rewrite (solve_ivp_forward _ _ _ _ Hr Hlt).
    destruct s as [y0 vars pars sh errs ig mp]. cbn [s_int s_mp s_y0 s_vars s_pars s_shift s_errs] in *.
    destruct (incrb (h :: rest)); [|reflexivity].
    destruct (solve_ok mp h (i_y0 ig) (lastq rest h)); [|reflexivity].
    unfold finish, set_int, handle_results, after_ok, new_rows, pars_list.
    cbn [fst snd s_int s_mp s_y0 s_vars s_pars s_shift s_errs].
    rewrite lastq_map_fst. rewrite (lastq_cons h rest _ Hr).
    rewrite (lastq_default rest (i_t0 ig) h Hr).
    rewrite last_map_snd.
    f_equal. f_equal.
    - rewrite map_map. cbn [fst snd]. destruct vars; reflexivity.
  Qed.

  Lemma new_rows_index s h pts : map fst (new_rows s h pts) = map (add_shift (s_shift s)) pts.
  Proof. unfold new_rows. rewrite map_map. reflexivity. Qed.

  Lemma concat_snoc (l : list (segment Y)) nr :
    concat (map (seg_index Y) (l ++ [nr])) = concat (map (seg_index Y) l) ++ map fst nr.
  Proof. rewrite map_app, concat_app. cbn [map concat]. rewrite app_nil_r. reflexivity. Qed.

  Lemma after_ok_index s h rest :
    index_of (after_ok s h rest) =
      (match s_vars s with None => [add_shift (s_shift s) h] | Some _ => index_of s end)
      ++ map (add_shift (s_shift s)) rest.
  Proof.
    unfold after_ok, Simulator.index_of. cbn [s_vars].
    destruct (s_vars s) as [l|].
    - rewrite concat_snoc, new_rows_index. reflexivity.
    - change [new_rows s h (h :: rest)] with ([] ++ [new_rows s h (h :: rest)]).
      rewrite concat_snoc, new_rows_index. reflexivity.
  Qed.

  Lemma after_ok_inv s h rest :
    Inv s -> h == i_t0 (s_int s) -> rest <> [] -> incr (h :: rest) ->
    Inv (after_ok s h rest)
    /\ prior_t_end (after_ok s h rest) = Some (add_shift (s_shift s) (lastq rest h)).
  Proof.
    intros HI Hh Hne Hinc.
    destruct (Inv_prior s HI) as (r & Hpr & Hsync & Hincr & Hmax & Hnone & Hsome).
    destruct (exists_last' rest Hne) as (pre & x & ->). rewrite lastq_app.
    assert (Hshape : exists segs' sg y,
               s_vars (after_ok s h (pre ++ [x])) = Some (segs' ++ [sg ++ [(add_shift (s_shift s) x, y)]])).
    { unfold after_ok. cbn [s_vars]. destruct (s_vars s) as [l|].
      - exists l, (new_rows s h pre). eexists. unfold new_rows at 1. rewrite map_app. reflexivity.
      - exists [], (new_rows s h (h :: pre)). eexists. cbn [app]. unfold new_rows at 1.
        rewrite app_comm_cons, map_app. reflexivity. }
    destruct Hshape as (segs' & sg & y & Hv).
    assert (Hidx : incr (index_of (after_ok s h (pre ++ [x])))).
    { rewrite after_ok_index. destruct Hinc as [Hh' Hr'].
      assert (Hmono : forall a b, a < b -> add_shift (s_shift s) a < add_shift (s_shift s) b).
      { intros a b Hab. rewrite !add_shift_v. lra. }
      apply incr_app. split; [|split].
      - destruct (s_vars s); [exact Hincr|]. cbn. split; [intros ? []|exact I].
      - apply incr_map; assumption.
      - intros a b Ha Hb. apply in_map_iff in Hb. destruct Hb as (t & <- & Ht).
        specialize (Hh' t Ht). rewrite add_shift_v.
        destruct (s_vars s) eqn:Ev.
        + specialize (Hmax a Ha). lra.
        + destruct Ha as [<-|[]]. rewrite add_shift_v. lra. }
    split.
    - unfold Inv. rewrite Hv. exists segs', sg, (add_shift (s_shift s) x), y.
      split; [reflexivity|]. split; [exact Hidx|].
      unfold after_ok at 1. cbn [s_int i_t0]. rewrite lastq_app.
      unfold shiftv. unfold after_ok. cbn [s_shift]. fold (shiftv s). rewrite add_shift_v. lra.
    - unfold Simulator.prior_t_end. rewrite Hv, last_row_snoc. reflexivity.
  Qed.

  Lemma reached_prior s r : prior_t_end s = Some r -> reached s = r.
  Proof. unfold Simulator.reached. intros ->. reflexivity. Qed.

  Definition step_result (s : sim) (h : Q) (rest : list Q) : sim * outcome :=
    if incrb (h :: rest)
    then if solve_ok (s_mp s) h (i_y0 (s_int s)) (lastq rest h)
         then (after_ok s h rest, Done)
         else (after_fail s, Done)
    else (s, RaisedValue).

  (** ** simulate_time_course *)
  Lemma tc_step (good : good_facts) s pts :
    Inv s -> has_errors s = false -> pts <> [] ->
    let r := reached s in
    let rel := map (sub_shift (s_shift s)) (filter (fun t => Qle_bool r t) pts) in
    (lastq pts 0 <= r -> simulate_time_course s pts = (s, RaisedValue)) /\
    (r < lastq pts 0 ->
       exists h rest, tp_eff (i_t0 (s_int s)) rel = h :: rest /\ h == i_t0 (s_int s) /\ rest <> []
         /\ ((h = i_t0 (s_int s) /\ rest = rel /\ forall d, ~ hd d rel == i_t0 (s_int s)) \/ rel = h :: rest)
         /\ simulate_time_course s pts = step_result s h rest).
  Proof.
    intros HI Herr Hne r rel.
    destruct (Inv_prior s HI) as (r0 & Hpr & Hsync & Hincr & Hmax & Hnone & Hsome).
    assert (Hr : r = r0) by (apply reached_prior; exact Hpr). subst r0.
    unfold Simulator.simulate_time_course. rewrite Herr, Hpr.
    destruct pts as [|p0 ps]; [congruence|].
    rewrite (g_tc_frame good), (g_tc_cmp good), (g_tc_keep good), (g_skip_tc good).
    cbn [framed fst snd cmpb].
    rewrite (lastq_default (p0 :: ps) p0 0 Hne).
    split.
    - intro Hle. apply Qle_bool_iff in Hle. rewrite Hle. reflexivity.
    - intro Hlt. assert (E : Qle_bool (lastq (p0 :: ps) 0) r = false) by (apply Qle_bool_false; exact Hlt).
      rewrite E. fold r. fold rel.
      destruct (filter_last (fun t => Qle_bool r t) (p0 :: ps) 0 Hne) as [Hkne Hklast].
      { apply Qle_bool_iff. lra. }
      assert (Hrelne : rel <> []).
      { unfold rel. intro H. apply map_eq_nil in H. contradiction. }
      assert (Hrellast : lastq rel (sub_shift (s_shift s) 0) == lastq (p0 :: ps) 0 - shiftv s).
      { unfold rel. rewrite lastq_map, Hklast. apply sub_shift_v. }
      destruct (tp_eff_shape (i_t0 (s_int s)) rel Hrelne) as (h & rest & Heff & Hh & Hsh).
      assert (Hlt' : forall d, h < lastq rel d).
      { intro d. rewrite (lastq_default rel d (sub_shift (s_shift s) 0) Hrelne). lra. }
      assert (Hrest : rest <> [] /\ h < lastq rest h).
      { destruct Hsh as [(-> & -> & _)|Hsh].
        - split; [exact Hrelne|apply Hlt'].
        - subst rel. rewrite Hsh in Hlt'. destruct rest as [|x rest'].
          + specialize (Hlt' h). cbn in Hlt'. lra.
          + split; [discriminate|]. specialize (Hlt' h). rewrite lastq_cons in Hlt' by discriminate. exact Hlt'. }
      destruct Hrest as [Hrne Hhlt].
      exists h, rest. split; [exact Heff|]. split; [exact Hh|]. split; [exact Hrne|]. split; [exact Hsh|].
      apply (finish_itc s rel h rest Hrelne Heff Hrne Hhlt).
  Qed.
