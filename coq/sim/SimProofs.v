(** Proofs about the simulator model (C04).  General lemmas are proved for ANY facts record that
    satisfies [good_facts]; PropsC04.v instantiates them at the facts regenerated from /repo. *)
From Coq Require Import QArith List Bool NArith Lia Lqa.
From Sim Require Import Integrator Simulator Protocol.
Import ListNotations.
Open Scope Q_scope.

(** * boolean comparisons *)
Lemma Qltb_iff a b : Qltb a b = true <-> a < b.
Proof.
  unfold Qltb. rewrite negb_true_iff. split; intro H.
  - apply Qnot_le_lt. intro L. apply Qle_bool_iff in L. congruence.
  - destruct (Qle_bool b a) eqn:E; [|reflexivity]. apply Qle_bool_iff in E. exfalso. lra.
Qed.

Lemma Qltb_false a b : Qltb a b = false <-> b <= a.
Proof.
  split; intro H.
  - destruct (Qlt_le_dec a b) as [L|L]; [|exact L]. apply Qltb_iff in L. congruence.
  - destruct (Qltb a b) eqn:E; [|reflexivity]. apply Qltb_iff in E. exfalso. lra.
Qed.

Lemma Qle_bool_false a b : Qle_bool a b = false <-> b < a.
Proof.
  split; intro H.
  - apply Qnot_le_lt. intro L. apply Qle_bool_iff in L. congruence.
  - destruct (Qle_bool a b) eqn:E; [|reflexivity]. apply Qle_bool_iff in E. exfalso. lra.
Qed.

Lemma Qeq_bool_false a b : Qeq_bool a b = false <-> ~ a == b.
Proof.
  split; intro H.
  - intro E. apply Qeq_bool_iff in E. congruence.
  - destruct (Qeq_bool a b) eqn:E; [|reflexivity]. apply Qeq_bool_iff in E. contradiction.
Qed.

(** * strictly increasing lists *)
Fixpoint incr (l : list Q) : Prop :=
  match l with
  | [] => True
  | x :: r => (forall y, In y r -> x < y) /\ incr r
  end.

Lemma incrb_incr l : incrb l = true -> incr l.
Proof.
  induction l as [|x r IH]; [exact (fun _ => I)|].
  cbn [incrb]. destruct r as [|y r'].
  - intros _. cbn. split; [intros ? []|exact I].
  - intro H. apply andb_true_iff in H. destruct H as [Hxy Hr]. apply Qltb_iff in Hxy.
    specialize (IH Hr). split; [|exact IH].
    intros z [<-|Hz]; [exact Hxy|]. destruct IH as [Hy _]. specialize (Hy z Hz). lra.
Qed.

Lemma incr_incrb l : incr l -> incrb l = true.
Proof.
  induction l as [|x r IH]; [reflexivity|].
  intros [Hx Hr]. cbn [incrb]. destruct r as [|y r']; [reflexivity|].
  apply andb_true_iff. split; [apply Qltb_iff, Hx; left; reflexivity|exact (IH Hr)].
Qed.

Lemma incr_app l1 l2 :
  incr (l1 ++ l2) <-> incr l1 /\ incr l2 /\ (forall a b, In a l1 -> In b l2 -> a < b).
Proof.
  induction l1 as [|x r IH]; cbn [app incr].
  - split; [intro H; repeat split; [exact H | intros ? ? []] | intros (_ & H & _); exact H].
  - rewrite IH. split.
    + intros (Hx & Hr & H2 & H12). repeat split; try assumption.
      * intros y Hy. apply Hx. apply in_or_app. left. exact Hy.
      * intros a b [<-|Ha] Hb; [apply Hx; apply in_or_app; right; exact Hb | exact (H12 a b Ha Hb)].
    + intros ((Hx & Hr) & H2 & H12). repeat split; try assumption.
      * intros y Hy. apply in_app_or in Hy. destruct Hy as [Hy|Hy]; [exact (Hx y Hy)|apply H12; [left; reflexivity|exact Hy]].
      * intros a b Ha Hb. apply H12; [right; exact Ha|exact Hb].
Qed.

Lemma incr_map (f : Q -> Q) l :
  (forall a b, a < b -> f a < f b) -> incr l -> incr (map f l).
Proof.
  intros Hf. induction l as [|x r IH]; [exact (fun H => H)|].
  intros [Hx Hr]. cbn. split; [|exact (IH Hr)].
  intros y Hy. apply in_map_iff in Hy. destruct Hy as (z & <- & Hz). apply Hf, Hx, Hz.
Qed.

Lemma incr_filter (f : Q -> bool) l : incr l -> incr (filter f l).
Proof.
  induction l as [|x r IH]; [exact (fun H => H)|].
  intros [Hx Hr]. cbn. destruct (f x); [|exact (IH Hr)].
  split; [|exact (IH Hr)]. intros y Hy. apply filter_In in Hy. apply Hx, Hy.
Qed.

(** * last element *)
Lemma lastq_app l x d : lastq (l ++ [x]) d = x.
Proof.
  induction l as [|y r IH]; [reflexivity|].
  cbn [app lastq]. destruct (r ++ [x]) eqn:E; [destruct r; discriminate|]. exact IH.
Qed.

Lemma lastq_In l d : l <> [] -> In (lastq l d) l.
Proof.
  induction l as [|y r IH]; [congruence|]. intros _.
  destruct r as [|z r']; [left; reflexivity|].
  right. change (lastq (y :: z :: r') d) with (lastq (z :: r') d). apply IH. discriminate.
Qed.

Lemma lastq_cons x l d : l <> [] -> lastq (x :: l) d = lastq l d.
Proof. destruct l; [congruence|reflexivity]. Qed.

Lemma lastq_default l d d' : l <> [] -> lastq l d = lastq l d'.
Proof.
  induction l as [|y r IH]; [congruence|]. intros _.
  destruct r as [|z r']; [reflexivity|].
  change (lastq (z :: r') d = lastq (z :: r') d'). apply IH. discriminate.
Qed.

Lemma lastq_map (f : Q -> Q) l d : lastq (map f l) (f d) = f (lastq l d).
Proof.
  induction l as [|y r IH]; [reflexivity|].
  destruct r as [|z r']; [reflexivity|]. exact IH.
Qed.

Lemma lastq_map_fst {A} (g : Q -> A) l d : lastq (map fst (map (fun t => (t, g t)) l)) d = lastq l d.
Proof. rewrite map_map. cbn. rewrite map_id. reflexivity. Qed.

Lemma exists_last' (l : list Q) : l <> [] -> exists pre x, l = pre ++ [x].
Proof. intro H. destruct (exists_last H) as (pre & x & E). eauto. Qed.

(** the last element of a list dominates a strictly increasing list *)
Lemma incr_last_max pre x : incr (pre ++ [x]) -> forall a, In a pre -> a < x.
Proof. intros H a Ha. apply incr_app in H. destruct H as (_ & _ & H). apply H; [exact Ha|left; reflexivity]. Qed.

Lemma filter_last (f : Q -> bool) l d :
  l <> [] -> f (lastq l d) = true -> filter f l <> [] /\ lastq (filter f l) d = lastq l d.
Proof.
  induction l as [|y r IH]; [congruence|]. intros _ Hf.
  destruct r as [|z r'].
  - cbn in *. rewrite Hf. split; [discriminate|reflexivity].
  - change (lastq (y :: z :: r') d) with (lastq (z :: r') d) in *.
    destruct (IH ltac:(discriminate) Hf) as [Hne Hl].
    cbn [filter]. destruct (f y).
    + split; [discriminate|]. rewrite lastq_cons; [exact Hl|exact Hne].
    + split; [exact Hne|exact Hl].
Qed.

Lemma incr_bounds h rest :
  incr (h :: rest) -> rest <> [] ->
  forall t, In t (h :: rest) -> h <= t /\ t <= lastq rest h.
Proof.
  intros [Hh Hr] Hne t Ht.
  destruct (exists_last' rest Hne) as (pre & x & E). subst rest. rewrite lastq_app.
  destruct Ht as [<-|Ht].
  - split; [lra|]. specialize (Hh x). assert (h < x) by (apply Hh, in_or_app; right; left; reflexivity). lra.
  - split; [specialize (Hh t Ht); lra|].
    apply in_app_or in Ht. destruct Ht as [Ht|[<-|[]]]; [|lra].
    pose proof (incr_last_max pre x Hr t Ht). lra.
Qed.

Section IntegProofs.
  Variables Y P : Type.
  Variable flow : P -> Q -> Y -> Q -> Y.
  Variable solve_ok : P -> Q -> Y -> Q -> bool.

  Notation solve_ivp := (solve_ivp Y P flow solve_ok).
  Notation integrate_time_course := (integrate_time_course Y P flow solve_ok).

  (** ** the solver's contract on a forward span *)
  Lemma solve_ivp_forward p y0 h rest :
    rest <> [] -> h < lastq rest h ->
    solve_ivp p y0 (h :: rest) =
      if incrb (h :: rest)
      then if solve_ok p h y0 (lastq rest h)
           then IOk (map (fun t => (t, flow p h y0 (t - h))) (h :: rest))
           else IFail
      else IRaiseValue.
  Proof.
    intros Hne Hlt. unfold Integrator.solve_ivp.
    rewrite (lastq_cons h rest h Hne).
    set (tf := lastq rest h) in *.
    assert (Hmin : Qmin' h tf = h) by (unfold Qmin'; destruct (Qle_bool h tf) eqn:E; [reflexivity|apply Qle_bool_false in E; lra]).
    assert (Hmax : Qmax' h tf = tf) by (unfold Qmax'; destruct (Qle_bool h tf) eqn:E; [reflexivity|apply Qle_bool_false in E; lra]).
    rewrite Hmin, Hmax.
    destruct (incrb (h :: rest)) eqn:Hin.
    - assert (Hw : forallb (fun t => Qle_bool h t && Qle_bool t tf) (h :: rest) = true).
      { apply forallb_forall. intros t Ht.
        destruct (incr_bounds h rest (incrb_incr _ Hin) Hne t Ht) as [A B].
        apply andb_true_iff. split; apply Qle_bool_iff; assumption. }
      rewrite Hw. cbn [negb andb].
      rewrite andb_false_r. cbn [negb].
      assert (E1 : Qltb tf h = false) by (apply Qltb_false; lra). rewrite E1. cbn [andb].
      assert (E2 : Qeq_bool h tf = false) by (apply Qeq_bool_false; lra). rewrite E2. reflexivity.
    - destruct (negb (forallb (fun t => Qle_bool h t && Qle_bool t tf) (h :: rest))); [reflexivity|].
      assert (E0 : Qltb h tf = true) by (apply Qltb_iff; exact Hlt). rewrite E0. reflexivity.
  Qed.

  (** ** one call of the integrator on a forward stretch, followed by [_handle_simulation_results] *)
  Definition tp_eff (t0 : Q) (tp : list Q) : list Q :=
    match tp with [] => [] | t :: _ => if negb (Qeq_bool t t0) then t0 :: tp else tp end.

  Lemma itc_unfold p ig tp :
    tp <> [] ->
    integrate_time_course p ig tp =
      match solve_ivp p (i_y0 ig) (tp_eff (i_t0 ig) tp) with
      | IOk tc => (mkInteg (lastq (map fst tc) (i_t0 ig)) (last (map snd tc) (i_y0 ig)) (i_orig ig), IOk tc)
      | r => (ig, r)
      end.
  Proof. destruct tp; [congruence|reflexivity]. Qed.

  Lemma tp_eff_shape t0 tp :
    tp <> [] ->
    exists h rest, tp_eff t0 tp = h :: rest /\ h == t0
      /\ ((h = t0 /\ rest = tp /\ forall d, ~ hd d tp == t0) \/ tp = h :: rest).
  Proof.
    destruct tp as [|t r]; [congruence|]. intros _. unfold tp_eff.
    destruct (Qeq_bool t t0) eqn:E; cbn [negb].
    - exists t, r. split; [reflexivity|]. split; [apply Qeq_bool_iff; exact E|right; reflexivity].
    - exists t0, (t :: r). split; [reflexivity|]. split; [reflexivity|]. left.
      split; [reflexivity|]. split; [reflexivity|]. intros d. cbn. apply Qeq_bool_false. exact E.
  Qed.

  Lemma last_map_snd (g : Q -> Y) l h d :
    last (map snd (map (fun t => (t, g t)) (h :: l))) d = g (lastq l h).
  Proof.
    rewrite map_map. cbn [snd]. revert h. induction l as [|x r IH]; intro h; [reflexivity|].
    change (last (map (fun t => g t) (h :: x :: r)) d) with (last (map (fun t => g t) (x :: r)) d).
    rewrite IH. destruct r as [|z r']; [reflexivity|].
    change (lastq (h :: x :: z :: r') h) with (lastq (z :: r') h).
    change (lastq (x :: z :: r') h) with (lastq (z :: r') h).
    change (lastq (z :: r') x) with (lastq (z :: r') x).
    f_equal. apply lastq_default. discriminate.
  Qed.

End IntegProofs.

Section SimProofs.
  Variables Y P U O : Type.
  Variable flow : P -> Q -> Y -> Q -> Y.
  Variable solve_ok : P -> Q -> Y -> Q -> bool.
  Variable conv : Y -> Y -> bool.
  Variable pupd : P -> U -> P.
  Variable yovr : Y -> O -> Y.
  Variable fx : sim_facts.

  Notation sim := (sim Y P).
  Notation mflow := (mflow Y P flow fx).
  Notation mok := (mok Y P solve_ok fx).
  Notation simulate := (simulate Y P flow solve_ok fx).
  Notation simulate_time_course := (simulate_time_course Y P flow solve_ok fx).
  Notation index_of := (index_of Y P).
  Notation prior_t_end := (prior_t_end Y P).
  Notation reached := (reached Y P).
  Notation has_errors := (has_errors Y P).

  (** what the theorems need from the regenerated facts *)
  Record good_facts : Prop := {
    g_sim_frame : f_sim_frame fx = FrameAbs;
    g_sim_cmp : f_sim_cmp fx = CmpLe;
    g_tc_frame : f_tc_frame fx = FrameAbs;
    g_tc_cmp : f_tc_cmp fx = CmpLe;
    g_tc_keep : f_tc_keep fx = CmpGe;
    g_skip_sim : f_skip_sim fx = true;
    g_skip_tc : f_skip_tc fx = true;
    g_ptc_cmp : f_ptc_cmp fx = CmpLe;
    g_win_lo : f_win_lo fx = CmpGt;
    g_win_hi : f_win_hi fx = CmpLe;
    g_updvar_keeps : f_updvar_keeps fx = true;
    g_abs_time : f_abs_time fx = true
  }.

  Definition shiftv (s : sim) : Q := match s_shift s with None => 0 | Some x => x end.

  Lemma sub_shift_v s t : sub_shift (s_shift s) t == t - shiftv s.
  Proof. unfold sub_shift, shiftv. destruct (s_shift s); lra. Qed.
  Lemma add_shift_v s t : add_shift (s_shift s) t == t + shiftv s.
  Proof. unfold add_shift, shiftv. destruct (s_shift s); lra. Qed.

  (** ** the invariant of every reachable state (no steady-state run in the history) *)
  Definition Inv (s : sim) : Prop :=
    match s_vars s with
    | None => s_shift s = None /\ i_t0 (s_int s) == 0
    | Some segs =>
        exists segs' sg t y, segs = segs' ++ [sg ++ [(t, y)]]
          /\ incr (index_of s) /\ i_t0 (s_int s) + shiftv s == t /\ 0 <= i_t0 (s_int s)
    end.

  Lemma last_row_snoc (segs' : list (segment Y)) sg (r : Q * Y) :
    last_row Y (segs' ++ [sg ++ [r]]) = Some r.
  Proof. unfold last_row. rewrite rev_unit. rewrite rev_unit. reflexivity. Qed.

  Lemma index_snoc (segs' : list (segment Y)) sg t (y : Y) :
    concat (map (seg_index Y) (segs' ++ [sg ++ [(t, y)]]))
    = (concat (map (seg_index Y) segs') ++ map fst sg) ++ [t].
  Proof.
    rewrite map_app, concat_app. cbn. unfold seg_index. rewrite map_app. cbn.
    rewrite app_nil_r, app_assoc. reflexivity.
  Qed.

  (** what the invariant says about [prior_t_end] *)
  Lemma Inv_prior s :
    Inv s ->
    exists r, prior_t_end s = Some r /\ i_t0 (s_int s) + shiftv s == r /\ incr (index_of s)
              /\ (forall a, In a (index_of s) -> a <= r)
              /\ (s_vars s = None -> s_shift s = None /\ r = 0)
              /\ (s_vars s <> None -> exists pre, index_of s = pre ++ [r])
              /\ 0 <= i_t0 (s_int s).
  Proof.
    unfold Inv, Simulator.prior_t_end, Simulator.index_of. destruct (s_vars s) as [segs|] eqn:Ev.
    - intros (segs' & sg & t & y & -> & Hinc & Ht0 & Hpos). exists t.
      rewrite last_row_snoc. rewrite index_snoc in *.
      repeat split; try assumption.
      + intros a Ha. apply in_app_or in Ha. destruct Ha as [Ha|[<-|[]]]; [|lra].
        pose proof (incr_last_max _ _ Hinc a Ha). lra.
      + discriminate.
      + discriminate.
      + intros _. eexists. reflexivity.
    - intros [Hs Ht0]. exists 0. unfold shiftv. rewrite Hs.
      split; [reflexivity|]. split; [lra|]. split; [exact I|]. split; [intros a []|].
      split; [intros _; split; reflexivity|]. split; [congruence|lra].
  Qed.

  (** the state after an accepted integration: rows [(t + shift, flow ...)] for the points after the first *)
  Definition new_rows (s : sim) (h : Q) (pts : list Q) : segment Y :=
    map (fun t => (add_shift (s_shift s) t, mflow s (s_mp s) h (i_y0 (s_int s)) (t - h))) pts.

  Definition pars_list (s : sim) : list P := match s_pars s with None => [] | Some l => l end.

  Definition after_ok (s : sim) (h : Q) (rest : list Q) : sim :=
    mkSim (s_y0 s)
      (Some (match s_vars s with
             | None => [new_rows s h (h :: rest)]
             | Some l => l ++ [new_rows s h rest]
             end))
      (Some (pars_list s ++ [s_mp s])) (s_shift s) (s_errs s)
      (mkInteg (lastq rest h) (mflow s (s_mp s) h (i_y0 (s_int s)) (lastq rest h - h)) (i_orig (s_int s)))
      (s_mp s).

  Definition after_fail (s : sim) : sim :=
    mkSim (s_y0 s) (s_vars s) (s_pars s) (s_shift s) (s_errs s ++ [EIntegration]) (s_int s) (s_mp s).

  Lemma finish_itc (s : sim) tp h rest :
    tp <> [] -> tp_eff (i_t0 (s_int s)) tp = h :: rest -> rest <> [] -> h < lastq rest h ->
    finish Y P s (integrate_time_course Y P (mflow s) (mok s) (s_mp s) (s_int s) tp) true =
      if incrb (h :: rest)
      then if mok s (s_mp s) h (i_y0 (s_int s)) (lastq rest h)
           then (after_ok s h rest, Done)
           else (after_fail s, Done)
      else (s, RaisedValue).
  Proof.
    intros Hne Heff Hr Hlt. rewrite (itc_unfold Y P (mflow s) (mok s) _ _ _ Hne), Heff.
    rewrite (solve_ivp_forward Y P (mflow s) (mok s) _ _ _ _ Hr Hlt).
    destruct s as [y0 vars pars sh errs ig mp]. cbn [s_int s_mp s_y0 s_vars s_pars s_shift s_errs] in *.
    destruct (incrb (h :: rest)); [|reflexivity].
    destruct (mok _ mp h (i_y0 ig) (lastq rest h)); [|reflexivity].
    unfold finish, set_int, handle_results, after_ok, new_rows, pars_list.
    cbn [fst snd s_int s_mp s_y0 s_vars s_pars s_shift s_errs].
    rewrite lastq_map_fst. rewrite (lastq_cons h rest _ Hr).
    rewrite (lastq_default rest (i_t0 ig) h Hr).
    rewrite last_map_snd.
    f_equal. f_equal.
    - rewrite map_map. cbn [fst snd]. destruct vars; reflexivity.
  Qed.

  Lemma new_rows_index s h pts : map fst (new_rows s h pts) = map (add_shift (s_shift s)) pts.
  Proof. unfold new_rows. rewrite map_map. reflexivity. Qed.

  Lemma concat_snoc (l : list (segment Y)) nr :
    concat (map (seg_index Y) (l ++ [nr])) = concat (map (seg_index Y) l) ++ map fst nr.
  Proof. rewrite map_app, concat_app. cbn [map concat]. rewrite app_nil_r. reflexivity. Qed.

  Lemma after_ok_index s h rest :
    index_of (after_ok s h rest) =
      (match s_vars s with None => [add_shift (s_shift s) h] | Some _ => index_of s end)
      ++ map (add_shift (s_shift s)) rest.
  Proof.
    unfold after_ok, Simulator.index_of. cbn [s_vars].
    destruct (s_vars s) as [l|].
    - rewrite concat_snoc, new_rows_index. reflexivity.
    - change [new_rows s h (h :: rest)] with ([] ++ [new_rows s h (h :: rest)]).
      rewrite concat_snoc, new_rows_index. reflexivity.
  Qed.

  Lemma after_ok_inv s h rest :
    Inv s -> h == i_t0 (s_int s) -> rest <> [] -> incr (h :: rest) ->
    Inv (after_ok s h rest)
    /\ prior_t_end (after_ok s h rest) = Some (add_shift (s_shift s) (lastq rest h)).
  Proof.
    intros HI Hh Hne Hinc.
    destruct (Inv_prior s HI) as (r & Hpr & Hsync & Hincr & Hmax & Hnone & Hsome & Hpos).
    destruct (exists_last' rest Hne) as (pre & x & ->). rewrite lastq_app.
    assert (Hshape : exists segs' sg y,
               s_vars (after_ok s h (pre ++ [x])) = Some (segs' ++ [sg ++ [(add_shift (s_shift s) x, y)]])).
    { unfold after_ok. cbn [s_vars]. destruct (s_vars s) as [l|].
      - exists l, (new_rows s h pre). eexists. unfold new_rows at 1. rewrite map_app. reflexivity.
      - exists [], (new_rows s h (h :: pre)). eexists. cbn [app]. unfold new_rows at 1.
        rewrite app_comm_cons, map_app. reflexivity. }
    destruct Hshape as (segs' & sg & y & Hv).
    assert (Hidx : incr (index_of (after_ok s h (pre ++ [x])))).
    { rewrite after_ok_index. destruct Hinc as [Hh' Hr'].
      assert (Hmono : forall a b, a < b -> add_shift (s_shift s) a < add_shift (s_shift s) b).
      { intros a b Hab. rewrite !add_shift_v. lra. }
      apply incr_app. split; [|split].
      - destruct (s_vars s); [exact Hincr|]. cbn. split; [intros ? []|exact I].
      - apply incr_map; assumption.
      - intros a b Ha Hb. apply in_map_iff in Hb. destruct Hb as (t & <- & Ht).
        specialize (Hh' t Ht). rewrite add_shift_v.
        destruct (s_vars s) eqn:Ev.
        + specialize (Hmax a Ha). lra.
        + destruct Ha as [<-|[]]. rewrite add_shift_v. lra. }
    split.
    - unfold Inv. rewrite Hv. exists segs', sg, (add_shift (s_shift s) x), y.
      split; [reflexivity|]. split; [exact Hidx|].
      unfold after_ok at 1 3. cbn [s_int i_t0]. rewrite lastq_app.
      unfold shiftv. unfold after_ok. cbn [s_shift]. fold (shiftv s). rewrite add_shift_v.
      split; [lra|]. destruct Hinc as [Hh' _]. assert (Hx : In x (pre ++ [x])) by (apply in_or_app; right; left; reflexivity). specialize (Hh' x Hx). lra.
    - unfold Simulator.prior_t_end. rewrite Hv, last_row_snoc. reflexivity.
  Qed.

  Lemma reached_prior s r : prior_t_end s = Some r -> reached s = r.
  Proof. unfold Simulator.reached. intros ->. reflexivity. Qed.

  Definition step_result (s : sim) (h : Q) (rest : list Q) : sim * outcome :=
    if incrb (h :: rest)
    then if mok s (s_mp s) h (i_y0 (s_int s)) (lastq rest h)
         then (after_ok s h rest, Done)
         else (after_fail s, Done)
    else (s, RaisedValue).

  (** ** simulate_time_course *)
  Lemma tc_step (good : good_facts) s pts :
    Inv s -> has_errors s = false -> pts <> [] ->
    let r := reached s in
    let rel := map (sub_shift (s_shift s)) (filter (fun t => Qle_bool r t) pts) in
    (lastq pts 0 <= r -> simulate_time_course s pts = (s, RaisedValue)) /\
    (r < lastq pts 0 ->
       exists h rest, tp_eff (i_t0 (s_int s)) rel = h :: rest /\ h == i_t0 (s_int s) /\ rest <> []
         /\ ((h = i_t0 (s_int s) /\ rest = rel /\ forall d, ~ hd d rel == i_t0 (s_int s)) \/ rel = h :: rest)
         /\ simulate_time_course s pts = step_result s h rest).
  Proof.
    intros HI Herr Hne r rel.
    destruct (Inv_prior s HI) as (r0 & Hpr & Hsync & Hincr & Hmax & Hnone & Hsome & Hpos).
    assert (Hr : r = r0) by (apply reached_prior; exact Hpr). subst r0.
    unfold Simulator.simulate_time_course. rewrite Herr, Hpr.
    destruct pts as [|p0 ps]; [congruence|].
    rewrite (g_tc_frame good), (g_tc_cmp good), (g_tc_keep good), (g_skip_tc good).
    cbn [framed fst snd cmpb].
    rewrite (lastq_default (p0 :: ps) p0 0 Hne).
    split.
    - intro Hle. apply Qle_bool_iff in Hle. rewrite Hle. reflexivity.
    - intro Hlt. assert (E : Qle_bool (lastq (p0 :: ps) 0) r = false) by (apply Qle_bool_false; exact Hlt).
      rewrite E. fold r. fold rel.
      destruct (filter_last (fun t => Qle_bool r t) (p0 :: ps) 0 Hne) as [Hkne Hklast].
      { apply Qle_bool_iff. lra. }
      assert (Hrelne : rel <> []).
      { unfold rel. intro H. apply map_eq_nil in H. contradiction. }
      assert (Hrellast : lastq rel (sub_shift (s_shift s) 0) == lastq (p0 :: ps) 0 - shiftv s).
      { unfold rel. rewrite lastq_map, Hklast. apply sub_shift_v. }
      destruct (tp_eff_shape (i_t0 (s_int s)) rel Hrelne) as (h & rest & Heff & Hh & Hsh).
      assert (Hlt' : forall d, h < lastq rel d).
      { intro d. rewrite (lastq_default rel d (sub_shift (s_shift s) 0) Hrelne). lra. }
      assert (Hrest : rest <> [] /\ h < lastq rest h).
      { destruct Hsh as [(-> & -> & _)|Hsh].
        - split; [exact Hrelne|apply Hlt'].
        - subst rel. rewrite Hsh in Hlt'. destruct rest as [|x rest'].
          + specialize (Hlt' h). cbn in Hlt'. lra.
          + split; [discriminate|]. specialize (Hlt' h). rewrite lastq_cons in Hlt' by discriminate. exact Hlt'. }
      destruct Hrest as [Hrne Hhlt].
      exists h, rest. split; [exact Heff|]. split; [exact Hh|]. split; [exact Hrne|]. split; [exact Hsh|].
      apply (finish_itc s rel h rest Hrelne Heff Hrne Hhlt).
  Qed.

  (** lists of times equal up to [==] *)
  Definition Qeql : list Q -> list Q -> Prop := Forall2 Qeq.

  Lemma map_add_sub (s : sim) l : Qeql (map (add_shift (s_shift s)) (map (sub_shift (s_shift s)) l)) l.
  Proof.
    induction l as [|x r IH]; [constructor|]. cbn [map]. constructor; [|exact IH].
    rewrite add_shift_v, sub_shift_v. lra.
  Qed.

  Lemma incr_map_sub (s : sim) l : incr (map (sub_shift (s_shift s)) l) <-> incr l.
  Proof.
    induction l as [|x r IH]; [reflexivity|]. cbn [map incr]. rewrite IH.
    split; intros [Hx Hr]; (split; [|exact Hr]).
    - intros y Hy. specialize (Hx (sub_shift (s_shift s) y) (in_map _ _ _ Hy)).
      rewrite !sub_shift_v in Hx. lra.
    - intros y Hy. apply in_map_iff in Hy. destruct Hy as (z & <- & Hz). specialize (Hx z Hz).
      rewrite !sub_shift_v. lra.
  Qed.

  Lemma filter_filter_imp {A} (f g : A -> bool) l :
    (forall x, f x = true -> g x = true) -> filter f (filter g l) = filter f l.
  Proof.
    intros H. induction l as [|x r IH]; [reflexivity|]. cbn [filter].
    destruct (g x) eqn:Eg; cbn [filter].
    - rewrite IH. reflexivity.
    - destruct (f x) eqn:Ef; [rewrite (H x Ef) in Eg; discriminate|exact IH].
  Qed.

  Lemma filter_all {A} (f : A -> bool) l : (forall x, In x l -> f x = true) -> filter f l = l.
  Proof.
    induction l as [|x r IH]; [reflexivity|]. intros H. cbn [filter].
    rewrite (H x (or_introl eq_refl)). f_equal. apply IH. intros y Hy. apply H. right. exact Hy.
  Qed.

  (** the points appended by an accepted time course are exactly the requested points later than
      the time already reached (and the array is refused iff the kept part is not increasing) *)
  Lemma tc_new_points (s : sim) pts h rest :
    let r := reached s in
    let keep := filter (fun t => Qle_bool r t) pts in
    let rel := map (sub_shift (s_shift s)) keep in
    i_t0 (s_int s) + shiftv s == r -> h == i_t0 (s_int s) ->
    ((h = i_t0 (s_int s) /\ rest = rel /\ forall d, ~ hd d rel == i_t0 (s_int s)) \/ rel = h :: rest) ->
    (incr (h :: rest) <-> incr keep)
    /\ (incr (h :: rest) ->
        Qeql (map (add_shift (s_shift s)) rest) (filter (fun t => Qltb r t) pts)).
  Proof.
    intros r keep rel Hsync Hh Hsh.
    assert (Hge : forall t, In t rel -> i_t0 (s_int s) <= t).
    { intros t Ht. apply in_map_iff in Ht. destruct Ht as (z & <- & Hz).
      apply filter_In in Hz. destruct Hz as [_ Hz]. apply Qle_bool_iff in Hz. rewrite sub_shift_v. lra. }
    destruct Hsh as [(-> & -> & Hhd)|Hsh].
    - split.
      + cbn [incr]. fold rel. unfold rel at 2. rewrite incr_map_sub. split; [tauto|]. intro Hk.
        split; [|exact Hk]. fold rel.
        assert (Hrel : incr rel) by (unfold rel; apply incr_map_sub; exact Hk).
        destruct rel as [|x rl] eqn:Erel; [intros ? []|].
        intros y Hy. assert (Hx : i_t0 (s_int s) < x).
        { specialize (Hge x (or_introl eq_refl)). specialize (Hhd 0). cbn in Hhd.
          destruct (Qlt_le_dec (i_t0 (s_int s)) x) as [L|L]; [exact L|]. exfalso. apply Hhd. lra. }
        destruct Hy as [<-|Hy]; [exact Hx|]. destruct Hrel as [Hxr _]. specialize (Hxr y Hy). lra.
      + intros [Hall _]. fold rel in Hall.
        assert (E : filter (fun t => Qltb r t) pts = keep).
        { unfold keep. apply filter_ext_in. intros t Ht.
          destruct (Qle_bool r t) eqn:El.
          - apply Qltb_iff. assert (Hin : In (sub_shift (s_shift s) t) rel).
            { unfold rel, keep. apply in_map, filter_In. split; assumption. }
            specialize (Hall _ Hin). rewrite sub_shift_v in Hall. lra.
          - apply Qltb_false. apply Qle_bool_false in El. lra. }
        rewrite E. apply map_add_sub.
    - destruct keep as [|k0 krest] eqn:Ek; [discriminate|].
      unfold rel in Hsh. cbn [map] in Hsh. injection Hsh as Hk0 Hkr.
      split.
      + rewrite <- Hk0, <- Hkr. change (incr (map (sub_shift (s_shift s)) (k0 :: krest)) <-> incr (k0 :: krest)).
        apply incr_map_sub.
      + intros [Hall _].
        assert (E : filter (fun t => Qltb r t) pts = krest).
        { rewrite <- (filter_filter_imp (fun t => Qltb r t) (fun t => Qle_bool r t)).
          - fold keep. rewrite Ek. cbn [filter].
            assert (E0 : Qltb r k0 = false).
            { apply Qltb_false. rewrite <- Hk0 in Hh. rewrite sub_shift_v in Hh. lra. }
            rewrite E0. apply filter_all. intros t Ht. apply Qltb_iff.
            assert (Hin : In (sub_shift (s_shift s) t) rest) by (rewrite <- Hkr; apply in_map; exact Ht).
            specialize (Hall _ Hin). rewrite sub_shift_v in Hall. lra.
          - intros t Ht. apply Qltb_iff in Ht. apply Qle_bool_iff. lra. }
        rewrite E, <- Hkr. apply map_add_sub.
  Qed.

  (** ** np.linspace *)
  Definition lin_pt (a b : Q) (m : nat) (i : nat) : Q :=
    a + inject_Z (Z.of_nat i) * ((b - a) / inject_Z (Z.of_nat m)).

  Lemma linspace_shape a b m :
    linspace a b (S (S m)) = lin_pt a b (S m) 0 :: (map (lin_pt a b (S m)) (seq 1 m) ++ [b]).
  Proof. reflexivity. Qed.

  Lemma inject_nat_lt i j : (i < j)%nat -> inject_Z (Z.of_nat i) < inject_Z (Z.of_nat j).
  Proof. intro H. rewrite <- Zlt_Qlt. lia. Qed.

  Lemma lin_step_pos a b m : a < b -> 0 < (b - a) / inject_Z (Z.of_nat (S m)).
  Proof.
    intro H. apply Qlt_shift_div_l.
    - change 0 with (inject_Z (Z.of_nat 0)). apply inject_nat_lt. lia.
    - lra.
  Qed.

  Lemma lin_pt_mono a b m i j : a < b -> (i < j)%nat -> lin_pt a b (S m) i < lin_pt a b (S m) j.
  Proof.
    intros Hab Hij. unfold lin_pt. pose proof (lin_step_pos a b m Hab) as Hd.
    pose proof (inject_nat_lt i j Hij) as Hq.
    assert (inject_Z (Z.of_nat i) * ((b - a) / inject_Z (Z.of_nat (S m)))
            < inject_Z (Z.of_nat j) * ((b - a) / inject_Z (Z.of_nat (S m)))).
    { apply Qmult_lt_compat_r; assumption. }
    lra.
  Qed.

  Lemma lin_pt_end a b m : lin_pt a b (S m) (S m) == b.
  Proof.
    unfold lin_pt. field. intro H.
    assert (0 < inject_Z (Z.of_nat (S m))) by (change 0 with (inject_Z (Z.of_nat 0)); apply inject_nat_lt; lia).
    lra.
  Qed.

  Lemma lin_pt_start a b m : lin_pt a b m 0 == a.
  Proof. unfold lin_pt. change (inject_Z (Z.of_nat 0)) with 0. rewrite Qmult_0_l. lra. Qed.

  Lemma incr_map_seq (f : nat -> Q) k n :
    (forall i j, (i < j)%nat -> f i < f j) -> incr (map f (seq k n)).
  Proof.
    intro Hf. revert k. induction n as [|n IH]; intro k; [exact I|].
    cbn [seq map incr]. split; [|apply IH].
    intros y Hy. apply in_map_iff in Hy. destruct Hy as (j & <- & Hj). apply in_seq in Hj. apply Hf. lia.
  Qed.

  Lemma linspace_incr a b m : a < b -> incr (linspace a b (S (S m))).
  Proof.
    intro Hab. rewrite linspace_shape.
    change (incr (map (lin_pt a b (S m)) (seq 0 (S m)) ++ [b])).
    apply incr_app. split; [|split].
    - apply incr_map_seq. intros i j Hij. apply lin_pt_mono; assumption.
    - cbn. split; [intros ? []|exact I].
    - intros x y Hx Hy. destruct Hy as [Hy|[]]. subst y.
      apply in_map_iff in Hx. destruct Hx as (i & <- & Hi). apply in_seq in Hi.
      rewrite <- (lin_pt_end a b m) at 2. apply lin_pt_mono; [assumption|lia].
  Qed.

  (** ** simulate *)
  Definition n_points (steps : option nat) : nat := match steps with None => 100%nat | Some st => S st end.

  Definition sim_h (s : sim) (t_end : Q) (m : nat) : Q :=
    lin_pt (i_t0 (s_int s)) (sub_shift (s_shift s) t_end) (S m) 0.
  Definition sim_rest (s : sim) (t_end : Q) (m : nat) : list Q :=
    map (lin_pt (i_t0 (s_int s)) (sub_shift (s_shift s) t_end) (S m)) (seq 1 m) ++ [sub_shift (s_shift s) t_end].

  Lemma sim_step (good : good_facts) s t_end steps m :
    Inv s -> has_errors s = false -> n_points steps = S (S m) ->
    (t_end <= reached s -> simulate s t_end steps = (s, RaisedValue)) /\
    (reached s < t_end ->
       sim_h s t_end m == i_t0 (s_int s) /\ incr (sim_h s t_end m :: sim_rest s t_end m)
       /\ simulate s t_end steps =
            if mok s (s_mp s) (sim_h s t_end m) (i_y0 (s_int s)) (sub_shift (s_shift s) t_end)
            then (after_ok s (sim_h s t_end m) (sim_rest s t_end m), Done) else (after_fail s, Done)).
  Proof.
    intros HI Herr Hn.
    destruct (Inv_prior s HI) as (r0 & Hpr & Hsync & Hincr & Hmax & Hnone & Hsome & Hpos).
    assert (Hr : reached s = r0) by (apply reached_prior; exact Hpr). subst r0.
    unfold Simulator.simulate. rewrite Herr, Hpr.
    rewrite (g_sim_frame good), (g_sim_cmp good), (g_skip_sim good). unfold framed, cmpb. cbn [fst snd].
    split.
    - intro Hle. apply Qle_bool_iff in Hle. rewrite Hle. reflexivity.
    - intro Hlt. assert (E : Qle_bool t_end (reached s) = false) by (apply Qle_bool_false; exact Hlt). rewrite E.
      set (h := sim_h s t_end m). set (rest := sim_rest s t_end m).
      set (t0 := i_t0 (s_int s)) in *. set (te := sub_shift (s_shift s) t_end) in *.
      assert (Hte : t0 < te) by (unfold te; rewrite sub_shift_v; lra).
      assert (Hh : h == t0) by apply lin_pt_start.
      assert (Hinc : incr (h :: rest)) by (pose proof (linspace_incr t0 te m Hte) as L; rewrite linspace_shape in L; exact L).
      split; [exact Hh|]. split; [exact Hinc|].
      unfold Integrator.integrate. fold (n_points steps). rewrite Hn. fold t0. rewrite linspace_shape.
      change (lin_pt t0 te (S m) 0) with h.
      change (map (lin_pt t0 te (S m)) (seq 1 m) ++ [te]) with rest.
      assert (Heff : tp_eff t0 (h :: rest) = h :: rest).
      { unfold tp_eff. apply Qeq_bool_iff in Hh. rewrite Hh. reflexivity. }
      assert (Hrne : rest <> []) by (unfold rest, sim_rest; destruct (map _ (seq 1 m)); discriminate).
      assert (Hlast : lastq rest h = te) by (unfold rest, sim_rest; apply lastq_app).
      rewrite (finish_itc s (h :: rest) h rest ltac:(discriminate) Heff Hrne).
      + rewrite (incr_incrb _ Hinc), Hlast. reflexivity.
      + rewrite Hlast. lra.
  Qed.

  (** ** the state the next segment starts from *)
  Definition start_state (s : sim) : Y :=
    match s_vars s with
    | None => s_y0 s
    | Some segs =>
        match last_row Y segs with
        | Some (t, y) => match s_shift s with
                         | Some sh => if Qeq_bool sh t then s_y0 s else y
                         | None => y
                         end
        | None => s_y0 s
        end
    end.

  (** the integrator holds that state: the last row, or the overridden state while an override is pending *)
  Definition VInv (s : sim) : Prop := i_y0 (s_int s) = start_state s.
  Definition Inv2 (s : sim) : Prop := Inv s /\ VInv s.

  Lemma after_ok_last_row s h rest :
    rest <> [] ->
    exists segs, s_vars (after_ok s h rest) = Some segs /\
      last_row Y segs = Some (add_shift (s_shift s) (lastq rest h),
                              mflow s (s_mp s) h (i_y0 (s_int s)) (lastq rest h - h)).
  Proof.
    intro Hne. destruct (exists_last' rest Hne) as (pre & x & ->). rewrite lastq_app.
    unfold after_ok. cbn [s_vars]. destruct (s_vars s) as [l|]; eexists; (split; [reflexivity|]).
    - unfold new_rows. rewrite map_app. cbn [map]. apply last_row_snoc.
    - unfold new_rows. rewrite app_comm_cons, map_app. cbn [map].
      change [?a ++ [?b]] with ([] ++ [a ++ [b]]). apply last_row_snoc.
  Qed.

  Lemma after_ok_inv2 s h rest :
    Inv2 s -> h == i_t0 (s_int s) -> rest <> [] -> incr (h :: rest) -> Inv2 (after_ok s h rest).
  Proof.
    intros [HI HV] Hh Hne Hinc. split; [apply after_ok_inv; assumption|].
    destruct (Inv_prior s HI) as (r & Hpr & Hsync & Hincr & Hmax & Hnone & Hsome & Hpos).
    destruct (after_ok_last_row s h rest Hne) as (segs & Hv & Hl).
    unfold VInv, start_state. rewrite Hv, Hl. unfold after_ok at 1 2 3. cbn [s_int i_y0 s_shift s_y0].
    assert (Hx : h < lastq rest h).
    { destruct Hinc as [Hh' _]. apply Hh'. apply lastq_In. exact Hne. }
    destruct (s_shift s) as [sh|] eqn:Es; [|reflexivity].
    assert (E : Qeq_bool sh (add_shift (Some sh) (lastq rest h)) = false).
    { apply Qeq_bool_false. cbn [add_shift]. lra. }
    rewrite E. reflexivity.
  Qed.

  Lemma after_fail_inv2 s : Inv2 s -> Inv2 (after_fail s).
  Proof. intros H. exact H. Qed.

  Lemma step_result_inv2 s h rest :
    Inv2 s -> h == i_t0 (s_int s) -> rest <> [] -> Inv2 (fst (step_result s h rest)).
  Proof.
    intros HI Hh Hne. unfold step_result.
    destruct (incrb (h :: rest)) eqn:E; [|exact HI].
    destruct (mok _ _ _ _ _); cbn [fst]; [|apply after_fail_inv2; exact HI].
    apply after_ok_inv2; try assumption. apply incrb_incr. exact E.
  Qed.

  Lemma sim_steps0 s t_end : fst (simulate s t_end (Some 0%nat)) = s.
  Proof.
    unfold Simulator.simulate. destruct (has_errors s); [reflexivity|].
    destruct (prior_t_end s) as [pr|]; [|reflexivity].
    destruct (cmpb _ _ _); [reflexivity|].
    unfold Integrator.integrate. cbn [linspace].
    unfold Integrator.integrate_time_course, Integrator.solve_ivp.
    assert (E : Qeq_bool (i_t0 (s_int s)) (i_t0 (s_int s)) = true) by (apply Qeq_bool_iff; reflexivity).
    rewrite E. cbn [negb lastq forallb].
    destruct s as [y0 vars pars sh errs ig mp]. cbn [s_int] in *.
    destruct (negb _); [reflexivity|].
    assert (E1 : Qltb (i_t0 ig) (i_t0 ig) = false) by (apply Qltb_false; lra).
    rewrite E1, E. reflexivity.
  Qed.

  Lemma simulate_inv2 (good : good_facts) s t_end steps :
    Inv2 s -> Inv2 (fst (simulate s t_end steps)).
  Proof.
    intros HI.
    destruct (has_errors s) eqn:Herr.
    { unfold Simulator.simulate. rewrite Herr. exact HI. }
    assert (Hcases : steps = Some 0%nat \/ exists m, n_points steps = S (S m)).
    { destruct steps as [[|k]|]; [left; reflexivity|right; exists k; reflexivity|right; exists 98%nat; reflexivity]. }
    destruct Hcases as [->|[m Hm]]; [rewrite sim_steps0; exact HI|].
    destruct (sim_step good s t_end steps m (proj1 HI) Herr Hm) as [Hle Hgt].
    destruct (Qlt_le_dec (reached s) t_end) as [L|L].
    - destruct (Hgt L) as (Hh & Hinc & ->).
      destruct (mok _ _ _ _ _); cbn [fst]; [|exact HI].
      apply after_ok_inv2; try assumption.
      unfold sim_rest. destruct (map _ (seq 1 m)); discriminate.
    - rewrite (Hle L). exact HI.
  Qed.

  Lemma simulate_time_course_inv2 (good : good_facts) s pts :
    Inv2 s -> Inv2 (fst (simulate_time_course s pts)).
  Proof.
    intros HI.
    destruct (has_errors s) eqn:Herr.
    { unfold Simulator.simulate_time_course. rewrite Herr. exact HI. }
    destruct pts as [|p0 ps].
    { unfold Simulator.simulate_time_course. rewrite Herr. destruct (prior_t_end s); exact HI. }
    destruct (tc_step good s (p0 :: ps) (proj1 HI) Herr ltac:(discriminate)) as [Hle Hgt].
    destruct (Qlt_le_dec (reached s) (lastq (p0 :: ps) 0)) as [L|L].
    - destruct (Hgt L) as (h & rest & _ & Hh & Hne & _ & ->). apply step_result_inv2; assumption.
    - rewrite (Hle L). exact HI.
  Qed.

  Lemma update_parameters_inv2 s u : Inv2 s -> Inv2 (update_parameters Y P U pupd s u).
  Proof. intros H. exact H. Qed.

  Lemma clear_results_inv2 s : Inv2 (clear_results Y P s).
  Proof. split; [split; [reflexivity|cbn; lra]|reflexivity]. Qed.

  Lemma sim_new_inv2 y0 p : Inv2 (sim_new Y P y0 p).
  Proof. split; [split; [reflexivity|cbn; lra]|reflexivity]. Qed.

  (** an override is applied on top of the state the next segment would have started from, so
      successive overrides accumulate *)
  Lemma update_variables_inv2 (good : good_facts) s o :
    Inv2 s ->
    Inv2 (fst (update_variables Y P O yovr fx s o))
    /\ i_y0 (s_int (fst (update_variables Y P O yovr fx s o))) = yovr (i_y0 (s_int s)) o
    /\ index_of (fst (update_variables Y P O yovr fx s o)) = index_of s.
  Proof.
    intros [HI HV]. unfold update_variables. rewrite (g_updvar_keeps good).
    unfold VInv, start_state in HV. unfold Inv in HI.
    destruct (s_vars s) as [segs|] eqn:Ev.
    - destruct HI as (segs' & sg & t & y & -> & Hinc & Hsync & Hpos).
      rewrite last_row_snoc in *. cbn [fst].
      assert (Hbase : (match s_shift s with Some sh => if Qeq_bool sh t then s_y0 s else y | None => y end) = i_y0 (s_int s))
        by (symmetry; exact HV).
      rewrite Hbase.
      split; [|split].
      + split.
        * unfold Inv. cbn [s_vars]. exists segs', sg, t, y. split; [reflexivity|].
          split; [unfold Simulator.index_of in *; cbn [s_vars]; try rewrite Ev in *; exact Hinc|].
          unfold shiftv. cbn [s_int s_shift integ_init i_t0]. split; lra.
        * unfold VInv, start_state. cbn [s_vars s_int s_shift s_y0 integ_init i_y0]. rewrite last_row_snoc.
          assert (E : Qeq_bool t t = true) by (apply Qeq_bool_iff; reflexivity). rewrite E. reflexivity.
      + reflexivity.
      + unfold Simulator.index_of. cbn [s_vars]. try rewrite Ev. reflexivity.
    - cbn [fst]. rewrite HV. destruct HI as [Hs Ht0]. split; [|split].
      + split.
        * unfold Inv. cbn [s_vars s_shift s_int integ_init i_t0]. split; [exact Hs|lra].
        * unfold VInv, start_state. cbn [s_vars s_int s_y0 integ_init i_y0]. reflexivity.
      + reflexivity.
      + unfold Simulator.index_of. cbn [s_vars]. rewrite Ev. reflexivity.
  Qed.

  (** ** user-facing consequences *)

  (** the rows appended by an accepted call, spelled out *)
  Definition appended (s s' : sim) (h : Q) (rest : list Q) : Prop :=
    index_of s' = (match s_vars s with None => [add_shift (s_shift s) h] | Some _ => index_of s end)
                  ++ map (add_shift (s_shift s)) rest
    /\ (exists segs, s_vars s' = Some segs /\
          last segs [] = map (fun t => (add_shift (s_shift s) t, flow (s_mp s) (add_shift (s_shift s) h) (i_y0 (s_int s)) (t - h)))
                             (match s_vars s with None => h :: rest | Some _ => rest end)
          /\ removelast segs = match s_vars s with None => [] | Some l => l end)
    /\ s_pars s' = Some ((match s_pars s with None => [] | Some l => l end) ++ [s_mp s])
    /\ s_errs s' = s_errs s /\ s_mp s' = s_mp s /\ s_shift s' = s_shift s /\ s_y0 s' = s_y0 s.

  Lemma mflow_good (good : good_facts) s :
    mflow s = fun p t y d => flow p (add_shift (s_shift s) t) y d.
  Proof. unfold Simulator.mflow. rewrite (g_abs_time good). reflexivity. Qed.

  Lemma mok_true s : (forall p t y t1, solve_ok p t y t1 = true) -> forall p t y t1, mok s p t y t1 = true.
  Proof. intros H p t y t1. unfold Simulator.mok. destruct (f_abs_time fx); apply H. Qed.

  Lemma after_ok_appended (good : good_facts) s h rest : appended s (after_ok s h rest) h rest.
  Proof.
    unfold appended. split; [apply after_ok_index|]. split.
    - unfold after_ok, new_rows. rewrite (mflow_good good). cbn [s_vars].
      destruct (s_vars s) as [l|]; eexists; (split; [reflexivity|]).
      + rewrite last_last, removelast_last. split; reflexivity.
      + split; reflexivity.
    - repeat split.
  Qed.

  Lemma errs_after_fail s : has_errors s = false -> has_errors (after_fail s) = true.
  Proof. unfold Simulator.has_errors, after_fail. cbn [s_errs]. destruct (s_errs s); [reflexivity|discriminate]. Qed.

  Lemma errs_after_ok s h rest : has_errors (after_ok s h rest) = has_errors s.
  Proof. reflexivity. Qed.

  (** simulate: refused exactly when the requested end is not later than the time reached;
      otherwise the linspace points after the first are appended *)
  Lemma simulate_spec (good : good_facts) s t_end steps m :
    Inv2 s -> has_errors s = false -> n_points steps = S (S m) ->
    (snd (simulate s t_end steps) = RaisedValue <-> t_end <= reached s)
    /\ (snd (simulate s t_end steps) <> RaisedValue -> snd (simulate s t_end steps) = Done)
    /\ (t_end <= reached s -> fst (simulate s t_end steps) = s)
    /\ (forall s', simulate s t_end steps = (s', Done) -> has_errors s' = false ->
          let h := sim_h s t_end m in let rest := sim_rest s t_end m in
          h == i_t0 (s_int s) /\ i_t0 (s_int s) + shiftv s == reached s /\ i_y0 (s_int s) = start_state s
          /\ incr (h :: rest) /\ appended s s' h rest
          /\ reached s' == t_end /\ length rest = S m).
  Proof.
    intros [HI HV] Herr Hm.
    destruct (sim_step good s t_end steps m HI Herr Hm) as [Hle Hgt].
    destruct (Inv_prior s HI) as (r0 & Hpr & Hsync & _).
    rewrite <- (reached_prior s r0 Hpr) in Hsync.
    destruct (Qlt_le_dec (reached s) t_end) as [L|L].
    - destruct (Hgt L) as (Hh & Hinc & E). rewrite E.
      assert (Hrne : sim_rest s t_end m <> []) by (unfold sim_rest; destruct (map _ (seq 1 m)); discriminate).
      split; [|split; [|split]].
      + split; [|intro; lra]. destruct (mok _ _ _ _ _); cbn [snd]; discriminate.
      + destruct (mok _ _ _ _ _); reflexivity.
      + intro. lra.
      + intros s' Es Herr'. destruct (mok _ _ _ _ _).
        * injection Es as <-. cbv zeta. split; [exact Hh|]. split; [exact Hsync|]. split; [exact HV|].
          split; [exact Hinc|]. split; [apply (after_ok_appended good)|].
          destruct (after_ok_inv s _ _ HI Hh Hrne Hinc) as [_ Hp].
          rewrite (reached_prior _ _ Hp). unfold sim_rest at 1. rewrite lastq_app, add_shift_v, sub_shift_v.
          split; [lra|]. unfold sim_rest. rewrite app_length, map_length, seq_length. cbn. lia.
        * injection Es as <-. rewrite (errs_after_fail s Herr) in Herr'. discriminate.
    - rewrite (Hle L). cbn [fst snd]. split; [tauto|]. split; [congruence|]. split; [reflexivity|].
      intros s' Es. discriminate.
  Qed.

  (** simulate_time_course: refused exactly when the last point is not later than the time reached
      (or the kept points are not increasing -- scipy rejects that array); otherwise EXACTLY the
      requested points later than the time reached are appended, in order, each once *)
  Lemma time_course_spec (good : good_facts) s pts :
    Inv2 s -> has_errors s = false -> pts <> [] ->
    (snd (simulate_time_course s pts) = RaisedValue <->
       lastq pts 0 <= reached s \/ ~ incr (filter (fun t => Qle_bool (reached s) t) pts))
    /\ (snd (simulate_time_course s pts) <> RaisedValue -> snd (simulate_time_course s pts) = Done)
    /\ (snd (simulate_time_course s pts) = RaisedValue -> fst (simulate_time_course s pts) = s)
    /\ (forall s', simulate_time_course s pts = (s', Done) -> has_errors s' = false ->
          exists h rest,
            h == i_t0 (s_int s) /\ i_t0 (s_int s) + shiftv s == reached s /\ i_y0 (s_int s) = start_state s
            /\ incr (h :: rest) /\ appended s s' h rest
            /\ Qeql (map (add_shift (s_shift s)) rest) (filter (fun t => Qltb (reached s) t) pts)
            /\ reached s' == lastq pts 0).
  Proof.
    intros [HI HV] Herr Hne.
    destruct (tc_step good s pts HI Herr Hne) as [Hle Hgt].
    destruct (Inv_prior s HI) as (r0 & Hpr & Hsync & _).
    rewrite <- (reached_prior s r0 Hpr) in Hsync.
    destruct (Qlt_le_dec (reached s) (lastq pts 0)) as [L|L].
    - destruct (Hgt L) as (h & rest & Heff & Hh & Hrne & Hsh & E). rewrite E.
      destruct (tc_new_points s pts h rest Hsync Hh Hsh) as [Hiff Hnew].
      unfold step_result.
      destruct (incrb (h :: rest)) eqn:Eb.
      + pose proof (incrb_incr _ Eb) as Hinc.
        split; [|split; [|split]].
        * split; [destruct (mok _ _ _ _ _); cbn [snd]; discriminate|].
          intros [H|H]; [lra|]. exfalso. apply H, Hiff, Hinc.
        * destruct (mok _ _ _ _ _); reflexivity.
        * destruct (mok _ _ _ _ _); cbn [snd]; discriminate.
        * intros s' Es Herr'. destruct (mok _ _ _ _ _).
          -- injection Es as <-. exists h, rest. split; [exact Hh|]. split; [exact Hsync|]. split; [exact HV|].
             split; [exact Hinc|]. split; [apply (after_ok_appended good)|]. split; [exact (Hnew Hinc)|].
             destruct (after_ok_inv s _ _ HI Hh Hrne Hinc) as [_ Hp].
             rewrite (reached_prior _ _ Hp).
             (* the last appended point is the last requested point *)
             assert (Hl : Qeql (map (add_shift (s_shift s)) rest) (filter (fun t => Qltb (reached s) t) pts)) by exact (Hnew Hinc).
             destruct (filter_last (fun t => Qltb (reached s) t) pts 0 Hne) as [Hfne Hfl]; [apply Qltb_iff; exact L|].
             rewrite <- Hfl.
             clear - Hl Hrne Hfne. revert Hl Hfne. generalize (filter (fun t => Qltb (reached s) t) pts) as l2.
             revert h. induction rest as [|x r IH]; [congruence|]. intros h l2 Hl Hfne.
             inversion Hl as [|x' y' l1' l2' Hxy Hrest]; subst.
             destruct r as [|z r'].
             ++ inversion Hrest; subst. cbn. exact Hxy.
             ++ destruct l2' as [|w l2'']; [inversion Hrest|].
                change (lastq (x :: z :: r') h) with (lastq (z :: r') h).
                change (lastq (y' :: w :: l2'') 0) with (lastq (w :: l2'') 0).
                rewrite (lastq_default (z :: r') h x ltac:(discriminate)).
                apply (IH ltac:(discriminate) x (w :: l2'') Hrest). discriminate.
          -- injection Es as <-. rewrite (errs_after_fail s Herr) in Herr'. discriminate.
      + cbn [fst snd]. split; [|split; [|split]].
        * split; [|reflexivity]. intros _. right. intro Hk. apply Hiff in Hk. apply incr_incrb in Hk. congruence.
        * congruence.
        * reflexivity.
        * intros s' Es. discriminate.
    - rewrite (Hle L). cbn [fst snd]. split; [|split; [|split]].
      + split; [intros _; left; exact L|reflexivity].
      + congruence.
      + reflexivity.
      + intros s' Es. discriminate.
  Qed.
End SimProofs.
