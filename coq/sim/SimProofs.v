From Coq Require Import QArith List Bool NArith.
From Sim Require Import Integrator Simulator Protocol.
