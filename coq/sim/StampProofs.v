(** The time STAMP of a steady-state row, exactly (C04): the search of [integrate_to_steady_state] starts at the
    integrator's own time 0 and proceeds in whole steps, [_handle_simulation_results] moves the row back to absolute
    time -- so on a freshly (re)initialised integrator the row is stamped

        time already reached + (k + 1) * step_size      for some k < max_steps,

    in particular right after update_variable(s) at ANY time reached (seeded change C04-4 stamps such a row in the
    restarted integrator's relative time: [simulate(2); update_variable; simulate_to_steady_state] reports 200
    instead of 202).  Strengthens [steady_fresh] (SteadyProofs.v), which only gives [>= reached + step]. *)
From Coq Require Import QArith List Bool NArith Lia Lqa.
From Sim Require Import Integrator Simulator Protocol SimProofs ProtocolProofs SteadyProofs.
Import ListNotations.
Open Scope Q_scope.

Definition nq (k : nat) : Q := inject_Z (Z.of_nat k).

Lemma nq_S k : nq (S k) == nq k + 1.
Proof. unfold nq. rewrite Nat2Z.inj_succ, <- Z.add_1_r, inject_Z_plus. reflexivity. Qed.

Section StampProofs.
  Variables Y P U O : Type.
  Variable flow : P -> Q -> Y -> Q -> Y.
  Variable solve_ok : P -> Q -> Y -> Q -> bool.
  Variable conv : Y -> Y -> bool.
  Variable pupd : P -> U -> P.
  Variable yovr : Y -> O -> Y.
  Variable fx : sim_facts.
  Hypothesis good : good_facts fx.

  Notation sim := (sim Y P).
  Notation Inv2 := (Inv2 Y P).
  Notation steady := (simulate_to_steady_state Y P flow conv fx).
  Notation updvar := (update_variables Y P O yovr fx).
  Notation ss_step := (ss_step fx).
  Notation good_steady := (good_steady fx).

  Lemma steady_loop_stamp (mf : P -> Q -> Y -> Q -> Y) p step fuel :
    forall tprev t y1,
    match steady_loop Y P mf conv p step fuel tprev t y1 with
    | (IOk tc, t', y') => exists k : nat, (k < fuel)%nat /\ t' == t + nq k * step
    | _ => True
    end.
  Proof.
    induction fuel as [|f IH]; intros tprev t y1; cbn [steady_loop]; [exact I|].
    destruct (conv y1 (mf p tprev y1 (t - tprev))).
    - exists 0%nat. split; [lia|]. unfold nq. cbn. ring.
    - specialize (IH t (t + step) (mf p tprev y1 (t - tprev))).
      destruct (steady_loop Y P mf conv p step f t (t + step) (mf p tprev y1 (t - tprev))) as [[r t'] y'].
      destruct r; try exact I. destruct IH as (k & Hk & E). exists (S k). split; [lia|].
      rewrite E, nq_S. ring.
  Qed.

  Lemma integ_steady_stamp (gs : good_steady) (mf : P -> Q -> Y -> Q -> Y) p ig :
    exists r, integrate_to_steady_state Y P mf conv fx p ig = (integ_reset Y ig, r)
      /\ (r = INoSteady
          \/ exists t y k, r = IOk [(t, y)] /\ (k < N.to_nat (f_ss_max fx))%nat /\ t == nq (S k) * ss_step).
  Proof.
    unfold integrate_to_steady_state. rewrite (g_ss_resets fx gs), (g_ss_advances fx gs). fold ss_step.
    pose proof (steady_loop_spec Y P conv mf p ss_step (N.to_nat (f_ss_max fx)) (ss_step_pos fx gs)
                  0 (i_t0 (integ_reset Y ig) + ss_step) (i_y0 (integ_reset Y ig))) as H.
    pose proof (steady_loop_stamp mf p ss_step (N.to_nat (f_ss_max fx))
                  0 (i_t0 (integ_reset Y ig) + ss_step) (i_y0 (integ_reset Y ig))) as H2.
    destruct (steady_loop Y P mf conv p ss_step (N.to_nat (f_ss_max fx)) 0
                (i_t0 (integ_reset Y ig) + ss_step) (i_y0 (integ_reset Y ig))) as [[r t] y].
    destruct r as [tc| | | |]; try contradiction.
    - destruct H as [-> _]. destruct H2 as (k & Hk & E). eexists. split; [reflexivity|]. right.
      exists t, y, k. split; [reflexivity|]. split; [exact Hk|].
      rewrite E, nq_S. cbn [integ_reset i_t0]. ring.
    - eexists. split; [reflexivity|]. left. reflexivity.
  Qed.

  (** a steady-state run on a freshly (re)initialised integrator that finds a steady state stamps its row at
      EXACTLY  reached + (k+1) * step_size  (absolute time), k < max_steps *)
  Theorem steady_fresh_stamp (gs : good_steady) (s : sim) :
    Inv2 s -> i_t0 (s_int s) == 0 ->
    has_errors Y P s = false -> has_errors Y P (fst (steady s)) = false ->
    exists k : nat, (k < N.to_nat (f_ss_max fx))%nat
      /\ reached Y P (fst (steady s)) == reached Y P s + nq (S k) * ss_step.
  Proof.
    intros HI Hfresh Herr Herr2.
    destruct (Inv_prior Y P s (proj1 HI)) as (r0 & Hpr & Hsync & _).
    pose proof (reached_prior Y P s r0 Hpr) as Hreach.
    remember (reached Y P s) as R eqn:ER. clear ER.
    unfold simulate_to_steady_state in *. rewrite Herr in *.
    destruct (integ_steady_stamp gs (mflow Y P flow fx s) (s_mp s) (s_int s)) as (r & E & Hr). rewrite E in *.
    destruct s as [y0 vars pars sh errs ig mp].
    cbn [s_int s_mp s_vars s_shift s_y0 s_pars s_errs] in *.
    destruct Hr as [->|(t & y & k & -> & Hk & Ht)]; unfold finish, set_int, handle_results in *;
      cbn [fst snd s_int s_mp s_vars s_shift s_y0 s_pars s_errs] in *.
    - exfalso. unfold has_errors in Herr2. cbn [s_errs] in Herr2. destruct errs; discriminate.
    - rewrite (g_skip_ss fx gs). exists k. split; [exact Hk|]. cbn [map fst snd].
      assert (Hgoal : add_shift sh t == R + nq (S k) * ss_step).
      { unfold shiftv in Hsync. cbn [s_shift] in Hsync. rewrite Hreach. unfold add_shift.
        destruct sh; rewrite Ht; lra. }
      unfold Simulator.reached, Simulator.prior_t_end. cbn [s_vars].
      destruct vars as [l|].
      + change [(add_shift sh t, y)] with ([] ++ [(add_shift sh t, y)]). rewrite last_row_snoc. exact Hgoal.
      + cbn. exact Hgoal.
  Qed.

  (** ... in particular after update_variable(s) in ANY well-formed state (also right after another steady-state
      run): the row is stamped at the time already reached + a whole number of search steps, the accumulated index
      stays strictly increasing and is the old index plus that one stamp *)
  Theorem steady_after_override_stamp (gs : good_steady) (s : sim) (o : O) :
    Wf Y P s -> has_errors Y P s = false ->
    has_errors Y P (fst (steady (fst (updvar s o)))) = false ->
    exists k : nat, (k < N.to_nat (f_ss_max fx))%nat
      /\ reached Y P (fst (steady (fst (updvar s o)))) == reached Y P s + nq (S k) * ss_step
      /\ incr (index_of Y P (fst (steady (fst (updvar s o)))))
      /\ index_of Y P (fst (steady (fst (updvar s o))))
         = index_of Y P s ++ [reached Y P (fst (steady (fst (updvar s o))))].
  Proof.
    intros HW Herr Herr2.
    destruct (override_resyncs Y P O yovr fx good s o HW)
      as (HI' & _ & _ & Ht0 & Hidx & Hreach & Herrs & _).
    assert (Herr' : has_errors Y P (fst (updvar s o)) = false).
    { unfold has_errors in *. rewrite Herrs. exact Herr. }
    assert (Hfresh : i_t0 (s_int (fst (updvar s o))) == 0) by (rewrite Ht0; reflexivity).
    destruct (steady_fresh_stamp gs _ HI' Hfresh Herr' Herr2) as (k & Hk & E).
    destruct (steady_fresh Y P flow conv fx gs _ HI' Hfresh) as ((_ & Hinc) & _ & Hrow).
    destruct (Hrow Herr' Herr2) as (t & y & _ & Hidx2 & _ & Hr2 & _).
    exists k. split; [exact Hk|]. split; [rewrite E, Hreach; reflexivity|]. split; [exact Hinc|].
    rewrite Hidx2, Hr2, Hidx. reflexivity.
  Qed.
End StampProofs.

(** * regression witness for seeded change C04-4 (Variants.v) on the executable instance x' = y + time:
    [simulate(T); update_variable(y, -(T + 50(2n-1))); simulate_to_steady_state] -- the code stamps the row at
    T + 100n (absolute), the variant at 100n: 200 instead of 202 for T = 2, and 100 after 300 (axis not increasing)
    for T = 300 *)
From Sim Require Import SimExec Variants.

Definition stamp_state (T y : Q) : xsim :=
  xrun pinned_facts (xnew [1; 0] [1; 0; 1; 0]) [OSim T (Some 2%nat); OUpdVar [(1%nat, y)]].

Lemma relative_stamp_refuted :
  xindex (fst (simulate_to_steady_state (list Q) (list Q) xflow xconv pinned_facts (stamp_state 2 (-152)))) = [0; 1; 2; 202]
  /\ xindex (fst (steady_skipshift (list Q) (list Q) xflow xconv pinned_facts (stamp_state 2 (-152)))) = [0; 1; 2; 200]
  /\ xindex (fst (simulate_to_steady_state (list Q) (list Q) xflow xconv pinned_facts (stamp_state 300 (-350)))) = [0; 150; 300; 400]
  /\ xindex (fst (steady_skipshift (list Q) (list Q) xflow xconv pinned_facts (stamp_state 300 (-350)))) = [0; 150; 300; 100]
  /\ incrb (xindex (fst (steady_skipshift (list Q) (list Q) xflow xconv pinned_facts (stamp_state 300 (-350))))) = false.
Proof. vm_compute. repeat split; reflexivity. Qed.
