(** Executable instance of histories WITH view reads (see Views.v) for the correspondence check and the
    [vm_compute] witnesses: the observation of SimExec.v plus the parameter values of the live model after every
    operation ([sim.model.get_parameter_values()]).  No proofs in this file. *)
From Coq Require Import QArith List Bool NArith.
From MxlBase Require Import ListX.
From Sim Require Import Integrator Simulator Protocol Views SimExec.
Import ListNotations.
Open Scope Q_scope.

Definition xvop := vop (list (nat * Q)) (list (nat * Q)).

Definition xvrun (fx : sim_facts) (vm : view_mode) : xsim -> list xvop -> xsim :=
  vrun (list Q) (list Q) (list (nat * Q)) (list (nat * Q)) xflow xsolve_ok xconv apply_updates apply_updates fx vm.
Definition xvtrace (fx : sim_facts) (vm : view_mode) : xsim -> list xvop -> list (xsim * outcome) :=
  vtrace (list Q) (list Q) (list (nat * Q)) (list (nat * Q)) xflow xsolve_ok xconv apply_updates apply_updates fx vm.

(** observation after an operation: what SimExec.obs sees + the model's parameter values *)
Definition vobs := (obs * list Q)%type.
Definition vobs_of (r : xsim * outcome) : vobs := (obs_of r, s_mp (fst r)).
Definition vobs_eqb (cv : bool) (a b : vobs) : bool :=
  obs_eqb cv (fst a) (fst b) && qlist_eqb (snd a) (snd b).

Definition vcase := (bool * list Q * list Q * list xvop * list vobs)%type.

Definition vcase_ok (fx : sim_facts) (vm : view_mode) (c : vcase) : bool :=
  match vm with
  | ViewUnknown => false                      (* an unrecognised shape agrees with nothing *)
  | _ =>
      match c with
      | (cv, y0, p0, ops, seen) =>
          list_eqb (vobs_eqb cv) (map vobs_of (xvtrace fx vm (xnew y0 p0) ops)) seen
      end
  end.

Definition vmismatches (fx : sim_facts) (vm : view_mode) (cs : list vcase) : list nat :=
  filter_idx (fun c => negb (vcase_ok fx vm c)) cs.

(** recorded parameter [k] (first component) of every segment, for witnesses *)
Definition recorded_k (s : xsim) : list Q :=
  match s_pars s with None => [] | Some ps => map (fun p => Qred (nthq p 0)) ps end.
