(* REGENERATED from src/mxlpy/simulator.py and src/mxlpy/integrators/int_scipy.py by harness/c04_sim.py;
   do not edit.  An unrecognised shape yields *Unknown / false / 0, which breaks C04_facts_pinned and
   C14_facts_pinned. *)
From Coq Require Import NArith.
From Sim Require Import Integrator Views ProtocolTable.
Definition gen_sim_facts : sim_facts :=
  mkSimFacts FrameAbs CmpLe FrameAbs CmpLe CmpGe true true false true false 100%N 1000%N CmpLe CmpGt CmpLe true true true.
(* src/mxlpy/simulation.py: what reading a view of get_result() leaves in the model shared with the Simulator *)
Definition gen_view_mode : view_mode := ViewRestores.
(* src/mxlpy/__init__.py make_protocol: how a step's values get into its row of the table *)
Definition gen_protocol_rows : rows_mode := RowsByName.
