(** Failed runs and [clear_results] (C04; closing pass for seeded change C04-8).

    The code records a failed run ([IntegrationFailure], [NoSteadyState]) in [_errors]; from then on every simulating
    call returns at once ([if len(self._errors) > 0: return self]) -- legal or not, nothing is appended, nothing is
    refused -- and [get_result()] reports the first recorded error.  [clear_results] is the ONE way back: it forgets
    the failure together with the results, and what follows is a run of a new simulator started from the current
    start state under the current parameter values.

      - [failed_call_is_noop], [failed_until_cleared]: the inert phase, for ANY history without [clear_results];
      - [clear_forgets], [run_after_clear], [simulate_after_clear]: the state after [clear_results] in ANY state
        (failed or not) and the first segment simulated from it, spelled out;
      - [keeps_errors_inert_forever]: regression theorem for the seeded shape ([Variants.clear_results_keeps_errors]):
        once a run has failed NO history whatsoever -- [clear_results] included -- produces a result again;
      - [clear_keeps_failure_refuted]: the concrete history of the seeded demo on the executable instance. *)
From Coq Require Import QArith List Bool NArith Lia Lqa.
From Sim Require Import Integrator Simulator Protocol Views Variants SimProofs ProtocolProofs.
Import ListNotations.
Open Scope Q_scope.

Section FailureProofs.
  Variables Y P U O : Type.
  Variable flow : P -> Q -> Y -> Q -> Y.
  Variable solve_ok : P -> Q -> Y -> Q -> bool.
  Variable conv : Y -> Y -> bool.
  Variable pupd : P -> U -> P.
  Variable yovr : Y -> O -> Y.
  Variable fx : sim_facts.

  Notation sim := (sim Y P).
  Notation op := (op U O).
  Notation run_op := (run_op Y P U O flow solve_ok conv pupd yovr fx).
  Notation run := (run Y P U O flow solve_ok conv pupd yovr fx).
  Notation run_op_ck := (run_op_ck Y P U O flow solve_ok conv pupd yovr fx).
  Notation run_ck := (run_ck Y P U O flow solve_ok conv pupd yovr fx).
  Notation clear := (clear_results Y P).
  Notation simulate := (simulate Y P flow solve_ok fx).

  (** the five calls that integrate *)
  Definition simulating (o : op) : Prop :=
    match o with OSim _ _ | OTc _ | OProt _ _ | OProtTc _ _ _ | OSteady => True | _ => False end.
  Definition not_clear (o : op) : Prop := match o with OClear => False | _ => True end.

  (** on a failed simulator every simulating call returns at once: no refusal, no change *)
  Lemma failed_call_is_noop (s : sim) (o : op) :
    has_errors Y P s = true -> simulating o -> run_op s o = (s, Done).
  Proof.
    intros He Ho. destruct o; try contradiction; cbn [Protocol.run_op].
    - unfold Simulator.simulate. rewrite He. reflexivity.
    - unfold Simulator.simulate_time_course. rewrite He. reflexivity.
    - unfold simulate_protocol. rewrite He. reflexivity.
    - unfold simulate_protocol_time_course. rewrite He. reflexivity.
    - unfold simulate_to_steady_state. rewrite He. reflexivity.
  Qed.

  (** an operation other than [clear_results] leaves results, recorded parameters and errors of a failed simulator alone *)
  Lemma failed_op_keeps (s : sim) (o : op) :
    has_errors Y P s = true -> not_clear o ->
    s_vars (fst (run_op s o)) = s_vars s /\ s_pars (fst (run_op s o)) = s_pars s /\ s_errs (fst (run_op s o)) = s_errs s.
  Proof.
    intros He Ho. destruct o; try contradiction;
      try (rewrite failed_call_is_noop by (exact He || exact I); repeat split; reflexivity).
    - cbn. repeat split; reflexivity.
    - cbn [Protocol.run_op]. unfold update_variables.
      destruct (s_vars s) as [segs|] eqn:Ev; [destruct (last_row Y segs) as [[t yl]|]|]; cbn; rewrite ?Ev; repeat split; reflexivity.
  Qed.

  (** THE INERT PHASE: after a failed run, for ANY history without [clear_results] -- simulate / time-course / protocol /
      steady-state calls with legal or illegal arguments, parameter updates, overrides -- the accumulated result, the
      recorded parameters and the recorded errors stay exactly what they were *)
  Theorem failed_until_cleared (ops : list op) (s : sim) :
    has_errors Y P s = true -> Forall not_clear ops ->
    s_vars (run s ops) = s_vars s /\ s_pars (run s ops) = s_pars s /\ s_errs (run s ops) = s_errs s
    /\ index_of Y P (run s ops) = index_of Y P s /\ has_errors Y P (run s ops) = true.
  Proof.
    revert s. induction ops as [|o rest IH]; intros s He Hall.
    - cbn. repeat split; try reflexivity. exact He.
    - inversion Hall as [|? ? Ho Hrest]; subst. cbn [Protocol.run].
      destruct (failed_op_keeps s o He Ho) as (Ev & Ep & Ee).
      assert (He1 : has_errors Y P (fst (run_op s o)) = true) by (unfold has_errors in *; rewrite Ee; exact He).
      destruct (IH _ He1 Hrest) as (Av & Ap & Ae & Ai & Ah).
      repeat split; try congruence.
      unfold index_of in *. rewrite Av, Ev. reflexivity.
  Qed.

  (** [clear_results] in ANY state -- failed or not, whatever the results, the shift, the integrator: no error is left,
      no result, no time shift; the invariant of continued simulation holds, the time reached is 0; start state and
      parameter values are the current ones.  (Every per-operation theorem of PropsC04.v applies to what follows.) *)
  Theorem clear_forgets (s : sim) :
    clear s = sim_new Y P (s_y0 s) (s_mp s)
    /\ has_errors Y P (clear s) = false /\ s_errs (clear s) = []
    /\ Inv2 Y P (clear s)
    /\ s_vars (clear s) = None /\ s_pars (clear s) = None /\ s_shift (clear s) = None
    /\ index_of Y P (clear s) = [] /\ reached Y P (clear s) = 0
    /\ get_result Y P (clear s) = None
    /\ i_t0 (s_int (clear s)) = 0 /\ i_y0 (s_int (clear s)) = s_y0 s.
  Proof. repeat split; try reflexivity; cbn; lra. Qed.

  (** ... so a history goes on after [clear_results] exactly as a history of a new simulator, whatever happened before
      (in particular: whatever failed before) *)
  Theorem run_after_clear (before after : list op) (s : sim) :
    let s1 := run s before in
    run s (before ++ OClear :: after) = run (sim_new Y P (s_y0 s1) (s_mp s1)) after.
  Proof.
    cbv zeta. revert s. induction before as [|o rest IH]; intro s; [reflexivity|]. cbn [app Protocol.run]. apply IH.
  Qed.

  Lemma removelast_nil_singleton {A} (l : list A) (d : A) : l <> [] -> removelast l = [] -> l = [last l d].
  Proof.
    intros Hne Hr. destruct l as [|x [|y r]]; [contradiction|reflexivity|]. cbn in Hr. discriminate.
  Qed.

  (** the first [simulate] after [clear_results], in ANY state [s] (e.g. a failed one): refused exactly when
      [t_end <= 0]; otherwise -- the solver succeeding -- the result is ONE segment on the whole grid
      [0 = h < ... < t_end] ([steps] + 1 points), its rows the solution from the simulator's start state [s_y0 s] at
      absolute time 0 under the parameter values in force, recorded with exactly those values, and no error on record *)
  Theorem simulate_after_clear (good : good_facts fx) (s : sim) (t_end : Q) (steps : option nat) (m : nat) :
    n_points steps = S (S m) ->
    (snd (simulate (clear s) t_end steps) = RaisedValue <-> t_end <= 0)
    /\ (snd (simulate (clear s) t_end steps) <> RaisedValue -> snd (simulate (clear s) t_end steps) = Done)
    /\ (forall s', simulate (clear s) t_end steps = (s', Done) -> has_errors Y P s' = false ->
          exists h rest,
            h == 0 /\ incr (h :: rest) /\ length rest = S m /\ lastq rest h == t_end
            /\ index_of Y P s' = h :: rest
            /\ s_vars s' = Some [map (fun t => (t, flow (s_mp s) h (s_y0 s) (t - h))) (h :: rest)]
            /\ s_pars s' = Some [s_mp s]
            /\ s_errs s' = [] /\ s_mp s' = s_mp s /\ s_y0 s' = s_y0 s /\ reached Y P s' == t_end).
  Proof.
    intro Hm.
    destruct (simulate_spec Y P flow solve_ok fx good (clear s) t_end steps m (clear_results_inv2 Y P s) eq_refl Hm)
      as (Hiff & Hdone & _ & Hrows).
    split; [exact Hiff|]. split; [exact Hdone|].
    intros s' Es' He'. destruct (Hrows s' Es' He') as (Hh & _ & _ & Hinc & Happ & Hreach & Hlen).
    set (h := sim_h Y P (clear s) t_end m) in *. set (rest := sim_rest Y P (clear s) t_end m) in *.
    destruct Happ as (Hidx & (segs & Hsegs & Hlast & Hrl) & Hpars & Herrs & Hmp & _ & Hy0).
    cbn [clear_results s_vars s_shift s_pars s_errs s_mp s_y0 s_int integ_init i_t0 i_y0 add_shift] in *.
    assert (Hid : forall l : list Q, map (add_shift None) l = l).
    { intro l. induction l as [|x r IH]; [reflexivity|]. cbn. rewrite IH. reflexivity. }
    rewrite Hid in Hidx.
    exists h, rest. split; [exact Hh|]. split; [exact Hinc|]. split; [exact Hlen|].
    split.
    { unfold rest, sim_rest. rewrite lastq_app. cbn. reflexivity. }
    split; [exact Hidx|]. split.
    { rewrite Hsegs. f_equal.
      assert (Hne : segs <> []).
      { intro E. subst segs. cbn in Hlast. discriminate. }
      rewrite (removelast_nil_singleton segs [] Hne Hrl), Hlast. reflexivity. }
    repeat split; assumption.
  Qed.

  (** * regression theorem for seeded change C04-8 ([Variants.clear_results_keeps_errors]) *)

  Lemma ck_same (s : sim) (o : op) : not_clear o -> run_op_ck s o = run_op s o.
  Proof. intro Hn. destruct o; try reflexivity. contradiction. Qed.

  Lemma ck_op_keeps_errors (s : sim) (o : op) :
    has_errors Y P s = true ->
    s_errs (fst (run_op_ck s o)) = s_errs s
    /\ (s_vars (fst (run_op_ck s o)) = s_vars s \/ s_vars (fst (run_op_ck s o)) = None).
  Proof.
    intro He.
    assert (D : not_clear o \/ o = OClear) by (destruct o; ((left; exact I) || (right; reflexivity))).
    destruct D as [Hn| ->].
    - rewrite (ck_same s o Hn). destruct (failed_op_keeps s o He Hn) as (Ev & _ & Ee). split; [exact Ee|left; exact Ev].
    - cbn. split; [reflexivity|right; reflexivity].
  Qed.

  (** with [clear_results] in the seeded shape a failed simulator is inert FOR EVER: after ANY history ([clear_results]
      included) the first failure is still on record, [get_result()] is that error, no segment was ever added (the
      results are the old ones or gone), and every further simulating call -- legal or illegal -- returns at once *)
  Theorem keeps_errors_inert_forever (ops : list op) (s : sim) :
    has_errors Y P s = true ->
    s_errs (run_ck s ops) = s_errs s
    /\ has_errors Y P (run_ck s ops) = true
    /\ get_result Y P (run_ck s ops) = None
    /\ (s_vars (run_ck s ops) = s_vars s \/ s_vars (run_ck s ops) = None)
    /\ (forall o, simulating o -> run_op_ck (run_ck s ops) o = (run_ck s ops, Done)).
  Proof.
    revert s. induction ops as [|o rest IH]; intros s He.
    - cbn [Variants.run_ck]. split; [reflexivity|]. split; [exact He|]. split; [unfold get_result; rewrite He; reflexivity|].
      split; [left; reflexivity|]. intros o Ho.
      assert (Hn : not_clear o) by (destruct o; try contradiction; exact I).
      rewrite (ck_same s o Hn). apply failed_call_is_noop; assumption.
    - cbn [Variants.run_ck]. destruct (ck_op_keeps_errors s o He) as (Ee & Ev).
      assert (He1 : has_errors Y P (fst (run_op_ck s o)) = true) by (unfold has_errors in *; rewrite Ee; exact He).
      destruct (IH _ He1) as (Ae & Ah & Ag & Av & Ao).
      split; [congruence|]. split; [exact Ah|]. split; [exact Ag|]. split; [|exact Ao].
      destruct Av as [Av|Av]; [|right; exact Av]. destruct Ev as [Ev|Ev]; [left|right]; congruence.
  Qed.
End FailureProofs.

(** * the history of the seeded demo on the executable instance (x' = k*y, y' = c with y = 1, c = 1: the stand-in's
    iterates never coincide, so the steady-state search ends in NoSteadyState after 1000 steps):

      simulate_to_steady_state ; clear_results ; update_parameter(k, 2) ; simulate(3, steps=1) ;
      update_parameter(k, 1/2) ; simulate_time_course([4, 5, 7]) ; simulate(7)

    With [clear_results] as pinned: outcomes / get_result() error codes  (returned, NoSteadyState), (returned, no result
    yet), ..., (returned, result) x 3, (refused, result); axis 0, 3, 4, 5, 7; segments recorded with k = 2 and k = 1/2.
    With the seeded shape: every call returns, get_result() is NoSteadyState throughout, no axis, and the illegal
    [simulate(7)] is not refused. *)
From Sim Require Import SimExec ViewsExec.

Definition xrun_ck (fx : sim_facts) : xsim -> list xop -> xsim :=
  run_ck (list Q) (list Q) (list (nat * Q)) (list (nat * Q)) xflow xsolve_ok xconv apply_updates apply_updates fx.
Definition xtrace_ck (fx : sim_facts) : xsim -> list xop -> list (xsim * outcome) :=
  trace_ck (list Q) (list Q) (list (nat * Q)) (list (nat * Q)) xflow xsolve_ok xconv apply_updates apply_updates fx.

Definition failure_start : xsim := xnew [0; 1] [1; 1; 0; 0].
Definition failure_hist : list xop :=
  [OSteady; OClear; OUpdPar [(0%nat, 2)]; OSim 3 (Some 1%nat); OUpdPar [(0%nat, 1 # 2)]; OTc [4; 5; 7]; OSim 7 (Some 1%nat)].
Definition codes (tr : list (xsim * outcome)) : list (nat * nat) := map (fun r => (out_code (snd r), err_code (fst r))) tr.

Lemma clear_keeps_failure_refuted :
  codes (xtrace pinned_facts failure_start failure_hist) = [(0, 2); (0, 1); (0, 1); (0, 0); (0, 0); (0, 0); (1, 0)]%nat
  /\ xindex (xrun pinned_facts failure_start failure_hist) = [0; 3; 4; 5; 7]
  /\ recorded_k (xrun pinned_facts failure_start failure_hist) = [2; 1 # 2]
  /\ codes (xtrace_ck pinned_facts failure_start failure_hist) = [(0, 2); (0, 2); (0, 2); (0, 2); (0, 2); (0, 2); (0, 2)]%nat
  /\ xindex (xrun_ck pinned_facts failure_start failure_hist) = []
  /\ has_errors _ _ (xrun_ck pinned_facts failure_start failure_hist) = true.
Proof. vm_compute. repeat split; reflexivity. Qed.

(** non-vacuity of [failed_until_cleared] / [simulate_after_clear]: the state after the failed search has an error on
    record, the calls that follow (legal, illegal, an override) change nothing, and the segment simulated after
    [clear_results] is the one the theorem describes *)
Lemma failure_nonvacuous :
  has_errors _ _ (xrun pinned_facts failure_start [OSteady]) = true
  /\ Forall (not_clear (list (nat * Q)) (list (nat * Q))) [OSim 3 (Some 1%nat); OTc [0; 1]; OUpdVar [(0%nat, 5)]; OSim 0 None]
  /\ codes (xtrace pinned_facts (xrun pinned_facts failure_start [OSteady]) [OSim 3 (Some 1%nat); OTc [0; 1]; OUpdVar [(0%nat, 5)]; OSim 0 None])
     = [(0, 2); (0, 2); (0, 2); (0, 2)]%nat
  /\ (match s_vars (xrun pinned_facts failure_start [OSteady; OClear; OSim 3 (Some 3%nat)]) with
      | Some l => map (map (fun r => (Qred (fst r), map Qred (snd r)))) l | None => [] end)
     = [[(0, [0; 1]); (1, [3 # 2; 2]); (2, [4; 3]); (3, [15 # 2; 4])]].
Proof. split; [vm_compute; reflexivity|]. split; [repeat constructor|]. vm_compute. split; reflexivity. Qed.
