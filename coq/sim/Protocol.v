(** Model of make_protocol (src/mxlpy/__init__.py), Simulator.simulate_protocol and
    Simulator.simulate_protocol_time_course, and the operation alphabet / history runner used by
    C04 and C14.  No proofs in this file. *)
From Coq Require Import QArith List Bool NArith.
From Sim Require Import Integrator Simulator.
Import ListNotations.
Open Scope Q_scope.

(** insertion into a strictly increasing duplicate-free list: the sorted union that
    [protocol.index.join(pd.Index(time_points), how="outer")] produces *)
Fixpoint qins (x : Q) (l : list Q) : list Q :=
  match l with
  | [] => [x]
  | y :: ys => if Qltb x y then x :: l else if Qeq_bool x y then l else y :: qins x ys
  end.
Definition qunion (a b : list Q) : list Q := fold_right qins (fold_right qins [] a) b.

Section Protocol.
  Variables Y P U O : Type.
  Variable flow : P -> Q -> Y -> Q -> Y.
  Variable solve_ok : P -> Q -> Y -> Q -> bool.
  Variable conv : Y -> Y -> bool.
  Variable pupd : P -> U -> P.
  Variable yovr : Y -> O -> Y.
  Variable fx : sim_facts.

  Notation sim := (sim Y P).
  Notation simulate := (simulate Y P flow solve_ok fx).
  Notation simulate_time_course := (simulate_time_course Y P flow solve_ok fx).
  Notation update_parameters := (update_parameters Y P U pupd).

  (** [make_protocol(steps)]: cumulative end of every (duration, values) step *)
  Fixpoint make_protocol_from (t : Q) (steps : list (Q * U)) : list (Q * U) :=
    match steps with
    | [] => []
    | (d, u) :: rest => (t + d, u) :: make_protocol_from (t + d) rest
    end.
  Definition make_protocol (steps : list (Q * U)) : list (Q * U) := make_protocol_from 0 steps.

  (** the loop of [simulate_protocol]: t_start is fixed before the loop *)
  Fixpoint protocol_loop (s : sim) (t_start : Q) (steps : nat) (rows : list (Q * U)) : sim * outcome :=
    match rows with
    | [] => (s, Done)
    | (t_end, u) :: rest =>
        let s1 := update_parameters s u in
        match simulate s1 (t_start + t_end) (Some steps) with
        | (s2, Done) =>
            match s_vars s2 with
            | None => (s2, Done)                                  (* break *)
            | Some _ => protocol_loop s2 t_start steps rest
            end
        | (s2, o) => (s2, o)                                      (* the exception propagates *)
        end
    end.

  Definition simulate_protocol (s : sim) (rows : list (Q * U)) (steps : nat) : sim * outcome :=
    if has_errors Y P s then (s, Done)
    else match prior_t_end Y P s with
         | None => (s, RaisedIndex)
         | Some t_start => protocol_loop s t_start steps rows
         end.

  (** the loop of [simulate_protocol_time_course]; rows carry ABSOLUTE ends here *)
  Fixpoint protocol_tc_loop (s : sim) (t_start : Q) (full : list Q) (rows : list (Q * U)) : sim * outcome :=
    match rows with
    | [] => (s, Done)
    | (t_end, u) :: rest =>
        let s1 := update_parameters s u in
        let sel := filter (fun t => cmpb (f_win_lo fx) t t_start && cmpb (f_win_hi fx) t t_end) full in
        match simulate_time_course s1 sel with
        | (s2, Done) =>
            match s_vars s2 with
            | None => (s2, Done)
            | Some _ => protocol_tc_loop s2 t_end full rest
            end
        | (s2, o) => (s2, o)
        end
    end.

  Definition simulate_protocol_time_course (s : sim) (rows : list (Q * U)) (pts : list Q) (rel : bool)
    : sim * outcome :=
    if has_errors Y P s then (s, Done)
    else match prior_t_end Y P s with
         | None => (s, RaisedIndex)
         | Some t_start =>
             let rows' := map (fun r => (fst r + t_start, snd r)) rows in
             let pts' := if rel then map (fun t => t + t_start) pts else pts in
             match pts' with
             | [] => (s, RaisedIndex)
             | p0 :: _ =>
                 if cmpb (f_ptc_cmp fx) (lastq pts' p0) t_start then (s, RaisedValue)
                 else protocol_tc_loop s t_start (qunion (map fst rows') pts') rows'
             end
         end.

  (** * operation alphabet and history runner *)
  Inductive op :=
  | OSim (t_end : Q) (steps : option nat)
  | OTc (pts : list Q)
  | OProt (steps : list (Q * U)) (per_step : nat)            (* make_protocol applied inside *)
  | OProtTc (steps : list (Q * U)) (pts : list Q) (rel : bool)
  | OSteady
  | OUpdPar (u : U)
  | OUpdVar (o : O)
  | OClear.

  Definition run_op (s : sim) (o : op) : sim * outcome :=
    match o with
    | OSim t st => simulate s t st
    | OTc pts => simulate_time_course s pts
    | OProt steps n => simulate_protocol s (make_protocol steps) n
    | OProtTc steps pts rel => simulate_protocol_time_course s (make_protocol steps) pts rel
    | OSteady => simulate_to_steady_state Y P flow conv fx s
    | OUpdPar u => (update_parameters s u, Done)
    | OUpdVar o => update_variables Y P O yovr fx s o
    | OClear => (clear_results Y P s, Done)
    end.

  (** a history: the user goes on after a refusal (the exception is caught) *)
  Fixpoint run (s : sim) (ops : list op) : sim :=
    match ops with
    | [] => s
    | o :: rest => run (fst (run_op s o)) rest
    end.

  (** the same, stopping at the first raise (how a loop INSIDE the library behaves) *)
  Fixpoint run_strict (s : sim) (ops : list op) : sim * outcome :=
    match ops with
    | [] => (s, Done)
    | o :: rest => match run_op s o with
                   | (s1, Done) => run_strict s1 rest
                   | r => r
                   end
    end.

  (** states and outcomes after every operation (what the correspondence compares) *)
  Fixpoint trace (s : sim) (ops : list op) : list (sim * outcome) :=
    match ops with
    | [] => []
    | o :: rest => let r := run_op s o in r :: trace (fst r) rest
    end.
End Protocol.

Arguments OSim {U O}.
Arguments OTc {U O}.
Arguments OProt {U O}.
Arguments OProtTc {U O}.
Arguments OSteady {U O}.
Arguments OUpdPar {U O}.
Arguments OUpdVar {U O}.
Arguments OClear {U O}.
