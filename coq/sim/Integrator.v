(** Model of src/mxlpy/integrators/int_scipy.py (class Scipy), statement by statement.

    External behaviour enters ONLY as Section variables:
      [flow p t y d]      the state reached after duration [d] when the model's equations are
                          integrated under parameters [p] from state [y] at (integrator) time [t]
                          -- what [scipy.integrate.solve_ivp] / [scipy.integrate.ode] compute;
      [solve_ok p t y t1] whether [solve_ivp] reports success on that stretch;
      [conv y1 y2]        the steady-state norm test [norm(y2 - y1) < tolerance]
                          (tolerance / rel_norm folded in).
    The CONTRACT of [solve_ivp] about its [t_eval] argument (values inside [t_span], strictly
    increasing when the span is forward, nothing usable for an empty span) is modelled explicitly
    in [solve_ivp] below, because the simulator relies on it to reject malformed time arrays.

    Times are [Q].  Everything is executable; there are no proofs in this file. *)
From Coq Require Import QArith List Bool NArith.
Import ListNotations.
Open Scope Q_scope.

(** * facts regenerated from the source (see GenSimFacts.v) *)
Inductive frame := FrameAbs | FrameRel | FrameMixed | FrameUnknown.
Inductive cmpk := CmpLe | CmpLt | CmpGe | CmpGt | CmpUnknown.

Definition Qltb (a b : Q) : bool := negb (Qle_bool b a).

(** [cmpb c a b] is the Python comparison [a <c> b] *)
Definition cmpb (c : cmpk) (a b : Q) : bool :=
  match c with
  | CmpLe => Qle_bool a b
  | CmpLt => Qltb a b
  | CmpGe => Qle_bool b a
  | CmpGt => Qltb b a
  | CmpUnknown => false
  end.

Record sim_facts := mkSimFacts {
  f_sim_frame : frame;   (* simulate: frame in which [t_end <= prior_t_end] is evaluated *)
  f_sim_cmp : cmpk;      (* ... and its comparison (<=) *)
  f_tc_frame : frame;    (* simulate_time_course: frame of the refusal test and of the filter *)
  f_tc_cmp : cmpk;       (* refusal: time_points[-1] <= prior_t_end *)
  f_tc_keep : cmpk;      (* kept points: time_points >= prior_t_end *)
  f_skip_sim : bool;     (* skipfirst= argument of simulate *)
  f_skip_tc : bool;      (* ... of simulate_time_course *)
  f_skip_ss : bool;      (* ... of simulate_to_steady_state *)
  f_ss_resets : bool;    (* integrate_to_steady_state starts with self.reset() *)
  f_ss_advances : bool;  (* ... and stores the reached point into t0 / y0 *)
  f_ss_step : N;         (* step_size default *)
  f_ss_max : N;          (* max_steps default *)
  f_ptc_cmp : cmpk;      (* simulate_protocol_time_course refusal: time_points[-1] <= t_start *)
  f_win_lo : cmpk;       (* window: full_time_points > t_start *)
  f_win_hi : cmpk;       (* window: full_time_points <= t_end *)
  f_updvar_keeps : bool; (* update_variables keeps an override made since the last simulation *)
  f_abs_time : bool;     (* _initialise_integrator hands the model ABSOLUTE time (rhs = model(t + _time_shift, y)) *)
  f_shapes_ok : bool     (* the functions modelled with a fixed shape are textually unchanged *)
}.

(** * small list helpers over [Q] *)
Fixpoint lastq (l : list Q) (d : Q) : Q :=
  match l with [] => d | [x] => x | _ :: l' => lastq l' d end.

(** adjacent elements strictly increasing *)
Fixpoint incrb (l : list Q) : bool :=
  match l with
  | [] => true
  | x :: l' => match l' with [] => true | y :: _ => Qltb x y && incrb l' end
  end.

(** adjacent elements strictly decreasing *)
Fixpoint decrb (l : list Q) : bool :=
  match l with
  | [] => true
  | x :: l' => match l' with [] => true | y :: _ => Qltb y x && decrb l' end
  end.

Definition Qmin' (a b : Q) := if Qle_bool a b then a else b.
Definition Qmax' (a b : Q) := if Qle_bool a b then b else a.

(** [np.linspace(a, b, n)]: n = 0 -> [], n = 1 -> [a], else a + i*step (i < n-1) and b itself *)
Definition linspace (a b : Q) (n : nat) : list Q :=
  match n with
  | O => []
  | S O => [a]
  | S m => map (fun i => a + inject_Z (Z.of_nat i) * ((b - a) / inject_Z (Z.of_nat m))) (seq 0 m) ++ [b]
  end.

Section Integrator.
  Variables Y P : Type.
  Variable flow : P -> Q -> Y -> Q -> Y.
  Variable solve_ok : P -> Q -> Y -> Q -> bool.
  Variable conv : Y -> Y -> bool.

  (** the dataclass fields that change: t0, y0, _y0_orig *)
  Record integ := mkInteg { i_t0 : Q; i_y0 : Y; i_orig : Y }.

  (** [Scipy(rhs, y0, jac)] + [__post_init__] *)
  Definition integ_init (y : Y) : integ := mkInteg 0 y y.

  (** [reset] *)
  Definition integ_reset (ig : integ) : integ := mkInteg 0 (i_orig ig) (i_orig ig).

  (** what an integrator call hands back (or raises) *)
  Inductive ires :=
  | IOk (tc : list (Q * Y))   (* Result(TimeCourse(time, values)) *)
  | IFail                     (* Result(IntegrationFailure()) *)
  | INoSteady                 (* Result(NoSteadyState()) *)
  | IRaiseValue               (* ValueError raised by solve_ivp (t_eval not sorted / outside t_span) *)
  | IRaiseIndex.              (* IndexError (empty time array, empty span) *)

  (** [spi.solve_ivp(fun, y0, t_span=(tp[0], tp[-1]), t_eval=tp)] for a non-empty [tp].
      Mirrors scipy's argument checks:
        values outside [min(t0,tf), max(t0,tf)]          -> ValueError
        tf > t0 and some diff <= 0, or tf < t0 and some diff >= 0 -> ValueError
      An empty span produces no output rows, so the caller's [t[-1]] raises IndexError. *)
  Definition solve_ivp (p : P) (y0 : Y) (tp : list Q) : ires :=
    match tp with
    | [] => IRaiseIndex
    | t0 :: _ =>
        let tf := lastq tp t0 in
        let lo := Qmin' t0 tf in
        let hi := Qmax' t0 tf in
        if negb (forallb (fun t => Qle_bool lo t && Qle_bool t hi) tp) then IRaiseValue
        else if Qltb t0 tf && negb (incrb tp) then IRaiseValue
        else if Qltb tf t0 && negb (decrb tp) then IRaiseValue
        else if Qeq_bool t0 tf then IRaiseIndex
        else if solve_ok p t0 y0 tf then IOk (map (fun t => (t, flow p t0 y0 (t - t0))) tp)
        else IFail
    end.

  (** [integrate_time_course]: prepend t0 unless the first point equals it; on success advance *)
  Definition integrate_time_course (p : P) (ig : integ) (tp : list Q) : integ * ires :=
    match tp with
    | [] => (ig, IRaiseIndex)                       (* time_points[0] on an empty array *)
    | t :: _ =>
        let tp' := if negb (Qeq_bool t (i_t0 ig)) then i_t0 ig :: tp else tp in
        match solve_ivp p (i_y0 ig) tp' with
        | IOk tc =>                                    (* self.t0 = t[-1]; self.y0 = y[-1] *)
            (mkInteg (lastq (map fst tc) (i_t0 ig)) (last (map snd tc) (i_y0 ig)) (i_orig ig), IOk tc)
        | r => (ig, r)
        end
    end.

  (** [integrate]: steps = None -> 100 points, else steps + 1 points *)
  Definition integrate (p : P) (ig : integ) (t_end : Q) (steps : option nat) : integ * ires :=
    let n := match steps with None => 100%nat | Some s => S s end in
    integrate_time_course p ig (linspace (i_t0 ig) t_end n).

  (** the loop of [integrate_to_steady_state]; [fuel] = max_steps.  The separate [spi.ode] object
      starts at ITS time 0 ([set_initial_value(self.y0)], t defaults to 0.0) whatever [self.t0] is;
      [tprev] is that object's current time, [t] the next target. *)
  Fixpoint steady_loop (p : P) (step : Q) (fuel : nat) (tprev t : Q) (y1 : Y) : ires * Q * Y :=
    match fuel with
    | O => (INoSteady, t, y1)
    | S f =>
        let y2 := flow p tprev y1 (t - tprev) in
        if conv y1 y2 then (IOk [(t, y2)], t, y2) else steady_loop p step f t (t + step) y2
    end.

  Definition integrate_to_steady_state (fx : sim_facts) (p : P) (ig : integ) : integ * ires :=
    let ig1 := if f_ss_resets fx then integ_reset ig else ig in
    let step := inject_Z (Z.of_N (f_ss_step fx)) in
    match steady_loop p step (N.to_nat (f_ss_max fx)) 0 (i_t0 ig1 + step) (i_y0 ig1) with
    | (r, t, y) =>
        match r with
        | IOk _ => (if f_ss_advances fx then mkInteg t y (i_orig ig1) else ig1, r)
        | _ => (ig1, r)
        end
    end.
End Integrator.

Arguments mkInteg {Y}.
Arguments i_t0 {Y}.
Arguments i_y0 {Y}.
Arguments i_orig {Y}.
Arguments IOk {Y}.
Arguments IFail {Y}.
Arguments INoSteady {Y}.
Arguments IRaiseValue {Y}.
Arguments IRaiseIndex {Y}.
