(** C04 -- Continued simulation: absolute increasing time axis, piecewise-exact states.

    ONLY theorem statements (written out in full), each closed by [exact <lemma>] and followed by
    [Print Assumptions].  All statements are about [gen_sim_facts], the facts REGENERATED from
    /repo/src/mxlpy/simulator.py and integrators/int_scipy.py on every run; [C04_facts_pinned] is the
    obligation that breaks when the frame / comparison of a refusal test, the point filter, a
    skipfirst argument, the steady-state reset, update_variables or any of the shape-pinned
    functions is edited.

    External behaviour is universally quantified: [flow] (the ODE solution map; [flow p t y d] =
    state after duration d from state y at INTEGRATOR time t), [solve_ok] (solver success),
    [conv] (steady-state norm test), [pupd] (Model.update_parameters), [yovr] (dict | overrides).

    FULL statement of the property (kept visible):
      for ANY history of operations the accumulated index is strictly increasing, contains every
      requested later point exactly once, every segment is the solution from the previous final
      state (override applied) under the parameters in force, refusal iff end <= reached.
    It is FALSE of the code (hence of the faithful model) in TWO situations, each recorded as a known
    finding with a machine-checked refutation below:
      - a steady-state run in the history           ([C04_steady_refuted]);
      - a view of get_result() read between a parameter update and the next simulating call: the read
        undoes the update ([C04_view_reverts_update_refuted]; repair proposed, fixes/C04-views-restore-parameters.diff;
        full statement [C04_views_read_only] for the repaired views, [C04_views_read_only_partial] for the tree;
        see the last section of this file).
    The [_partial] theorems carry exactly this guard: [Forall no_steady ops] for whole histories
    (REFINED at the end of this file to [ok_hist]: steady-state runs are admitted when they are issued
    on an integrator at its own time 0 and directly followed by update_variable(s) / clear_results --
    [C04_history_invariant_steady_partial]; what is left outside is exactly the finding's guard);
    the per-operation theorems are stated for every state satisfying [Inv2], the invariant that
    [C04_history_invariant_partial] establishes for every state reachable without a steady-state run.
    Three further defects were REPAIRED in /repo (fixes/C04-timeshift.diff, C04-override-twice.diff,
    C04-override-time.diff); each is kept as a regression witness on the facts of the unrepaired code
    ([C04_unrepaired_refuted], [C04_shifted_time_refuted]) while the theorems hold for the regenerated facts.
    Rows are stated in ABSOLUTE time: [appended .. s s' h rest] says the new rows are
    [(t + shift, flow p (h + shift) y0 (t - h))] with [h + shift == reached s]. *)
From Coq Require Import QArith List Bool NArith.
From Sim Require Import Integrator Simulator Protocol Views Variants SimExec ViewsExec GenSimFacts ExpectedFacts SimProofs ProtocolProofs SteadyProofs StampProofs ViewsProofs FailureProofs.
Import ListNotations.
Open Scope Q_scope.

Theorem C04_facts_pinned :
  gen_sim_facts =
    mkSimFacts FrameAbs CmpLe FrameAbs CmpLe CmpGe true true false true false 100 1000 CmpLe CmpGt CmpLe true true true.
Proof. vm_compute. reflexivity. Qed.
Print Assumptions C04_facts_pinned.

(** every state reachable from a new simulator by ANY history without a steady-state run satisfies
    the invariant [Inv2]: the integrator's time + _time_shift is the time reached, the index is
    strictly increasing, and the integrator's state is the last row (or the overridden state) *)
Theorem C04_history_invariant_partial :
  forall (Y P U O : Type) (flow : P -> Q -> Y -> Q -> Y) (solve_ok : P -> Q -> Y -> Q -> bool)
         (conv : Y -> Y -> bool) (pupd : P -> U -> P) (yovr : Y -> O -> Y)
         (y0 : Y) (p : P) (ops : list (op U O)),
    Forall (no_steady U O) ops ->
    Inv2 Y P (run Y P U O flow solve_ok conv pupd yovr gen_sim_facts (sim_new Y P y0 p) ops).
Proof. exact (fun Y P U O flow solve_ok conv pupd yovr y0 p ops H => history_invariant Y P U O flow solve_ok conv pupd yovr gen_sim_facts (good_of_pinned _ C04_facts_pinned) ops (sim_new Y P y0 p) H (sim_new_inv2 Y P y0 p)). Qed.
Print Assumptions C04_history_invariant_partial.

(** ... in particular the accumulated time axis is strictly increasing after any such history *)
Theorem C04_axis_increasing_partial :
  forall (Y P U O : Type) (flow : P -> Q -> Y -> Q -> Y) (solve_ok : P -> Q -> Y -> Q -> bool)
         (conv : Y -> Y -> bool) (pupd : P -> U -> P) (yovr : Y -> O -> Y)
         (y0 : Y) (p : P) (ops : list (op U O)),
    Forall (no_steady U O) ops ->
    incr (index_of Y P (run Y P U O flow solve_ok conv pupd yovr gen_sim_facts (sim_new Y P y0 p) ops)).
Proof. exact (fun Y P U O flow solve_ok conv pupd yovr => history_axis_increasing Y P U O flow solve_ok conv pupd yovr gen_sim_facts (good_of_pinned _ C04_facts_pinned)). Qed.
Print Assumptions C04_axis_increasing_partial.

(** simulate(t_end, steps) with steps >= 1 (or the default grid) in any reachable state:
    refused exactly when t_end is not later than the time reached (and then nothing changes);
    otherwise the grid points after the first are appended: strictly increasing, ending exactly at
    t_end, [steps] of them, their rows the solution from the state the integrator holds
    ([start_state]: the last row, or the overridden state), the parameters in force recorded *)
Theorem C04_simulate_partial :
  forall (Y P : Type) (flow : P -> Q -> Y -> Q -> Y) (solve_ok : P -> Q -> Y -> Q -> bool)
         (s : sim Y P) (t_end : Q) (steps : option nat) (m : nat),
    Inv2 Y P s -> has_errors Y P s = false -> n_points steps = S (S m) ->
    (snd (simulate Y P flow solve_ok gen_sim_facts s t_end steps) = RaisedValue <-> t_end <= reached Y P s)
    /\ (snd (simulate Y P flow solve_ok gen_sim_facts s t_end steps) <> RaisedValue ->
        snd (simulate Y P flow solve_ok gen_sim_facts s t_end steps) = Done)
    /\ (t_end <= reached Y P s -> fst (simulate Y P flow solve_ok gen_sim_facts s t_end steps) = s)
    /\ (forall s', simulate Y P flow solve_ok gen_sim_facts s t_end steps = (s', Done) -> has_errors Y P s' = false ->
          let h := sim_h Y P s t_end m in let rest := sim_rest Y P s t_end m in
          h == i_t0 (s_int s) /\ i_t0 (s_int s) + shiftv Y P s == reached Y P s
          /\ i_y0 (s_int s) = start_state Y P s
          /\ incr (h :: rest) /\ appended Y P flow s s' h rest
          /\ reached Y P s' == t_end /\ length rest = S m).
Proof. exact (fun Y P flow solve_ok => simulate_spec Y P flow solve_ok gen_sim_facts (good_of_pinned _ C04_facts_pinned)). Qed.
Print Assumptions C04_simulate_partial.

(** simulate_time_course(points) in any reachable state: refused exactly when the last point is not
    later than the time reached, or the points not earlier than it are not strictly increasing
    (scipy rejects such an array), and then nothing changes; otherwise EXACTLY the requested points
    later than the time reached are appended (same order, each once, nothing else), the new time
    reached is the last requested point, rows and parameters as above *)
Theorem C04_time_course_partial :
  forall (Y P : Type) (flow : P -> Q -> Y -> Q -> Y) (solve_ok : P -> Q -> Y -> Q -> bool)
         (s : sim Y P) (pts : list Q),
    Inv2 Y P s -> has_errors Y P s = false -> pts <> [] ->
    (snd (simulate_time_course Y P flow solve_ok gen_sim_facts s pts) = RaisedValue <->
       lastq pts 0 <= reached Y P s \/ ~ incr (filter (fun t => Qle_bool (reached Y P s) t) pts))
    /\ (snd (simulate_time_course Y P flow solve_ok gen_sim_facts s pts) <> RaisedValue ->
        snd (simulate_time_course Y P flow solve_ok gen_sim_facts s pts) = Done)
    /\ (snd (simulate_time_course Y P flow solve_ok gen_sim_facts s pts) = RaisedValue ->
        fst (simulate_time_course Y P flow solve_ok gen_sim_facts s pts) = s)
    /\ (forall s', simulate_time_course Y P flow solve_ok gen_sim_facts s pts = (s', Done) -> has_errors Y P s' = false ->
          exists h rest,
            h == i_t0 (s_int s) /\ i_t0 (s_int s) + shiftv Y P s == reached Y P s
            /\ i_y0 (s_int s) = start_state Y P s
            /\ incr (h :: rest) /\ appended Y P flow s s' h rest
            /\ Qeql (map (add_shift (s_shift s)) rest) (filter (fun t => Qltb (reached Y P s) t) pts)
            /\ reached Y P s' == lastq pts 0).
Proof. exact (fun Y P flow solve_ok => time_course_spec Y P flow solve_ok gen_sim_facts (good_of_pinned _ C04_facts_pinned)). Qed.
Print Assumptions C04_time_course_partial.

(** update_variable(s): the override is applied to the state the next segment would have started
    from (so successive overrides accumulate), the result is untouched, the invariant is kept *)
Theorem C04_override :
  forall (Y P O : Type) (yovr : Y -> O -> Y) (s : sim Y P) (o : O),
    Inv2 Y P s ->
    Inv2 Y P (fst (update_variables Y P O yovr gen_sim_facts s o))
    /\ i_y0 (s_int (fst (update_variables Y P O yovr gen_sim_facts s o))) = yovr (i_y0 (s_int s)) o
    /\ index_of Y P (fst (update_variables Y P O yovr gen_sim_facts s o)) = index_of Y P s.
Proof. exact (fun Y P O yovr => update_variables_inv2 Y P O yovr gen_sim_facts (good_of_pinned _ C04_facts_pinned)). Qed.
Print Assumptions C04_override.

(** clear_results: the simulator behaves as a new one started from its current y0 and parameters *)
Theorem C04_clear :
  forall (Y P U O : Type) (flow : P -> Q -> Y -> Q -> Y) (solve_ok : P -> Q -> Y -> Q -> bool)
         (conv : Y -> Y -> bool) (pupd : P -> U -> P) (yovr : Y -> O -> Y) (s : sim Y P) (ops : list (op U O)),
    run Y P U O flow solve_ok conv pupd yovr gen_sim_facts s (OClear :: ops)
    = run Y P U O flow solve_ok conv pupd yovr gen_sim_facts (sim_new Y P (s_y0 s) (s_mp s)) ops.
Proof. exact (fun Y P U O flow solve_ok conv pupd yovr s ops => eq_refl). Qed.
Print Assumptions C04_clear.

(** segments chain -- refinement to the abstract flow specification.  For ANY solution map [flow] that
    depends on its time arguments as rational numbers and satisfies the semigroup law of solutions, and a
    solver that succeeds: after an accepted [simulate] from any reachable state the state the next segment
    starts from is the solution in ABSOLUTE time from the state this segment started from (after an
    override: from the overridden state, see [C04_override]) ... *)
Theorem C04_state_after_simulate_partial :
  forall (Y P : Type) (flow : P -> Q -> Y -> Q -> Y) (solve_ok : P -> Q -> Y -> Q -> bool),
    (forall p t t' y d d', t == t' -> d == d' -> flow p t y d = flow p t' y d') ->
    (forall p t y t1, solve_ok p t y t1 = true) ->
    forall (s : sim Y P) (t_end : Q) (steps : option nat) (m : nat),
    Inv2 Y P s -> has_errors Y P s = false -> n_points steps = S (S m) -> reached Y P s < t_end ->
    exists s', simulate Y P flow solve_ok gen_sim_facts s t_end steps = (s', Done)
      /\ Inv2 Y P s' /\ has_errors Y P s' = false /\ s_mp s' = s_mp s /\ reached Y P s' == t_end
      /\ i_y0 (s_int s') = flow (s_mp s) (reached Y P s) (i_y0 (s_int s)) (t_end - reached Y P s).
Proof. exact (fun Y P flow solve_ok => state_after_simulate Y P flow solve_ok gen_sim_facts (good_of_pinned _ C04_facts_pinned)). Qed.
Print Assumptions C04_state_after_simulate_partial.

(** ... and continuing IS simulating in one go: [simulate t1; simulate t2] and [simulate t2] leave the
    simulator at the same absolute time in the same state, whatever the two grids *)
Theorem C04_segments_chain_partial :
  forall (Y P : Type) (flow : P -> Q -> Y -> Q -> Y) (solve_ok : P -> Q -> Y -> Q -> bool),
    (forall p t t' y d d', t == t' -> d == d' -> flow p t y d = flow p t' y d') ->
    (forall p t y a b, 0 <= a -> 0 <= b -> flow p (t + a) (flow p t y a) b = flow p t y (a + b)) ->
    (forall p t y t1, solve_ok p t y t1 = true) ->
    forall (s : sim Y P) (t1 t2 : Q) (st1 st2 : option nat) (m1 m2 : nat),
    Inv2 Y P s -> has_errors Y P s = false -> n_points st1 = S (S m1) -> n_points st2 = S (S m2) ->
    reached Y P s < t1 -> t1 < t2 ->
    let s12 := fst (simulate Y P flow solve_ok gen_sim_facts (fst (simulate Y P flow solve_ok gen_sim_facts s t1 st1)) t2 st2) in
    let s2 := fst (simulate Y P flow solve_ok gen_sim_facts s t2 st2) in
    i_y0 (s_int s12) = i_y0 (s_int s2)
    /\ i_y0 (s_int s2) = flow (s_mp s) (reached Y P s) (i_y0 (s_int s)) (t2 - reached Y P s)
    /\ reached Y P s12 == t2 /\ reached Y P s2 == t2.
Proof. exact (fun Y P flow solve_ok => continuation_is_one_run Y P flow solve_ok gen_sim_facts (good_of_pinned _ C04_facts_pinned)). Qed.
Print Assumptions C04_segments_chain_partial.

(** KNOWN FINDING steady-state-resets-integrator: the guard [no_steady] cannot be dropped *)
Theorem C04_steady_refuted :
  exists ops : list xop,
    ~ incr (index_of (list Q) (list Q) (xrun gen_sim_facts (xnew [1; 0] [1; 0; 0; 0]) ops)).
Proof.
  exists [OSim 500 (Some 2%nat); OSteady; OSim 800 (Some 2%nat)].
  apply not_incr_by_compute. vm_compute. reflexivity.
Qed.
Print Assumptions C04_steady_refuted.

(** REPAIRED defect override-restarts-model-time (fixes/C04-override-time.diff), kept as a regression
    witness: with dx/dt = time ([a] = 1), simulate(2); update_variable(x, 2); simulate(4) stored
    x(4) = 4 on the facts of the unrepaired tree (the model saw the integrator's shifted time 0..2),
    while the solution continued from x(2) = 2 in absolute time is 8 -- which is what the regenerated
    facts give *)
Theorem C04_shifted_time_refuted :
  let ops : list xop := [OSim 2 (Some 1%nat); OUpdVar [(0%nat, 2)]; OSim 4 (Some 1%nat)] in
  let rows fx := map (fun sg => map (fun r => (Qred (fst r), snd r)) sg)
                     (match s_vars (xrun fx (xnew [0; 0] [0; 0; 1; 0]) ops) with Some l => l | None => [] end) in
  rows shifted_time_facts = [[(0, [0; 0]); (2, [2; 0])]; [(4, [4; 0])]]
  /\ rows gen_sim_facts = [[(0, [0; 0]); (2, [2; 0])]; [(4, [8; 0])]]
  /\ xflow [0; 0; 1; 0] 2 [2; 0] 2 = [8; 0].
Proof. vm_compute. repeat split; reflexivity. Qed.
Print Assumptions C04_shifted_time_refuted.

(** the two defects repaired by fixes/C04-*.diff, refuted on the facts of the UNREPAIRED tree:
    simulate(10); update_variable; simulate(15) is refused although 15 > 10, and
    after simulate(2) (x = 3, y = 1) update_variable(x,5); update_variable(y,0) forgets x = 5 on the
    unrepaired facts and keeps it on the regenerated ones *)
Theorem C04_unrepaired_refuted :
  map (fun r => out_code (snd r))
      (xtrace unrepaired_facts (xnew [1; 1] [1; 1 # 2; 0; 0]) [OSim 10 (Some 2%nat); OUpdVar [(0%nat, 2)]; OSim 15 (Some 2%nat)])
    = [0; 0; 1]%nat
  /\ i_y0 (s_int (xrun unrepaired_facts (xnew [1; 1] [1; 0; 0; 0]) [OSim 2 (Some 1%nat); OUpdVar [(0%nat, 5)]; OUpdVar [(1%nat, 0)]]))
     = [3; 0]
  /\ i_y0 (s_int (xrun gen_sim_facts (xnew [1; 1] [1; 0; 0; 0]) [OSim 2 (Some 1%nat); OUpdVar [(0%nat, 5)]; OUpdVar [(1%nat, 0)]]))
     = [5; 0].
Proof. vm_compute. repeat split; reflexivity. Qed.
Print Assumptions C04_unrepaired_refuted.

(** non-vacuity of the hypotheses of [C04_segments_chain_partial]: the solution map of dx/dt = p
    ([lin_flow p t y d = Qred (y + p * d)]) satisfies both of them *)
Example C04_chain_hypotheses_nonvacuous :
  (forall p t t' y d d', t == t' -> d == d' -> lin_flow p t y d = lin_flow p t' y d')
  /\ (forall p t y a b, 0 <= a -> 0 <= b -> lin_flow p (t + a) (lin_flow p t y a) b = lin_flow p t y (a + b)).
Proof. exact (conj lin_flow_ext lin_flow_semigroup). Qed.
Print Assumptions C04_chain_hypotheses_nonvacuous.

(** non-vacuity: a six-operation history meeting the hypotheses, with its result *)
Example C04_nonvacuous :
  let ops : list xop := [OSim 10 (Some 2%nat); OUpdVar [(0%nat, 2)]; OSim 15 (Some 2%nat);
                         OUpdPar [(0%nat, 2)]; OTc [12; 14; 15; 21; 23]; OSim 20 (Some 1%nat)] in
  Forall (no_steady _ _) ops
  /\ xindex (xrun gen_sim_facts (xnew [1; 0] [1; 0; 0; 0]) ops) = [0; 5; 10; 25 # 2; 15; 21; 23]
  /\ has_errors _ _ (xrun gen_sim_facts (xnew [1; 0] [1; 0; 0; 0]) ops) = false.
Proof. cbv zeta. split; [repeat constructor|]. vm_compute. split; reflexivity. Qed.
Print Assumptions C04_nonvacuous.

(** * what IS well defined around a steady-state run (refinement of the guard of the known finding)

    [Wf s] (SteadyProofs.v): the result of [s] ends in a row (or there is no result and no time shift) and the
    accumulated index is strictly increasing -- NOTHING is assumed about the integrator.  Every [Inv2] state is
    [Wf]; the state right after a steady-state run is [Wf] but not [Inv2] (the integrator was reset). *)

(** update_variable(s) in ANY well-formed state, in particular right after a steady-state run: it returns, applies
    the override to the state the next segment has to start from ([start_state]: the last reported row, or the
    overridden state while an override is pending), re-initialises the integrator THERE (its time 0 = the time
    reached), leaves result / parameters / errors untouched -- and the invariant of continued simulation holds
    again, so C04_simulate_partial / C04_time_course_partial / C14_* apply to whatever is simulated next *)
Theorem C04_override_after_any_state :
  forall (Y P O : Type) (yovr : Y -> O -> Y) (s : sim Y P) (o : O),
    Wf Y P s ->
    Inv2 Y P (fst (update_variables Y P O yovr gen_sim_facts s o))
    /\ snd (update_variables Y P O yovr gen_sim_facts s o) = Done
    /\ i_y0 (s_int (fst (update_variables Y P O yovr gen_sim_facts s o))) = yovr (start_state Y P s) o
    /\ i_t0 (s_int (fst (update_variables Y P O yovr gen_sim_facts s o))) = 0
    /\ index_of Y P (fst (update_variables Y P O yovr gen_sim_facts s o)) = index_of Y P s
    /\ reached Y P (fst (update_variables Y P O yovr gen_sim_facts s o)) = reached Y P s
    /\ s_errs (fst (update_variables Y P O yovr gen_sim_facts s o)) = s_errs s
    /\ s_mp (fst (update_variables Y P O yovr gen_sim_facts s o)) = s_mp s
    /\ s_pars (fst (update_variables Y P O yovr gen_sim_facts s o)) = s_pars s
    /\ s_vars (fst (update_variables Y P O yovr gen_sim_facts s o)) = s_vars s.
Proof. exact (fun Y P O yovr => override_resyncs Y P O yovr gen_sim_facts (good_of_pinned _ C04_facts_pinned)). Qed.
Print Assumptions C04_override_after_any_state.

(** a steady-state run on an integrator that is at its own time 0 (new simulator, or directly after
    update_variable(s) / clear_results -- the complement is the guard of the known finding): it always returns and
    leaves a well-formed state; when it finds a steady state exactly ONE row is appended, stamped at least one
    step (100) later than the time reached, so the accumulated index stays strictly increasing; earlier segments
    and the simulator's own fields are untouched, the parameters in force are recorded *)
Theorem C04_steady_on_fresh_integrator :
  forall (Y P : Type) (flow : P -> Q -> Y -> Q -> Y) (conv : Y -> Y -> bool) (s : sim Y P),
    Inv2 Y P s -> i_t0 (s_int s) == 0 ->
    Wf Y P (fst (simulate_to_steady_state Y P flow conv gen_sim_facts s))
    /\ snd (simulate_to_steady_state Y P flow conv gen_sim_facts s) = Done
    /\ (has_errors Y P s = false -> has_errors Y P (fst (simulate_to_steady_state Y P flow conv gen_sim_facts s)) = false ->
        exists t y,
          s_vars (fst (simulate_to_steady_state Y P flow conv gen_sim_facts s))
            = Some (match s_vars s with None => [] | Some l => l end ++ [[(t, y)]])
          /\ index_of Y P (fst (simulate_to_steady_state Y P flow conv gen_sim_facts s)) = index_of Y P s ++ [t]
          /\ reached Y P s + 100 <= t
          /\ reached Y P (fst (simulate_to_steady_state Y P flow conv gen_sim_facts s)) = t
          /\ s_pars (fst (simulate_to_steady_state Y P flow conv gen_sim_facts s)) = Some (pars_list Y P s ++ [s_mp s])
          /\ s_shift (fst (simulate_to_steady_state Y P flow conv gen_sim_facts s)) = s_shift s
          /\ s_y0 (fst (simulate_to_steady_state Y P flow conv gen_sim_facts s)) = s_y0 s
          /\ s_mp (fst (simulate_to_steady_state Y P flow conv gen_sim_facts s)) = s_mp s).
Proof. exact (fun Y P flow conv => steady_fresh Y P flow conv gen_sim_facts (good_steady_of_pinned _ C04_facts_pinned)). Qed.
Print Assumptions C04_steady_on_fresh_integrator.

(** histories WITH steady-state runs.  [ok_hist true ops] (SteadyProofs.v, a syntactic condition): every
    simulate_to_steady_state is issued while the integrator is known to be at its own time 0 (start of the history,
    or directly after update_variable(s) / clear_results, update_parameter(s) in between allowed) and is directly
    followed by update_variable(s) -- or it is directly followed by clear_results.  For every such history over the
    8-operation alphabet the invariant holds at the end and the accumulated index is strictly increasing.
    (Still partial: a steady-state run after something was integrated, or followed by a simulating call, is the
    known finding -- [C04_steady_refuted].) *)
Theorem C04_history_invariant_steady_partial :
  forall (Y P U O : Type) (flow : P -> Q -> Y -> Q -> Y) (solve_ok : P -> Q -> Y -> Q -> bool)
         (conv : Y -> Y -> bool) (pupd : P -> U -> P) (yovr : Y -> O -> Y)
         (y0 : Y) (p : P) (ops : list (op U O)),
    ok_hist U O true ops ->
    Inv2 Y P (run Y P U O flow solve_ok conv pupd yovr gen_sim_facts (sim_new Y P y0 p) ops).
Proof. exact (fun Y P U O flow solve_ok conv pupd yovr => history_invariant_steady Y P U O flow solve_ok conv pupd yovr gen_sim_facts (good_of_pinned _ C04_facts_pinned) (good_steady_of_pinned _ C04_facts_pinned)). Qed.
Print Assumptions C04_history_invariant_steady_partial.

Theorem C04_axis_increasing_steady_partial :
  forall (Y P U O : Type) (flow : P -> Q -> Y -> Q -> Y) (solve_ok : P -> Q -> Y -> Q -> bool)
         (conv : Y -> Y -> bool) (pupd : P -> U -> P) (yovr : Y -> O -> Y)
         (y0 : Y) (p : P) (ops : list (op U O)),
    ok_hist U O true ops ->
    incr (index_of Y P (run Y P U O flow solve_ok conv pupd yovr gen_sim_facts (sim_new Y P y0 p) ops)).
Proof. exact (fun Y P U O flow solve_ok conv pupd yovr => history_axis_increasing_steady Y P U O flow solve_ok conv pupd yovr gen_sim_facts (good_of_pinned _ C04_facts_pinned) (good_steady_of_pinned _ C04_facts_pinned)). Qed.
Print Assumptions C04_axis_increasing_steady_partial.

(** requested ONCE at ANY positive gap.  The model compares times exactly -- there is no tolerance anywhere -- and
    this is what the pinned shape of Scipy.integrate_time_course ([time_points[0] != self.t0]) demands: a time
    course whose first point is later than the time reached by ANY d > 0 (however small, at any absolute time,
    also in shifted integrator time after an override) appends exactly the requested points, the first one included *)
Theorem C04_tiny_gap_partial :
  forall (Y P : Type) (flow : P -> Q -> Y -> Q -> Y) (solve_ok : P -> Q -> Y -> Q -> bool)
         (s : sim Y P) (d : Q) (later : list Q),
    (forall p t y t1, solve_ok p t y t1 = true) -> Inv2 Y P s -> has_errors Y P s = false ->
    0 < d -> incr ((reached Y P s + d) :: later) ->
    exists s2, simulate_time_course Y P flow solve_ok gen_sim_facts s ((reached Y P s + d) :: later) = (s2, Done)
      /\ Inv2 Y P s2 /\ has_errors Y P s2 = false
      /\ Qeql (index_of Y P s2)
              ((match s_vars s with None => [reached Y P s] | Some _ => index_of Y P s end) ++ (reached Y P s + d) :: later)
      /\ reached Y P s2 == lastq ((reached Y P s + d) :: later) 0.
Proof. exact (fun Y P flow solve_ok => tc_tiny_gap Y P flow solve_ok gen_sim_facts (good_of_pinned _ C04_facts_pinned)). Qed.
Print Assumptions C04_tiny_gap_partial.

(** ... at the level of the integrator: the current time is put in front of the requested points unless the first
    one EQUALS it *)
Theorem C04_prepend_exact :
  forall (Y P : Type) (flow : P -> Q -> Y -> Q -> Y) (solve_ok : P -> Q -> Y -> Q -> bool)
         (p : P) (ig : integ Y) (t : Q) (tp : list Q),
    ~ t == i_t0 ig ->
    integrate_time_course Y P flow solve_ok p ig (t :: tp)
    = match solve_ivp Y P flow solve_ok p (i_y0 ig) (i_t0 ig :: t :: tp) with
      | IOk tc => (mkInteg (lastq (map fst tc) (i_t0 ig)) (last (map snd tc) (i_y0 ig)) (i_orig ig), IOk tc)
      | r => (ig, r)
      end.
Proof. exact itc_prepend_exact. Qed.
Print Assumptions C04_prepend_exact.

(** non-vacuity: a "steady state" reported at t = 200 in a state other than the initial one (x' = y + time with
    y = -150: the iterates at t = 100 and t = 200 coincide), an override of y alone, a continued simulation: the
    history meets [ok_hist], x continues from the reported row (-9999), the axis goes on from 200 *)
Example C04_steady_override_nonvacuous :
  let ops : list xop := [OSteady; OUpdVar [(1%nat, 1)]; OSim 202 (Some 2%nat)] in
  ok_hist _ _ true ops
  /\ xindex (xrun gen_sim_facts (xnew [1; -150] [1; 0; 1; 0]) ops) = [200; 201; 202]
  /\ (match s_vars (xrun gen_sim_facts (xnew [1; -150] [1; 0; 1; 0]) ops) with
      | Some l => map (map (fun r => map Qred (snd r))) l | None => [] end)
     = [[[-9999; -150]]; [[-19595 # 2; 1]; [-9595; 1]]].
Proof. cbv zeta. split; [cbn; auto|]. vm_compute. split; reflexivity. Qed.
Print Assumptions C04_steady_override_nonvacuous.

(** * second deepening pass: the exact time stamp of a steady-state row; reading views between simulation calls *)

(** EXACT stamp (strengthens [C04_steady_on_fresh_integrator], which only bounds it from below): a steady-state run
    on an integrator at its own time 0 that finds a steady state stamps its row in ABSOLUTE time at
    reached + (k+1) * 100 for some k < 1000 -- the search proceeds in whole steps from the time already reached *)
Theorem C04_steady_stamp_exact :
  forall (Y P : Type) (flow : P -> Q -> Y -> Q -> Y) (conv : Y -> Y -> bool) (s : sim Y P),
    Inv2 Y P s -> i_t0 (s_int s) == 0 ->
    has_errors Y P s = false ->
    has_errors Y P (fst (simulate_to_steady_state Y P flow conv gen_sim_facts s)) = false ->
    exists k : nat, (k < 1000)%nat
      /\ reached Y P (fst (simulate_to_steady_state Y P flow conv gen_sim_facts s))
         == reached Y P s + inject_Z (Z.of_nat (S k)) * 100.
Proof. exact (fun Y P flow conv => steady_fresh_stamp Y P flow conv gen_sim_facts (good_steady_of_pinned _ C04_facts_pinned)). Qed.
Print Assumptions C04_steady_stamp_exact.

(** [simulate ... ; update_variable(s) ; simulate_to_steady_state] from ANY well-formed state (results of any kind,
    also right after another steady-state run): the steady-state row is stamped at the time already reached plus a
    whole number of search steps -- NOT in the restarted integrator's relative time (seeded change C04-4) --, the
    accumulated index is the old index plus that stamp and stays strictly increasing *)
Theorem C04_steady_after_override_absolute :
  forall (Y P O : Type) (flow : P -> Q -> Y -> Q -> Y) (conv : Y -> Y -> bool) (yovr : Y -> O -> Y)
         (s : sim Y P) (o : O),
    Wf Y P s -> has_errors Y P s = false ->
    has_errors Y P (fst (simulate_to_steady_state Y P flow conv gen_sim_facts
                           (fst (update_variables Y P O yovr gen_sim_facts s o)))) = false ->
    exists k : nat, (k < 1000)%nat
      /\ reached Y P (fst (simulate_to_steady_state Y P flow conv gen_sim_facts
                             (fst (update_variables Y P O yovr gen_sim_facts s o))))
         == reached Y P s + inject_Z (Z.of_nat (S k)) * 100
      /\ incr (index_of Y P (fst (simulate_to_steady_state Y P flow conv gen_sim_facts
                                    (fst (update_variables Y P O yovr gen_sim_facts s o)))))
      /\ index_of Y P (fst (simulate_to_steady_state Y P flow conv gen_sim_facts
                              (fst (update_variables Y P O yovr gen_sim_facts s o))))
         = index_of Y P s ++ [reached Y P (fst (simulate_to_steady_state Y P flow conv gen_sim_facts
                                                  (fst (update_variables Y P O yovr gen_sim_facts s o))))].
Proof. exact (fun Y P O flow conv yovr => steady_after_override_stamp Y P O flow conv yovr gen_sim_facts (good_of_pinned _ C04_facts_pinned) (good_steady_of_pinned _ C04_facts_pinned)). Qed.
Print Assumptions C04_steady_after_override_absolute.

(** non-vacuity: x' = y + time, [simulate(2); update_variable(y, -152); simulate_to_steady_state]: the iterates at
    integrator time 100 and 200 (absolute 102 and 202) coincide, the row is stamped 202 = 2 + 2*100 *)
Example C04_override_steady_nonvacuous :
  let ops : list xop := [OSim 2 (Some 2%nat); OUpdVar [(1%nat, -152)]; OSteady; OUpdVar [(0%nat, 1)]; OSim 204 (Some 2%nat)] in
  ok_hist _ _ true ops
  /\ xindex (xrun gen_sim_facts (xnew [1; 0] [1; 0; 1; 0]) ops) = [0; 1; 2; 202; 203; 204].
Proof. cbv zeta. split; [cbn; auto|]. vm_compute. reflexivity. Qed.
Print Assumptions C04_override_steady_nonvacuous.

(** regression witness for seeded change C04-4 (Variants.v: the shift back to absolute time moved into the
    [elif skipfirst:] branch of _handle_simulation_results): x' = y + time,
    [simulate(T); update_variable(y, -(T + 50(2n-1))); simulate_to_steady_state].  The pinned shape stamps the row at
    202 (T = 2) resp. 400 (T = 300); the variant at 200 resp. 100 -- after 300, an axis that is not increasing *)
Theorem C04_relative_stamp_refuted :
  xindex (fst (simulate_to_steady_state (list Q) (list Q) xflow xconv pinned_facts (stamp_state 2 (-152)))) = [0; 1; 2; 202]
  /\ xindex (fst (steady_skipshift (list Q) (list Q) xflow xconv pinned_facts (stamp_state 2 (-152)))) = [0; 1; 2; 200]
  /\ xindex (fst (simulate_to_steady_state (list Q) (list Q) xflow xconv pinned_facts (stamp_state 300 (-350)))) = [0; 150; 300; 400]
  /\ xindex (fst (steady_skipshift (list Q) (list Q) xflow xconv pinned_facts (stamp_state 300 (-350)))) = [0; 150; 300; 100]
  /\ incrb (xindex (fst (steady_skipshift (list Q) (list Q) xflow xconv pinned_facts (stamp_state 300 (-350))))) = false.
Proof. exact relative_stamp_refuted. Qed.
Print Assumptions C04_relative_stamp_refuted.

(** ** views of get_result() read BETWEEN simulation calls (model: Views.v) *)

(** the regenerated fact: what a view leaves in the model it shares with the Simulator.  [C04_expected_view]
    (ExpectedFacts.v) is [ViewLastSegment] while the finding view-read-reverts-parameter-update is recorded, and
    [ViewRestores] once fixes/C04-views-restore-parameters.diff is in /repo (tools/c04_switch.py) *)
Theorem C04_view_mode_pinned : gen_view_mode = C04_expected_view.
Proof. vm_compute. reflexivity. Qed.
Print Assumptions C04_view_mode_pinned.

(** FULL statement (holds of the REPAIRED views): for ALL histories of the 8 operations with view reads anywhere in
    between, the simulator ends in the same state, and every operation returns the same outcome and state, as in
    the history with the reads erased -- reading results never changes what runs next, so every theorem of this file
    applies to histories with reads as it stands *)
Theorem C04_views_read_only :
  forall (Y P U O : Type) (flow : P -> Q -> Y -> Q -> Y) (solve_ok : P -> Q -> Y -> Q -> bool)
         (conv : Y -> Y -> bool) (pupd : P -> U -> P) (yovr : Y -> O -> Y)
         (ops : list (vop U O)) (s : sim Y P),
    vrun Y P U O flow solve_ok conv pupd yovr gen_sim_facts ViewRestores s ops
      = run Y P U O flow solve_ok conv pupd yovr gen_sim_facts s (erase U O ops)
    /\ vtrace_base Y P U O flow solve_ok conv pupd yovr gen_sim_facts ViewRestores s ops
      = trace Y P U O flow solve_ok conv pupd yovr gen_sim_facts s (erase U O ops).
Proof. exact (fun Y P U O flow solve_ok conv pupd yovr ops s => conj (vrun_erase_restores Y P U O flow solve_ok conv pupd yovr gen_sim_facts ViewRestores eq_refl ops s) (vtrace_base_erase_restores Y P U O flow solve_ok conv pupd yovr gen_sim_facts ViewRestores eq_refl ops s)). Qed.
Print Assumptions C04_views_read_only.

(** PARTIAL, for the views AS REGENERATED (whatever [gen_view_mode] is -- in particular the unrepaired code): the same
    equality for all histories in which every view is read while the parameters in force are those recorded for the
    last segment ([views_in_force]; the complement is the guard of the finding) *)
Theorem C04_views_read_only_partial :
  forall (Y P U O : Type) (flow : P -> Q -> Y -> Q -> Y) (solve_ok : P -> Q -> Y -> Q -> bool)
         (conv : Y -> Y -> bool) (pupd : P -> U -> P) (yovr : Y -> O -> Y)
         (ops : list (vop U O)) (s : sim Y P),
    views_in_force Y P U O flow solve_ok conv pupd yovr gen_sim_facts gen_view_mode s ops ->
    vrun Y P U O flow solve_ok conv pupd yovr gen_sim_facts gen_view_mode s ops
      = run Y P U O flow solve_ok conv pupd yovr gen_sim_facts s (erase U O ops)
    /\ vtrace_base Y P U O flow solve_ok conv pupd yovr gen_sim_facts gen_view_mode s ops
      = trace Y P U O flow solve_ok conv pupd yovr gen_sim_facts s (erase U O ops).
Proof. exact (fun Y P U O flow solve_ok conv pupd yovr => vrun_erase_in_force Y P U O flow solve_ok conv pupd yovr gen_sim_facts gen_view_mode). Qed.
Print Assumptions C04_views_read_only_partial.

(** where that guard holds: right after every simulate / simulate_time_course / simulate_to_steady_state call that
    recorded a segment a view read changes NOTHING (any view mode), and the guard survives update_variable(s) and
    further reads; a read never touches anything but the model's parameter values *)
Theorem C04_view_after_segment_partial :
  forall (Y P U O : Type) (flow : P -> Q -> Y -> Q -> Y) (solve_ok : P -> Q -> Y -> Q -> bool)
         (conv : Y -> Y -> bool) (pupd : P -> U -> P) (yovr : Y -> O -> Y) (vm : view_mode)
         (s : sim Y P) (o : op U O) (touch : bool),
    match o with OSim _ _ | OTc _ | OSteady => True | _ => False end ->
    s_pars (fst (run_op Y P U O flow solve_ok conv pupd yovr gen_sim_facts s o)) <> s_pars s ->
    read_view Y P vm (fst (run_op Y P U O flow solve_ok conv pupd yovr gen_sim_facts s o)) touch
      = fst (run_op Y P U O flow solve_ok conv pupd yovr gen_sim_facts s o).
Proof. exact (fun Y P U O flow solve_ok conv pupd yovr vm s o touch Hk Hne => read_view_in_force Y P vm _ touch (simulating_in_force Y P U O flow solve_ok conv pupd yovr gen_sim_facts s o Hk Hne)). Qed.
Print Assumptions C04_view_after_segment_partial.

Theorem C04_view_guard_stable :
  forall (Y P O : Type) (yovr : Y -> O -> Y) (vm : view_mode) (s : sim Y P) (o : O) (touch : bool),
    in_force Y P s ->
    in_force Y P (fst (update_variables Y P O yovr gen_sim_facts s o))
    /\ in_force Y P (read_view Y P vm s touch)
    /\ read_view Y P vm s touch = s.
Proof. exact (fun Y P O yovr vm s o touch H => conj (in_force_update_variables Y P O yovr gen_sim_facts s o H) (conj (in_force_read_view Y P vm s touch H) (read_view_in_force Y P vm s touch H))). Qed.
Print Assumptions C04_view_guard_stable.

Theorem C04_view_touches_only_parameters :
  forall (Y P : Type) (vm : view_mode) (s : sim Y P) (touch : bool),
    (s_y0 (read_view Y P vm s touch) = s_y0 s /\ s_vars (read_view Y P vm s touch) = s_vars s
     /\ s_pars (read_view Y P vm s touch) = s_pars s /\ s_shift (read_view Y P vm s touch) = s_shift s
     /\ s_errs (read_view Y P vm s touch) = s_errs s /\ s_int (read_view Y P vm s touch) = s_int s)
    /\ index_of Y P (read_view Y P vm s touch) = index_of Y P s.
Proof. exact (fun Y P vm s touch => conj (read_view_only_mp Y P vm s touch) (read_view_index Y P vm s touch)). Qed.
Print Assumptions C04_view_touches_only_parameters.

(** REFUTED for the unrepaired views (finding view-read-reverts-parameter-update): x' = k*y,
    [simulate(1); update_parameter(k, 3); get_result().variables; simulate(2)] -- the read puts k back to 1, the second
    segment is run and recorded with k = 1; with the repaired views (and without the read) it is k = 3; the history is
    outside the guard of [C04_views_read_only_partial] *)
Theorem C04_view_reverts_update_refuted :
  recorded_k (xvrun pinned_facts ViewLastSegment view_start view_hist_updated) = [1; 1]
  /\ recorded_k (xvrun pinned_facts ViewRestores view_start view_hist_updated) = [1; 3]
  /\ recorded_k (xrun pinned_facts view_start (erase _ _ view_hist_updated)) = [1; 3]
  /\ ~ views_in_force (list Q) (list Q) (list (nat * Q)) (list (nat * Q)) xflow xsolve_ok xconv apply_updates apply_updates
         pinned_facts ViewLastSegment view_start view_hist_updated.
Proof. exact view_reverts_update_refuted. Qed.
Print Assumptions C04_view_reverts_update_refuted.

(** non-vacuity of the guard: the history of seeded change C04-6 ([simulate; update_parameter; simulate; READ;
    simulate]) meets [views_in_force] for the unrepaired views, every segment is recorded with the values in force *)
Example C04_views_in_force_nonvacuous :
  views_in_force (list Q) (list Q) (list (nat * Q)) (list (nat * Q)) xflow xsolve_ok xconv apply_updates apply_updates
    pinned_facts ViewLastSegment view_start view_hist_seeded
  /\ recorded_k (xvrun pinned_facts ViewLastSegment view_start view_hist_seeded) = [1; 3; 3]
  /\ recorded_k (xvrun pinned_facts ViewRestores view_start view_hist_seeded) = [1; 3; 3].
Proof. exact view_in_force_nonvacuous. Qed.
Print Assumptions C04_views_in_force_nonvacuous.

(** * closing pass (seeded change C04-8): failed runs and [clear_results]

    A failed run (IntegrationFailure / NoSteadyState) is recorded in [_errors]; from then on the code makes every
    simulating call return at once (accepted behaviour: design/C04.md, "deliberate non-demands").  What the property says
    about "result clearing" after such a run is proved here for ALL states and histories. *)

(** THE INERT PHASE: after a failed run, for ANY history without clear_results -- simulate / time-course / protocol /
    steady-state calls with legal or illegal arguments, parameter updates, overrides --, the accumulated result, the
    recorded parameters and the recorded errors stay exactly what they were; in particular no simulating call is refused
    and none appends anything *)
Theorem C04_failed_until_cleared :
  forall (Y P U O : Type) (flow : P -> Q -> Y -> Q -> Y) (solve_ok : P -> Q -> Y -> Q -> bool)
         (conv : Y -> Y -> bool) (pupd : P -> U -> P) (yovr : Y -> O -> Y) (ops : list (op U O)) (s : sim Y P),
    has_errors Y P s = true -> Forall (not_clear U O) ops ->
    s_vars (run Y P U O flow solve_ok conv pupd yovr gen_sim_facts s ops) = s_vars s
    /\ s_pars (run Y P U O flow solve_ok conv pupd yovr gen_sim_facts s ops) = s_pars s
    /\ s_errs (run Y P U O flow solve_ok conv pupd yovr gen_sim_facts s ops) = s_errs s
    /\ index_of Y P (run Y P U O flow solve_ok conv pupd yovr gen_sim_facts s ops) = index_of Y P s
    /\ has_errors Y P (run Y P U O flow solve_ok conv pupd yovr gen_sim_facts s ops) = true.
Proof. exact (fun Y P U O flow solve_ok conv pupd yovr => failed_until_cleared Y P U O flow solve_ok conv pupd yovr gen_sim_facts). Qed.
Print Assumptions C04_failed_until_cleared.

Theorem C04_failed_call_is_noop :
  forall (Y P U O : Type) (flow : P -> Q -> Y -> Q -> Y) (solve_ok : P -> Q -> Y -> Q -> bool)
         (conv : Y -> Y -> bool) (pupd : P -> U -> P) (yovr : Y -> O -> Y) (s : sim Y P) (o : op U O),
    has_errors Y P s = true ->
    match o with OSim _ _ | OTc _ | OProt _ _ | OProtTc _ _ _ | OSteady => True | _ => False end ->
    run_op Y P U O flow solve_ok conv pupd yovr gen_sim_facts s o = (s, Done).
Proof. exact (fun Y P U O flow solve_ok conv pupd yovr => failed_call_is_noop Y P U O flow solve_ok conv pupd yovr gen_sim_facts). Qed.
Print Assumptions C04_failed_call_is_noop.

(** clear_results in ANY state -- failed or not, whatever the results, the time shift, the integrator: the state IS that
    of a new simulator on the current start state and parameter values; no error is left on record, no result, no time
    shift; the invariant of continued simulation holds and the time reached is 0 (so C04_simulate_partial,
    C04_time_course_partial, C04_steady_on_fresh_integrator, C14_* apply to whatever is run next); get_result() has
    nothing to hand out yet *)
Theorem C04_clear_forgets_failure :
  forall (Y P : Type) (s : sim Y P),
    clear_results Y P s = sim_new Y P (s_y0 s) (s_mp s)
    /\ has_errors Y P (clear_results Y P s) = false /\ s_errs (clear_results Y P s) = []
    /\ Inv2 Y P (clear_results Y P s)
    /\ s_vars (clear_results Y P s) = None /\ s_pars (clear_results Y P s) = None /\ s_shift (clear_results Y P s) = None
    /\ index_of Y P (clear_results Y P s) = [] /\ reached Y P (clear_results Y P s) = 0
    /\ get_result Y P (clear_results Y P s) = None
    /\ i_t0 (s_int (clear_results Y P s)) = 0 /\ i_y0 (s_int (clear_results Y P s)) = s_y0 s.
Proof. exact clear_forgets. Qed.
Print Assumptions C04_clear_forgets_failure.

(** ... hence a history goes on after clear_results exactly as a history of a new simulator -- whatever happened, and
    whatever FAILED, before (generalises [C04_clear] from the first operation to any position) *)
Theorem C04_run_after_clear :
  forall (Y P U O : Type) (flow : P -> Q -> Y -> Q -> Y) (solve_ok : P -> Q -> Y -> Q -> bool)
         (conv : Y -> Y -> bool) (pupd : P -> U -> P) (yovr : Y -> O -> Y) (before after : list (op U O)) (s : sim Y P),
    let s1 := run Y P U O flow solve_ok conv pupd yovr gen_sim_facts s before in
    run Y P U O flow solve_ok conv pupd yovr gen_sim_facts s (before ++ OClear :: after)
    = run Y P U O flow solve_ok conv pupd yovr gen_sim_facts (sim_new Y P (s_y0 s1) (s_mp s1)) after.
Proof. exact (fun Y P U O flow solve_ok conv pupd yovr => run_after_clear Y P U O flow solve_ok conv pupd yovr gen_sim_facts). Qed.
Print Assumptions C04_run_after_clear.

(** the first simulate after clear_results, in ANY state [s] (e.g. one with a failure on record): refused exactly when
    t_end <= 0; otherwise -- the solver succeeding -- the result is ONE segment on the whole grid 0 = h < ... < t_end
    (steps + 1 points), its rows the solution from the simulator's start state at absolute time 0 under the parameter
    values in force, recorded with exactly those values, and no error on record *)
Theorem C04_simulate_after_clear :
  forall (Y P : Type) (flow : P -> Q -> Y -> Q -> Y) (solve_ok : P -> Q -> Y -> Q -> bool)
         (s : sim Y P) (t_end : Q) (steps : option nat) (m : nat),
    n_points steps = S (S m) ->
    (snd (simulate Y P flow solve_ok gen_sim_facts (clear_results Y P s) t_end steps) = RaisedValue <-> t_end <= 0)
    /\ (snd (simulate Y P flow solve_ok gen_sim_facts (clear_results Y P s) t_end steps) <> RaisedValue ->
        snd (simulate Y P flow solve_ok gen_sim_facts (clear_results Y P s) t_end steps) = Done)
    /\ (forall s', simulate Y P flow solve_ok gen_sim_facts (clear_results Y P s) t_end steps = (s', Done) ->
          has_errors Y P s' = false ->
          exists h rest,
            h == 0 /\ incr (h :: rest) /\ length rest = S m /\ lastq rest h == t_end
            /\ index_of Y P s' = h :: rest
            /\ s_vars s' = Some [map (fun t => (t, flow (s_mp s) h (s_y0 s) (t - h))) (h :: rest)]
            /\ s_pars s' = Some [s_mp s]
            /\ s_errs s' = [] /\ s_mp s' = s_mp s /\ s_y0 s' = s_y0 s /\ reached Y P s' == t_end).
Proof. exact (fun Y P flow solve_ok => simulate_after_clear Y P flow solve_ok gen_sim_facts (good_of_pinned _ C04_facts_pinned)). Qed.
Print Assumptions C04_simulate_after_clear.

(** regression theorem for seeded change C04-8 (Variants.v: [clear_results] built from a helper that leaves [_errors]
    alone): with that shape a failed simulator is inert FOR EVER -- after ANY history, clear_results included, the
    first failure is still on record, get_result() is that error, no segment was ever added (the results are the old
    ones, or gone), and every further simulating call, legal or illegal, returns at once *)
Theorem C04_clear_keeping_failure_inert_forever :
  forall (Y P U O : Type) (flow : P -> Q -> Y -> Q -> Y) (solve_ok : P -> Q -> Y -> Q -> bool)
         (conv : Y -> Y -> bool) (pupd : P -> U -> P) (yovr : Y -> O -> Y) (ops : list (op U O)) (s : sim Y P),
    has_errors Y P s = true ->
    s_errs (run_ck Y P U O flow solve_ok conv pupd yovr gen_sim_facts s ops) = s_errs s
    /\ has_errors Y P (run_ck Y P U O flow solve_ok conv pupd yovr gen_sim_facts s ops) = true
    /\ get_result Y P (run_ck Y P U O flow solve_ok conv pupd yovr gen_sim_facts s ops) = None
    /\ (s_vars (run_ck Y P U O flow solve_ok conv pupd yovr gen_sim_facts s ops) = s_vars s
        \/ s_vars (run_ck Y P U O flow solve_ok conv pupd yovr gen_sim_facts s ops) = None)
    /\ (forall o, match o with OSim _ _ | OTc _ | OProt _ _ | OProtTc _ _ _ | OSteady => True | _ => False end ->
          run_op_ck Y P U O flow solve_ok conv pupd yovr gen_sim_facts
            (run_ck Y P U O flow solve_ok conv pupd yovr gen_sim_facts s ops) o
          = (run_ck Y P U O flow solve_ok conv pupd yovr gen_sim_facts s ops, Done)).
Proof. exact (fun Y P U O flow solve_ok conv pupd yovr => keeps_errors_inert_forever Y P U O flow solve_ok conv pupd yovr gen_sim_facts). Qed.
Print Assumptions C04_clear_keeping_failure_inert_forever.

(** ... and the history of the seeded demo on x' = k*y, y' = 1 (a steady-state search that cannot succeed):
    [steady ; clear ; k := 2 ; simulate(3, 1) ; k := 1/2 ; time course [4, 5, 7] ; simulate(7)].
    (outcome, get_result() error) per operation -- 0/1 = returned/ValueError, 0/1/2 = result / nothing yet or
    IntegrationFailure / NoSteadyState.  Pinned shape: axis 0, 3, 4, 5, 7, segments recorded with k = 2 and 1/2, the
    illegal simulate(7) refused.  Seeded shape: NoSteadyState throughout, no axis, simulate(7) not refused *)
Theorem C04_clear_keeps_failure_refuted :
  codes (xtrace pinned_facts failure_start failure_hist) = [(0, 2); (0, 1); (0, 1); (0, 0); (0, 0); (0, 0); (1, 0)]%nat
  /\ xindex (xrun pinned_facts failure_start failure_hist) = [0; 3; 4; 5; 7]
  /\ recorded_k (xrun pinned_facts failure_start failure_hist) = [2; 1 # 2]
  /\ codes (xtrace_ck pinned_facts failure_start failure_hist) = [(0, 2); (0, 2); (0, 2); (0, 2); (0, 2); (0, 2); (0, 2)]%nat
  /\ xindex (xrun_ck pinned_facts failure_start failure_hist) = []
  /\ has_errors _ _ (xrun_ck pinned_facts failure_start failure_hist) = true.
Proof. exact clear_keeps_failure_refuted. Qed.
Print Assumptions C04_clear_keeps_failure_refuted.

(** non-vacuity: the state after the failed search has an error on record; a legal call, an illegal time course, an
    override and an illegal end on it all return with NoSteadyState and change nothing (hypotheses of
    [C04_failed_until_cleared]); the segment simulated after clear_results is the one [C04_simulate_after_clear] names *)
Example C04_failure_nonvacuous :
  has_errors _ _ (xrun pinned_facts failure_start [OSteady]) = true
  /\ Forall (not_clear (list (nat * Q)) (list (nat * Q))) [OSim 3 (Some 1%nat); OTc [0; 1]; OUpdVar [(0%nat, 5)]; OSim 0 None]
  /\ codes (xtrace pinned_facts (xrun pinned_facts failure_start [OSteady]) [OSim 3 (Some 1%nat); OTc [0; 1]; OUpdVar [(0%nat, 5)]; OSim 0 None])
     = [(0, 2); (0, 2); (0, 2); (0, 2)]%nat
  /\ (match s_vars (xrun pinned_facts failure_start [OSteady; OClear; OSim 3 (Some 3%nat)]) with
      | Some l => map (map (fun r => (Qred (fst r), map Qred (snd r)))) l | None => [] end)
     = [[(0, [0; 1]); (1, [3 # 2; 2]); (2, [4; 3]); (3, [15 # 2; 4])]].
Proof. exact failure_nonvacuous. Qed.
Print Assumptions C04_failure_nonvacuous.
