From Coq Require Import QArith List Bool NArith.
From Sim Require Import Integrator Simulator Protocol SimExec GenSimFacts SimProofs.
Theorem C04_facts_pinned :
  gen_sim_facts = mkSimFacts FrameAbs CmpLe FrameAbs CmpLe CmpGe true true false true false 100 1000 CmpLe CmpGt CmpLe true true.
Proof. vm_compute. reflexivity. Qed.
Print Assumptions C04_facts_pinned.
