(** C14, dense sampling right after a switch (seeded change C14-4).

    (1) [tc_step_governs]: the time-course form of ONE protocol step.  After [update_parameters u] a time course whose
        first requested point lies ANY d > 0 after the time reached (the step's start: the protocol's start or an inner
        boundary) is accepted, appends exactly the requested points -- the first one included -- and every new row is
        the solution under the NEW values [pupd p u] from the state the integrator holds AT THE BOUNDARY, after
        [t - boundary]: the step's values govern from the boundary itself, however close the first sample is and at
        whatever absolute time.
    (2) the variant family of Variants.v ([same] = the test "the grid already starts at the current time"):
        [same := Qeq_bool] IS the shipped model ([*_by_exact]); whenever [same] accepts a first point that differs from
        the integrator's time, the integration starts AT that point with the boundary's state
        ([itc_by_same_starts_late]).
    (3) [close_start_refuted]: on the executable instance x' = k*y, y' = c the seeded shape [same := np_isclose]
        loses the requested points 1024 + 2^-8 and 2048 + 2^-9 of a protocol with long steps (resp. 2048 + 2^-7 of a
        simulator continued at t = 2048), and the state at the next boundary is NOT the one of "apply the values,
        simulate for the duration"; at small absolute time (boundary at 1) the two shapes agree -- which is why only
        late / long protocols show it. *)
From Coq Require Import QArith Qabs List Bool NArith Lia Lqa.
From MxlBase Require Import ListX.
From Sim Require Import Integrator Simulator Protocol SimExec SimProofs ProtocolProofs SteadyProofs Variants.
Import ListNotations.
Open Scope Q_scope.

Section SwitchProofs.
  Variables Y P U : Type.
  Variable flow : P -> Q -> Y -> Q -> Y.
  Variable solve_ok : P -> Q -> Y -> Q -> bool.
  Variable pupd : P -> U -> P.
  Variable fx : sim_facts.
  Hypothesis good : good_facts fx.

  Notation sim := (sim Y P).
  Notation Inv2 := (Inv2 Y P).
  Notation simulate_time_course := (simulate_time_course Y P flow solve_ok fx).
  Notation update_parameters := (update_parameters Y P U pupd).

  Theorem tc_step_governs (s : sim) (u : U) (d : Q) (later : list Q) :
    never_fails Y P solve_ok -> Inv2 s -> has_errors Y P s = false ->
    0 < d -> incr ((reached Y P s + d) :: later) ->
    let s1 := update_parameters s u in
    let pts := (reached Y P s + d) :: later in
    exists s2 h rest,
      simulate_time_course s1 pts = (s2, Done) /\ Inv2 s2 /\ has_errors Y P s2 = false
      /\ s_mp s1 = pupd (s_mp s) u
      /\ h == i_t0 (s_int s) /\ i_t0 (s_int s) + shiftv Y P s == reached Y P s
      /\ i_y0 (s_int s) = start_state Y P s
      /\ appended Y P flow s1 s2 h rest
      /\ Qeql (map (add_shift (s_shift s)) rest) pts
      /\ reached Y P s2 == lastq pts 0.
  Proof.
    intros Hnf HI Herr Hd Hinc s1 pts.
    assert (HI1 : Inv2 s1) by (apply update_parameters_inv2; exact HI).
    assert (Herr1 : has_errors Y P s1 = false) by exact Herr.
    assert (Hne : pts <> []) by discriminate.
    assert (Hall : forall t, In t pts -> reached Y P s1 < t).
    { change (reached Y P s1) with (reached Y P s).
      intros t [<-|Ht]; [lra|]. destruct Hinc as [Hx _]. specialize (Hx t Ht). lra. }
    destruct (tc_requested_once Y P flow solve_ok fx good s1 pts Hnf HI1 Herr1 Hne Hinc Hall)
      as (s2 & E & HI2 & Herr2 & _ & _).
    destruct (time_course_spec Y P flow solve_ok fx good s1 pts HI1 Herr1 Hne) as (_ & _ & _ & Hacc).
    destruct (Hacc s2 E Herr2) as (h & rest & Hh & Hsync & Hy & _ & Happ & Hnew & Hreach).
    assert (Hfilt : filter (fun t => Qltb (reached Y P s1) t) pts = pts).
    { apply filter_all. intros t Ht. apply Qltb_iff. apply Hall. exact Ht. }
    rewrite Hfilt in Hnew.
    exists s2, h, rest.
    split; [exact E|]. split; [exact HI2|]. split; [exact Herr2|]. split; [reflexivity|].
    split; [exact Hh|]. split; [exact Hsync|]. split; [exact Hy|]. split; [exact Happ|].
    split; [exact Hnew|exact Hreach].
  Qed.

  (** ** the variant family: [same := Qeq_bool] is the shipped model *)
  Lemma itc_by_exact fl ok p (ig : integ Y) tp :
    integrate_time_course_by Y P fl ok Qeq_bool p ig tp = integrate_time_course Y P fl ok p ig tp.
  Proof. reflexivity. Qed.

  Lemma stc_by_exact (s : sim) pts :
    simulate_time_course_by Y P flow solve_ok fx Qeq_bool s pts = simulate_time_course s pts.
  Proof. reflexivity. Qed.

  Lemma ptc_loop_by_exact rows : forall (s : sim) t_start full,
    protocol_tc_loop_by Y P U flow solve_ok pupd fx Qeq_bool s t_start full rows
    = protocol_tc_loop Y P U flow solve_ok pupd fx s t_start full rows.
  Proof.
    induction rows as [|[t_end u] rest IH]; intros s t_start full; [reflexivity|].
    cbn [protocol_tc_loop_by protocol_tc_loop]. rewrite stc_by_exact.
    destruct (simulate_time_course _ _) as [s2 o]. destruct o; [|reflexivity|reflexivity].
    destruct (s_vars s2); [apply IH|reflexivity].
  Qed.

  Lemma sptc_by_exact (s : sim) rows pts rel :
    simulate_protocol_time_course_by Y P U flow solve_ok pupd fx Qeq_bool s rows pts rel
    = simulate_protocol_time_course Y P U flow solve_ok pupd fx s rows pts rel.
  Proof.
    unfold simulate_protocol_time_course_by, simulate_protocol_time_course.
    destruct (has_errors Y P s); [reflexivity|]. destruct (prior_t_end Y P s); [|reflexivity].
    destruct (if rel then _ else _); [reflexivity|].
    destruct (cmpb _ _ _); [reflexivity|]. apply ptc_loop_by_exact.
  Qed.

  (** what a tolerant test does: a first point it takes for the current time is NOT preceded by the current time --
      the integration starts at that point, with the state that belongs to the integrator's time *)
  Lemma itc_by_same_starts_late (same : Q -> Q -> bool) fl ok p (ig : integ Y) t tp :
    same t (i_t0 ig) = true ->
    integrate_time_course_by Y P fl ok same p ig (t :: tp)
    = match solve_ivp Y P fl ok p (i_y0 ig) (t :: tp) with
      | IOk tc => (mkInteg (lastq (map fst tc) (i_t0 ig)) (last (map snd tc) (i_y0 ig)) (i_orig ig), IOk tc)
      | r => (ig, r)
      end.
  Proof. intro H. unfold integrate_time_course_by. rewrite H. reflexivity. Qed.

  (** ... so the rows it hands back are the solution started AT [t] (not at the integrator's time) from the state that
      belongs to the integrator's time: the first row stamps that state at [t] (the Simulator then drops this row as the
      duplicated first row of a continued segment), and every later row has run for [t' - t], i.e. too short by
      [t - t0].  (Shipped shape: PropsC04.C04_prepend_exact -- rows from [t0].) *)
  Lemma itc_by_same_rows (same : Q -> Q -> bool) fl (ok : P -> Q -> Y -> Q -> bool) p (ig : integ Y) t tp :
    same t (i_t0 ig) = true -> tp <> [] -> incr (t :: tp) -> (forall p t y t1, ok p t y t1 = true) ->
    snd (integrate_time_course_by Y P fl ok same p ig (t :: tp))
    = IOk (map (fun t' => (t', fl p t (i_y0 ig) (t' - t))) (t :: tp)).
  Proof.
    intros Hs Hne Hinc Hok. rewrite (itc_by_same_starts_late same fl ok p ig t tp Hs).
    assert (Hlt : t < lastq tp t).
    { destruct Hinc as [Hx _]. apply Hx. apply lastq_In. exact Hne. }
    rewrite (solve_ivp_forward Y P fl ok p (i_y0 ig) t tp Hne Hlt).
    rewrite (incr_incrb _ Hinc), Hok. reflexivity.
  Qed.
End SwitchProofs.

(** * regression witness for seeded change C14-4 on the executable instance (x' = k*y, y' = c; a = 0) *)
Definition xptc_by (same : Q -> Q -> bool) (s : xsim) (steps : list (Q * list (nat * Q))) (pts : list Q) (rel : bool) : xsim :=
  fst (simulate_protocol_time_course_by (list Q) (list Q) (list (nat * Q)) xflow xsolve_ok apply_updates pinned_facts same
         s (make_protocol (list (nat * Q)) steps) pts rel).

(** the state recorded at time [t] (None: no such row) *)
Definition xstate_at (s : xsim) (t : Q) : option (list Q) :=
  match s_vars s with
  | None => None
  | Some segs => match filter (fun r : Q * list Q => Qeq_bool (fst r) t) (concat segs) with
                 | r :: _ => Some (map Qred (snd r)) | [] => None end
  end.

Definition late_steps : list (Q * list (nat * Q)) := [(1024, [(0%nat, 2)]); (1024, [(0%nat, 1 # 2)]); (512, [(0%nat, 0)])].
Definition late_grid : list Q := [512; 262145 # 256; 2049 # 2; 1536; 1048577 # 512; 2304].
Definition late_fresh : xsim := xnew [1; 1] [1; 1 # 2; 0; 0].
Definition late_continued : xsim := xrun pinned_facts late_fresh [OSim 2048 (Some 4%nat)].
Definition cont_steps : list (Q * list (nat * Q)) := [(128, [(0%nat, 2)]); (256, [(0%nat, 1 # 2)])].
Definition cont_grid : list Q := [1 # 128; 64; 16385 # 128; 384].
Definition early_steps : list (Q * list (nat * Q)) := [(1, [(0%nat, 2)]); (2, [(0%nat, 1 # 2)])].
Definition early_grid : list Q := [1 # 2; 257 # 256; 2].

Lemma close_start_refuted :
  (* long steps on a fresh simulator: the shipped shape returns every requested point ... *)
  xindex (xptc_by Qeq_bool late_fresh late_steps late_grid false)
    = [0; 512; 1024; 262145 # 256; 2049 # 2; 1536; 2048; 1048577 # 512; 2304; 2560]
  (* ... the tolerant one loses the two samples right after the switches ... *)
  /\ xindex (xptc_by np_isclose late_fresh late_steps late_grid false)
    = [0; 512; 1024; 2049 # 2; 1536; 2048; 2304; 2560]
  (* ... and step 2's values govern an interval that is too short: the state at the next boundary differs *)
  /\ xstate_at (xptc_by Qeq_bool late_fresh late_steps late_grid false) 2048 = Some [920065; 1025]
  /\ xstate_at (xptc_by np_isclose late_fresh late_steps late_grid false) 2048 <> Some [920065; 1025]
  (* a simulator continued at t = 2048, relative grid starting 2^-7 after the start *)
  /\ xindex (xptc_by Qeq_bool late_continued cont_steps cont_grid true)
    = [0; 512; 1024; 1536; 2048; 262145 # 128; 2112; 2176; 278529 # 128; 2432]
  /\ xindex (xptc_by np_isclose late_continued cont_steps cont_grid true)
    = [0; 512; 1024; 1536; 2048; 2112; 2176; 2432]
  (* at small absolute time the two shapes agree: a sample 2^-8 after the boundary at t = 1 is kept by both *)
  /\ xindex (xptc_by np_isclose late_fresh early_steps early_grid false) = [0; 1 # 2; 1; 257 # 256; 2; 3]
  /\ xptc_by np_isclose late_fresh early_steps early_grid false = xptc_by Qeq_bool late_fresh early_steps early_grid false.
Proof. vm_compute. repeat split; try reflexivity. discriminate. Qed.

(** * non-vacuity of [tc_step_governs]: the simulator continued at t = 2048 (a state reached by a history, hence [Inv2]),
    step values k := 2, first sample d = 2^-7 after the boundary: the hypotheses hold, the sample is in the index, and
    its row is the solution after 2^-7 under k = 2 from the state AT the boundary *)
Definition switch_pts : list Q := [2048 + (1 # 128); 2112].
Definition switch_after : xsim :=
  fst (simulate_time_course (list Q) (list Q) xflow xsolve_ok pinned_facts
         (update_parameters (list Q) (list Q) (list (nat * Q)) apply_updates late_continued [(0%nat, 2)]) switch_pts).

Lemma switch_nonvacuous :
  Inv2 (list Q) (list Q) late_continued /\ has_errors (list Q) (list Q) late_continued = false
  /\ reached (list Q) (list Q) late_continued == 2048 /\ 0 < 1 # 128
  /\ incr ((reached (list Q) (list Q) late_continued + (1 # 128)) :: [2112])
  /\ xindex switch_after = [0; 512; 1024; 1536; 2048; 262145 # 128; 2112]
  /\ xstate_at late_continued 2048 = Some [1050625; 1025]
  /\ xstate_at switch_after (262145 # 128) = Some (xflow [2; 1 # 2; 0; 0] 2048 [1050625; 1025] (1 # 128)).
Proof.
  split.
  { unfold late_continued, xrun, late_fresh, xnew.
    apply (history_invariant (list Q) (list Q) (list (nat * Q)) (list (nat * Q)) xflow xsolve_ok xconv apply_updates
             apply_updates pinned_facts (good_of_pinned _ eq_refl)).
    - repeat constructor.
    - apply sim_new_inv2. }
  split; [vm_compute; reflexivity|]. split; [vm_compute; reflexivity|]. split; [vm_compute; reflexivity|].
  split; [apply incrb_incr; vm_compute; reflexivity|].
  vm_compute. repeat split; reflexivity.
Qed.
