(** Proofs about reading views of [get_result()] between simulation calls (model: Views.v).

    * repaired views ([ViewRestores]) are the identity on the simulator state: a history with view reads IS the
      history with the reads erased -- for ALL histories ([vrun_erase_restores], [vtrace_base_erase_restores]);
    * for ANY view mode a view changes nothing but the model's parameter values ([read_view_only_mp]), and nothing
      at all when the parameters in force are the last segment's ([read_view_in_force]) -- which is the case right
      after every call that recorded a segment ([simulating_in_force]) and stays so until update_parameter(s)
      ([in_force_update_variables], [in_force_read_view]); hence histories whose views are all read in such
      states equal their erasure also for the UNREPAIRED views ([vrun_erase_in_force]);
    * the unrepaired views undo a parameter update made since the last segment ([view_reverts_update_refuted]). *)
From Coq Require Import QArith List Bool NArith Lia.
From Sim Require Import Integrator Simulator Protocol Views SimExec ViewsExec SimProofs ProtocolProofs.
Import ListNotations.

Section ViewsProofs.
  Variables Y P U O : Type.
  Variable flow : P -> Q -> Y -> Q -> Y.
  Variable solve_ok : P -> Q -> Y -> Q -> bool.
  Variable conv : Y -> Y -> bool.
  Variable pupd : P -> U -> P.
  Variable yovr : Y -> O -> Y.
  Variable fx : sim_facts.
  Variable vm : view_mode.

  Notation sim := (sim Y P).
  Notation run_op := (run_op Y P U O flow solve_ok conv pupd yovr fx).
  Notation run := (run Y P U O flow solve_ok conv pupd yovr fx).
  Notation trace := (trace Y P U O flow solve_ok conv pupd yovr fx).
  Notation read_view := (read_view Y P vm).
  Notation vrun := (vrun Y P U O flow solve_ok conv pupd yovr fx vm).
  Notation vrun_op := (vrun_op Y P U O flow solve_ok conv pupd yovr fx vm).
  Notation vtrace_base := (vtrace_base Y P U O flow solve_ok conv pupd yovr fx vm).
  Notation views_in_force := (views_in_force Y P U O flow solve_ok conv pupd yovr fx vm).
  Notation in_force := (in_force Y P).
  Notation get_result := (get_result Y P).

  Lemma set_mp_same (s : sim) : set_mp Y P s (s_mp s) = s.
  Proof. destruct s; reflexivity. Qed.

  (** a view never touches anything but the model's parameter values *)
  Lemma read_view_only_mp (s : sim) b :
    s_y0 (read_view s b) = s_y0 s /\ s_vars (read_view s b) = s_vars s /\ s_pars (read_view s b) = s_pars s
    /\ s_shift (read_view s b) = s_shift s /\ s_errs (read_view s b) = s_errs s /\ s_int (read_view s b) = s_int s.
  Proof.
    unfold Views.read_view. destruct (get_result s) as [[v ps]|]; [|repeat split].
    destruct b; [|repeat split]. destruct vm; [|repeat split|repeat split].
    destruct (rev ps); repeat split.
  Qed.

  Lemma read_view_index (s : sim) b : index_of Y P (read_view s b) = index_of Y P s.
  Proof. unfold index_of. destruct (read_view_only_mp s b) as (_ & -> & _). reflexivity. Qed.

  Lemma read_view_restores (s : sim) b : vm = ViewRestores -> read_view s b = s.
  Proof.
    intro E. unfold Views.read_view. rewrite E. destruct (get_result s) as [[v ps]|]; [|reflexivity].
    destruct b; reflexivity.
  Qed.

  (** the parameters in force are the last segment's: even the unrepaired views change nothing *)
  Lemma read_view_in_force (s : sim) b : in_force s -> read_view s b = s.
  Proof.
    unfold Views.in_force, Views.read_view. destruct (get_result s) as [[v ps]|]; [|reflexivity].
    intro H. destruct b; [|reflexivity]. destruct vm; try reflexivity.
    destruct (rev ps) as [|p l]; [reflexivity|]. rewrite H. apply set_mp_same.
  Qed.

  Lemma in_force_read_view (s : sim) b : in_force s -> in_force (read_view s b).
  Proof. intro H. rewrite (read_view_in_force s b H). exact H. Qed.

  (** ** repaired views: histories with reads = histories without *)
  Theorem vrun_erase_restores :
    vm = ViewRestores -> forall ops (s : sim), vrun s ops = run s (erase U O ops).
  Proof.
    intro E. induction ops as [|o rest IH]; intro s; [reflexivity|].
    destruct o as [o|b]; cbn [Views.vrun Views.erase Protocol.run Views.vrun_op fst].
    - apply IH.
    - rewrite (read_view_restores s b E). apply IH.
  Qed.

  Theorem vtrace_base_erase_restores :
    vm = ViewRestores -> forall ops (s : sim), vtrace_base s ops = trace s (erase U O ops).
  Proof.
    intro E. induction ops as [|o rest IH]; intro s; [reflexivity|].
    destruct o as [o|b]; cbn [Views.vtrace_base Views.erase Protocol.trace Views.vrun_op fst].
    - cbv zeta. f_equal. apply IH.
    - rewrite (read_view_restores s b E). apply IH.
  Qed.

  (** ** any view mode: the same under the guard "read while the last segment's parameters are in force" *)
  Theorem vrun_erase_in_force :
    forall ops (s : sim), views_in_force s ops ->
      vrun s ops = run s (erase U O ops) /\ vtrace_base s ops = trace s (erase U O ops).
  Proof.
    induction ops as [|o rest IH]; intros s H; [split; reflexivity|].
    destruct o as [o|b];
      cbn [Views.vrun Views.vtrace_base Views.erase Protocol.run Protocol.trace Views.vrun_op Views.views_in_force fst] in *.
    - destruct (IH _ H) as [E1 E2]. split; [exact E1|]. cbv zeta. f_equal. exact E2.
    - destruct H as [Hf H]. rewrite (read_view_in_force s b Hf) in *. apply IH. exact H.
  Qed.

  (** ** where the guard holds *)
  Lemma finish_in_force (s : sim) ir sk :
    s_pars (fst (finish Y P s ir sk)) <> s_pars s -> in_force (fst (finish Y P s ir sk)).
  Proof.
    destruct ir as [ig r]. unfold finish. cbn [fst snd].
    destruct r as [tc| | | |]; cbn [fst handle_results set_int s_pars s_mp s_errs s_vars s_y0 s_shift s_int];
      intro Hne; try (exfalso; apply Hne; reflexivity).
    unfold Views.in_force, Views.get_result, has_errors.
    cbn [s_pars s_mp s_errs s_vars s_y0 s_shift s_int].
    destruct (s_errs s); [|exact I].
    rewrite rev_app_distr. cbn [rev app]. reflexivity.
  Qed.

  (** right after a simulating call that recorded a segment the parameters in force are that segment's *)
  Theorem simulating_in_force (s : sim) (o : op U O) :
    match o with OSim _ _ | OTc _ | OSteady => True | _ => False end ->
    s_pars (fst (run_op s o)) <> s_pars s -> in_force (fst (run_op s o)).
  Proof.
    destruct o as [t st|pts|steps k|steps pts rel| |u|ov|]; intros Hk; try contradiction;
      cbn [Protocol.run_op].
    - unfold simulate. destruct (has_errors Y P s); [intro H; exfalso; apply H; reflexivity|].
      destruct (prior_t_end Y P s); [|intro H; exfalso; apply H; reflexivity].
      destruct (cmpb _ _ _); [intro H; exfalso; apply H; reflexivity|]. apply finish_in_force.
    - unfold simulate_time_course. destruct (has_errors Y P s); [intro H; exfalso; apply H; reflexivity|].
      destruct (prior_t_end Y P s); [|intro H; exfalso; apply H; reflexivity].
      destruct pts as [|p0 r]; [intro H; exfalso; apply H; reflexivity|].
      destruct (cmpb _ _ _); [intro H; exfalso; apply H; reflexivity|]. apply finish_in_force.
    - unfold simulate_to_steady_state. destruct (has_errors Y P s); [intro H; exfalso; apply H; reflexivity|].
      apply finish_in_force.
  Qed.

  (** ... and stay so across update_variable(s) (and trivially after clear_results: nothing to read) *)
  Lemma in_force_update_variables (s : sim) (ov : O) :
    in_force s -> in_force (fst (update_variables Y P O yovr fx s ov)).
  Proof.
    unfold Views.in_force, Views.get_result, update_variables, has_errors.
    destruct (s_vars s) as [segs|] eqn:Ev.
    - destruct (last_row Y segs) as [[t yl]|]; cbn [fst s_errs s_vars s_pars s_mp]; [|rewrite Ev; exact (fun H => H)].
      exact (fun H => H).
    - cbn [fst s_errs s_vars s_pars s_mp]. intros _. destruct (s_errs s); exact I.
  Qed.

  Lemma in_force_clear (s : sim) : in_force (clear_results Y P s).
  Proof. unfold Views.in_force, Views.get_result, clear_results, has_errors. cbn. exact I. Qed.
End ViewsProofs.

(** * witnesses on the executable instance (x' = k*y + a*time, y' = c) *)
Definition view_hist_updated : list xvop :=
  [VOp (OSim 1 (Some 1%nat)); VOp (OUpdPar [(0%nat, 3)]); VRead true; VOp (OSim 2 (Some 1%nat))].
Definition view_hist_seeded : list xvop :=
  [VOp (OSim 1 (Some 1%nat)); VOp (OUpdPar [(0%nat, 3)]); VOp (OSim 2 (Some 1%nat)); VRead true; VOp (OSim 3 (Some 1%nat))].
Definition view_start : xsim := xnew [1; 1] [1; 0; 0; 0].

(** unrepaired views: the update k := 3 made after the first segment is undone by the read; the second segment
    is run and recorded with k = 1.  Repaired views: k = 3, as without the read. *)
Lemma view_reverts_update_refuted :
  recorded_k (xvrun pinned_facts ViewLastSegment view_start view_hist_updated) = [1; 1]
  /\ recorded_k (xvrun pinned_facts ViewRestores view_start view_hist_updated) = [1; 3]
  /\ recorded_k (xrun pinned_facts view_start (erase _ _ view_hist_updated)) = [1; 3]
  /\ ~ views_in_force (list Q) (list Q) (list (nat * Q)) (list (nat * Q)) xflow xsolve_ok xconv apply_updates apply_updates
         pinned_facts ViewLastSegment view_start view_hist_updated.
Proof.
  split; [vm_compute; reflexivity|]. split; [vm_compute; reflexivity|]. split; [vm_compute; reflexivity|].
  cbn [views_in_force view_hist_updated]. intros [H _]. vm_compute in H. discriminate H.
Qed.

(** the guard is met by the history of seeded change C04-6 (view read right after a segment): every segment is
    recorded with the parameters in force, k = 1, 3, 3, for both view modes *)
Lemma view_in_force_nonvacuous :
  views_in_force (list Q) (list Q) (list (nat * Q)) (list (nat * Q)) xflow xsolve_ok xconv apply_updates apply_updates
    pinned_facts ViewLastSegment view_start view_hist_seeded
  /\ recorded_k (xvrun pinned_facts ViewLastSegment view_start view_hist_seeded) = [1; 3; 3]
  /\ recorded_k (xvrun pinned_facts ViewRestores view_start view_hist_seeded) = [1; 3; 3].
Proof.
  split; [|split; vm_compute; reflexivity].
  cbn [views_in_force view_hist_seeded]. split; [|exact I]. vm_compute. reflexivity.
Qed.
