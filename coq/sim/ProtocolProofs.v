(** Proofs about protocols and whole histories (C04 + C14). *)
From Coq Require Import QArith List Bool NArith Lia Lqa.
From Sim Require Import Integrator Simulator Protocol SimProofs.
Import ListNotations.
Open Scope Q_scope.

Section ProtocolProofs.
  Variables Y P U O : Type.
  Variable flow : P -> Q -> Y -> Q -> Y.
  Variable solve_ok : P -> Q -> Y -> Q -> bool.
  Variable conv : Y -> Y -> bool.
  Variable pupd : P -> U -> P.
  Variable yovr : Y -> O -> Y.
  Variable fx : sim_facts.
  Hypothesis good : good_facts fx.

  Notation sim := (sim Y P).
  Notation Inv2 := (Inv2 Y P).
  Notation run_op := (run_op Y P U O flow solve_ok conv pupd yovr fx).
  Notation run := (run Y P U O flow solve_ok conv pupd yovr fx).
  Notation run_strict := (run_strict Y P U O flow solve_ok conv pupd yovr fx).
  Notation simulate := (simulate Y P flow solve_ok fx).
  Notation simulate_time_course := (simulate_time_course Y P flow solve_ok fx).
  Notation update_parameters := (update_parameters Y P U pupd).
  Notation protocol_loop := (protocol_loop Y P U flow solve_ok pupd fx).
  Notation protocol_tc_loop := (protocol_tc_loop Y P U flow solve_ok pupd fx).
  Notation op := (op U O).

  (** ** protocols keep the invariant *)
  Lemma protocol_loop_inv2 rows : forall s t_start n, Inv2 s -> Inv2 (fst (protocol_loop s t_start n rows)).
  Proof.
    induction rows as [|[t_end u] rest IH]; intros s t_start n HI; [exact HI|].
    cbn [Protocol.protocol_loop].
    pose proof (simulate_inv2 Y P flow solve_ok fx good (update_parameters s u) (t_start + t_end) (Some n)
                  (update_parameters_inv2 Y P U pupd s u HI)) as H1.
    destruct (simulate (update_parameters s u) (t_start + t_end) (Some n)) as [s2 o] eqn:E. cbn [fst] in H1.
    destruct o; try exact H1.
    destruct (s_vars s2); [apply IH; exact H1|exact H1].
  Qed.

  Lemma protocol_tc_loop_inv2 rows : forall s t_start full, Inv2 s -> Inv2 (fst (protocol_tc_loop s t_start full rows)).
  Proof.
    induction rows as [|[t_end u] rest IH]; intros s t_start full HI; [exact HI|].
    cbn [Protocol.protocol_tc_loop].
    match goal with |- context [simulate_time_course ?a ?b] =>
      pose proof (simulate_time_course_inv2 Y P flow solve_ok fx good a b
                    (update_parameters_inv2 Y P U pupd s u HI)) as H1;
      destruct (simulate_time_course a b) as [s2 o] eqn:E end.
    cbn [fst] in H1. destruct o; try exact H1.
    destruct (s_vars s2); [apply IH; exact H1|exact H1].
  Qed.

  Definition no_steady (o : op) : Prop := match o with OSteady => False | _ => True end.

  Lemma run_op_inv2 s o : no_steady o -> Inv2 s -> Inv2 (fst (run_op s o)).
  Proof.
    intros Hns HI. destruct o as [t st|pts|steps n|steps pts rel| |u|ov|]; cbn [Protocol.run_op].
    - apply simulate_inv2; assumption.
    - apply simulate_time_course_inv2; assumption.
    - unfold simulate_protocol. destruct (has_errors Y P s); [exact HI|].
      destruct (prior_t_end Y P s); [apply protocol_loop_inv2; exact HI|exact HI].
    - unfold simulate_protocol_time_course. destruct (has_errors Y P s); [exact HI|].
      destruct (prior_t_end Y P s); [|exact HI].
      destruct (if rel then _ else _); [exact HI|].
      destruct (cmpb _ _ _); [exact HI|]. apply protocol_tc_loop_inv2; exact HI.
    - destruct Hns.
    - exact HI.
    - apply (update_variables_inv2 Y P O yovr fx good s ov HI).
    - apply clear_results_inv2.
  Qed.

  (** ** every history without a steady-state run *)
  Theorem history_invariant ops : forall s, Forall no_steady ops -> Inv2 s -> Inv2 (run s ops).
  Proof.
    induction ops as [|o rest IH]; intros s Hns HI; [exact HI|].
    inversion Hns as [|? ? Ho Hrest]; subst. cbn [Protocol.run]. apply IH; [exact Hrest|].
    apply run_op_inv2; assumption.
  Qed.

  Theorem history_axis_increasing y0 p ops :
    Forall no_steady ops -> incr (index_of Y P (run (sim_new Y P y0 p) ops)).
  Proof.
    intro Hns. pose proof (history_invariant ops _ Hns (sim_new_inv2 Y P y0 p)) as [HI _].
    destruct (Inv_prior Y P _ HI) as (r & _ & _ & Hinc & _). exact Hinc.
  Qed.

  (** ** C14: a protocol IS the manual sequence  update_parameters ; simulate  per step *)
  Definition never_fails : Prop := forall p t y t1, solve_ok p t y t1 = true.

  Definition manual (t_start : Q) (n : nat) (rows : list (Q * U)) : list op :=
    flat_map (fun r => [OUpdPar (snd r); OSim (t_start + fst r) (Some n)]) rows.

  Lemma simulate_done s t_end k s2 :
    never_fails -> Inv2 s -> has_errors Y P s = false ->
    simulate s t_end (Some (S k)) = (s2, Done) ->
    s_vars s2 <> None /\ has_errors Y P s2 = false /\ Inv2 s2.
  Proof.
    intros Hnf HI Herr E.
    pose proof (simulate_inv2 Y P flow solve_ok fx good s t_end (Some (S k)) HI) as H2. rewrite E in H2. cbn [fst] in H2.
    destruct (sim_step Y P flow solve_ok fx good s t_end (Some (S k)) k (proj1 HI) Herr eq_refl) as [Hle Hgt].
    destruct (Qlt_le_dec (reached Y P s) t_end) as [L|L].
    - destruct (Hgt L) as (_ & _ & E'). rewrite E' in E. rewrite Hnf in E. injection E as <-.
      split; [|split; [exact Herr|exact H2]].
      unfold after_ok. cbn [s_vars]. discriminate.
    - rewrite (Hle L) in E. discriminate.
  Qed.

  Lemma protocol_loop_manual rows : forall s t_start k,
    never_fails -> Inv2 s -> has_errors Y P s = false ->
    protocol_loop s t_start (S k) rows = run_strict s (manual t_start (S k) rows).
  Proof.
    induction rows as [|[T u] rest IH]; intros s t_start k Hnf HI Herr; [reflexivity|].
    cbn [Protocol.protocol_loop manual flat_map app Protocol.run_strict Protocol.run_op fst snd].
    assert (HI1 : Inv2 (update_parameters s u)) by (apply update_parameters_inv2; exact HI).
    assert (Herr1 : has_errors Y P (update_parameters s u) = false) by exact Herr.
    destruct (simulate (update_parameters s u) (t_start + T) (Some (S k))) as [s2 o] eqn:E.
    destruct o; try reflexivity.
    destruct (simulate_done _ _ _ _ Hnf HI1 Herr1 E) as (Hv & Herr2 & HI2).
    destruct (s_vars s2) eqn:Ev; [|congruence].
    apply IH; assumption.
  Qed.

  Theorem protocol_is_manual s steps k :
    never_fails -> Inv2 s -> has_errors Y P s = false ->
    simulate_protocol Y P U flow solve_ok pupd fx s (make_protocol U steps) (S k)
    = run_strict s (manual (reached Y P s) (S k) (make_protocol U steps)).
  Proof.
    intros Hnf HI Herr. unfold simulate_protocol. rewrite Herr.
    destruct (Inv_prior Y P s (proj1 HI)) as (r & Hpr & _). rewrite Hpr, (reached_prior Y P s r Hpr).
    apply protocol_loop_manual; assumption.
  Qed.

  (** the same for the time-course form: one  update_parameters ; simulate_time_course(window)  per step *)
  Fixpoint manual_tc (t_start : Q) (full : list Q) (rows : list (Q * U)) : list op :=
    match rows with
    | [] => []
    | (t_end, u) :: rest =>
        OUpdPar u
        :: OTc (filter (fun t => cmpb (f_win_lo fx) t t_start && cmpb (f_win_hi fx) t t_end) full)
        :: manual_tc t_end full rest
    end.

  Lemma time_course_done s pts s2 :
    never_fails -> Inv2 s -> has_errors Y P s = false -> pts <> [] ->
    simulate_time_course s pts = (s2, Done) ->
    s_vars s2 <> None /\ has_errors Y P s2 = false /\ Inv2 s2.
  Proof.
    intros Hnf HI Herr Hne E.
    pose proof (simulate_time_course_inv2 Y P flow solve_ok fx good s pts HI) as H2. rewrite E in H2. cbn [fst] in H2.
    destruct (tc_step Y P flow solve_ok fx good s pts (proj1 HI) Herr Hne) as [Hle Hgt].
    destruct (Qlt_le_dec (reached Y P s) (lastq pts 0)) as [L|L].
    - destruct (Hgt L) as (h & rest & _ & _ & _ & _ & E'). rewrite E' in E. unfold step_result in E.
      destruct (incrb (h :: rest)); [|discriminate]. rewrite Hnf in E. injection E as <-.
      split; [|split; [exact Herr|exact H2]].
      unfold after_ok. cbn [s_vars]. discriminate.
    - rewrite (Hle L) in E. discriminate.
  Qed.

  Lemma protocol_tc_loop_manual rows : forall s t_start full,
    never_fails -> Inv2 s -> has_errors Y P s = false ->
    protocol_tc_loop s t_start full rows = run_strict s (manual_tc t_start full rows).
  Proof.
    induction rows as [|[T u] rest IH]; intros s t_start full Hnf HI Herr; [reflexivity|].
    cbn [Protocol.protocol_tc_loop manual_tc Protocol.run_strict Protocol.run_op].
    assert (HI1 : Inv2 (update_parameters s u)) by (apply update_parameters_inv2; exact HI).
    assert (Herr1 : has_errors Y P (update_parameters s u) = false) by exact Herr.
    set (sel := filter _ full).
    destruct (simulate_time_course (update_parameters s u) sel) as [s2 o] eqn:E.
    destruct o; try reflexivity.
    destruct sel as [|x sel'] eqn:Esel.
    { (* an empty window raises IndexError: not Done *)
      unfold Simulator.simulate_time_course in E. rewrite Herr1 in E.
      destruct (prior_t_end Y P (update_parameters s u)); inversion E. }
    assert (Hsne : x :: sel' <> []) by discriminate.
    destruct (time_course_done (update_parameters s u) (x :: sel') s2 Hnf HI1 Herr1 Hsne E) as (Hv & Herr2 & HI2).
    destruct (s_vars s2) eqn:Ev; [|congruence].
    apply IH; assumption.
  Qed.
End ProtocolProofs.

Section Corollaries.
  Variables Y P U O : Type.
  Variable flow : P -> Q -> Y -> Q -> Y.
  Variable solve_ok : P -> Q -> Y -> Q -> bool.
  Variable conv : Y -> Y -> bool.
  Variable pupd : P -> U -> P.
  Variable yovr : Y -> O -> Y.
  Variable fx : sim_facts.
  Hypothesis good : good_facts fx.

  Lemma step_governs (s : sim Y P) (u : U) (t_end : Q) (m : nat) (s' : sim Y P) :
    Inv2 Y P s -> has_errors Y P s = false ->
    simulate Y P flow solve_ok fx (update_parameters Y P U pupd s u) t_end (Some (S m)) = (s', Done) ->
    has_errors Y P s' = false ->
    let s1 := update_parameters Y P U pupd s u in
    let h := sim_h Y P s1 t_end m in let rest := sim_rest Y P s1 t_end m in
    s_mp s1 = pupd (s_mp s) u
    /\ h == i_t0 (s_int s) /\ i_t0 (s_int s) + shiftv Y P s == reached Y P s
    /\ incr (h :: rest) /\ appended Y P flow s1 s' h rest
    /\ reached Y P s' == t_end.
  Proof.
    intros HI Herr E Herr'.
    destruct (simulate_spec Y P flow solve_ok fx good
                (update_parameters Y P U pupd s u) t_end (Some (S m)) m HI Herr eq_refl) as (_ & _ & _ & H).
    destruct (H s' E Herr') as (A & B & _ & C & D & F & _).
    cbv zeta. split; [reflexivity|]. split; [exact A|]. split; [exact B|]. split; [exact C|]. split; [exact D|exact F].
  Qed.

  Lemma protocol_tc_is_manual (rows : list (Q * U)) (s : sim Y P) (t_start : Q) (full : list Q) :
    f_win_lo fx = CmpGt -> f_win_hi fx = CmpLe ->
    (forall p t y t1, solve_ok p t y t1 = true) -> Inv2 Y P s -> has_errors Y P s = false ->
    protocol_tc_loop Y P U flow solve_ok pupd fx s t_start full rows
    = run_strict Y P U O flow solve_ok conv pupd yovr fx s
        ((fix manual_tc (t0 : Q) (rows : list (Q * U)) : list (op U O) :=
            match rows with
            | [] => []
            | (t_end, u) :: rest =>
                OUpdPar u :: OTc (filter (fun t => Qltb t0 t && Qle_bool t t_end) full) :: manual_tc t_end rest
            end) t_start rows).
  Proof.
    intros Hlo Hhi Hnf HI Herr.
    rewrite (protocol_tc_loop_manual Y P U O flow solve_ok conv pupd yovr fx good rows s t_start full Hnf HI Herr).
    f_equal. clear - Hlo Hhi. revert t_start. induction rows as [|[te u] rest IH]; intro t0; [reflexivity|].
    cbn [manual_tc]. rewrite IH, Hlo, Hhi. reflexivity.
  Qed.
End Corollaries.

(** the facts of the tree the theorems are instantiated at (edited only together with a fix: commit) *)
Definition pinned_facts : sim_facts :=
  mkSimFacts FrameAbs CmpLe FrameAbs CmpLe CmpGe true true false true false 100 1000 CmpLe CmpGt CmpLe true true.

Lemma good_of_pinned fx : fx = pinned_facts -> good_facts fx.
Proof. intros ->. constructor; reflexivity. Qed.

(** the facts of the unrepaired tree (frame mix-up, overrides not accumulated) -- for the refutations *)
Definition unrepaired_facts : sim_facts :=
  mkSimFacts FrameMixed CmpLe FrameMixed CmpLe CmpGe true true false true false 100 1000 CmpLe CmpGt CmpLe false true.

Lemma not_incr_by_compute l : incrb l = false -> ~ incr l.
Proof. intros H Hi. apply incr_incrb in Hi. congruence. Qed.

(** ** pure list facts used by C14 *)
Lemma filter_none_above (l : list Q) (x lo mid : Q) :
  (forall y, In y l -> x < y) -> mid < x -> filter (fun t => Qltb lo t && Qle_bool t mid) l = [].
Proof.
  intros Hall Hx. induction l as [|y r IH]; [reflexivity|]. cbn [filter].
  assert (E : Qle_bool y mid = false).
  { apply Qle_bool_false. specialize (Hall y (or_introl eq_refl)). lra. }
  rewrite E, andb_false_r. apply IH. intros z Hz. apply Hall. right. exact Hz.
Qed.

Lemma windows_partition (l : list Q) (lo mid hi : Q) :
  incr l -> lo <= mid -> mid <= hi ->
  filter (fun t => Qltb lo t && Qle_bool t mid) l ++ filter (fun t => Qltb mid t && Qle_bool t hi) l
  = filter (fun t => Qltb lo t && Qle_bool t hi) l.
Proof.
  intros Hinc H1 H2. induction l as [|x r IH]; [reflexivity|].
  destruct Hinc as [Hx Hr]. specialize (IH Hr). cbn [filter].
  destruct (Qltb lo x) eqn:El; cbn [andb].
  - apply Qltb_iff in El. destruct (Qle_bool x mid) eqn:Em.
    + apply Qle_bool_iff in Em.
      assert (E1 : Qltb mid x = false) by (apply Qltb_false; exact Em).
      assert (E2 : Qle_bool x hi = true) by (apply Qle_bool_iff; lra).
      rewrite E1, E2. cbn [andb app]. rewrite <- IH. reflexivity.
    + apply Qle_bool_false in Em.
      assert (E1 : Qltb mid x = true) by (apply Qltb_iff; exact Em). rewrite E1. cbn [andb].
      rewrite (filter_none_above r x lo mid Hx Em) in *. cbn [app] in *.
      destruct (Qle_bool x hi); [rewrite IH; reflexivity|exact IH].
  - apply Qltb_false in El.
    assert (E1 : Qltb mid x = false) by (apply Qltb_false; lra). rewrite E1. cbn [andb]. exact IH.
Qed.

Lemma qins_spec x l :
  incr l ->
  incr (qins x l)
  /\ (exists y, In y (qins x l) /\ y == x)
  /\ (forall y, In y l -> In y (qins x l))
  /\ (forall y, In y (qins x l) -> y = x \/ In y l).
Proof.
  induction l as [|a r IH]; intro Hinc.
  - cbn. split; [split; [intros ? []|exact I]|]. split; [exists x; split; [left; reflexivity|reflexivity]|].
    split; [intros ? []|]. intros y [<-|[]]. left. reflexivity.
  - destruct Hinc as [Ha Hr]. destruct (IH Hr) as (I1 & (w & Hw & Ew) & I3 & I4). cbn [qins].
    destruct (Qltb x a) eqn:E1.
    + apply Qltb_iff in E1. split; [|split; [|split]].
      * split; [|split; assumption]. intros y [<-|Hy]; [exact E1|]. specialize (Ha y Hy). lra.
      * exists x. split; [left; reflexivity|reflexivity].
      * intros y Hy. right. exact Hy.
      * intros y [<-|Hy]; [left; reflexivity|right; exact Hy].
    + apply Qltb_false in E1. destruct (Qeq_bool x a) eqn:E2.
      * apply Qeq_bool_iff in E2. split; [split; assumption|]. split; [exists a; split; [left; reflexivity|lra]|].
        split; [intros y Hy; exact Hy|]. intros y Hy. right. exact Hy.
      * apply Qeq_bool_false in E2. assert (Hlt : a < x) by (destruct (Qlt_le_dec a x); [assumption|exfalso; apply E2; lra]).
        split; [|split; [|split]].
        -- split; [|exact I1]. intros y Hy. destruct (I4 y Hy) as [->|Hy']; [exact Hlt|exact (Ha y Hy')].
        -- exists w. split; [right; exact Hw|exact Ew].
        -- intros y [<-|Hy]; [left; reflexivity|right; exact (I3 y Hy)].
        -- intros y [<-|Hy]; [right; left; reflexivity|]. destruct (I4 y Hy) as [->|Hy']; [left; reflexivity|right; right; exact Hy'].
Qed.

Lemma qfold_spec (b base : list Q) :
  incr base ->
  incr (fold_right qins base b)
  /\ (forall x, In x b \/ In x base -> exists y, In y (fold_right qins base b) /\ y == x)
  /\ (forall y, In y (fold_right qins base b) -> In y b \/ In y base).
Proof.
  intro Hb. induction b as [|x r IH]; cbn [fold_right].
  - split; [exact Hb|]. split; [intros x [[]|Hx]; exists x; split; [exact Hx|reflexivity]|]. intros y Hy. right. exact Hy.
  - destruct IH as (I1 & I2 & I3). destruct (qins_spec x _ I1) as (J1 & (w & Hw & Ew) & J3 & J4).
    split; [exact J1|]. split.
    + intros z [[<-|Hz]|Hz].
      * exists w. split; assumption.
      * destruct (I2 z (or_introl Hz)) as (y & Hy & Ey). exists y. split; [exact (J3 y Hy)|exact Ey].
      * destruct (I2 z (or_intror Hz)) as (y & Hy & Ey). exists y. split; [exact (J3 y Hy)|exact Ey].
    + intros y Hy. destruct (J4 y Hy) as [->|Hy']; [left; left; reflexivity|].
      destruct (I3 y Hy') as [H|H]; [left; right; exact H|right; exact H].
Qed.

Lemma qunion_exact (a b : list Q) :
  incr (qunion a b)
  /\ (forall x, In x a \/ In x b -> exists y, In y (qunion a b) /\ y == x)
  /\ (forall y, In y (qunion a b) -> In y a \/ In y b).
Proof.
  unfold qunion.
  destruct (qfold_spec a [] I) as (A1 & A2 & A3).
  destruct (qfold_spec b (fold_right qins [] a) A1) as (B1 & B2 & B3).
  split; [exact B1|]. split.
  - intros x [Hx|Hx].
    + destruct (A2 x (or_introl Hx)) as (y & Hy & Ey).
      destruct (B2 y (or_intror Hy)) as (z & Hz & Ez). exists z. split; [exact Hz|lra].
    + exact (B2 x (or_introl Hx)).
  - intros y Hy. destruct (B3 y Hy) as [H|H]; [right; exact H|].
    destruct (A3 y H) as [H'|[]]. left. exact H'.
Qed.
