(** Proofs about protocols and whole histories (C04 + C14). *)
From Coq Require Import QArith List Bool NArith Lia Lqa.
From Sim Require Import Integrator Simulator Protocol SimProofs.
Import ListNotations.
Open Scope Q_scope.

(** ** pure list facts used by C14 *)
Lemma filter_none_above (l : list Q) (x lo mid : Q) :
  (forall y, In y l -> x < y) -> mid < x -> filter (fun t => Qltb lo t && Qle_bool t mid) l = [].
Proof.
  intros Hall Hx. induction l as [|y r IH]; [reflexivity|]. cbn [filter].
  assert (E : Qle_bool y mid = false).
  { apply Qle_bool_false. specialize (Hall y (or_introl eq_refl)). lra. }
  rewrite E, andb_false_r. apply IH. intros z Hz. apply Hall. right. exact Hz.
Qed.

Lemma windows_partition (l : list Q) (lo mid hi : Q) :
  incr l -> lo <= mid -> mid <= hi ->
  filter (fun t => Qltb lo t && Qle_bool t mid) l ++ filter (fun t => Qltb mid t && Qle_bool t hi) l
  = filter (fun t => Qltb lo t && Qle_bool t hi) l.
Proof.
  intros Hinc H1 H2. induction l as [|x r IH]; [reflexivity|].
  destruct Hinc as [Hx Hr]. specialize (IH Hr). cbn [filter].
  destruct (Qltb lo x) eqn:El; cbn [andb].
  - apply Qltb_iff in El. destruct (Qle_bool x mid) eqn:Em.
    + apply Qle_bool_iff in Em.
      assert (E1 : Qltb mid x = false) by (apply Qltb_false; exact Em).
      assert (E2 : Qle_bool x hi = true) by (apply Qle_bool_iff; lra).
      rewrite E1, E2. cbn [andb app]. rewrite <- IH. reflexivity.
    + apply Qle_bool_false in Em.
      assert (E1 : Qltb mid x = true) by (apply Qltb_iff; exact Em). rewrite E1. cbn [andb].
      rewrite (filter_none_above r x lo mid Hx Em) in *. cbn [app] in *.
      destruct (Qle_bool x hi); [rewrite IH; reflexivity|exact IH].
  - apply Qltb_false in El.
    assert (E1 : Qltb mid x = false) by (apply Qltb_false; lra). rewrite E1. cbn [andb]. exact IH.
Qed.

Lemma qins_spec x l :
  incr l ->
  incr (qins x l)
  /\ (exists y, In y (qins x l) /\ y == x)
  /\ (forall y, In y l -> In y (qins x l))
  /\ (forall y, In y (qins x l) -> y = x \/ In y l).
Proof.
  induction l as [|a r IH]; intro Hinc.
  - cbn. split; [split; [intros ? []|exact I]|]. split; [exists x; split; [left; reflexivity|reflexivity]|].
    split; [intros ? []|]. intros y [<-|[]]. left. reflexivity.
  - destruct Hinc as [Ha Hr]. destruct (IH Hr) as (I1 & (w & Hw & Ew) & I3 & I4). cbn [qins].
    destruct (Qltb x a) eqn:E1.
    + apply Qltb_iff in E1. split; [|split; [|split]].
      * split; [|split; assumption]. intros y [<-|Hy]; [exact E1|]. specialize (Ha y Hy). lra.
      * exists x. split; [left; reflexivity|reflexivity].
      * intros y Hy. right. exact Hy.
      * intros y [<-|Hy]; [left; reflexivity|right; exact Hy].
    + apply Qltb_false in E1. destruct (Qeq_bool x a) eqn:E2.
      * apply Qeq_bool_iff in E2. split; [split; assumption|]. split; [exists a; split; [left; reflexivity|lra]|].
        split; [intros y Hy; exact Hy|]. intros y Hy. right. exact Hy.
      * apply Qeq_bool_false in E2. assert (Hlt : a < x) by (destruct (Qlt_le_dec a x); [assumption|exfalso; apply E2; lra]).
        split; [|split; [|split]].
        -- split; [|exact I1]. intros y Hy. destruct (I4 y Hy) as [->|Hy']; [exact Hlt|exact (Ha y Hy')].
        -- exists w. split; [right; exact Hw|exact Ew].
        -- intros y [<-|Hy]; [left; reflexivity|right; exact (I3 y Hy)].
        -- intros y [<-|Hy]; [right; left; reflexivity|]. destruct (I4 y Hy) as [->|Hy']; [left; reflexivity|right; right; exact Hy'].
Qed.

Lemma qfold_spec (b base : list Q) :
  incr base ->
  incr (fold_right qins base b)
  /\ (forall x, In x b \/ In x base -> exists y, In y (fold_right qins base b) /\ y == x)
  /\ (forall y, In y (fold_right qins base b) -> In y b \/ In y base).
Proof.
  intro Hb. induction b as [|x r IH]; cbn [fold_right].
  - split; [exact Hb|]. split; [intros x [[]|Hx]; exists x; split; [exact Hx|reflexivity]|]. intros y Hy. right. exact Hy.
  - destruct IH as (I1 & I2 & I3). destruct (qins_spec x _ I1) as (J1 & (w & Hw & Ew) & J3 & J4).
    split; [exact J1|]. split.
    + intros z [[<-|Hz]|Hz].
      * exists w. split; assumption.
      * destruct (I2 z (or_introl Hz)) as (y & Hy & Ey). exists y. split; [exact (J3 y Hy)|exact Ey].
      * destruct (I2 z (or_intror Hz)) as (y & Hy & Ey). exists y. split; [exact (J3 y Hy)|exact Ey].
    + intros y Hy. destruct (J4 y Hy) as [->|Hy']; [left; left; reflexivity|].
      destruct (I3 y Hy') as [H|H]; [left; right; exact H|right; exact H].
Qed.

Lemma qunion_exact (a b : list Q) :
  incr (qunion a b)
  /\ (forall x, In x a \/ In x b -> exists y, In y (qunion a b) /\ y == x)
  /\ (forall y, In y (qunion a b) -> In y a \/ In y b).
Proof.
  unfold qunion.
  destruct (qfold_spec a [] I) as (A1 & A2 & A3).
  destruct (qfold_spec b (fold_right qins [] a) A1) as (B1 & B2 & B3).
  split; [exact B1|]. split.
  - intros x [Hx|Hx].
    + destruct (A2 x (or_introl Hx)) as (y & Hy & Ey).
      destruct (B2 y (or_intror Hy)) as (z & Hz & Ez). exists z. split; [exact Hz|lra].
    + exact (B2 x (or_introl Hx)).
  - intros y Hy. destruct (B3 y Hy) as [H|H]; [right; exact H|].
    destruct (A3 y H) as [H'|[]]. left. exact H'.
Qed.

Section ProtocolProofs.
  Variables Y P U O : Type.
  Variable flow : P -> Q -> Y -> Q -> Y.
  Variable solve_ok : P -> Q -> Y -> Q -> bool.
  Variable conv : Y -> Y -> bool.
  Variable pupd : P -> U -> P.
  Variable yovr : Y -> O -> Y.
  Variable fx : sim_facts.
  Hypothesis good : good_facts fx.

  Notation sim := (sim Y P).
  Notation Inv2 := (Inv2 Y P).
  Notation run_op := (run_op Y P U O flow solve_ok conv pupd yovr fx).
  Notation run := (run Y P U O flow solve_ok conv pupd yovr fx).
  Notation run_strict := (run_strict Y P U O flow solve_ok conv pupd yovr fx).
  Notation simulate := (simulate Y P flow solve_ok fx).
  Notation simulate_time_course := (simulate_time_course Y P flow solve_ok fx).
  Notation update_parameters := (update_parameters Y P U pupd).
  Notation protocol_loop := (protocol_loop Y P U flow solve_ok pupd fx).
  Notation protocol_tc_loop := (protocol_tc_loop Y P U flow solve_ok pupd fx).
  Notation op := (op U O).

  (** ** protocols keep the invariant *)
  Lemma protocol_loop_inv2 rows : forall s t_start n, Inv2 s -> Inv2 (fst (protocol_loop s t_start n rows)).
  Proof.
    induction rows as [|[t_end u] rest IH]; intros s t_start n HI; [exact HI|].
    cbn [Protocol.protocol_loop].
    pose proof (simulate_inv2 Y P flow solve_ok fx good (update_parameters s u) (t_start + t_end) (Some n)
                  (update_parameters_inv2 Y P U pupd s u HI)) as H1.
    destruct (simulate (update_parameters s u) (t_start + t_end) (Some n)) as [s2 o] eqn:E. cbn [fst] in H1.
    destruct o; try exact H1.
    destruct (s_vars s2); [apply IH; exact H1|exact H1].
  Qed.

  Lemma protocol_tc_loop_inv2 rows : forall s t_start full, Inv2 s -> Inv2 (fst (protocol_tc_loop s t_start full rows)).
  Proof.
    induction rows as [|[t_end u] rest IH]; intros s t_start full HI; [exact HI|].
    cbn [Protocol.protocol_tc_loop].
    match goal with |- context [simulate_time_course ?a ?b] =>
      pose proof (simulate_time_course_inv2 Y P flow solve_ok fx good a b
                    (update_parameters_inv2 Y P U pupd s u HI)) as H1;
      destruct (simulate_time_course a b) as [s2 o] eqn:E end.
    cbn [fst] in H1. destruct o; try exact H1.
    destruct (s_vars s2); [apply IH; exact H1|exact H1].
  Qed.

  Definition no_steady (o : op) : Prop := match o with OSteady => False | _ => True end.

  Lemma run_op_inv2 s o : no_steady o -> Inv2 s -> Inv2 (fst (run_op s o)).
  Proof.
    intros Hns HI. destruct o as [t st|pts|steps n|steps pts rel| |u|ov|]; cbn [Protocol.run_op].
    - apply simulate_inv2; assumption.
    - apply simulate_time_course_inv2; assumption.
    - unfold simulate_protocol. destruct (has_errors Y P s); [exact HI|].
      destruct (prior_t_end Y P s); [apply protocol_loop_inv2; exact HI|exact HI].
    - unfold simulate_protocol_time_course. destruct (has_errors Y P s); [exact HI|].
      destruct (prior_t_end Y P s); [|exact HI].
      destruct (if rel then _ else _); [exact HI|].
      destruct (cmpb _ _ _); [exact HI|]. apply protocol_tc_loop_inv2; exact HI.
    - destruct Hns.
    - exact HI.
    - apply (update_variables_inv2 Y P O yovr fx good s ov HI).
    - apply clear_results_inv2.
  Qed.

  (** ** every history without a steady-state run *)
  Theorem history_invariant ops : forall s, Forall no_steady ops -> Inv2 s -> Inv2 (run s ops).
  Proof.
    induction ops as [|o rest IH]; intros s Hns HI; [exact HI|].
    inversion Hns as [|? ? Ho Hrest]; subst. cbn [Protocol.run]. apply IH; [exact Hrest|].
    apply run_op_inv2; assumption.
  Qed.

  Theorem history_axis_increasing y0 p ops :
    Forall no_steady ops -> incr (index_of Y P (run (sim_new Y P y0 p) ops)).
  Proof.
    intro Hns. pose proof (history_invariant ops _ Hns (sim_new_inv2 Y P y0 p)) as [HI _].
    destruct (Inv_prior Y P _ HI) as (r & _ & _ & Hinc & _). exact Hinc.
  Qed.

  (** ** C14: a protocol IS the manual sequence  update_parameters ; simulate  per step *)
  Definition never_fails : Prop := forall p t y t1, solve_ok p t y t1 = true.

  Definition manual (t_start : Q) (n : nat) (rows : list (Q * U)) : list op :=
    flat_map (fun r => [OUpdPar (snd r); OSim (t_start + fst r) (Some n)]) rows.

  Lemma simulate_done s t_end k s2 :
    never_fails -> Inv2 s -> has_errors Y P s = false ->
    simulate s t_end (Some (S k)) = (s2, Done) ->
    s_vars s2 <> None /\ has_errors Y P s2 = false /\ Inv2 s2.
  Proof.
    intros Hnf HI Herr E.
    pose proof (simulate_inv2 Y P flow solve_ok fx good s t_end (Some (S k)) HI) as H2. rewrite E in H2. cbn [fst] in H2.
    destruct (sim_step Y P flow solve_ok fx good s t_end (Some (S k)) k (proj1 HI) Herr eq_refl) as [Hle Hgt].
    destruct (Qlt_le_dec (reached Y P s) t_end) as [L|L].
    - destruct (Hgt L) as (_ & _ & E'). rewrite E' in E. rewrite (mok_true Y P solve_ok fx _ Hnf) in E. injection E as <-.
      split; [|split; [exact Herr|exact H2]].
      unfold after_ok. cbn [s_vars]. discriminate.
    - rewrite (Hle L) in E. discriminate.
  Qed.

  Lemma protocol_loop_manual rows : forall s t_start k,
    never_fails -> Inv2 s -> has_errors Y P s = false ->
    protocol_loop s t_start (S k) rows = run_strict s (manual t_start (S k) rows).
  Proof.
    induction rows as [|[T u] rest IH]; intros s t_start k Hnf HI Herr; [reflexivity|].
    cbn [Protocol.protocol_loop manual flat_map app Protocol.run_strict Protocol.run_op fst snd].
    assert (HI1 : Inv2 (update_parameters s u)) by (apply update_parameters_inv2; exact HI).
    assert (Herr1 : has_errors Y P (update_parameters s u) = false) by exact Herr.
    destruct (simulate (update_parameters s u) (t_start + T) (Some (S k))) as [s2 o] eqn:E.
    destruct o; try reflexivity.
    destruct (simulate_done _ _ _ _ Hnf HI1 Herr1 E) as (Hv & Herr2 & HI2).
    destruct (s_vars s2) eqn:Ev; [|congruence].
    apply IH; assumption.
  Qed.

  Theorem protocol_is_manual s steps k :
    never_fails -> Inv2 s -> has_errors Y P s = false ->
    simulate_protocol Y P U flow solve_ok pupd fx s (make_protocol U steps) (S k)
    = run_strict s (manual (reached Y P s) (S k) (make_protocol U steps)).
  Proof.
    intros Hnf HI Herr. unfold simulate_protocol. rewrite Herr.
    destruct (Inv_prior Y P s (proj1 HI)) as (r & Hpr & _). rewrite Hpr, (reached_prior Y P s r Hpr).
    apply protocol_loop_manual; assumption.
  Qed.

  (** the same for the time-course form: one  update_parameters ; simulate_time_course(window)  per step *)
  Fixpoint manual_tc (t_start : Q) (full : list Q) (rows : list (Q * U)) : list op :=
    match rows with
    | [] => []
    | (t_end, u) :: rest =>
        OUpdPar u
        :: OTc (filter (fun t => cmpb (f_win_lo fx) t t_start && cmpb (f_win_hi fx) t t_end) full)
        :: manual_tc t_end full rest
    end.

  Lemma time_course_done s pts s2 :
    never_fails -> Inv2 s -> has_errors Y P s = false -> pts <> [] ->
    simulate_time_course s pts = (s2, Done) ->
    s_vars s2 <> None /\ has_errors Y P s2 = false /\ Inv2 s2.
  Proof.
    intros Hnf HI Herr Hne E.
    pose proof (simulate_time_course_inv2 Y P flow solve_ok fx good s pts HI) as H2. rewrite E in H2. cbn [fst] in H2.
    destruct (tc_step Y P flow solve_ok fx good s pts (proj1 HI) Herr Hne) as [Hle Hgt].
    destruct (Qlt_le_dec (reached Y P s) (lastq pts 0)) as [L|L].
    - destruct (Hgt L) as (h & rest & _ & _ & _ & _ & E'). rewrite E' in E. unfold step_result in E.
      destruct (incrb (h :: rest)); [|discriminate]. rewrite (mok_true Y P solve_ok fx _ Hnf) in E. injection E as <-.
      split; [|split; [exact Herr|exact H2]].
      unfold after_ok. cbn [s_vars]. discriminate.
    - rewrite (Hle L) in E. discriminate.
  Qed.

  Lemma protocol_tc_loop_manual rows : forall s t_start full,
    never_fails -> Inv2 s -> has_errors Y P s = false ->
    protocol_tc_loop s t_start full rows = run_strict s (manual_tc t_start full rows).
  Proof.
    induction rows as [|[T u] rest IH]; intros s t_start full Hnf HI Herr; [reflexivity|].
    cbn [Protocol.protocol_tc_loop manual_tc Protocol.run_strict Protocol.run_op].
    assert (HI1 : Inv2 (update_parameters s u)) by (apply update_parameters_inv2; exact HI).
    assert (Herr1 : has_errors Y P (update_parameters s u) = false) by exact Herr.
    set (sel := filter _ full).
    destruct (simulate_time_course (update_parameters s u) sel) as [s2 o] eqn:E.
    destruct o; try reflexivity.
    destruct sel as [|x sel'] eqn:Esel.
    { (* an empty window raises IndexError: not Done *)
      unfold Simulator.simulate_time_course in E. rewrite Herr1 in E.
      destruct (prior_t_end Y P (update_parameters s u)); inversion E. }
    assert (Hsne : x :: sel' <> []) by discriminate.
    destruct (time_course_done (update_parameters s u) (x :: sel') s2 Hnf HI1 Herr1 Hsne E) as (Hv & Herr2 & HI2).
    destruct (s_vars s2) eqn:Ev; [|congruence].
    apply IH; assumption.
  Qed.
  (** ** C14: a protocol with positive durations is ACCEPTED step by step, one segment per step, each
      recorded with that step's parameter values, and ends exactly at the last cumulative end *)
  Fixpoint scan_pars (p : P) (us : list U) : list P :=
    match us with [] => [] | u :: r => pupd p u :: scan_pars (pupd p u) r end.

  Fixpoint ends_incr (lo : Q) (rows : list (Q * U)) : Prop :=
    match rows with [] => True | (T, _) :: r => lo < T /\ ends_incr T r end.

  Lemma ends_incr_lo lo lo' rows : lo' <= lo -> ends_incr lo rows -> ends_incr lo' rows.
  Proof. destruct rows as [|[T u] r]; [exact (fun _ H => H)|]. intros Hl [H1 H2]. split; [lra|exact H2]. Qed.

  Lemma make_protocol_ends_incr steps : forall t,
    Forall (fun st : Q * U => 0 < fst st) steps -> ends_incr t (make_protocol_from U t steps).
  Proof.
    induction steps as [|[d u] r IH]; intros t Hpos; [exact I|].
    inversion Hpos as [|? ? Hd Hr]; subst. cbn [make_protocol_from ends_incr fst] in *.
    split; [lra|apply IH; exact Hr].
  Qed.

  Definition nsegs (s : sim) : nat := match s_vars s with None => 0%nat | Some l => length l end.

  Lemma appended_counts s s2 h rest :
    appended Y P flow s s2 h rest -> rest <> [] ->
    nsegs s2 = S (nsegs s) /\ pars_list Y P s2 = pars_list Y P s ++ [s_mp s] /\ s_mp s2 = s_mp s.
  Proof.
    intros (_ & (segs & Hv & Hlast & Hrm) & Hp & _ & Hmp & _) Hne.
    split; [|split; [unfold pars_list; rewrite Hp; reflexivity|exact Hmp]].
    unfold nsegs. rewrite Hv.
    assert (Hsne : segs <> []).
    { intro E. subst segs. cbn in Hlast. destruct (s_vars s); destruct rest; cbn in Hlast; congruence. }
    rewrite (@app_removelast_last _ segs [] Hsne), Hrm, app_length. cbn [length].
    destruct (s_vars s); cbn [length]; lia.
  Qed.

  Lemma protocol_loop_accepted rows : forall s t_start k,
    never_fails -> Inv2 s -> has_errors Y P s = false ->
    ends_incr (reached Y P s - t_start) rows ->
    exists s', protocol_loop s t_start (S k) rows = (s', Done) /\ Inv2 s' /\ has_errors Y P s' = false
      /\ pars_list Y P s' = pars_list Y P s ++ scan_pars (s_mp s) (map snd rows)
      /\ s_mp s' = fold_left pupd (map snd rows) (s_mp s)
      /\ nsegs s' = (nsegs s + length rows)%nat
      /\ (rows <> [] -> reached Y P s' == t_start + lastq (map fst rows) 0).
  Proof.
    induction rows as [|[T u] rest IH]; intros s t_start k Hnf HI Herr Hinc.
    - exists s. cbn [Protocol.protocol_loop map scan_pars fold_left length]. rewrite app_nil_r, Nat.add_0_r.
      split; [reflexivity|]. split; [exact HI|]. split; [exact Herr|]. split; [reflexivity|].
      split; [reflexivity|]. split; [reflexivity|]. intro H. congruence.
    - destruct Hinc as [HT Hrest]. cbn [Protocol.protocol_loop].
      set (s1 := update_parameters s u).
      assert (HI1 : Inv2 s1) by (apply update_parameters_inv2; exact HI).
      assert (Herr1 : has_errors Y P s1 = false) by exact Herr.
      assert (Hr1 : reached Y P s1 = reached Y P s) by reflexivity.
      destruct (simulate_spec Y P flow solve_ok fx good s1 (t_start + T) (Some (S k)) k HI1 Herr1 eq_refl)
        as (Hiff & Hdone & _ & Hacc).
      destruct (simulate s1 (t_start + T) (Some (S k))) as [s2 o] eqn:E. cbn [fst snd] in *.
      assert (Ho : o = Done).
      { apply Hdone. intro Hrv. apply Hiff in Hrv. rewrite Hr1 in Hrv. clear - HT Hrv. set (r := reached Y P s) in *. clearbody r. lra. }
      subst o.
      destruct (simulate_done _ _ _ _ Hnf HI1 Herr1 E) as (Hv & Herr2 & HI2).
      destruct (Hacc s2 eq_refl Herr2) as (_ & _ & _ & _ & Happ & Hreach & Hlen).
      assert (Hrne : sim_rest Y P s1 (t_start + T) k <> []) by (intro E0; rewrite E0 in Hlen; discriminate).
      destruct (appended_counts _ _ _ _ Happ Hrne) as (Hn & Hp & Hmp).
      destruct (s_vars s2) eqn:Ev; [|congruence].
      destruct (IH s2 t_start k Hnf HI2 Herr2) as (s' & El & HI' & Herr' & Hp' & Hmp' & Hn' & Hreach').
      { apply (ends_incr_lo T); [lra|exact Hrest]. }
      exists s'. split; [exact El|]. split; [exact HI'|]. split; [exact Herr'|].
      split; [|split; [|split]].
      + rewrite Hp', Hp, Hmp. cbn [map snd scan_pars]. rewrite <- app_assoc. reflexivity.
      + rewrite Hmp', Hmp. reflexivity.
      + rewrite Hn', Hn. change (nsegs s1) with (nsegs s). cbn [length]. lia.
      + intros _. destruct rest as [|r0 rest'].
        * cbn [Protocol.protocol_loop] in El. assert (Es : s' = s2) by congruence. subst s'. cbn [map fst lastq]. exact Hreach.
        * rewrite (Hreach' ltac:(discriminate)). cbn [map fst]. rewrite (lastq_cons T (fst r0 :: map fst rest') 0) by discriminate. reflexivity.
  Qed.

  Theorem protocol_accepted s steps k :
    never_fails -> Inv2 s -> has_errors Y P s = false ->
    Forall (fun st : Q * U => 0 < fst st) steps ->
    exists s', simulate_protocol Y P U flow solve_ok pupd fx s (make_protocol U steps) (S k) = (s', Done)
      /\ Inv2 s' /\ has_errors Y P s' = false
      /\ pars_list Y P s' = pars_list Y P s ++ scan_pars (s_mp s) (map snd steps)
      /\ nsegs s' = (nsegs s + length steps)%nat
      /\ (steps <> [] -> reached Y P s' == reached Y P s + lastq (map fst (make_protocol U steps)) 0).
  Proof.
    intros Hnf HI Herr Hpos. unfold simulate_protocol. rewrite Herr.
    destruct (Inv_prior Y P s (proj1 HI)) as (r & Hpr & _). rewrite Hpr. rewrite (reached_prior Y P s r Hpr).
    destruct (protocol_loop_accepted (make_protocol U steps) s r k Hnf HI Herr) as (s' & El & HI' & Herr' & Hp & _ & Hn & Hre).
    { rewrite (reached_prior Y P s r Hpr). apply (ends_incr_lo 0); [lra|]. apply make_protocol_ends_incr. exact Hpos. }
    assert (Hsnd : forall t, map snd (make_protocol_from U t steps) = map snd steps).
    { clear. induction steps as [|[d u] r' IH]; intro t; [reflexivity|]. cbn. rewrite IH. reflexivity. }
    assert (Hlen : forall t, length (make_protocol_from U t steps) = length steps).
    { clear. induction steps as [|[d u] r' IH]; intro t; [reflexivity|]. cbn. rewrite IH. reflexivity. }
    exists s'. split; [exact El|]. split; [exact HI'|]. split; [exact Herr'|].
    unfold make_protocol in *. rewrite Hsnd in Hp. rewrite Hlen in Hn.
    split; [exact Hp|]. split; [exact Hn|].
    intro Hne. apply Hre. destruct steps as [|[d u] r']; [congruence|discriminate].
  Qed.

  (** ** the refusal test of the time-course form *)
  Lemma ptc_refusal (s : sim) (rows : list (Q * U)) (pts : list Q) (rel : bool) :
    Inv2 s -> has_errors Y P s = false -> pts <> [] ->
    let start := reached Y P s in
    let pts' := if rel then map (fun t => t + start) pts else pts in
    let rows' := map (fun r : Q * U => (fst r + start, snd r)) rows in
    (lastq pts' 0 <= start ->
       simulate_protocol_time_course Y P U flow solve_ok pupd fx s rows pts rel = (s, RaisedValue))
    /\ (start < lastq pts' 0 ->
       simulate_protocol_time_course Y P U flow solve_ok pupd fx s rows pts rel
       = protocol_tc_loop s start (qunion (map fst rows') pts') rows').
  Proof.
    intros HI Herr Hne start pts' rows'.
    destruct (Inv_prior Y P s (proj1 HI)) as (r & Hpr & _).
    assert (Hs : start = r) by (apply reached_prior; exact Hpr).
    unfold simulate_protocol_time_course. rewrite Herr, Hpr. rewrite <- Hs.
    fold rows'. fold pts'.
    assert (Hne' : pts' <> []).
    { unfold pts'. destruct rel; [|exact Hne]. destruct pts; [congruence|discriminate]. }
    destruct pts' as [|p0 ps] eqn:Ep; [congruence|].
    rewrite (g_ptc_cmp fx good). cbn [cmpb].
    rewrite (lastq_default (p0 :: ps) p0 0 Hne').
    split; intro H.
    - apply Qle_bool_iff in H. rewrite H. reflexivity.
    - apply Qle_bool_false in H. rewrite H. reflexivity.
  Qed.

  (** ** C14: the time-course form appends EXACTLY the window (start, T_n] of the sorted union *)
  Definition win (lo hi : Q) (full : list Q) : list Q := filter (fun t => Qltb lo t && Qle_bool t hi) full.

  Lemma win_In lo hi full y : In y (win lo hi full) <-> In y full /\ lo < y /\ y <= hi.
  Proof.
    unfold win. rewrite filter_In, andb_true_iff, Qltb_iff, Qle_bool_iff. tauto.
  Qed.

  Lemma Qeql_refl l : Qeql l l.
  Proof. induction l; constructor; [reflexivity|assumption]. Qed.

  Lemma Qeql_trans a b c : Qeql a b -> Qeql b c -> Qeql a c.
  Proof.
    intro H. revert c. induction H as [|x y a' b' Hxy Hab IH]; intros c Hbc; inversion Hbc; subst; constructor.
    - lra.
    - apply IH. assumption.
  Qed.

  Lemma Qeql_app a b c d : Qeql a b -> Qeql c d -> Qeql (a ++ c) (b ++ d).
  Proof. apply Forall2_app. Qed.

  Lemma incr_le_last l d x : incr l -> In x l -> x <= lastq l d.
  Proof.
    intros Hinc Hx. assert (Hne : l <> []) by (destruct l; [destruct Hx|discriminate]).
    destruct (exists_last' l Hne) as (pre & z & ->). rewrite lastq_app.
    apply in_app_or in Hx. destruct Hx as [Hx|[<-|[]]]; [|lra].
    pose proof (incr_last_max pre z Hinc x Hx). lra.
  Qed.

  Definition base_index (s : sim) : list Q :=
    match s_vars s with None => [reached Y P s] | Some _ => index_of Y P s end.

  Lemma lastq_ends T (u : U) rest t0 : ends_incr T rest ->
    lastq (map fst ((T, u) :: rest)) t0 = lastq (map fst rest) T /\ T <= lastq (map fst rest) T.
  Proof.
    destruct rest as [|[T2 u2] r]; [intros _; split; [reflexivity|cbn; lra]|].
    intros Hinc. split.
    - cbn [map fst]. rewrite lastq_cons by discriminate. apply lastq_default. discriminate.
    - revert T T2 u2 Hinc. induction r as [|[T3 u3] r IH]; intros T T2 u2 [H1 H2].
      + cbn. lra.
      + specialize (IH T2 T3 u3 H2). cbn [map fst] in *.
        rewrite lastq_cons by discriminate. rewrite (lastq_default _ T T2) by discriminate. lra.
  Qed.

  Lemma win_empty t full : win t t full = [].
  Proof.
    unfold win. induction full as [|x r IHf]; [reflexivity|]. cbn [filter].
    destruct (Qltb t x) eqn:E1; cbn [andb]; [|exact IHf].
    apply Qltb_iff in E1. assert (E2 : Qle_bool x t = false) by (apply Qle_bool_false; exact E1).
    rewrite E2. exact IHf.
  Qed.

  (** one step of the loop: update_parameters u ; simulate_time_course (window (t_start, T]) *)
  Lemma tc_window_step s t_start T u full :
    never_fails -> Inv2 s -> has_errors Y P s = false ->
    incr full -> reached Y P s == t_start -> t_start < T -> (exists y, In y full /\ y == T) ->
    exists s2,
      simulate_time_course (update_parameters s u)
        (filter (fun t => cmpb (f_win_lo fx) t t_start && cmpb (f_win_hi fx) t T) full) = (s2, Done)
      /\ s_vars s2 <> None /\ Inv2 s2 /\ has_errors Y P s2 = false
      /\ Qeql (index_of Y P s2) (base_index s ++ win t_start T full)
      /\ pars_list Y P s2 = pars_list Y P s ++ [pupd (s_mp s) u]
      /\ s_mp s2 = pupd (s_mp s) u
      /\ nsegs s2 = S (nsegs s)
      /\ reached Y P s2 == T.
  Proof.
    intros Hnf HI Herr Hfull Hreach HT (y & Hy & Ey).
    rewrite (g_win_lo fx good), (g_win_hi fx good). cbn [cmpb]. fold (win t_start T full).
    set (sel := win t_start T full).
    set (s1 := update_parameters s u).
    assert (HI1 : Inv2 s1) by (apply update_parameters_inv2; exact HI).
    assert (Herr1 : has_errors Y P s1 = false) by exact Herr.
    assert (Hr1 : reached Y P s1 = reached Y P s) by reflexivity.
    assert (Hysel : In y sel) by (apply win_In; split; [exact Hy|lra]).
    assert (Hsne : sel <> []) by (intro E0; rewrite E0 in Hysel; destruct Hysel).
    assert (Hsinc : incr sel) by (apply incr_filter; exact Hfull).
    assert (Hall : forall t, In t sel -> t_start < t /\ t <= T) by (intros t Ht; apply win_In in Ht; tauto).
    assert (Hlast : lastq sel 0 == T).
    { pose proof (incr_le_last sel 0 y Hsinc Hysel) as H1.
      destruct (Hall _ (lastq_In sel 0 Hsne)) as [_ H2]. lra. }
    destruct (time_course_spec Y P flow solve_ok fx good s1 sel HI1 Herr1 Hsne) as (Hiff & Hdone & _ & Hacc).
    destruct (simulate_time_course s1 sel) as [s2 o] eqn:E. cbn [fst snd] in *.
    assert (Ho : o = Done).
    { apply Hdone. intro Hrv. apply Hiff in Hrv. destruct Hrv as [Hrv|Hrv].
      - rewrite Hr1 in Hrv. lra.
      - apply Hrv. apply incr_filter. exact Hsinc. }
    subst o.
    destruct (time_course_done _ _ _ Hnf HI1 Herr1 Hsne E) as (Hv & Herr2 & HI2).
    destruct (Hacc s2 eq_refl Herr2) as (h & rest & Hh & Hsync & _ & Hincr & Happ & Hnew & Hreach2).
    assert (Hfilt : filter (fun t => Qltb (reached Y P s1) t) sel = sel).
    { apply filter_all. intros t Ht. apply Qltb_iff. destruct (Hall t Ht). rewrite Hr1. lra. }
    rewrite Hfilt in Hnew.
    assert (Hrne : rest <> []).
    { intro E0. subst rest. cbn [map] in Hnew. inversion Hnew as [Hx Hx2|]. apply Hsne. symmetry. exact Hx2. }
    destruct (appended_counts _ _ _ _ Happ Hrne) as (Hn & Hp & Hmp).
    exists s2. split; [reflexivity|]. split; [exact Hv|]. split; [exact HI2|]. split; [exact Herr2|].
    split; [|split; [exact Hp|split; [exact Hmp|split; [exact Hn|rewrite Hreach2; exact Hlast]]]].
    destruct Happ as (Hidx & _). rewrite Hidx. apply Qeql_app; [|exact Hnew].
    unfold base_index. change (s_vars s1) with (s_vars s). change (index_of Y P s1) with (index_of Y P s).
    destruct (s_vars s); [apply Qeql_refl|].
    constructor; [|constructor]. rewrite (add_shift_v Y P s1 h). rewrite Hh, Hsync, Hr1. reflexivity.
  Qed.

  Lemma protocol_tc_loop_axis rows : forall s t_start full,
    never_fails -> Inv2 s -> has_errors Y P s = false -> (rows <> [] \/ s_vars s <> None) ->
    incr full -> reached Y P s == t_start -> ends_incr t_start rows ->
    (forall r, In r rows -> exists y, In y full /\ y == fst r) ->
    exists s', protocol_tc_loop s t_start full rows = (s', Done) /\ Inv2 s' /\ has_errors Y P s' = false
      /\ Qeql (index_of Y P s') (base_index s ++ win t_start (lastq (map fst rows) t_start) full)
      /\ pars_list Y P s' = pars_list Y P s ++ scan_pars (s_mp s) (map snd rows)
      /\ nsegs s' = (nsegs s + length rows)%nat
      /\ reached Y P s' == lastq (map fst rows) t_start.
  Proof.
    induction rows as [|[T u] rest IH]; intros s t_start full Hnf HI Herr Hvars Hfull Hreach Hinc Hin.
    - exists s. cbn [Protocol.protocol_tc_loop map scan_pars length lastq]. rewrite win_empty, !app_nil_r, Nat.add_0_r.
      split; [reflexivity|]. split; [exact HI|]. split; [exact Herr|].
      split; [|split; [reflexivity|split; [reflexivity|exact Hreach]]].
      unfold base_index. destruct (s_vars s); [apply Qeql_refl|]. destruct Hvars; congruence.
    - destruct Hinc as [HT Hrest]. cbn [Protocol.protocol_tc_loop].
      destruct (tc_window_step s t_start T u full Hnf HI Herr Hfull Hreach HT (Hin (T, u) (or_introl eq_refl)))
        as (s2 & E & Hv2 & HI2 & Herr2 & Hidx2 & Hp2 & Hmp2 & Hn2 & Hreach2).
      rewrite E. destruct (s_vars s2) eqn:Ev2; [|congruence].
      destruct (IH s2 T full Hnf HI2 Herr2 ltac:(right; congruence) Hfull Hreach2 Hrest) as (s' & El & HI' & Herr' & Hidx' & Hp' & Hn' & Hreach').
      { intros r Hr. apply Hin. right. exact Hr. }
      destruct (lastq_ends T u rest t_start Hrest) as [Hl1 Hl2].
      exists s'. split; [exact El|]. split; [exact HI'|]. split; [exact Herr'|].
      rewrite Hl1.
      split; [|split; [|split; [|exact Hreach']]].
      + eapply Qeql_trans; [exact Hidx'|].
        unfold win. rewrite <- (windows_partition full t_start T (lastq (map fst rest) T) Hfull); [|lra|exact Hl2].
        rewrite app_assoc. apply Qeql_app; [|apply Qeql_refl].
        unfold base_index at 1. rewrite Ev2. exact Hidx2.
      + rewrite Hp', Hp2, Hmp2. cbn [map snd scan_pars]. rewrite <- app_assoc. reflexivity.
      + rewrite Hn', Hn2. cbn [length]. lia.
  Qed.

  Lemma ends_incr_shift c rows : forall lo,
    ends_incr lo rows -> ends_incr (lo + c) (map (fun r : Q * U => (fst r + c, snd r)) rows).
  Proof.
    induction rows as [|[T u] r IH]; intros lo H; [exact I|].
    destruct H as [H1 H2]. cbn [map ends_incr fst snd]. split; [lra|apply IH; exact H2].
  Qed.

  (** the whole call: not refused, one segment per step with that step's values, and the index is the
      previous index (or the start time of a fresh simulator) followed by EXACTLY the points of the sorted
      duplicate-free union of boundaries and requested points that lie in (start, T_n] *)
  Theorem ptc_axis_exact (s : sim) (steps : list (Q * U)) (pts : list Q) (rel : bool) :
    never_fails -> Inv2 s -> has_errors Y P s = false -> pts <> [] -> steps <> [] ->
    Forall (fun st : Q * U => 0 < fst st) steps ->
    let start := reached Y P s in
    let pts' := if rel then map (fun t => t + start) pts else pts in
    let rows' := map (fun r : Q * U => (fst r + start, snd r)) (make_protocol U steps) in
    let full := qunion (map fst rows') pts' in
    start < lastq pts' 0 ->
    exists s', simulate_protocol_time_course Y P U flow solve_ok pupd fx s (make_protocol U steps) pts rel = (s', Done)
      /\ Inv2 s' /\ has_errors Y P s' = false
      /\ Qeql (index_of Y P s') (base_index s ++ win start (lastq (map fst rows') start) full)
      /\ pars_list Y P s' = pars_list Y P s ++ scan_pars (s_mp s) (map snd steps)
      /\ nsegs s' = (nsegs s + length steps)%nat
      /\ reached Y P s' == lastq (map fst rows') start.
  Proof.
    intros Hnf HI Herr Hne Hsne Hpos start pts' rows' full Hlt.
    destruct (ptc_refusal s (make_protocol U steps) pts rel HI Herr Hne) as [_ Hgo].
    fold start in Hgo. fold pts' in Hgo. fold rows' in Hgo. fold full in Hgo. rewrite (Hgo Hlt).
    destruct (qunion_exact (map fst rows') pts') as (Hfinc & Hfin & _). fold full in Hfinc, Hfin.
    assert (Hrne : rows' <> []).
    { unfold rows', make_protocol. destruct steps as [|[d u] r]; [congruence|discriminate]. }
    assert (Hei : ends_incr start rows').
    { apply (ends_incr_lo (0 + start)); [lra|]. unfold rows'. apply ends_incr_shift.
      apply make_protocol_ends_incr. exact Hpos. }
    destruct (protocol_tc_loop_axis rows' s start full Hnf HI Herr (or_introl Hrne) Hfinc ltac:(reflexivity) Hei)
      as (s' & El & HI' & Herr' & Hidx & Hp & Hn & Hre).
    { intros r Hr. apply Hfin. left. apply in_map. exact Hr. }
    exists s'. split; [exact El|]. split; [exact HI'|]. split; [exact Herr'|]. split; [exact Hidx|].
    assert (Hsnd : map snd rows' = map snd steps).
    { unfold rows', make_protocol. rewrite map_map. cbn [snd].
      generalize 0 as t. clear. induction steps as [|[d u] r IH]; intro t; [reflexivity|]. cbn. rewrite IH. reflexivity. }
    assert (Hlen : length rows' = length steps).
    { unfold rows', make_protocol. rewrite map_length.
      generalize 0 as t. clear. induction steps as [|[d u] r IH]; intro t; [reflexivity|]. cbn. rewrite IH. reflexivity. }
    rewrite Hsnd in Hp. rewrite Hlen in Hn. split; [exact Hp|]. split; [exact Hn|exact Hre].
  Qed.

End ProtocolProofs.

Section Corollaries.
  Variables Y P U O : Type.
  Variable flow : P -> Q -> Y -> Q -> Y.
  Variable solve_ok : P -> Q -> Y -> Q -> bool.
  Variable conv : Y -> Y -> bool.
  Variable pupd : P -> U -> P.
  Variable yovr : Y -> O -> Y.
  Variable fx : sim_facts.
  Hypothesis good : good_facts fx.

  Lemma step_governs (s : sim Y P) (u : U) (t_end : Q) (m : nat) (s' : sim Y P) :
    Inv2 Y P s -> has_errors Y P s = false ->
    simulate Y P flow solve_ok fx (update_parameters Y P U pupd s u) t_end (Some (S m)) = (s', Done) ->
    has_errors Y P s' = false ->
    let s1 := update_parameters Y P U pupd s u in
    let h := sim_h Y P s1 t_end m in let rest := sim_rest Y P s1 t_end m in
    s_mp s1 = pupd (s_mp s) u
    /\ h == i_t0 (s_int s) /\ i_t0 (s_int s) + shiftv Y P s == reached Y P s
    /\ incr (h :: rest) /\ appended Y P flow s1 s' h rest
    /\ reached Y P s' == t_end.
  Proof.
    intros HI Herr E Herr'.
    destruct (simulate_spec Y P flow solve_ok fx good
                (update_parameters Y P U pupd s u) t_end (Some (S m)) m HI Herr eq_refl) as (_ & _ & _ & H).
    destruct (H s' E Herr') as (A & B & _ & C & D & F & _).
    cbv zeta. split; [reflexivity|]. split; [exact A|]. split; [exact B|]. split; [exact C|]. split; [exact D|exact F].
  Qed.

  Lemma protocol_tc_is_manual (rows : list (Q * U)) (s : sim Y P) (t_start : Q) (full : list Q) :
    f_win_lo fx = CmpGt -> f_win_hi fx = CmpLe ->
    (forall p t y t1, solve_ok p t y t1 = true) -> Inv2 Y P s -> has_errors Y P s = false ->
    protocol_tc_loop Y P U flow solve_ok pupd fx s t_start full rows
    = run_strict Y P U O flow solve_ok conv pupd yovr fx s
        ((fix manual_tc (t0 : Q) (rows : list (Q * U)) : list (op U O) :=
            match rows with
            | [] => []
            | (t_end, u) :: rest =>
                OUpdPar u :: OTc (filter (fun t => Qltb t0 t && Qle_bool t t_end) full) :: manual_tc t_end rest
            end) t_start rows).
  Proof.
    intros Hlo Hhi Hnf HI Herr.
    rewrite (protocol_tc_loop_manual Y P U O flow solve_ok conv pupd yovr fx good rows s t_start full Hnf HI Herr).
    f_equal. clear - Hlo Hhi. revert t_start. induction rows as [|[te u] rest IH]; intro t0; [reflexivity|].
    cbn [manual_tc]. rewrite IH, Hlo, Hhi. reflexivity.
  Qed.
End Corollaries.

(** ** C04: segments chain -- refinement to the abstract flow specification.
    [flow p t y d] is the solution map of the model's equations (state after duration d from state y
    at ABSOLUTE time t).  Assumed of it, as Section hypotheses: it depends on its time arguments as
    rational NUMBERS (not on their representation) and satisfies the semigroup law of solutions. *)
Section Chain.
  Variables Y P : Type.
  Variable flow : P -> Q -> Y -> Q -> Y.
  Variable solve_ok : P -> Q -> Y -> Q -> bool.
  Variable fx : sim_facts.
  Hypothesis good : good_facts fx.
  Hypothesis flow_ext : forall p t t' y d d', t == t' -> d == d' -> flow p t y d = flow p t' y d'.
  Hypothesis flow_semigroup : forall p t y a b, 0 <= a -> 0 <= b -> flow p (t + a) (flow p t y a) b = flow p t y (a + b).
  Hypothesis Hnf : forall p t y t1, solve_ok p t y t1 = true.

  Notation simulate := (simulate Y P flow solve_ok fx).

  (** an accepted [simulate]: the state the NEXT segment starts from is the solution, in absolute time, from
      the state this segment started from *)
  Lemma state_after_simulate (s : sim Y P) t_end steps m :
    Inv2 Y P s -> has_errors Y P s = false -> n_points steps = S (S m) -> reached Y P s < t_end ->
    exists s', simulate s t_end steps = (s', Done) /\ Inv2 Y P s' /\ has_errors Y P s' = false
      /\ s_mp s' = s_mp s /\ reached Y P s' == t_end
      /\ i_y0 (s_int s') = flow (s_mp s) (reached Y P s) (i_y0 (s_int s)) (t_end - reached Y P s).
  Proof.
    intros HI Herr Hm Hlt.
    destruct (sim_step Y P flow solve_ok fx good s t_end steps m (proj1 HI) Herr Hm) as [_ Hgt].
    destruct (Hgt Hlt) as (Hh & Hinc & E). rewrite (mok_true Y P solve_ok fx s Hnf) in E.
    destruct (Inv_prior Y P s (proj1 HI)) as (r0 & Hpr & Hsync & _).
    rewrite <- (reached_prior Y P s r0 Hpr) in Hsync.
    assert (Hrne : sim_rest Y P s t_end m <> []) by (unfold sim_rest; destruct (map _ (seq 1 m)); discriminate).
    exists (after_ok Y P flow fx s (sim_h Y P s t_end m) (sim_rest Y P s t_end m)).
    split; [exact E|]. split; [apply after_ok_inv2; assumption|]. split; [exact Herr|]. split; [reflexivity|].
    destruct (after_ok_inv Y P flow fx s _ _ (proj1 HI) Hh Hrne Hinc) as [_ Hp].
    split.
    - rewrite (reached_prior _ _ _ _ Hp). unfold sim_rest. rewrite lastq_app, add_shift_v, sub_shift_v. lra.
    - unfold after_ok. cbn [s_int i_y0]. rewrite (mflow_good Y P flow fx good).
      unfold sim_rest. rewrite lastq_app. apply flow_ext.
      + rewrite add_shift_v. lra.
      + rewrite sub_shift_v. lra.
  Qed.

  (** continuing IS the same as simulating in one go: [simulate t1; simulate t2] and [simulate t2] leave the
      simulator at the same time with the same state (whatever the grids) *)
  Theorem continuation_is_one_run (s : sim Y P) t1 t2 st1 st2 m1 m2 :
    Inv2 Y P s -> has_errors Y P s = false -> n_points st1 = S (S m1) -> n_points st2 = S (S m2) ->
    reached Y P s < t1 -> t1 < t2 ->
    let s12 := fst (simulate (fst (simulate s t1 st1)) t2 st2) in
    let s2 := fst (simulate s t2 st2) in
    i_y0 (s_int s12) = i_y0 (s_int s2)
    /\ i_y0 (s_int s2) = flow (s_mp s) (reached Y P s) (i_y0 (s_int s)) (t2 - reached Y P s)
    /\ reached Y P s12 == t2 /\ reached Y P s2 == t2.
  Proof.
    intros HI Herr Hm1 Hm2 H1 H2.
    destruct (state_after_simulate s t1 st1 m1 HI Herr Hm1 H1) as (s1 & E1 & HI1 & Herr1 & Hmp1 & Hr1 & Hy1).
    destruct (state_after_simulate s1 t2 st2 m2 HI1 Herr1 Hm2 ltac:(lra)) as (s12 & E12 & _ & _ & _ & Hr12 & Hy12).
    destruct (state_after_simulate s t2 st2 m2 HI Herr Hm2 ltac:(lra)) as (s2 & E2 & _ & _ & _ & Hr2 & Hy2).
    cbv zeta. rewrite E1. cbn [fst]. rewrite E12, E2. cbn [fst].
    split; [|split; [exact Hy2|split; assumption]].
    rewrite Hy12, Hy2, Hy1, Hmp1.
    rewrite (flow_ext (s_mp s) (reached Y P s1) (reached Y P s + (t1 - reached Y P s)) _ (t2 - reached Y P s1) (t2 - t1));
      [|lra|lra].
    rewrite flow_semigroup; [|lra|lra]. apply flow_ext; lra.
  Qed.
End Chain.

(** the hypotheses of [Chain] are jointly satisfiable: the solution map of dx/dt = p over [Q] *)
Definition lin_flow (p : Q) (t : Q) (y : Q) (d : Q) : Q := Qred (y + p * d).
Lemma lin_flow_ext p t t' y d d' : t == t' -> d == d' -> lin_flow p t y d = lin_flow p t' y d'.
Proof. intros _ Hd. unfold lin_flow. apply Qred_complete. rewrite Hd. reflexivity. Qed.
Lemma lin_flow_semigroup p t y a b :
  0 <= a -> 0 <= b -> lin_flow p (t + a) (lin_flow p t y a) b = lin_flow p t y (a + b).
Proof. intros _ _. unfold lin_flow. apply Qred_complete. rewrite Qred_correct. ring. Qed.

(** the facts of the tree the theorems are instantiated at (edited only together with a fix: commit) *)
Definition pinned_facts : sim_facts :=
  mkSimFacts FrameAbs CmpLe FrameAbs CmpLe CmpGe true true false true false 100 1000 CmpLe CmpGt CmpLe true true true.

Lemma good_of_pinned fx : fx = pinned_facts -> good_facts fx.
Proof. intros ->. constructor; reflexivity. Qed.

(** the facts of the unrepaired tree (frame mix-up, overrides not accumulated) -- for the refutations *)
Definition unrepaired_facts : sim_facts :=
  mkSimFacts FrameMixed CmpLe FrameMixed CmpLe CmpGe true true false true false 100 1000 CmpLe CmpGt CmpLe false false true.

(** the facts before fixes/C04-override-time.diff: the model is handed the integrator's shifted time *)
Definition shifted_time_facts : sim_facts :=
  mkSimFacts FrameAbs CmpLe FrameAbs CmpLe CmpGe true true false true false 100 1000 CmpLe CmpGt CmpLe true false true.

Lemma not_incr_by_compute l : incrb l = false -> ~ incr l.
Proof. intros H Hi. apply incr_incrb in Hi. congruence. Qed.

