(** C10 -- proof that the derivatives the Model computes from its coefficient dictionaries
    (static table first, dynamic table second, grouped by compound) are the plain sum
    N[x, r] * v_r over the reactions, read off the REPORTED row. *)
From Coq Require Import List NArith ZArith QArith Bool Lia.
From MxlBase Require Import ListX.
From SimRes Require Import ResModel ResSpec ResNv ResProofs.
Import ListNotations.
Local Open Scope Z_scope.

(* ------------------------------------------------------------------------------------ *)
(** * option sums *)
Lemma oadd_0_r a : oadd a (Some 0) = a.
Proof. destruct a; cbn; [f_equal; lia|reflexivity]. Qed.
Lemma oadd_0_l a : oadd (Some 0) a = a.
Proof. destruct a; cbn; reflexivity. Qed.
Lemma oadd_assoc a b c : oadd (oadd a b) c = oadd a (oadd b c).
Proof. destruct a, b, c; cbn; try reflexivity. f_equal. lia. Qed.
Lemma oadd_comm a b : oadd a b = oadd b a.
Proof. destruct a, b; cbn; try reflexivity. f_equal. lia. Qed.

Lemma bump_0 (o : option Z) : option_map (fun v => v + 0) o = o.
Proof. destruct o; cbn; [f_equal; lia|reflexivity]. Qed.
Lemma bump_bump (o : option Z) a b :
  option_map (fun v => v + b) (option_map (fun v => v + a) o) = option_map (fun v => v + (a + b)) o.
Proof. destruct o; cbn; [f_equal; lia|reflexivity]. Qed.

(* ------------------------------------------------------------------------------------ *)
(** * dictionaries *)
Lemma lookup_app {A} k (a b : list (name * A)) :
  lookup k (a ++ b) = match lookup k a with Some v => Some v | None => lookup k b end.
Proof.
  induction a as [|[k' v'] a IH]; cbn [lookup app]; [reflexivity|].
  destruct (N.eqb k k'); [reflexivity|exact IH].
Qed.

Lemma lookup_none_notin {A} k (d : list (name * A)) : lookup k d = None -> ~ In k (map fst d).
Proof.
  induction d as [|[k' v'] d IH]; cbn [lookup map fst In]; [tauto|].
  destruct (N.eqb_spec k k') as [->|Hne]; [discriminate|].
  intros H [E|Hin]; [congruence|exact (IH H Hin)].
Qed.

Lemma lookup_notin_none {A} k (d : list (name * A)) : ~ In k (map fst d) -> lookup k d = None.
Proof.
  induction d as [|[k' v'] d IH]; cbn [lookup map fst In]; [reflexivity|].
  intro H. destruct (N.eqb_spec k k') as [->|Hne]; [exfalso; apply H; left; reflexivity|].
  apply IH. intro Hin. apply H. right. exact Hin.
Qed.

Lemma lookup_set_assoc_eq {A} k (v : A) d : lookup k (set_assoc k v d) = Some v.
Proof.
  induction d as [|[k' v'] d IH]; cbn [set_assoc lookup]; [rewrite N.eqb_refl; reflexivity|].
  destruct (N.eqb_spec k k') as [->|Hne]; cbn [lookup].
  - rewrite N.eqb_refl. reflexivity.
  - destruct (N.eqb_spec k k'); [contradiction|exact IH].
Qed.

Lemma lookup_set_assoc_neq {A} k k' (v : A) d : k' <> k -> lookup k' (set_assoc k v d) = lookup k' d.
Proof.
  intro Hne. induction d as [|[k0 v0] d IH]; cbn [set_assoc lookup].
  - destruct (N.eqb_spec k' k); [contradiction|reflexivity].
  - destruct (N.eqb_spec k k0) as [->|Hne0]; cbn [lookup].
    + destruct (N.eqb_spec k' k0); [contradiction|reflexivity].
    + destruct (N.eqb k' k0); [reflexivity|exact IH].
Qed.

Lemma set_assoc_fresh {A} k (v : A) d : lookup k d = None -> set_assoc k v d = d ++ [(k, v)].
Proof.
  induction d as [|[k' v'] d IH]; cbn [lookup set_assoc app]; [reflexivity|].
  destruct (N.eqb k k'); [discriminate|]. intro H. f_equal. exact (IH H).
Qed.

Lemma set_assoc_keys_in {A} k (v : A) d k' :
  In k' (map fst (set_assoc k v d)) -> k' = k \/ In k' (map fst d).
Proof.
  induction d as [|[k0 v0] d IH]; cbn [set_assoc map fst In].
  - intros [E|[]]. left. symmetry. exact E.
  - destruct (N.eqb_spec k k0) as [->|Hne]; cbn [map fst In].
    + intros [E|Hin]; [right; left; exact E|right; right; exact Hin].
    + intros [E|Hin]; [right; left; exact E|]. destruct (IH Hin) as [E|Hin']; [left; exact E|right; right; exact Hin'].
Qed.

Lemma set_assoc_nodup {A} k (v : A) d : NoDup (map fst d) -> NoDup (map fst (set_assoc k v d)).
Proof.
  induction d as [|[k0 v0] d IH]; cbn [set_assoc map fst]; intro H.
  - constructor; [intros []|constructor].
  - destruct (N.eqb_spec k k0) as [->|Hne]; cbn [map fst]; [exact H|].
    inversion H as [|? ? Hnotin Hnd]; subst. constructor; [|exact (IH Hnd)].
    intro Hin. destruct (set_assoc_keys_in _ _ _ _ Hin) as [E|Hin']; [congruence|contradiction].
Qed.

Lemma get_or_nil_touch {A} x cpd (d : list (name * list A)) : get_or_nil x (touch cpd d) = get_or_nil x d.
Proof.
  unfold touch, get_or_nil. destruct (lookup cpd d) eqn:E; [reflexivity|].
  rewrite lookup_app. destruct (lookup x d); [reflexivity|]. cbn [lookup]. destruct (N.eqb x cpd); reflexivity.
Qed.

Lemma touch_nodup {A} cpd (d : list (name * list A)) : NoDup (map fst d) -> NoDup (map fst (touch cpd d)).
Proof.
  unfold touch. destruct (lookup cpd d) eqn:E; [tauto|]. intro H.
  rewrite map_app. cbn [map fst]. apply lookup_none_notin in E.
  induction (map fst d) as [|y l IH]; cbn [app]; [constructor; [intros []|constructor]|].
  inversion H as [|? ? Hy Hl]; subst. constructor.
  - intro Hin. apply in_app_or in Hin. destruct Hin as [Hin|[->|[]]]; [contradiction|]. apply E. left. reflexivity.
  - apply IH; [|exact Hl]. intro Hin. apply E. right. exact Hin.
Qed.

Lemma set_inner_get {A} cpd rn (v : A) d x :
  get_or_nil x (set_inner cpd rn v d)
  = if N.eqb x cpd then set_assoc rn v (get_or_nil cpd d) else get_or_nil x d.
Proof.
  unfold set_inner. unfold get_or_nil at 1. destruct (N.eqb_spec x cpd) as [->|Hne].
  - rewrite lookup_set_assoc_eq. reflexivity.
  - rewrite (lookup_set_assoc_neq cpd x _ d Hne). reflexivity.
Qed.

Lemma set_inner_nodup {A} cpd rn (v : A) d : NoDup (map fst d) -> NoDup (map fst (set_inner cpd rn v d)).
Proof. apply set_assoc_nodup. Qed.

Lemma nodup_app_inv {A} (a b : list A) :
  NoDup (a ++ b) -> NoDup a /\ NoDup b /\ (forall x, In x a -> ~ In x b).
Proof.
  induction a as [|y a IH]; cbn [app]; intro H.
  - split; [constructor|]. split; [exact H|]. intros x [].
  - inversion H as [|? ? Hy Hl]; subst. destruct (IH Hl) as [Ha [Hb Hd]].
    split; [constructor; [intro Hin; apply Hy; apply in_or_app; left; exact Hin|exact Ha]|].
    split; [exact Hb|]. intros x [->|Hin]; [intro Hb'; apply Hy; apply in_or_app; right; exact Hb'|exact (Hd x Hin)].
Qed.

Lemma nodupN_NoDup l : nodupN l = true -> NoDup l.
Proof.
  induction l as [|x l IH]; cbn [nodupN]; intro H; [constructor|].
  apply andb_true_iff in H. destruct H as [H1 H2]. constructor; [|exact (IH H2)].
  apply negb_true_iff in H1. apply memN_false in H1. exact H1.
Qed.

Lemma wf_namesb_sound m pn : wf_namesb m pn = true -> wf_names m pn.
Proof.
  unfold wf_namesb, wf_names. intro H.
  apply andb_true_iff in H. destruct H as [H H3]. apply andb_true_iff in H. destruct H as [H1 H2].
  split; [exact (nodupN_NoDup _ H1)|]. split; [exact (nodupN_NoDup _ H2)|].
  apply Forall_forall. intros nr Hin. rewrite forallb_forall in H3. exact (nodupN_NoDup _ (H3 nr Hin)).
Qed.

Lemma map_opt_ext_in {A B} (f g : A -> option B) l :
  (forall x, In x l -> f x = g x) -> map_opt f l = map_opt g l.
Proof.
  induction l as [|x l IH]; intro H; [reflexivity|]. cbn [map_opt].
  rewrite (H x (or_introl eq_refl)). rewrite IH; [reflexivity|]. intros y Hy. apply H. right. exact Hy.
Qed.

Lemma map_snd_lookup (d : list (name * Z)) :
  NoDup (map fst d) -> map_opt (fun x => lookup x d) (map fst d) = Some (map snd d).
Proof.
  induction d as [|[k v] d IH]; cbn [map fst snd]; intro H; [reflexivity|].
  inversion H as [|? ? Hk Hd]; subst.
  assert (E : map_opt (fun x => lookup x ((k, v) :: d)) (map fst d) = Some (map snd d)).
  { rewrite <- (IH Hd). apply map_opt_ext_in. intros x Hx. cbn [lookup].
    destruct (N.eqb_spec x k) as [->|]; [contradiction|reflexivity]. }
  cbn [map_opt]. rewrite E. cbn [lookup]. rewrite N.eqb_refl. reflexivity.
Qed.

Lemma lookups_ext ns (e1 e2 : env) :
  (forall a, In a ns -> lookup a e1 = lookup a e2) -> lookups ns e1 = lookups ns e2.
Proof.
  induction ns as [|n ns IH]; intro H; [reflexivity|]. cbn [lookups].
  rewrite (H n (or_introl eq_refl)). rewrite IH; [reflexivity|]. intros a Ha. apply H. right. exact Ha.
Qed.

(** a reported row shows, under each column name, the value the row's environment has for it *)
Lemma lookups_combine ns : forall (e : env) vs a,
  lookups ns e = Some vs -> In a ns -> lookup a (combine ns vs) = lookup a e.
Proof.
  induction ns as [|n ns IH]; intros e vs a H Hin; [destruct Hin|].
  cbn [lookups] in H. destruct (lookup n e) as [v|] eqn:En; [|discriminate].
  destruct (lookups ns e) as [vs'|] eqn:Er; [|discriminate]. injection H as <-.
  cbn [combine lookup]. destruct (N.eqb_spec a n) as [->|Hne]; [symmetry; exact En|].
  destruct Hin as [E|Hin]; [congruence|]. exact (IH e vs' a Er Hin).
Qed.

Lemma combine_keys_in {A B} (l1 : list A) : forall (l2 : list B) a, In a (map fst (combine l1 l2)) -> In a l1.
Proof.
  induction l1 as [|x l1 IH]; intros l2 a H; [destruct H|].
  destruct l2 as [|y l2]; [destruct H|]. cbn [combine map fst In] in H.
  destruct H as [E|H]; [left; exact E|right; exact (IH l2 a H)].
Qed.

Section NvProofs.
  Variable fsem : fnid -> list Z -> Z.

  Lemma eval_names_notin m ns : forall e e' a,
    eval_names fsem m ns e = Some e' -> ~ In a ns -> lookup a e' = lookup a e.
  Proof.
    induction ns as [|n ns IH]; intros e e' a H Hn; cbn [eval_names] in H.
    - injection H as <-. reflexivity.
    - destruct (comp_call m n) as [c|]; [|discriminate]. destruct (calc fsem c e) as [v|]; [|discriminate].
      rewrite (IH _ _ a H); [|intro Hin; apply Hn; right; exact Hin].
      cbn [lookup]. destruct (N.eqb_spec a n) as [->|]; [exfalso; apply Hn; left; reflexivity|reflexivity].
  Qed.

  Lemma eval_calls_notin cs : forall e e' a,
    eval_calls fsem cs e = Some e' -> ~ In a (map fst cs) -> lookup a e' = lookup a e.
  Proof.
    induction cs as [|[n c] cs IH]; intros e e' a H Hn; cbn [eval_calls] in H.
    - injection H as <-. reflexivity.
    - destruct (calc fsem c e) as [v|]; [|discriminate]. cbn [map fst] in Hn.
      rewrite (IH _ _ a H); [|intro Hin; apply Hn; right; exact Hin].
      cbn [lookup]. destruct (N.eqb_spec a n) as [->|]; [exfalso; apply Hn; left; reflexivity|reflexivity].
  Qed.

  (** the static/dynamic split: the static names extend the parameter names, both parts come from
      the order, the static ones are derived values, and no name is in both parts *)
  Lemma classify_inv m : forall ns pn0 st0 dy0 pnf st dy,
    classify m ns pn0 st0 dy0 = Some (pnf, st, dy) ->
    exists st' dy', st = st0 ++ st' /\ dy = dy0 ++ dy' /\ pnf = pn0 ++ st' /\
      incl st' ns /\ incl dy' ns /\ (forall n, In n st' -> In n (map fst (m_der m))) /\
      (NoDup ns -> forall n, In n st' -> ~ In n dy').
  Proof.
    induction ns as [|n ns IH]; intros pn0 st0 dy0 pnf st dy H; cbn [classify] in H.
    - injection H as <- <- <-. exists [], []. rewrite !app_nil_r.
      split; [reflexivity|]. split; [reflexivity|]. split; [reflexivity|].
      split; [intros x []|]. split; [intros x []|]. split; [intros x []|intros _ x []].
    - destruct (lookup n (m_rxn m)) as [rx|] eqn:Er.
      + destruct (IH _ _ _ _ _ _ H) as [st' [dy' [-> [-> [-> [Is [Id [Hd Hx]]]]]]]].
        exists st', (n :: dy'). rewrite <- app_assoc. cbn [app].
        split; [reflexivity|]. split; [reflexivity|]. split; [reflexivity|].
        split; [intros x Hin; right; exact (Is x Hin)|].
        split; [intros x [->|Hin]; [left; reflexivity|right; exact (Id x Hin)]|].
        split; [exact Hd|]. intros Hnd x Hin [->|Hin2].
        * inversion Hnd; subst. apply H2. exact (Is _ Hin).
        * inversion Hnd; subst. exact (Hx H3 x Hin Hin2).
      + destruct (lookup n (m_der m)) as [c|] eqn:Ed; [|discriminate].
        destruct (forallb (fun a => memN a pn0) (fc_args c)).
        * destruct (IH _ _ _ _ _ _ H) as [st' [dy' [-> [-> [-> [Is [Id [Hd Hx]]]]]]]].
          exists (n :: st'), dy'. rewrite <- !app_assoc. cbn [app].
          split; [reflexivity|]. split; [reflexivity|]. split; [reflexivity|].
          split; [intros x [->|Hin]; [left; reflexivity|right; exact (Is x Hin)]|].
          split; [intros x Hin; right; exact (Id x Hin)|].
          split; [intros x [->|Hin]; [exact (lookup_some_keys _ _ _ Ed)|exact (Hd x Hin)]|].
          intros Hnd x [->|Hin] Hin2.
          -- inversion Hnd; subst. apply H2. exact (Id _ Hin2).
          -- inversion Hnd; subst. exact (Hx H3 x Hin Hin2).
        * destruct (IH _ _ _ _ _ _ H) as [st' [dy' [-> [-> [-> [Is [Id [Hd Hx]]]]]]]].
          exists st', (n :: dy'). rewrite <- app_assoc. cbn [app].
          split; [reflexivity|]. split; [reflexivity|]. split; [reflexivity|].
          split; [intros x Hin; right; exact (Is x Hin)|].
          split; [intros x [->|Hin]; [left; reflexivity|right; exact (Id x Hin)]|].
          split; [exact Hd|]. intros Hnd x Hin [->|Hin2].
          -- inversion Hnd; subst. apply H2. exact (Is _ Hin).
          -- inversion Hnd; subst. exact (Hx H3 x Hin Hin2).
  Qed.

  (* ---------------------------------------------------------------------------------- *)
  (** * the coefficient dictionaries, summed *)
  Section Tables.
    Variable e : env.                 (* the row the sums are taken on *)
    Variable pnf : list name.         (* all_parameter_names *)
    Variable dep : env.               (* the evaluation pass of _create_cache *)
    Hypothesis Hinv : forall f args,
      forallb (fun a => memN a pnf) args = true -> calc fsem (mkCall f args) e = calc fsem (mkCall f args) dep.

    Fixpoint osum_stat (stoc : list (name * Z)) : option Z :=
      match stoc with
      | [] => Some 0
      | (flux, n) :: r => oadd (omul (Some n) (lookup flux e)) (osum_stat r)
      end.
    Fixpoint osum_dyn (sd : list (name * fncall)) : option Z :=
      match sd with
      | [] => Some 0
      | (flux, dv) :: r => oadd (omul (calc fsem dv e) (lookup flux e)) (osum_dyn r)
      end.

    Lemma osum_stat_app a b : osum_stat (a ++ b) = oadd (osum_stat a) (osum_stat b).
    Proof.
      induction a as [|[k n] a IH]; cbn [app osum_stat]; [rewrite oadd_0_l; reflexivity|].
      rewrite IH, oadd_assoc. reflexivity.
    Qed.
    Lemma osum_dyn_app a b : osum_dyn (a ++ b) = oadd (osum_dyn a) (osum_dyn b).
    Proof.
      induction a as [|[k n] a IH]; cbn [app osum_dyn]; [rewrite oadd_0_l; reflexivity|].
      rewrite IH, oadd_assoc. reflexivity.
    Qed.

    Definition S (acc : stoich_tables) (x : name) : option Z :=
      oadd (osum_stat (get_or_nil x (fst acc))) (osum_dyn (get_or_nil x (snd acc))).
    Definition ikeys (acc : stoich_tables) (x : name) : list name :=
      map fst (get_or_nil x (fst acc)) ++ map fst (get_or_nil x (snd acc)).

    Definition step_ok (rn : name) (acc acc1 : stoich_tables) (cpd : name) (t : option Z) : Prop :=
      (forall x, S acc1 x = oadd (S acc x) (if N.eqb x cpd then t else Some 0)) /\
      (forall x k, In k (ikeys acc1 x) -> k = rn \/ In k (ikeys acc x)) /\
      (forall x, x <> cpd -> ikeys acc1 x = ikeys acc x) /\
      (NoDup (map fst (fst acc)) -> NoDup (map fst (fst acc1))) /\
      (NoDup (map fst (snd acc)) -> NoDup (map fst (snd acc1))).

    Lemma step_stat rn acc cpd z :
      ~ In rn (ikeys acc cpd) ->
      step_ok rn acc (set_inner cpd rn z (touch cpd (fst acc)), snd acc) cpd (omul (Some z) (lookup rn e)).
    Proof.
      intro Hfresh. unfold step_ok, S, ikeys. cbn [fst snd].
      assert (Hn : lookup rn (get_or_nil cpd (fst acc)) = None).
      { apply lookup_notin_none. intro Hin. apply Hfresh. unfold ikeys. apply in_or_app. left. exact Hin. }
      assert (G : forall x, get_or_nil x (set_inner cpd rn z (touch cpd (fst acc)))
                            = if N.eqb x cpd then get_or_nil cpd (fst acc) ++ [(rn, z)] else get_or_nil x (fst acc)).
      { intro x. rewrite set_inner_get, !get_or_nil_touch. rewrite (set_assoc_fresh _ _ _ Hn). reflexivity. }
      split; [|split; [|split; [|split]]].
      - intro x. rewrite G. destruct (N.eqb_spec x cpd) as [->|Hne]; [|rewrite oadd_0_r; reflexivity].
        rewrite osum_stat_app. cbn [osum_stat]. rewrite oadd_0_r.
        rewrite !oadd_assoc. f_equal. apply oadd_comm.
      - intros x k. rewrite G. destruct (N.eqb_spec x cpd) as [->|Hne]; [|right; assumption].
        rewrite map_app. cbn [map fst]. intro Hin. apply in_app_or in Hin. destruct Hin as [Hin|Hin].
        + apply in_app_or in Hin. destruct Hin as [Hin|[<-|[]]]; [right; apply in_or_app; left; exact Hin|left; reflexivity].
        + right. apply in_or_app. right. exact Hin.
      - intros x Hne. rewrite G. destruct (N.eqb_spec x cpd); [contradiction|reflexivity].
      - intro Hnd. apply set_inner_nodup. apply touch_nodup. exact Hnd.
      - tauto.
    Qed.

    Lemma step_dyn rn acc cpd c :
      ~ In rn (ikeys acc cpd) ->
      step_ok rn acc (touch cpd (fst acc), set_inner cpd rn c (snd acc)) cpd (omul (calc fsem c e) (lookup rn e)).
    Proof.
      intro Hfresh. unfold step_ok, S, ikeys. cbn [fst snd].
      assert (Hn : lookup rn (get_or_nil cpd (snd acc)) = None).
      { apply lookup_notin_none. intro Hin. apply Hfresh. unfold ikeys. apply in_or_app. right. exact Hin. }
      assert (G : forall x, get_or_nil x (set_inner cpd rn c (snd acc))
                            = if N.eqb x cpd then get_or_nil cpd (snd acc) ++ [(rn, c)] else get_or_nil x (snd acc)).
      { intro x. rewrite set_inner_get. rewrite (set_assoc_fresh _ _ _ Hn). reflexivity. }
      split; [|split; [|split; [|split]]].
      - intro x. rewrite G, get_or_nil_touch. destruct (N.eqb_spec x cpd) as [->|Hne]; [|rewrite oadd_0_r; reflexivity].
        rewrite osum_dyn_app. cbn [osum_dyn]. rewrite oadd_0_r. rewrite !oadd_assoc. reflexivity.
      - intros x k. rewrite G, get_or_nil_touch. destruct (N.eqb_spec x cpd) as [->|Hne]; [|right; assumption].
        rewrite map_app. cbn [map fst]. intro Hin. apply in_app_or in Hin. destruct Hin as [Hin|Hin].
        + right. apply in_or_app. left. exact Hin.
        + apply in_app_or in Hin. destruct Hin as [Hin|[<-|[]]]; [right; apply in_or_app; right; exact Hin|left; reflexivity].
      - intros x Hne. rewrite G, get_or_nil_touch. destruct (N.eqb_spec x cpd); [contradiction|reflexivity].
      - intro Hnd. apply touch_nodup. exact Hnd.
      - intro Hnd. apply set_inner_nodup. exact Hnd.
    Qed.

    Definition termpart (x : name) (post : list (name * coef)) (rn : name) : option Z :=
      match lookup x post with
      | None => Some 0
      | Some c => omul (coef_val fsem e c) (lookup rn e)
      end.

    (** one reaction's stoichiometry dict entered into the two tables *)
    Lemma stoich_entries_inv rn : forall post acc acc',
      stoich_entries fsem pnf dep rn post acc = Some acc' ->
      NoDup (map fst post) ->
      (forall x, In x (map fst post) -> ~ In rn (ikeys acc x)) ->
      (forall x, S acc' x = oadd (S acc x) (termpart x post rn)) /\
      (forall x k, In k (ikeys acc' x) -> k = rn \/ In k (ikeys acc x)) /\
      (NoDup (map fst (fst acc)) -> NoDup (map fst (fst acc'))) /\
      (NoDup (map fst (snd acc)) -> NoDup (map fst (snd acc'))).
    Proof.
      induction post as [|[cpd factor] post IH]; intros acc acc' H Hnd Hfresh.
      - cbn [stoich_entries] in H. injection H as <-. unfold termpart. cbn [lookup].
        split; [intro x; rewrite oadd_0_r; reflexivity|]. split; [intros x k Hin; right; exact Hin|]. tauto.
      - cbn [map fst] in Hnd. inversion Hnd as [|? ? Hcpd Hnd']; subst.
        assert (Hf0 : ~ In rn (ikeys acc cpd)) by (apply Hfresh; left; reflexivity).
        (* the table after this entry, and the term it contributes *)
        assert (Hstep : exists acc1, stoich_entries fsem pnf dep rn post acc1 = Some acc'
                          /\ step_ok rn acc acc1 cpd (omul (coef_val fsem e factor) (lookup rn e))).
        { cbn [stoich_entries] in H. destruct factor as [z|f args].
          - eexists. split; [exact H|]. apply step_stat. exact Hf0.
          - destruct (forallb (fun a => memN a pnf) args) eqn:Est.
            + destruct (calc fsem (mkCall f args) dep) as [v|] eqn:Ev; [|discriminate].
              eexists. split; [exact H|]. cbn [coef_val]. rewrite (Hinv f args Est), Ev. apply step_stat. exact Hf0.
            + eexists. split; [exact H|]. cbn [coef_val]. apply step_dyn. exact Hf0. }
        destruct Hstep as [acc1 [H1 [HS [HK [HKne [HN1 HN2]]]]]].
        destruct (IH acc1 acc' H1 Hnd') as [IS [IK [IN1 IN2]]].
        { intros x Hin. rewrite HKne; [apply Hfresh; right; exact Hin|]. intros ->. contradiction. }
        split; [|split; [|split]].
        + intro x. rewrite IS, HS. unfold termpart. cbn [lookup].
          destruct (N.eqb_spec x cpd) as [->|Hne].
          * rewrite (lookup_notin_none _ _ Hcpd). rewrite oadd_0_r. reflexivity.
          * rewrite oadd_0_r. reflexivity.
        + intros x k Hin. destruct (IK x k Hin) as [E|Hin1]; [left; exact E|exact (HK x k Hin1)].
        + intro Hd. exact (IN1 (HN1 Hd)).
        + intro Hd. exact (IN2 (HN2 Hd)).
    Qed.

    (** all reactions: the two tables, summed per compound, hold exactly the plain sum over the
        reactions in declaration order *)
    Lemma stoich_rxns_inv : forall rs acc acc',
      stoich_rxns fsem pnf dep rs acc = Some acc' ->
      NoDup (map fst rs) -> Forall (fun nr => NoDup (map fst (r_st (snd nr)))) rs ->
      (forall x k, In k (ikeys acc x) -> ~ In k (map fst rs)) ->
      NoDup (map fst (fst acc)) -> NoDup (map fst (snd acc)) ->
      (forall x, S acc' x = oadd (S acc x) (nv_sum fsem e x rs)) /\
      NoDup (map fst (fst acc')) /\ NoDup (map fst (snd acc')).
    Proof.
      induction rs as [|[rn r] rs IH]; intros acc acc' H Hnd Hall Hdisj Hn1 Hn2.
      - cbn [stoich_rxns] in H. injection H as <-. cbn [nv_sum].
        split; [intro x; rewrite oadd_0_r; reflexivity|]. split; assumption.
      - cbn [stoich_rxns] in H. destruct (stoich_entries fsem pnf dep rn (r_st r) acc) as [acc1|] eqn:E1; [|discriminate].
        cbn [map fst] in Hnd. inversion Hnd as [|? ? Hrn Hnd']; subst.
        pose proof (Forall_inv Hall) as Hr. cbn [snd] in Hr. pose proof (Forall_inv_tail Hall) as Hall'.
        destruct (stoich_entries_inv rn (r_st r) acc acc1 E1 Hr) as [ES [EK [EN1 EN2]]].
        { intros x _ Hin. apply (Hdisj x rn Hin). left. reflexivity. }
        destruct (IH acc1 acc' H Hnd' Hall') as [IS [I1 I2]]; [| exact (EN1 Hn1) | exact (EN2 Hn2) |].
        { intros x k Hin Hin2. destruct (EK x k Hin) as [->|Hin1]; [contradiction|].
          apply (Hdisj x k Hin1). right. exact Hin2. }
        split; [|split; assumption].
        intro x. rewrite IS, ES. cbn [nv_sum]. rewrite oadd_assoc. reflexivity.
    Qed.

    Lemma tables_are_sum rs stat dyn :
      stoich_rxns fsem pnf dep rs ([], []) = Some (stat, dyn) ->
      NoDup (map fst rs) -> Forall (fun nr => NoDup (map fst (r_st (snd nr)))) rs ->
      (forall x, oadd (osum_stat (get_or_nil x stat)) (osum_dyn (get_or_nil x dyn)) = nv_sum fsem e x rs)
      /\ NoDup (map fst stat) /\ NoDup (map fst dyn).
    Proof.
      intros H Hnd Hall.
      destruct (stoich_rxns_inv rs ([], []) (stat, dyn) H Hnd Hall) as [HS [H1 H2]];
        [intros x k []|apply NoDup_nil|apply NoDup_nil|].
      split; [|split; assumption]. intro x. specialize (HS x). unfold S in HS. cbn [fst snd] in HS.
      rewrite HS. unfold get_or_nil. cbn [lookup osum_stat osum_dyn]. cbn [oadd Z.add]. apply oadd_0_l.
    Qed.

    (* -------------------------------------------------------------------------------- *)
    (** * the loops of _get_right_hand_side *)
    Lemma add_to_spec k d : forall dx dx',
      add_to k d dx = Some dx' ->
      map fst dx' = map fst dx /\
      forall x, lookup x dx' = if N.eqb x k then option_map (fun v => v + d) (lookup x dx) else lookup x dx.
    Proof.
      induction dx as [|[k' v] dx IH]; intros dx' H; cbn [add_to] in H; [discriminate|].
      destruct (N.eqb_spec k k') as [->|Hne].
      - injection H as <-. split; [reflexivity|]. intro x. cbn [lookup].
        destruct (N.eqb_spec x k'); reflexivity.
      - destruct (add_to k d dx) as [r'|] eqn:E; [|discriminate]. injection H as <-.
        destruct (IH r' eq_refl) as [K L]. split; [cbn [map fst]; f_equal; exact K|].
        intro x. cbn [lookup]. destruct (N.eqb_spec x k') as [->|Hx].
        + destruct (N.eqb_spec k' k); [congruence|reflexivity].
        + apply L.
    Qed.

    Lemma rhs_stat_inner_spec k : forall stoc dx dx',
      rhs_stat_inner k stoc e dx = Some dx' ->
      exists s, osum_stat stoc = Some s /\ map fst dx' = map fst dx /\
        forall x, lookup x dx' = if N.eqb x k then option_map (fun v => v + s) (lookup x dx) else lookup x dx.
    Proof.
      induction stoc as [|[flux n] stoc IH]; intros dx dx' H; cbn [rhs_stat_inner] in H.
      - injection H as <-. exists 0. split; [reflexivity|]. split; [reflexivity|].
        intro x. rewrite bump_0. destruct (N.eqb x k); reflexivity.
      - destruct (lookup flux e) as [v|] eqn:Ev; [|discriminate].
        destruct (add_to k (n * v) dx) as [dx1|] eqn:Ea; [|discriminate].
        destruct (add_to_spec _ _ _ _ Ea) as [K1 L1]. destruct (IH dx1 dx' H) as [s [Es [K2 L2]]].
        exists (n * v + s). cbn [osum_stat]. rewrite Ev, Es. split; [reflexivity|].
        split; [rewrite K2; exact K1|]. intro x. rewrite L2, L1.
        destruct (N.eqb x k); [apply bump_bump|reflexivity].
    Qed.

    Lemma rhs_dyn_inner_spec k : forall sd dx dx',
      rhs_dyn_inner fsem k sd e dx = Some dx' ->
      exists s, osum_dyn sd = Some s /\ map fst dx' = map fst dx /\
        forall x, lookup x dx' = if N.eqb x k then option_map (fun v => v + s) (lookup x dx) else lookup x dx.
    Proof.
      induction sd as [|[flux dv] sd IH]; intros dx dx' H; cbn [rhs_dyn_inner] in H.
      - injection H as <-. exists 0. split; [reflexivity|]. split; [reflexivity|].
        intro x. rewrite bump_0. destruct (N.eqb x k); reflexivity.
      - destruct (calc fsem dv e) as [n|] eqn:En; [|discriminate].
        destruct (lookup flux e) as [v|] eqn:Ev; [|discriminate].
        destruct (add_to k (n * v) dx) as [dx1|] eqn:Ea; [|discriminate].
        destruct (add_to_spec _ _ _ _ Ea) as [K1 L1]. destruct (IH dx1 dx' H) as [s [Es [K2 L2]]].
        exists (n * v + s). cbn [osum_dyn]. rewrite En, Ev, Es. split; [reflexivity|].
        split; [rewrite K2; exact K1|]. intro x. rewrite L2, L1.
        destruct (N.eqb x k); [apply bump_bump|reflexivity].
    Qed.

    Lemma get_or_nil_cons {A} x k (v : list A) d :
      get_or_nil x ((k, v) :: d) = if N.eqb x k then v else get_or_nil x d.
    Proof. unfold get_or_nil. cbn [lookup]. destruct (N.eqb x k); reflexivity. Qed.

    Lemma rhs_stat_spec : forall tb dx dx',
      rhs_stat tb e dx = Some dx' -> NoDup (map fst tb) ->
      map fst dx' = map fst dx /\
      forall x, exists s, osum_stat (get_or_nil x tb) = Some s /\ lookup x dx' = option_map (fun v => v + s) (lookup x dx).
    Proof.
      induction tb as [|[k stoc] tb IH]; intros dx dx' H Hnd; cbn [rhs_stat] in H.
      - injection H as <-. split; [reflexivity|]. intro x. exists 0. split; [reflexivity|]. rewrite bump_0. reflexivity.
      - destruct (rhs_stat_inner k stoc e dx) as [dx1|] eqn:E1; [|discriminate].
        cbn [map fst] in Hnd. inversion Hnd as [|? ? Hk Hnd']; subst.
        destruct (rhs_stat_inner_spec _ _ _ _ E1) as [sk [Esk [K1 L1]]].
        destruct (IH dx1 dx' H Hnd') as [K2 L2]. split; [rewrite K2; exact K1|].
        intro x. rewrite get_or_nil_cons. destruct (L2 x) as [sr [Esr Lr]]. rewrite Lr, L1.
        destruct (N.eqb_spec x k) as [->|Hne].
        + exists sk. split; [exact Esk|]. unfold get_or_nil in Esr. rewrite (lookup_notin_none _ _ Hk) in Esr.
          cbn [osum_stat] in Esr. injection Esr as <-. rewrite bump_bump. destruct (lookup k dx); cbn; [f_equal; lia|reflexivity].
        + exists sr. split; [exact Esr|reflexivity].
    Qed.

    Lemma rhs_dyn_spec : forall tb dx dx',
      rhs_dyn fsem tb e dx = Some dx' -> NoDup (map fst tb) ->
      map fst dx' = map fst dx /\
      forall x, exists s, osum_dyn (get_or_nil x tb) = Some s /\ lookup x dx' = option_map (fun v => v + s) (lookup x dx).
    Proof.
      induction tb as [|[k sd] tb IH]; intros dx dx' H Hnd; cbn [rhs_dyn] in H.
      - injection H as <-. split; [reflexivity|]. intro x. exists 0. split; [reflexivity|]. rewrite bump_0. reflexivity.
      - destruct (rhs_dyn_inner fsem k sd e dx) as [dx1|] eqn:E1; [|discriminate].
        cbn [map fst] in Hnd. inversion Hnd as [|? ? Hk Hnd']; subst.
        destruct (rhs_dyn_inner_spec _ _ _ _ E1) as [sk [Esk [K1 L1]]].
        destruct (IH dx1 dx' H Hnd') as [K2 L2]. split; [rewrite K2; exact K1|].
        intro x. rewrite get_or_nil_cons. destruct (L2 x) as [sr [Esr Lr]]. rewrite Lr, L1.
        destruct (N.eqb_spec x k) as [->|Hne].
        + exists sk. split; [exact Esk|]. unfold get_or_nil in Esr. rewrite (lookup_notin_none _ _ Hk) in Esr.
          cbn [osum_dyn] in Esr. injection Esr as <-. rewrite bump_bump. destruct (lookup k dx); cbn; [f_equal; lia|reflexivity].
        + exists sr. split; [exact Esr|reflexivity].
    Qed.

    Lemma lookup_zero_row x (vs : list (name * Z)) :
      In x (map fst vs) -> lookup x (map (fun kv => (fst kv, 0)) vs) = Some 0.
    Proof.
      induction vs as [|[k v] vs IH]; cbn [map fst In lookup]; [intros []|].
      destruct (N.eqb_spec x k); [reflexivity|]. intros [E|Hin]; [congruence|exact (IH Hin)].
    Qed.

    (** Model._get_right_hand_side on a row = the plain sum N * v on that row *)
    Lemma rhs_row_is_nv m c dxs :
      stoich_rxns fsem pnf dep (m_rxn m) ([], []) = Some (c_stat c, c_dyn c) ->
      NoDup (map fst (m_rxn m)) -> Forall (fun nr => NoDup (map fst (r_st (snd nr)))) (m_rxn m) ->
      NoDup (map fst (m_vars m)) ->
      rhs_row fsem m c e = Some dxs -> nv_row fsem m e = Some dxs.
    Proof.
      intros Ht Hnd Hall Hv H. unfold rhs_row in H.
      destruct (rhs_stat (c_stat c) e _) as [dx1|] eqn:E1; [|discriminate].
      destruct (rhs_dyn fsem (c_dyn c) e dx1) as [dx2|] eqn:E2; [|discriminate]. injection H as <-.
      destruct (tables_are_sum _ _ _ Ht Hnd Hall) as [HS [N1 N2]].
      destruct (rhs_stat_spec _ _ _ E1 N1) as [K1 L1]. destruct (rhs_dyn_spec _ _ _ E2 N2) as [K2 L2].
      assert (Hk : map fst dx2 = map fst (m_vars m)).
      { rewrite K2, K1, map_map. reflexivity. }
      unfold nv_row. rewrite <- Hk. rewrite <- (map_snd_lookup dx2); [|rewrite Hk; exact Hv].
      apply map_opt_ext_in. intros x Hx. rewrite Hk in Hx.
      rewrite <- HS. destruct (L1 x) as [s1 [Es1 Lx1]]. destruct (L2 x) as [s2 [Es2 Lx2]].
      rewrite Es1, Es2, Lx2, Lx1, (lookup_zero_row x _ Hx). cbn. f_equal; lia.
    Qed.
  End Tables.
End NvProofs.

(* ------------------------------------------------------------------------------------ *)
(** * from the row of one table to every segment of a result *)
Lemma map_res_ext_ok {A B} (F G : A -> res B) l : forall ys,
  map_res F l = Ok ys -> (forall x y, In x l -> F x = Ok y -> G x = Ok y) -> map_res G l = Ok ys.
Proof.
  induction l as [|x l IH]; intros ys H HFG; cbn [map_res] in *; [exact H|].
  destruct (F x) as [y|] eqn:Ex; [|discriminate]. destruct (map_res F l) as [ys'|] eqn:El; [|discriminate].
  injection H as <-. rewrite (HFG x y (or_introl eq_refl) Ex).
  rewrite (IH ys' eq_refl); [reflexivity|]. intros x' y' Hin. apply HFG. right. exact Hin.
Qed.

Lemma map_res_rows_in {A} (F : (Z * A) -> res (list Z)) : forall (s : list (Z * A)) rows t row,
  map_res F s = Ok rows -> In (t, row) (combine (map fst s) rows) ->
  exists srow, In srow s /\ fst srow = t /\ F srow = Ok row.
Proof.
  induction s as [|x s IH]; intros rows t row H Hin; cbn [map_res] in H.
  - injection H as <-. destruct Hin.
  - destruct (F x) as [y|] eqn:Ex; [|discriminate]. destruct (map_res F s) as [ys|] eqn:Es; [|discriminate].
    injection H as <-. cbn [map fst combine In] in Hin. destruct Hin as [E|Hin].
    + injection E as <- <-. exists x. split; [left; reflexivity|]. split; [reflexivity|exact Ex].
    + destruct (IH ys t row eq_refl Hin) as [srow [Hs [Ht HF]]]. exists srow. split; [right; exact Hs|]. split; assumption.
Qed.

Section NvTop.
  Variable pk : prod_kind.
  Variable fsem : fnid -> list Z -> Z.
  Notation FX := (expected_facts pk).

  Lemma create_cache_inv m p c :
    create_cache fsem m p = Some c ->
    exists dep pnf st dy svals,
      eval_names fsem m (m_order m) ((time_name, 0) :: m_vars m ++ p) = Some dep /\
      classify m (m_order m) (map fst p) [] [] = Some (pnf, st, dy) /\
      stoich_rxns fsem pnf dep (m_rxn m) ([], []) = Some (c_stat c, c_dyn c) /\
      lookups st dep = Some svals /\ c_apv c = p ++ combine st svals /\ c_dyn_order c = dy.
  Proof.
    unfold create_cache. intro H.
    destruct (eval_names fsem m (m_order m) _) as [dep|] eqn:Ed; [|discriminate].
    destruct (classify m (m_order m) (map fst p) [] []) as [[[pnf st] dy]|] eqn:Ec; [|discriminate].
    destruct (stoich_rxns fsem pnf dep (m_rxn m) ([], [])) as [[stat dyn]|] eqn:Es; [|discriminate].
    destruct (lookups st dep) as [svals|] eqn:El; [|discriminate].
    destruct (lookups (map fst (m_vars m)) dep) as [ivals|]; [|discriminate].
    injection H as <-. exists dep, pnf, st, dy, svals. cbn [c_stat c_dyn c_apv c_dyn_order].
    split; [reflexivity|]. split; [reflexivity|]. split; [exact Es|]. split; [exact El|]. split; reflexivity.
  Qed.

  (** a name whose value depends on parameters only is REPORTED, in every row, with the value it
      had in the evaluation pass of the cache built under the segment's parameters *)
  Lemma row_param_inv m pn p c dep pnf st dy svals srow row a :
    wf_names m pn -> map fst p = pn ->
    eval_names fsem m (m_order m) ((time_name, 0) :: m_vars m ++ p) = Some dep ->
    classify m (m_order m) pn [] [] = Some (pnf, st, dy) ->
    lookups st dep = Some svals -> c_apv c = p ++ combine st svals -> c_dyn_order c = dy ->
    args_row fsem m c (arg_names m pn (map fst (c_apv c)) all_flags) srow = Some row ->
    In a pnf ->
    lookup a ((time_name, fst srow) :: combine (arg_names m pn (map fst (c_apv c)) all_flags) row) = lookup a dep.
  Proof.
    intros [Hbig _] Hp Hdep Hcl Hsv Hapv Hdy Hrow Ha.
    apply NoDup_cons_iff in Hbig. destruct Hbig as [Htime HX].
    destruct (nodup_app_inv _ _ HX) as [Hvars [HX1 Dv]].
    destruct (nodup_app_inv _ _ HX1) as [Hpn [HX2 Dp]].
    destruct (nodup_app_inv _ _ HX2) as [Hord [Hro Do]].
    destruct (classify_inv m _ _ _ _ _ _ _ Hcl) as [st' [dy' [Est [Edy [Epnf [Ist [Idy [Hder Hdisj]]]]]]]].
    cbn [app] in Est, Edy. subst st' dy'. rewrite Epnf in Ha. clear Epnf.
    set (names := arg_names m pn (map fst (c_apv c)) all_flags) in *.
    (* where a lives *)
    assert (Hcase : (In a pn /\ ~ In a (m_order m)) \/ (In a st /\ ~ In a pn)).
    { apply in_app_or in Ha. destruct Ha as [Ha|Ha].
      - left. split; [exact Ha|]. intro Ho. apply (Dp a Ha). apply in_or_app. left. exact Ho.
      - right. split; [exact Ha|]. intro Hpn'. apply (Dp a Hpn'). apply in_or_app. left. exact (Ist a Ha). }
    assert (HinX1 : In a (pn ++ m_order m ++ map fst (m_ro m))).
    { destruct Hcase as [[H1 _]|[H1 _]]; apply in_or_app; [left; exact H1|right; apply in_or_app; left; exact (Ist a H1)]. }
    assert (Hnt : a <> time_name).
    { intros ->. apply Htime. apply in_or_app. right. exact HinX1. }
    assert (Hnv : ~ In a (map fst (m_vars m))).
    { intro Hv. exact (Dv a Hv HinX1). }
    assert (Hnro : ~ In a (map fst (m_ro m))).
    { destruct Hcase as [[H1 _]|[H1 _]]; intro Hr.
      - apply (Dp a H1). apply in_or_app. right. exact Hr.
      - exact (Do a (Ist a H1) Hr). }
    assert (Hndy : ~ In a dy).
    { destruct Hcase as [[_ H2]|[H1 _]]; intro Hd; [exact (H2 (Idy a Hd))|exact (Hdisj Hord a H1 Hd)]. }
    assert (Hapk : map fst (c_apv c) = pn ++ st).
    { rewrite Hapv, map_app, Hp. f_equal. apply map_fst_combine. exact (lookups_length _ _ _ Hsv). }
    assert (Hnames : In a names).
    { unfold names, arg_names, all_flags, sel. cbn [fl_var fl_par fl_dvar fl_dpar fl_rxn fl_ro].
      apply in_or_app. right. destruct Hcase as [[H1 _]|[H1 _]].
      - apply in_or_app. left. exact H1.
      - apply in_or_app. right. apply in_or_app. right. apply in_or_app. left.
        apply filter_In. split; [exact (Hder a H1)|]. apply memN_In. rewrite Hapk. apply in_or_app. right. exact H1. }
    unfold args_row in Hrow.
    destruct (get_args_env fsem m c _ (fst srow)) as [e1|] eqn:E1; [|discriminate].
    destruct (eval_calls fsem (m_ro m) e1) as [e2|] eqn:E2; [|discriminate].
    cbn [lookup]. destruct (N.eqb_spec a time_name) as [|_]; [contradiction|].
    rewrite (lookups_combine names e2 row a Hrow Hnames).
    rewrite (eval_calls_notin fsem _ _ _ a E2 Hnro).
    unfold get_args_env in E1. rewrite Hdy in E1. rewrite (eval_names_notin fsem m _ _ _ a E1 Hndy).
    cbn [lookup]. destruct (N.eqb_spec a time_name) as [|_]; [contradiction|].
    rewrite lookup_app_notin; [|intro Hin; apply Hnv; exact (combine_keys_in _ _ _ Hin)].
    rewrite Hapv.
    destruct Hcase as [[H1 H2]|[H1 H2]].
    - rewrite (eval_names_notin fsem m _ _ _ a Hdep H2). cbn [lookup].
      destruct (N.eqb_spec a time_name) as [|_]; [contradiction|].
      rewrite (lookup_app_notin a (m_vars m) p Hnv). rewrite lookup_app.
      destruct (lookup a p) eqn:El; [reflexivity|]. exfalso. rewrite <- Hp in H1. exact (lookup_in_keys _ _ H1 El).
    - rewrite (lookup_app_notin a p); [|rewrite Hp; exact H2]. exact (lookups_combine st dep svals a Hsv H1).
  Qed.

  (** Model.get_right_hand_side_time_course of a segment's reported table = N * v of that table *)
  Lemma rhs_table_is_nv m pn p s tb f :
    wf_names m pn -> map fst p = pn ->
    args_table fsem m p s = Ok tb -> rhs_table fsem m p tb = Ok f -> nv_table fsem m tb = Ok f.
  Proof.
    intros Hwf Hp Ha Hr. unfold args_table in Ha. unfold rhs_table in Hr. unfold nv_table.
    destruct (create_cache fsem m p) as [c|] eqn:Ec; [|discriminate].
    destruct (create_cache_inv m p c Ec) as [dep [pnf [st [dy [svals [Hd [Hc [Hs [Hl [Hapv Hdy]]]]]]]]]].
    rewrite Hp in Ha, Hc.
    destruct (map_res (fun row => of_opt EKey (args_row fsem m c (arg_names m pn (map fst (c_apv c)) all_flags) row)) s)
      as [rows|] eqn:Er; [|discriminate].
    injection Ha as <-. cbn [f_idx f_rows f_cols] in *.
    destruct (map_res _ (combine (map fst s) rows)) as [rr|] eqn:Err in Hr; [|discriminate].
    injection Hr as <-.
    rewrite (map_res_ext_ok _ (fun tr => of_opt EKey (nv_row fsem m
               (row_env (mkFrame (map fst s) (arg_names m pn (map fst (c_apv c)) all_flags) rows) tr))) _ _ Err); [reflexivity|].
    intros [t row] y Hin Hy. cbn [fst snd] in Hy. unfold row_env. cbn [fst snd f_cols].
    destruct (rhs_row fsem m c _) as [dxs|] eqn:Erow; [|discriminate]. cbn [of_opt] in Hy. injection Hy as <-.
    destruct (map_res_rows_in _ s rows t row Er Hin) as [srow [Hsin [Ht Hsrow]]].
    destruct (args_row fsem m c _ srow) as [row'|] eqn:Ear; [|discriminate]. cbn [of_opt] in Hsrow. injection Hsrow as ->.
    destruct Hwf as [Hbig [Hrn Hst]].
    assert (Hvars : NoDup (map fst (m_vars m))).
    { pose proof (proj2 (proj1 (NoDup_cons_iff _ _) Hbig)) as HX. exact (proj1 (nodup_app_inv _ _ HX)). }
    rewrite (rhs_row_is_nv fsem _ pnf dep) with (c := c) (dxs := dxs); try assumption; [reflexivity|].
    intros f args Hall. unfold calc. cbn [fc_args fc_fn].
    rewrite (lookups_ext args _ dep); [reflexivity|].
    intros a Hin_a. rewrite <- Ht.
    apply (row_param_inv m pn p c dep pnf st dy svals srow row a); try assumption.
    - split; [exact Hbig|split; assumption].
    - rewrite forallb_forall in Hall. apply memN_In. exact (Hall a Hin_a).
  Qed.

  Lemma rhs_list_is_nv m pn : forall ss ps tbs fs,
    wf_names m pn -> Forall (fun p => map fst p = pn) ps -> length ss = length ps ->
    map_res (fun sp => args_table fsem m (snd sp) (fst sp)) (combine ss ps) = Ok tbs ->
    spec_rhs_list fsem m tbs ps = Ok fs -> map_res (nv_table fsem m) tbs = Ok fs.
  Proof.
    induction ss as [|s ss IH]; intros ps tbs fs Hwf Hall Hlen Hc Hr.
    - destruct ps; [|discriminate]. cbn [combine map_res] in Hc. injection Hc as <-.
      cbn [spec_rhs_list] in Hr. injection Hr as <-. reflexivity.
    - destruct ps as [|p ps]; [discriminate|]. cbn [combine map_res fst snd] in Hc.
      destruct (args_table fsem m p s) as [tb|] eqn:Et; [|discriminate].
      destruct (map_res (fun sp : seg * env => args_table fsem m (snd sp) (fst sp)) (combine ss ps)) as [tbs'|] eqn:Ets; [|discriminate].
      injection Hc as <-.
      cbn [spec_rhs_list] in Hr. destruct (rhs_table fsem m p tb) as [f|] eqn:Ef; [|discriminate].
      destruct (spec_rhs_list fsem m tbs' ps) as [fs'|] eqn:Efs; [|discriminate]. injection Hr as <-.
      pose proof (Forall_inv Hall) as Hp. cbn beta in Hp.
      cbn [map_res]. rewrite (rhs_table_is_nv m pn p s tb f Hwf Hp Et Ef).
      rewrite (IH ps tbs' fs' Hwf (Forall_inv_tail Hall)); [reflexivity| |exact Ets|exact Efs].
      cbn [length] in Hlen. lia.
  Qed.

  (** one read of the derivatives, from every reachable state *)
  Lemma nv_single m r pn tbs st fs :
    wf_names m pn -> wf_res r pn -> canon_tables fsem m r = Ok tbs -> good_state pn tbs st ->
    fst (run_op fsem FX m r (ORhs NNone false) st) = VFrames fs ->
    exists zs, map_res (nv_table fsem m) tbs = Ok zs /\ fs = map qframe zs.
  Proof.
    intros Hn Hwf Hc Hg H. rewrite (rhs_view_is_model_rhs pk fsem m r pn tbs st Hwf Hc Hg) in H.
    destruct (spec_rhs_list fsem m tbs (r_pars r)) as [zs|] eqn:E; [|discriminate]. injection H as <-.
    exists zs. split; [|reflexivity]. destruct Hwf as [_ [Hlen [_ Hall]]].
    exact (rhs_list_is_nv m pn (r_segs r) (r_pars r) tbs zs Hn Hall Hlen Hc E).
  Qed.

  (** the derivatives read at ANY position of ANY read sequence (user edits interleaved) *)
  Lemma nv_in_sequences m r pn tbs :
    wf_names m pn -> wf_res r pn -> evaluable fsem m pn -> canon_tables fsem m r = Ok tbs ->
    forall os st i fs, good_state pn tbs st -> nth_error os i = Some (ORhs NNone false) ->
      nth_error (run_ops fsem FX m r os st) i = Some (VFrames fs) ->
      exists zs, map_res (nv_table fsem m) tbs = Ok zs /\ fs = map qframe zs.
  Proof.
    intros Hn Hwf Hev Hc os st i fs Hg Hi H.
    rewrite (run_ops_nth pk fsem m r pn tbs Hwf Hev Hc os st i _ Hg Hi eq_refl) in H.
    cbn [spec_op] in H. unfold spec_rhs in H. rewrite Hc in H.
    destruct (spec_rhs_list fsem m tbs (r_pars r)) as [zs|] eqn:E; [|discriminate].
    change (adjust FX (map qframe zs) NNone false) with (VFrames (map qframe zs)) in H. injection H as <-.
    exists zs. split; [|reflexivity]. destruct Hwf as [_ [Hlen [_ Hall]]].
    exact (rhs_list_is_nv m pn (r_segs r) (r_pars r) tbs zs Hn Hall Hlen Hc E).
  Qed.
End NvTop.
