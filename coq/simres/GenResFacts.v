(* REGENERATED from src/mxlpy/simulation.py and src/mxlpy/model.py by harness/c10.py; do not edit.
   An unrecognised shape yields NRUnknown / PKUnknown / VKUnknown / false, which breaks C10_facts_pinned. *)
From SimRes Require Import ResModel.
Definition gen_res_facts : res_facts := mkResFacts NRFixed true true true PKRows true true true VKRestores.
