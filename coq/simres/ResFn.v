(** Meaning of the function ids of harness/fnlib.py (ids = positions in fnlib.FNS, 0..10), over Z.
    Only used to RUN the model (correspondence, witnesses); every theorem is proved for an
    arbitrary [fsem].  A call with the wrong arity (TypeError in Python) is never generated;
    it evaluates to 0 here. *)
From Coq Require Import List NArith ZArith.
Import ListNotations.
Local Open Scope Z_scope.

Definition fsemZ (f : N) (args : list Z) : Z :=
  match f, args with
  | 0%N, [a] => a
  | 1%N, [a] => - a
  | 2%N, [a; b] => a + b
  | 3%N, [a; b] => a - b
  | 4%N, [a; b] => a * b
  | 5%N, [a; b; c] => a * b + c
  | 6%N, [a] => a * a
  | 7%N, [a; b] => a * a - 3 * b + 1
  | 8%N, [] => 2
  | 9%N, [s1; s2; k] => k * s1 * s2
  | 10%N, [a; b; c] => a + b + c
  | _, _ => 0
  end.
