From SimRes Require Import ResModel GenResFacts.
Theorem C10_facts_pinned : gen_res_facts = mkResFacts NRFixed true true true true true true true.
Proof. vm_compute. reflexivity. Qed.
Print Assumptions C10_facts_pinned.
