(** C10 -- Result views are consistent functions of states and segment parameters.

    ONLY theorem statements (written out in full), each closed by [exact <lemma>] and followed by
    [Print Assumptions].  All statements are about [gen_res_facts], the facts REGENERATED from
    /repo/src/mxlpy/{simulation,model}.py on every run.  Vocabulary (ResModel.v / ResSpec.v):
    [run_op fx m r o st] = (answer, next state) of one read [o] of result [r] of model [m] when the
    shared model's parameters and raw_args are [st]; [canon_tables m r] = for each segment the table
    Model.get_args_time_course computes from that segment's states/times with the model's
    parameters set to THAT segment's parameter dict; [good_state] = any parameter VALUES whatsoever
    in the shared model, raw_args empty or filled; [spec_op] = state-free description of a read. *)
From Coq Require Import List NArith ZArith QArith Bool.
From MxlBase Require Import ListX.
From SimRes Require Import ResModel ResFn ResSpec GenResFacts ResProofs.
Import ListNotations.
Local Open Scope Z_scope.

Theorem C10_facts_pinned : gen_res_facts = mkResFacts NRFixed true true true true true true true.
Proof. vm_compute. reflexivity. Qed.
Print Assumptions C10_facts_pinned.

(** values reported for a time point = the model's values at that point's state and time under the
    parameters in force during that point's segment, WHATEVER the model's parameter values are
    when the view is read (they are universally quantified in [good_state]) and whether or not the
    lazy table was filled before *)
Theorem C10_view_is_model_value :
  forall fsem m r pn tbs st f,
    wf_res r pn -> evaluable fsem m pn -> canon_tables fsem m r = Ok tbs -> good_state pn tbs st ->
    fst (run_op fsem gen_res_facts m r (OArgs f false NNone) st) =
    match map_res (select_cols lookups (view_names m pn f)) tbs with
    | Ok data => VFrames (map qframe data)
    | Err e => VErr e
    end.
Proof. rewrite C10_facts_pinned. exact args_view_is_tables. Qed.
Print Assumptions C10_view_is_model_value.

(** reported derivatives = the Model's right-hand side (stoichiometry x fluxes, computed coefficients
    evaluated on the row) of each REPORTED row of values and fluxes, under that segment's parameters.
    (Full N*v statement with the sum written out: see design/C10.md -- the regrouping of the
    coefficient dictionaries is validated by the oracle, not proved.) *)
Theorem C10_rhs_is_model_rhs_partial :
  forall fsem m r pn tbs st,
    wf_res r pn -> canon_tables fsem m r = Ok tbs -> good_state pn tbs st ->
    fst (run_op fsem gen_res_facts m r (ORhs NNone false) st) =
    match spec_rhs_list fsem m tbs (r_pars r) with
    | Ok fs => VFrames (map qframe fs)
    | Err e => VErr e
    end.
Proof. rewrite C10_facts_pinned. exact rhs_view_is_model_rhs. Qed.
Print Assumptions C10_rhs_is_model_rhs_partial.

(** concatenated view = per-segment views stacked in order ([concat0]: indexes and rows appended) *)
Theorem C10_concat_is_stack :
  forall fsem m r pn tbs st1 st2 d,
    wf_res r pn -> evaluable fsem m pn -> canon_tables fsem m r = Ok tbs ->
    good_state pn tbs st1 -> good_state pn tbs st2 ->
    (forall f n, fst (run_op fsem gen_res_facts m r (OArgs f false n) st1) = VFrames d ->
                 fst (run_op fsem gen_res_facts m r (OArgs f true n) st2) = stacked d)
    /\ (forall dv ro sv n, fst (run_op fsem gen_res_facts m r (OVars dv ro sv false n) st1) = VFrames d ->
                 fst (run_op fsem gen_res_facts m r (OVars dv ro sv true n) st2) = stacked d)
    /\ (forall surr n, fst (run_op fsem gen_res_facts m r (OFluxes surr n false) st1) = VFrames d ->
                 fst (run_op fsem gen_res_facts m r (OFluxes surr n true) st2) = stacked d)
    /\ (forall n, fst (run_op fsem gen_res_facts m r (ORhs n false) st1) = VFrames d ->
                 fst (run_op fsem gen_res_facts m r (ORhs n true) st2) = stacked d).
Proof. rewrite C10_facts_pinned. exact concat_is_stack. Qed.
Print Assumptions C10_concat_is_stack.

(** reading views repeatedly, in any order, interleaved with parameter edits by the user, from any
    reachable state: every read returns its state-free specification (induction over read
    sequences) ... *)
Theorem C10_every_read_is_its_spec :
  forall fsem m r pn tbs,
    wf_res r pn -> evaluable fsem m pn -> canon_tables fsem m r = Ok tbs ->
    forall os st i o, good_state pn tbs st -> nth_error os i = Some o -> is_view o = true ->
    nth_error (run_ops fsem gen_res_facts m r os st) i = Some (spec_op fsem m r pn o).
Proof. rewrite C10_facts_pinned. exact run_ops_nth. Qed.
Print Assumptions C10_every_read_is_its_spec.

(** ... hence the same read gives the same answer at any position of any two read sequences *)
Theorem C10_read_order_irrelevant :
  forall fsem m r pn tbs,
    wf_res r pn -> evaluable fsem m pn -> canon_tables fsem m r = Ok tbs ->
    forall os1 os2 st1 st2 i j o,
      good_state pn tbs st1 -> good_state pn tbs st2 ->
      nth_error os1 i = Some o -> nth_error os2 j = Some o -> is_view o = true ->
      nth_error (run_ops fsem gen_res_facts m r os1 st1) i = nth_error (run_ops fsem gen_res_facts m r os2 st2) j.
Proof. rewrite C10_facts_pinned. exact read_order_irrelevant. Qed.
Print Assumptions C10_read_order_irrelevant.

(** a freshly returned result is a reachable state whatever values the model's parameters have *)
Theorem C10_fresh_result_is_good :
  forall pn tbs cur, map fst cur = pn -> good_state pn tbs (mkSt cur []).
Proof. exact fresh_is_good. Qed.
Print Assumptions C10_fresh_result_is_good.

(** a normalised read = [normalise] applied to the frames of the un-normalised read ... *)
Theorem C10_normalised_view :
  forall fsem m r pn tbs st1 st2 data,
    wf_res r pn -> evaluable fsem m pn -> canon_tables fsem m r = Ok tbs ->
    good_state pn tbs st1 -> good_state pn tbs st2 ->
    (forall f n, fst (run_op fsem gen_res_facts m r (OArgs f false NNone) st1) = VFrames data ->
                 fst (run_op fsem gen_res_facts m r (OArgs f false n) st2) = normalised data n)
    /\ (forall dv ro sv n, fst (run_op fsem gen_res_facts m r (OVars dv ro sv false NNone) st1) = VFrames data ->
                 fst (run_op fsem gen_res_facts m r (OVars dv ro sv false n) st2) = normalised data n)
    /\ (forall surr n, fst (run_op fsem gen_res_facts m r (OFluxes surr NNone false) st1) = VFrames data ->
                 fst (run_op fsem gen_res_facts m r (OFluxes surr n false) st2) = normalised data n)
    /\ (forall n, fst (run_op fsem gen_res_facts m r (ORhs NNone false) st1) = VFrames data ->
                 fst (run_op fsem gen_res_facts m r (ORhs n false) st2) = normalised data n).
Proof. rewrite C10_facts_pinned. exact normalised_view. Qed.
Print Assumptions C10_normalised_view.

(** ... and [normalise] divides by the scalar, *)
Theorem C10_normalise_scalar :
  forall data q, is_zero q = false ->
    normalise gen_res_facts data (NScalar q) = Ok (map (fun f => div_frame f q) data).
Proof. rewrite C10_facts_pinned. exact normalise_scalar. Qed.
Print Assumptions C10_normalise_scalar.

(** by the per-segment factors, *)
Theorem C10_normalise_per_segment :
  forall data l, existsb is_zero l = false -> length l = length data ->
    normalise gen_res_facts data (NList l) = Ok (map (fun fq => div_frame (fst fq) (snd fq)) (combine data l)).
Proof. rewrite C10_facts_pinned. exact normalise_per_segment. Qed.
Print Assumptions C10_normalise_per_segment.

(** or by the per-row factors: row k of segment i is divided by factor (rows before segment i) + k
    (the factors [concat qss] grouped by segment as [qss]).  REFUTED on the snapshot 2b75025 (the
    branch returned []); holds for the repaired code (fixes/C10-per-row-normalise.diff), see
    [C10_normalise_per_row_old_code_refuted]. *)
Theorem C10_normalise_per_row :
  forall data qss,
    existsb is_zero (concat qss) = false -> length (concat qss) <> length data ->
    Forall2 (fun f qs => length qs = length (f_rows f)) data qss ->
    normalise gen_res_facts data (NList (concat qss))
    = Ok (map (fun fq => div_rows (fst fq) (snd fq)) (combine data qss)).
Proof. rewrite C10_facts_pinned. exact normalise_per_row. Qed.
Print Assumptions C10_normalise_per_row.

Theorem C10_normalise_per_row_old_code_refuted :
  exists data qss,
    existsb is_zero (concat qss) = false /\ length (concat qss) <> length data /\
    Forall2 (fun f qs => length qs = length (f_rows f)) data qss /\ data <> [] /\
    normalise (mkResFacts NRRebindEmpty true true true true true true true) data (NList (concat qss)) = Ok [].
Proof.
  exists [mkFrame [0; 1] [1%N] [[1%Q]; [2%Q]]], [[2%Q; 4%Q]].
  split; [reflexivity|]. split; [cbn; discriminate|]. split; [repeat constructor|]. split; [discriminate|reflexivity].
Qed.
Print Assumptions C10_normalise_per_row_old_code_refuted.

(** producers / consumers.  FULL statement (not provable: the code decides differently): "in every
    segment the producers of v are exactly the fluxes whose coefficient for v is positive under that
    segment's parameters at that row's state, scaled by that coefficient on request".
    PROVED ([_partial]): the view is [spec_prodcons] -- the columns are the reactions whose
    coefficient is positive (negative) under the FIRST segment's parameters at the model's INITIAL
    state and time 0, the cells are the (normalised) fluxes of the segment, scaled per segment by the
    coefficient under that segment's parameters at the initial state -- from every reachable state.
    This coincides with the full statement when the coefficients of v are numbers or computed from
    parameters only and keep their sign across segments (guard of the known finding). *)
Theorem C10_producers_consumers_partial :
  forall fsem m r pn tbs st (neg : bool) v scaled n conc,
    wf_res r pn -> evaluable fsem m pn -> canon_tables fsem m r = Ok tbs -> good_state pn tbs st ->
    fst (run_op fsem gen_res_facts m r (if neg then OConsumers v scaled n conc else OProducers v scaled n conc) st)
    = spec_prodcons fsem m r pn neg v scaled n conc.
Proof. rewrite C10_facts_pinned. exact prodcons_is_spec. Qed.
Print Assumptions C10_producers_consumers_partial.

(** witness: dx/dt = p*v with p = 1 in segment 0 and p = -1 in segment 1; v is listed as a producer
    of x in segment 1 although its coefficient there is -1 *)
Definition wit_m : model :=
  mkModel [(1%N, 1)] [] [(70%N, mkRxn (mkCall 0%N [1%N]) [(1%N, CDyn 0%N [20%N])])] [] [70%N].
Definition wit_r : simres := mkRes [[(0, [1]); (1, [2])]; [(2, [3])]] [[(20%N, 1)]; [(20%N, -1)]].

Theorem C10_producers_consumers_refuted :
  exists fs f1,
    wf_res wit_r [20%N] /\
    fst (run_op fsemZ gen_res_facts wit_m wit_r (OProducers 1%N false NNone false) (mkSt [(20%N, -1)] [])) = VFrames fs
    /\ nth_error fs 1 = Some f1 /\ In 70%N (f_cols f1)
    /\ stoich_of_variable fsemZ wit_m [(20%N, -1)] 1%N = Ok [(70%N, -1)].
Proof.
  rewrite C10_facts_pinned. eexists. eexists.
  split; [split; [repeat constructor; cbn; intuition discriminate|split; [reflexivity|split; [discriminate|repeat constructor]]]|].
  split; [vm_compute; reflexivity|]. split; [reflexivity|]. split; [left; reflexivity|vm_compute; reflexivity].
Qed.
Print Assumptions C10_producers_consumers_refuted.

(** non-vacuity: the hypotheses of the theorems hold for a concrete two-segment result whose
    parameter changes between the segments, and the read sequence user-edit; rhs; fluxes; rhs gives
    segment-correct values (flux 2 at t=1 under p=1; derivative -3 at t=2 under p=-1) *)
Example C10_nonvacuous :
  wf_res wit_r [20%N] /\ evaluable fsemZ wit_m [20%N] /\
  (exists tbs, canon_tables fsemZ wit_m wit_r = Ok tbs /\ good_state [20%N] tbs (mkSt [(20%N, 7)] [])) /\
  run_ops fsemZ gen_res_facts wit_m wit_r [OUserUpd 20%N 5; ORhs NNone true; OFluxes true NNone true; ORhs NNone true]
          (mkSt [(20%N, 7)] [])
  = [VUnit;
     VFrame (mkFrame [0; 1; 2] [1%N] [[1%Q]; [2%Q]; [(-3)%Q]]);
     VFrame (mkFrame [0; 1; 2] [70%N] [[1%Q]; [2%Q]; [3%Q]]);
     VFrame (mkFrame [0; 1; 2] [1%N] [[1%Q]; [2%Q]; [(-3)%Q]])].
Proof.
  rewrite C10_facts_pinned.
  split; [split; [repeat constructor; cbn; intuition discriminate|split; [reflexivity|split; [discriminate|repeat constructor]]]|].
  split.
  - intros cur Hk. destruct cur as [|[k v] [|? ?]]; try discriminate. cbn in Hk. injection Hk as ->.
    vm_compute. discriminate.
  - split; [eexists; split; [vm_compute; reflexivity|split; [reflexivity|left; reflexivity]]|].
    vm_compute. reflexivity.
Qed.
Print Assumptions C10_nonvacuous.
