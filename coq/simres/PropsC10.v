From SimRes Require Import ResModel GenResFacts.
