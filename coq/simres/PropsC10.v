(** C10 -- Result views are consistent functions of states and segment parameters.

    ONLY theorem statements (written out in full), each closed by [exact <lemma>] and followed by
    [Print Assumptions].  All statements are about [gen_res_facts], the facts REGENERATED from
    /repo/src/mxlpy/{simulation,model}.py on every run.  Vocabulary (ResModel.v / ResSpec.v):
    [run_op fx m r o st] = (answer, next state) of one read [o] of result [r] of model [m] when the
    shared model's parameters and raw_args are [st]; [canon_tables m r] = for each segment the table
    Model.get_args_time_course computes from that segment's states/times with the model's
    parameters set to THAT segment's parameter dict; [good_state] = any parameter VALUES whatsoever
    in the shared model, raw_args empty or filled; [spec_op pk] = state-free description of a read,
    [pk] = which bodies get_producers / get_consumers have ([rf_prod gen_res_facts]: regenerated;
    expected value = the switch coq/simres/ExpectedFacts.v, see design/C10.md).
    Since /repo 4167248 the views put the shared model's parameter values back ([rf_view = VKRestores], pinned
    below): every theorem about [gen_res_facts] is about those bodies; the statements that were proved for the
    older bodies ("a read leaves the model at the last segment's parameters") are unchanged -- they quantify
    over EVERY parameter state of the shared model -- and the new section at the end says what a read does to
    that state: nothing. *)
From Coq Require Import List NArith ZArith QArith Bool.
From MxlBase Require Import ListX.
From SimRes Require Import ResModel ResFn ExpectedFacts ResSpec GenResFacts ResProofs ResNv ResNvProofs.
Import ListNotations.
Local Open Scope Z_scope.

Theorem C10_facts_pinned : gen_res_facts = mkResFacts NRFixed true true true C10_expected_prod true true true VKRestores.
Proof. vm_compute. reflexivity. Qed.
Print Assumptions C10_facts_pinned.

(** values reported for a time point = the model's values at that point's state and time under the
    parameters in force during that point's segment, WHATEVER the model's parameter values are
    when the view is read (they are universally quantified in [good_state]) and whether or not the
    lazy table was filled before *)
Theorem C10_view_is_model_value :
  forall fsem m r pn tbs st f,
    wf_res r pn -> evaluable fsem m pn -> canon_tables fsem m r = Ok tbs -> good_state pn tbs st ->
    fst (run_op fsem gen_res_facts m r (OArgs f false NNone) st) =
    match map_res (select_cols lookups (view_names m pn f)) tbs with
    | Ok data => VFrames (map qframe data)
    | Err e => VErr e
    end.
Proof. rewrite C10_facts_pinned. exact (args_view_is_tables C10_expected_prod). Qed.
Print Assumptions C10_view_is_model_value.

(** reported derivatives = the Model's right-hand side (stoichiometry x fluxes, computed coefficients
    evaluated on the row) of each REPORTED row of values and fluxes, under that segment's parameters.
    (The name is kept from the first pass.  What was missing then -- that this right-hand side, computed
    from the cache's coefficient dictionaries, IS the sum N*v written out -- is now
    [C10_N_times_v_is_rhs] / [C10_N_times_v_single_read] below.) *)
Theorem C10_rhs_is_model_rhs_partial :
  forall fsem m r pn tbs st,
    wf_res r pn -> canon_tables fsem m r = Ok tbs -> good_state pn tbs st ->
    fst (run_op fsem gen_res_facts m r (ORhs NNone false) st) =
    match spec_rhs_list fsem m tbs (r_pars r) with
    | Ok fs => VFrames (map qframe fs)
    | Err e => VErr e
    end.
Proof. rewrite C10_facts_pinned. exact (rhs_view_is_model_rhs C10_expected_prod). Qed.
Print Assumptions C10_rhs_is_model_rhs_partial.

(** "stoichiometry times reported fluxes equals reported derivatives", at full strength.
    [nv_table m tb] (ResNv.v) is computed from the REPORTED table [tb] of a segment (what
    get_args(everything included) shows: [C10_view_is_model_value]) and the DECLARED stoichiometries
    only: cell (row, x) = sum over the reactions r, in declaration order, of N[x,r](row) * v_r(row),
    v_r(row) the reported flux, N[x,r](row) the declared coefficient -- a number, or its function
    applied to the values reported in that row (parameters as shown for the segment, states/time of
    the row).  It does not mention the model cache, the static/dynamic split or the coefficient
    dictionaries.  For every model with well-formed names ([wf_names]: what Model._insert_id
    guarantees; evaluated to [true] on every generated model by the correspondence), every result,
    every segment and row, every parameter state of the shared model and fill state of the lazy table,
    and every position in every sequence of reads and user edits: *)
Theorem C10_N_times_v_is_rhs :
  forall fsem m r pn tbs,
    wf_names m pn -> wf_res r pn -> evaluable fsem m pn -> canon_tables fsem m r = Ok tbs ->
    forall os st i fs, good_state pn tbs st -> nth_error os i = Some (ORhs NNone false) ->
      nth_error (run_ops fsem gen_res_facts m r os st) i = Some (VFrames fs) ->
      exists zs, map_res (nv_table fsem m) tbs = Ok zs /\ fs = map qframe zs.
Proof. rewrite C10_facts_pinned. exact (nv_in_sequences C10_expected_prod). Qed.
Print Assumptions C10_N_times_v_is_rhs.

(** the same for one read from any reachable state, without assuming that the model evaluates under
    every parameter valuation *)
Theorem C10_N_times_v_single_read :
  forall fsem m r pn tbs st fs,
    wf_names m pn -> wf_res r pn -> canon_tables fsem m r = Ok tbs -> good_state pn tbs st ->
    fst (run_op fsem gen_res_facts m r (ORhs NNone false) st) = VFrames fs ->
    exists zs, map_res (nv_table fsem m) tbs = Ok zs /\ fs = map qframe zs.
Proof. rewrite C10_facts_pinned. exact (nv_single C10_expected_prod). Qed.
Print Assumptions C10_N_times_v_single_read.

(** segment by segment: whenever Model.get_right_hand_side_time_course answers for the table reported
    for a segment (under that segment's parameters [p]), the answer is N * v of that table *)
Theorem C10_segment_rhs_is_N_times_v :
  forall fsem m pn p s tb f,
    wf_names m pn -> map fst p = pn ->
    args_table fsem m p s = Ok tb -> rhs_table fsem m p tb = Ok f -> nv_table fsem m tb = Ok f.
Proof. exact rhs_table_is_nv. Qed.
Print Assumptions C10_segment_rhs_is_N_times_v.

(** the boolean name check the correspondence evaluates on every generated model is sound *)
Theorem C10_wf_names_checked : forall m pn, wf_namesb m pn = true -> wf_names m pn.
Proof. exact wf_namesb_sound. Qed.
Print Assumptions C10_wf_names_checked.

(** non-vacuity of the N*v theorems: x1' = p*r70 - r71, x2' = (x1 + x2)*r71 with r70 = x1 (flux), r71 = p + x2,
    p = 2 then p = -1; coefficient p is parameter-computed (static table, differs between the segments),
    x1 + x2 (derived 41) is state-computed (dynamic table).  All hypotheses hold, the derivatives view
    answers, and its cells are the sums written out: e.g. t=1, p=2, x=(3,1): r70=3, r71=3, x1' = 2*3 - 3 = 3,
    x2' = 4*3 = 12;  t=2, p=-1, x=(1,2): r70=1, r71=1, x1' = -1 - 1 = -2, x2' = 3*1 = 3. *)
Definition nv_m : model :=
  mkModel [(1%N, 1); (2%N, 0)]
          [(41%N, mkCall 2%N [1%N; 2%N])]
          [(70%N, mkRxn (mkCall 0%N [1%N]) [(1%N, CDyn 0%N [20%N])]);
           (71%N, mkRxn (mkCall 2%N [20%N; 2%N]) [(1%N, CStat (-1)); (2%N, CDyn 0%N [41%N])])]
          [(100%N, mkCall 2%N [70%N; 71%N])]
          [41%N; 70%N; 71%N].
Definition nv_r : simres := mkRes [[(0, [1; 0]); (1, [3; 1])]; [(2, [1; 2])]] [[(20%N, 2)]; [(20%N, -1)]].

Example C10_N_times_v_nonvacuous :
  wf_names nv_m [20%N] /\ wf_res nv_r [20%N] /\
  exists tbs, canon_tables fsemZ nv_m nv_r = Ok tbs /\ good_state [20%N] tbs (mkSt [(20%N, 7)] []) /\
    fst (run_op fsemZ gen_res_facts nv_m nv_r (ORhs NNone false) (mkSt [(20%N, 7)] []))
    = VFrames [mkFrame [0; 1] [1%N; 2%N] [[0%Q; 2%Q]; [3%Q; 12%Q]]; mkFrame [2] [1%N; 2%N] [[(-2)%Q; 3%Q]]] /\
    map_res (nv_table fsemZ nv_m) tbs
    = Ok [mkFrame [0; 1] [1%N; 2%N] [[0; 2]; [3; 12]]; mkFrame [2] [1%N; 2%N] [[-2; 3]]].
Proof.
  rewrite C10_facts_pinned.
  split; [apply wf_namesb_sound; vm_compute; reflexivity|].
  split; [split; [repeat constructor; cbn; intuition discriminate|split; [reflexivity|split; [discriminate|repeat constructor]]]|].
  eexists. split; [vm_compute; reflexivity|]. split; [split; [reflexivity|left; reflexivity]|].
  split; vm_compute; reflexivity.
Qed.
Print Assumptions C10_N_times_v_nonvacuous.

(** concatenated view = per-segment views stacked in order ([concat0]: indexes and rows appended) *)
Theorem C10_concat_is_stack :
  forall fsem m r pn tbs st1 st2 d,
    wf_res r pn -> evaluable fsem m pn -> canon_tables fsem m r = Ok tbs ->
    good_state pn tbs st1 -> good_state pn tbs st2 ->
    (forall f n, fst (run_op fsem gen_res_facts m r (OArgs f false n) st1) = VFrames d ->
                 fst (run_op fsem gen_res_facts m r (OArgs f true n) st2) = stacked d)
    /\ (forall dv ro sv n, fst (run_op fsem gen_res_facts m r (OVars dv ro sv false n) st1) = VFrames d ->
                 fst (run_op fsem gen_res_facts m r (OVars dv ro sv true n) st2) = stacked d)
    /\ (forall surr n, fst (run_op fsem gen_res_facts m r (OFluxes surr n false) st1) = VFrames d ->
                 fst (run_op fsem gen_res_facts m r (OFluxes surr n true) st2) = stacked d)
    /\ (forall n, fst (run_op fsem gen_res_facts m r (ORhs n false) st1) = VFrames d ->
                 fst (run_op fsem gen_res_facts m r (ORhs n true) st2) = stacked d).
Proof. rewrite C10_facts_pinned. exact (concat_is_stack C10_expected_prod). Qed.
Print Assumptions C10_concat_is_stack.

(** reading views repeatedly, in any order, interleaved with parameter edits by the user, from any
    reachable state: every read returns its state-free specification (induction over read
    sequences) ... *)
Theorem C10_every_read_is_its_spec :
  forall fsem m r pn tbs,
    wf_res r pn -> evaluable fsem m pn -> canon_tables fsem m r = Ok tbs ->
    forall os st i o, good_state pn tbs st -> nth_error os i = Some o -> is_view o = true ->
    nth_error (run_ops fsem gen_res_facts m r os st) i = Some (spec_op (rf_prod gen_res_facts) fsem m r pn o).
Proof. rewrite C10_facts_pinned. exact (run_ops_nth C10_expected_prod). Qed.
Print Assumptions C10_every_read_is_its_spec.

(** ... hence the same read gives the same answer at any position of any two read sequences *)
Theorem C10_read_order_irrelevant :
  forall fsem m r pn tbs,
    wf_res r pn -> evaluable fsem m pn -> canon_tables fsem m r = Ok tbs ->
    forall os1 os2 st1 st2 i j o,
      good_state pn tbs st1 -> good_state pn tbs st2 ->
      nth_error os1 i = Some o -> nth_error os2 j = Some o -> is_view o = true ->
      nth_error (run_ops fsem gen_res_facts m r os1 st1) i = nth_error (run_ops fsem gen_res_facts m r os2 st2) j.
Proof. rewrite C10_facts_pinned. exact (read_order_irrelevant C10_expected_prod). Qed.
Print Assumptions C10_read_order_irrelevant.

(** a freshly returned result is a reachable state whatever values the model's parameters have *)
Theorem C10_fresh_result_is_good :
  forall pn tbs cur, map fst cur = pn -> good_state pn tbs (mkSt cur []).
Proof. exact fresh_is_good. Qed.
Print Assumptions C10_fresh_result_is_good.

(** a normalised read = [normalise] applied to the frames of the un-normalised read ... *)
Theorem C10_normalised_view :
  forall fsem m r pn tbs st1 st2 data,
    let normalised := fun (data : list (frame Q)) (n : norm) =>
      match normalise gen_res_facts data n with Ok d => VFrames d | Err e => VErr e end in
    wf_res r pn -> evaluable fsem m pn -> canon_tables fsem m r = Ok tbs ->
    good_state pn tbs st1 -> good_state pn tbs st2 ->
    (forall f n, fst (run_op fsem gen_res_facts m r (OArgs f false NNone) st1) = VFrames data ->
                 fst (run_op fsem gen_res_facts m r (OArgs f false n) st2) = normalised data n)
    /\ (forall dv ro sv n, fst (run_op fsem gen_res_facts m r (OVars dv ro sv false NNone) st1) = VFrames data ->
                 fst (run_op fsem gen_res_facts m r (OVars dv ro sv false n) st2) = normalised data n)
    /\ (forall surr n, fst (run_op fsem gen_res_facts m r (OFluxes surr NNone false) st1) = VFrames data ->
                 fst (run_op fsem gen_res_facts m r (OFluxes surr n false) st2) = normalised data n)
    /\ (forall n, fst (run_op fsem gen_res_facts m r (ORhs NNone false) st1) = VFrames data ->
                 fst (run_op fsem gen_res_facts m r (ORhs n false) st2) = normalised data n).
Proof. rewrite C10_facts_pinned. exact (normalised_view C10_expected_prod). Qed.
Print Assumptions C10_normalised_view.

(** ... and [normalise] divides by the scalar, *)
Theorem C10_normalise_scalar :
  forall data q, is_zero q = false ->
    normalise gen_res_facts data (NScalar q) = Ok (map (fun f => div_frame f q) data).
Proof. rewrite C10_facts_pinned. exact (normalise_scalar C10_expected_prod). Qed.
Print Assumptions C10_normalise_scalar.

(** by the per-segment factors, *)
Theorem C10_normalise_per_segment :
  forall data l, existsb is_zero l = false -> length l = length data ->
    normalise gen_res_facts data (NList l) = Ok (map (fun fq => div_frame (fst fq) (snd fq)) (combine data l)).
Proof. rewrite C10_facts_pinned. exact (normalise_per_segment C10_expected_prod). Qed.
Print Assumptions C10_normalise_per_segment.

(** or by the per-row factors: row k of segment i is divided by factor (rows before segment i) + k
    (the factors [concat qss] grouped by segment as [qss]).  REFUTED on the snapshot 2b75025 (the
    branch returned []); holds for the repaired code (fixes/C10-per-row-normalise.diff), see
    [C10_normalise_per_row_old_code_refuted]. *)
Theorem C10_normalise_per_row :
  forall data qss,
    existsb is_zero (concat qss) = false -> length (concat qss) <> length data ->
    Forall2 (fun f qs => length qs = length (f_rows f)) data qss ->
    normalise gen_res_facts data (NList (concat qss))
    = Ok (map (fun fq => div_rows (fst fq) (snd fq)) (combine data qss)).
Proof. rewrite C10_facts_pinned. exact (normalise_per_row C10_expected_prod). Qed.
Print Assumptions C10_normalise_per_row.

Theorem C10_normalise_per_row_old_code_refuted :
  exists data qss,
    existsb is_zero (concat qss) = false /\ length (concat qss) <> length data /\
    Forall2 (fun f qs => length qs = length (f_rows f)) data qss /\ data <> [] /\
    normalise (mkResFacts NRRebindEmpty true true true PKFirst true true true VKLeavesLast) data (NList (concat qss)) = Ok [].
Proof.
  exists [mkFrame [0; 1] [1%N] [[1%Q]; [2%Q]]], [[2%Q; 4%Q]].
  split; [reflexivity|]. split; [cbn; discriminate|]. split; [repeat constructor|]. split; [discriminate|reflexivity].
Qed.
Print Assumptions C10_normalise_per_row_old_code_refuted.

(** producers / consumers.

    FULL statement: "at every reported row the producers (consumers) of v are exactly the fluxes whose
    coefficient for v is positive (negative) under that row's segment's parameters at that row's state
    and time, scaled by it on request".  [spec_prodcons_rows] (ResSpec.v) is that statement in executable
    form, computed from the REPORTED tables and the declared stoichiometries only: the columns are the
    reactions whose coefficient N[v,r](row) has the sign in SOME reported row; the cell (row, r) is the
    reported (normalised) flux -- times |N[v,r](row)| if scaled -- iff N[v,r](row) has the sign in THAT
    row and NaN otherwise ([mask_cell]).

    [C10_producers_consumers]: the REPAIRED bodies (fixes/C10-prodcons-per-segment.diff, facts [PKRows])
    return exactly that, from every reachable state, with no guard on the coefficients.
    [C10_producers_consumers_of_the_source]: what the bodies the SOURCE currently has return
    ([rf_prod gen_res_facts], pinned to the switch ExpectedFacts.v by [C10_facts_pinned]): the full
    rule after the repair, the snapshot's rule before.
    [C10_producers_consumers_partial] / [_refuted]: the SNAPSHOT's bodies ([PKFirst]) return
    [spec_prodcons_first] -- columns chosen once by the sign under the FIRST segment's parameters at the
    model's INITIAL state and time 0, scaling by the coefficient under the segment's parameters at the
    initial state -- which lists a flux as producer in a segment where it consumes: the regression
    theorems for the old rule (they were stated about [gen_res_facts] while the tree carried that rule;
    they now name the facts value explicitly so that they survive the repair). *)
Theorem C10_producers_consumers :
  forall fsem m r pn tbs st (neg : bool) v scaled n conc,
    wf_res r pn -> evaluable fsem m pn -> canon_tables fsem m r = Ok tbs -> good_state pn tbs st ->
    fst (run_op fsem (expected_facts PKRows) m r (if neg then OConsumers v scaled n conc else OProducers v scaled n conc) st)
    = spec_prodcons_rows PKRows fsem m r pn neg v scaled n conc.
Proof. exact (prodcons_is_spec PKRows). Qed.
Print Assumptions C10_producers_consumers.

(** ... and, written out, what [spec_prodcons_rows] lists and shows.  [coefs] = for every segment and reported row
    the signed coefficients [coef_rows]: + coefficient for producers, - coefficient for consumers, evaluated on the
    row's reported values.  A reaction is LISTED ([kept]) iff it mentions the variable and its signed coefficient is
    positive in SOME reported row of SOME segment; a CELL is the flux (times the coefficient if scaled) iff the signed
    coefficient is positive in THAT row, and NaN otherwise. *)
Theorem C10_listed_iff_sign_somewhere :
  forall fs coefs j rn,
    In (j, rn) (kept fs coefs) <->
    (exists c, nth_error fs j = Some (rn, c)) /\
    exists rows row, In rows coefs /\ In row rows /\ 0 < nth j row 0.
Proof. exact kept_spec. Qed.
Print Assumptions C10_listed_iff_sign_somewhere.

Theorem C10_cell_follows_the_row :
  forall scaled q c,
    (0 < c -> mask_cell scaled q c = Some (if scaled then (q * inject_Z c)%Q else q)) /\
    (c <= 0 -> mask_cell scaled q c = None).
Proof. exact mask_cell_spec. Qed.
Print Assumptions C10_cell_follows_the_row.

Theorem C10_producers_consumers_of_the_source :
  forall fsem m r pn tbs st (neg : bool) v scaled n conc,
    wf_res r pn -> evaluable fsem m pn -> canon_tables fsem m r = Ok tbs -> good_state pn tbs st ->
    fst (run_op fsem gen_res_facts m r (if neg then OConsumers v scaled n conc else OProducers v scaled n conc) st)
    = spec_prodcons (rf_prod gen_res_facts) fsem m r pn neg v scaled n conc.
Proof. rewrite C10_facts_pinned. exact (prodcons_is_spec C10_expected_prod). Qed.
Print Assumptions C10_producers_consumers_of_the_source.

Theorem C10_producers_consumers_partial :
  forall fsem m r pn tbs st (neg : bool) v scaled n conc,
    wf_res r pn -> evaluable fsem m pn -> canon_tables fsem m r = Ok tbs -> good_state pn tbs st ->
    fst (run_op fsem (expected_facts PKFirst) m r (if neg then OConsumers v scaled n conc else OProducers v scaled n conc) st)
    = spec_prodcons_first PKFirst fsem m r pn neg v scaled n conc.
Proof. exact (prodcons_is_spec PKFirst). Qed.
Print Assumptions C10_producers_consumers_partial.

(** witness: dx/dt = p*v with p = 1 in segment 0 and p = -1 in segment 1; the old rule lists v as a
    producer of x in segment 1 although its coefficient there is -1 *)
Definition wit_m : model :=
  mkModel [(1%N, 1)] [] [(70%N, mkRxn (mkCall 0%N [1%N]) [(1%N, CDyn 0%N [20%N])])] [] [70%N].
Definition wit_r : simres := mkRes [[(0, [1]); (1, [2])]; [(2, [3])]] [[(20%N, 1)]; [(20%N, -1)]].

Theorem C10_producers_consumers_refuted :
  exists fs f1,
    wf_res wit_r [20%N] /\
    fst (run_op fsemZ (expected_facts PKFirst) wit_m wit_r (OProducers 1%N false NNone false) (mkSt [(20%N, -1)] [])) = VFrames fs
    /\ nth_error fs 1 = Some f1 /\ In 70%N (f_cols f1)
    /\ stoich_of_variable fsemZ wit_m [(20%N, -1)] 1%N = Ok [(70%N, -1)].
Proof.
  eexists. eexists.
  split; [split; [repeat constructor; cbn; intuition discriminate|split; [reflexivity|split; [discriminate|repeat constructor]]]|].
  split; [vm_compute; reflexivity|]. split; [reflexivity|]. split; [left; reflexivity|vm_compute; reflexivity].
Qed.
Print Assumptions C10_producers_consumers_refuted.

(** the same witness under the repaired bodies, and a sign change INSIDE a segment (coefficient 2 - x,
    function 3 applied to (parameter 21 = 2, x)): the cells follow the sign row by row, the scale is the
    row's coefficient *)
Definition wit2_m : model :=
  mkModel [(1%N, 0)] [] [(70%N, mkRxn (mkCall 0%N [20%N]) [(1%N, CDyn 3%N [21%N; 1%N])])] [] [70%N].
Definition wit2_r : simres := mkRes [[(0, [0]); (1, [1]); (2, [3])]] [[(20%N, 1); (21%N, 2)]].

Example C10_producers_consumers_nonvacuous :
  run_ops fsemZ (expected_facts PKRows) wit_m wit_r
          [OProducers 1%N false NNone false; OConsumers 1%N true NNone true] (mkSt [(20%N, -1)] [])
  = [VMFrames [mkFrame [0; 1] [70%N] [[Some 1%Q]; [Some 2%Q]]; mkFrame [2] [70%N] [[None]]];
     VMFrame (mkFrame [0; 1; 2] [70%N] [[None]; [None]; [Some 3%Q]])]
  /\ run_ops fsemZ (expected_facts PKRows) wit2_m wit2_r
          [OProducers 1%N true NNone true; OConsumers 1%N true NNone true; OProducers 1%N false (NScalar 2) true]
          (mkSt [(20%N, 5); (21%N, 5)] [])
  = [VMFrame (mkFrame [0; 1; 2] [70%N] [[Some 2%Q]; [Some 1%Q]; [None]]);
     VMFrame (mkFrame [0; 1; 2] [70%N] [[None]; [None]; [Some 1%Q]]);
     VMFrame (mkFrame [0; 1; 2] [70%N] [[Some (1 # 2)%Q]; [Some (1 # 2)%Q]; [None]])]
  /\ wf_res wit2_r [20%N; 21%N] /\ evaluable fsemZ wit2_m [20%N; 21%N].
Proof.
  split; [vm_compute; reflexivity|]. split; [vm_compute; reflexivity|].
  split; [split; [repeat constructor; cbn; intuition discriminate|split; [reflexivity|split; [discriminate|repeat constructor]]]|].
  intros cur Hk. destruct cur as [|[k v] [|[k2 v2] [|? ?]]]; try discriminate. cbn in Hk. injection Hk as -> ->.
  vm_compute. discriminate.
Qed.
Print Assumptions C10_producers_consumers_nonvacuous.

(** non-vacuity: the hypotheses of the theorems hold for a concrete two-segment result whose
    parameter changes between the segments, and the read sequence user-edit; rhs; fluxes; rhs gives
    segment-correct values (flux 2 at t=1 under p=1; derivative -3 at t=2 under p=-1) *)
Example C10_nonvacuous :
  wf_res wit_r [20%N] /\ evaluable fsemZ wit_m [20%N] /\
  (exists tbs, canon_tables fsemZ wit_m wit_r = Ok tbs /\ good_state [20%N] tbs (mkSt [(20%N, 7)] [])) /\
  run_ops fsemZ gen_res_facts wit_m wit_r [OUserUpd 20%N 5; ORhs NNone true; OFluxes true NNone true; ORhs NNone true]
          (mkSt [(20%N, 7)] [])
  = [VUnit;
     VFrame (mkFrame [0; 1; 2] [1%N] [[1%Q]; [2%Q]; [(-3)%Q]]);
     VFrame (mkFrame [0; 1; 2] [70%N] [[1%Q]; [2%Q]; [3%Q]]);
     VFrame (mkFrame [0; 1; 2] [1%N] [[1%Q]; [2%Q]; [(-3)%Q]])].
Proof.
  rewrite C10_facts_pinned.
  split; [split; [repeat constructor; cbn; intuition discriminate|split; [reflexivity|split; [discriminate|repeat constructor]]]|].
  split.
  - intros cur Hk. destruct cur as [|[k v] [|? ?]]; try discriminate. cbn in Hk. injection Hk as ->.
    vm_compute. discriminate.
  - split; [eexists; split; [vm_compute; reflexivity|split; [reflexivity|left; reflexivity]]|].
    vm_compute. reflexivity.
Qed.
Print Assumptions C10_nonvacuous.

(** reading a result never changes the parameter values of the shared model (since /repo 4167248:
    [_compute_args] / [get_right_hand_side] remember the values in force, re-apply each segment's parameters
    inside try: and put back what they found in finally:; [_get_fluxes_by_sign] no longer re-applies the last
    segment's).  [user_edit o cur] = [cur] for every read, and [cur] with [k := v] for the user's own
    [model.update_parameter(k, v)].  One read, from every reachable state: *)
Theorem C10_read_keeps_model_parameters :
  forall fsem m r pn tbs o st,
    wf_res r pn -> evaluable fsem m pn -> canon_tables fsem m r = Ok tbs -> good_state pn tbs st ->
    s_cur (snd (run_op fsem gen_res_facts m r o st)) = user_edit o (s_cur st).
Proof. rewrite C10_facts_pinned. exact run_op_keeps. Qed.
Print Assumptions C10_read_keeps_model_parameters.

(** ... hence after ANY sequence of reads and user edits the model's parameters are the user's edits applied
    to what the model had, in order -- the reads left no trace -- and the state is still a reachable one *)
Theorem C10_model_parameters_are_the_users :
  forall fsem m r pn tbs,
    wf_res r pn -> evaluable fsem m pn -> canon_tables fsem m r = Ok tbs ->
    forall os st, good_state pn tbs st ->
      s_cur (final_state fsem gen_res_facts m r os st) = user_edits os (s_cur st)
      /\ good_state pn tbs (final_state fsem gen_res_facts m r os st).
Proof. rewrite C10_facts_pinned. exact final_state_pars. Qed.
Print Assumptions C10_model_parameters_are_the_users.

(** ... and [model.get_parameter_values()] observed at position [i] of any such sequence shows exactly the
    user's edits made before position [i] *)
Theorem C10_observed_parameters_are_the_users :
  forall fsem m r pn tbs,
    wf_res r pn -> evaluable fsem m pn -> canon_tables fsem m r = Ok tbs ->
    forall os st i, good_state pn tbs st -> nth_error os i = Some OModelPars ->
      nth_error (run_ops fsem gen_res_facts m r os st) i = Some (pars_dict (user_edits (firstn i os) (s_cur st))).
Proof. rewrite C10_facts_pinned. exact model_pars_in_sequences. Qed.
Print Assumptions C10_observed_parameters_are_the_users.

(** regression (the bodies before 4167248, [old_view_facts] = the same facts with [VKLeavesLast]): the user sets
    p := 5 on the shared model, reads the fluxes, and finds p = -1 (the last segment's value): a read undid the
    user's update_parameter.  The answers of the views were right then too (same frames). *)
Theorem C10_reads_keep_user_parameters_old_code_refuted :
  wf_res wit_r [20%N] /\ evaluable fsemZ wit_m [20%N] /\
  run_ops fsemZ (old_view_facts PKRows) wit_m wit_r [OUserUpd 20%N 5; OPropFluxes; OModelPars; ORhs NNone true; OModelPars] (mkSt [(20%N, 7)] [])
  = [VUnit; VFrame (mkFrame [0; 1; 2] [70%N] [[1%Q]; [2%Q]; [3%Q]]); VDict [(20%N, (-1)%Q)];
     VFrame (mkFrame [0; 1; 2] [1%N] [[1%Q]; [2%Q]; [(-3)%Q]]); VDict [(20%N, (-1)%Q)]]
  /\ user_edits [OUserUpd 20%N 5; OPropFluxes] [(20%N, 7)] = [(20%N, 5)].
Proof.
  split; [split; [repeat constructor; cbn; intuition discriminate|split; [reflexivity|split; [discriminate|repeat constructor]]]|].
  split.
  - intros cur Hk. destruct cur as [|[k v] [|? ?]]; try discriminate. cbn in Hk. injection Hk as ->.
    vm_compute. discriminate.
  - split; vm_compute; reflexivity.
Qed.
Print Assumptions C10_reads_keep_user_parameters_old_code_refuted.

(** non-vacuity: the same sequence on the bodies the tree has: the user's 5 survives both reads *)
Example C10_read_keeps_model_parameters_nonvacuous :
  run_ops fsemZ gen_res_facts wit_m wit_r [OUserUpd 20%N 5; OPropFluxes; OModelPars; ORhs NNone true; OModelPars] (mkSt [(20%N, 7)] [])
  = [VUnit; VFrame (mkFrame [0; 1; 2] [70%N] [[1%Q]; [2%Q]; [3%Q]]); VDict [(20%N, 5%Q)];
     VFrame (mkFrame [0; 1; 2] [1%N] [[1%Q]; [2%Q]; [(-3)%Q]]); VDict [(20%N, 5%Q)]].
Proof. rewrite C10_facts_pinned. vm_compute. reflexivity. Qed.
Print Assumptions C10_read_keeps_model_parameters_nonvacuous.

(** "concatenated views are the per-segment views stacked in order": the stacked frame ([stacked d] of
    [C10_concat_is_stack], i.e. [concat0]) has the index and the rows of every segment appended, so as many rows as
    the segments have together -- nothing is merged or dropped when two segments report the same time point (a run
    to steady state after a time course, two runs to steady state, a shared boundary point). *)
Theorem C10_concat_keeps_every_row :
  forall data f, concat0 data = Ok f ->
    f_idx f = concat (map f_idx data) /\ f_rows f = concat (map f_rows data)
    /\ length (f_rows f) = list_sum (map (fun x => length (f_rows x)) data).
Proof. exact concat0_rows. Qed.
Print Assumptions C10_concat_keeps_every_row.

(** regression (seeded change C10-5, not in the tree): "keep the time index unique" after the concat loses the
    earlier segment's row at a shared time point -- the view of segments [t = 0, 1] and [t = 1, 2] (different values at
    t = 1: the parameters changed) has 3 rows instead of 4 and the value reported under the first segment's parameters
    is gone.  [_adjust_data]'s shape is pinned ([rf_select_adjust_shape]), so that change also breaks
    [C10_facts_pinned]; the harness reads such results through every concatenated view. *)
Theorem C10_concat_unique_times_refuted :
  exists data f g,
    concat0 data = Ok f /\ concat0_unique_times data = Ok g /\
    length (f_rows f) = 4%nat /\ length (f_rows g) = 3%nat /\
    In [2%Q] (f_rows f) /\ ~ In [2%Q] (f_rows g).
Proof.
  exists [mkFrame [0; 1] [70%N] [[1%Q]; [2%Q]]; mkFrame [1; 2] [70%N] [[4%Q]; [6%Q]]].
  eexists. eexists. split; [reflexivity|]. split; [reflexivity|]. split; [reflexivity|]. split; [reflexivity|].
  split; [right; left; reflexivity|]. cbn. intros [H|[H|[H|[]]]]; discriminate.
Qed.
Print Assumptions C10_concat_unique_times_refuted.
