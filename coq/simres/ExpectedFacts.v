(** C10 -- THE SWITCH (edited only by tools/c10_switch.py).

    Which bodies of Simulation.get_producers / get_consumers the check expects in the tree:
      PKFirst  the snapshot's bodies: the sign is decided once, by the coefficient under the FIRST
               segment's parameters at the model's INITIAL state, scaling by the coefficient at the initial
               state (recorded finding C10-prodcons-coefficient-frame; theorems
               C10_producers_consumers_partial / _refuted describe the tree);
      PKRows   the repaired bodies (fixes/C10-prodcons-per-segment.diff): the coefficient is evaluated on
               every reported row; the full theorem C10_producers_consumers describes the tree and the
               old rule's failure stays as the regression theorem C10_producers_consumers_refuted.
    C10_facts_pinned compares the facts regenerated from the source with this value: applying the
    diff without flipping the switch (or the reverse) breaks it. *)
From SimRes Require Import ResModel.
Definition C10_expected_prod : prod_kind := PKRows.
