From SimRes Require Import ResModel.
