(** C10 -- proofs.  Every view is a function of (model structure, result) only. *)
From Coq Require Import List NArith ZArith QArith Bool Lia.
From MxlBase Require Import ListX.
From SimRes Require Import ResModel ResSpec.
Import ListNotations.
Local Open Scope Z_scope.

Lemma lookup_app_notin {A} k (a b : list (name * A)) :
  ~ In k (map fst a) -> lookup k (a ++ b) = lookup k b.
Proof.
  induction a as [|[k' v'] a IH]; cbn [lookup app map fst]; intro H; [reflexivity|].
  destruct (N.eqb_spec k k') as [->|Hne].
  - exfalso. apply H. left. reflexivity.
  - apply IH. intro Hin. apply H. right. exact Hin.
Qed.

Lemma set_assoc_app_notin {A} k (v : A) (a b : list (name * A)) :
  ~ In k (map fst a) -> set_assoc k v (a ++ b) = a ++ set_assoc k v b.
Proof.
  induction a as [|[k' v'] a IH]; cbn [set_assoc app map fst]; intro H; [reflexivity|].
  destruct (N.eqb_spec k k') as [->|Hne].
  - exfalso. apply H. left. reflexivity.
  - f_equal. apply IH. intro Hin. apply H. right. exact Hin.
Qed.

Lemma set_assoc_keys {A} k (v : A) d :
  lookup k d <> None -> map fst (set_assoc k v d) = map fst d.
Proof.
  induction d as [|[k' v'] d IH]; cbn [lookup set_assoc map fst]; intro H.
  - exfalso. apply H. reflexivity.
  - destruct (N.eqb_spec k k') as [->|Hne]; cbn [map fst]; [reflexivity|].
    f_equal. apply IH. exact H.
Qed.

(** update_parameters never changes the parameter NAMES (even when it fails half-way) *)
Lemma apply_params_keys p : forall cur, map fst (fst (apply_params p cur)) = map fst cur.
Proof.
  induction p as [|[k v] p IH]; intro cur; cbn [apply_params]; [reflexivity|].
  destruct (lookup k cur) eqn:E; [|reflexivity].
  rewrite IH. apply set_assoc_keys. rewrite E. discriminate.
Qed.

(** re-applying a full parameter dict erases whatever values the model had *)
Lemma apply_params_gen : forall pb pa cb,
  NoDup (map fst (pa ++ pb)) -> map fst cb = map fst pb ->
  apply_params pb (pa ++ cb) = (pa ++ pb, true).
Proof.
  induction pb as [|[k v] pb IH]; intros pa cb Hnd Hk.
  - destruct cb; [|discriminate]. reflexivity.
  - destruct cb as [|[k0 v0] cb]; [discriminate|]. cbn [map fst] in Hk. injection Hk as Hk0 Hk. subst k0.
    cbn [apply_params].
    assert (Hnotin : ~ In k (map fst pa)).
    { rewrite map_app in Hnd. cbn [map fst] in Hnd. apply NoDup_remove_2 in Hnd.
      intro Hin. apply Hnd. apply in_or_app. left. exact Hin. }
    rewrite (lookup_app_notin k pa _ Hnotin). cbn [lookup]. rewrite N.eqb_refl.
    rewrite (set_assoc_app_notin k v pa _ Hnotin). cbn [set_assoc]. rewrite N.eqb_refl.
    replace (pa ++ (k, v) :: cb) with ((pa ++ [(k, v)]) ++ cb) by (rewrite <- app_assoc; reflexivity).
    rewrite IH.
    + rewrite <- app_assoc. reflexivity.
    + rewrite <- app_assoc. exact Hnd.
    + exact Hk.
Qed.

Lemma apply_params_same p cur :
  NoDup (map fst p) -> map fst cur = map fst p -> apply_params p cur = (p, true).
Proof. intros Hnd Hk. apply (apply_params_gen p [] cur); assumption. Qed.

Lemma lookups_length ns : forall e vs, lookups ns e = Some vs -> length vs = length ns.
Proof.
  induction ns as [|n ns IH]; intros e vs H; cbn [lookups] in H.
  - injection H as <-. reflexivity.
  - destruct (lookup n e); [|discriminate]. destruct (lookups ns e) eqn:E; [|discriminate].
    injection H as <-. cbn [length]. f_equal. apply (IH e). exact E.
Qed.

Lemma map_fst_combine {A B} (a : list A) : forall (b : list B), length b = length a -> map fst (combine a b) = a.
Proof.
  induction a as [|x a IH]; intros b H; [reflexivity|].
  destruct b as [|y b]; [discriminate|]. cbn [combine map fst]. f_equal. apply IH. cbn [length] in H. lia.
Qed.

Section Proofs.
  Variable pk : prod_kind.
  Variable fsem : fnid -> list Z -> Z.
  Notation FX := (expected_facts pk).

  Lemma create_cache_apv_keys m cur c :
    create_cache fsem m cur = Some c ->
    map fst (c_apv c) = map fst cur ++ static_names m (map fst cur).
  Proof.
    unfold create_cache, static_names. intro H.
    destruct (eval_names fsem m (m_order m) _) as [dep|]; [|discriminate].
    destruct (classify m (m_order m) (map fst cur) [] []) as [[[pn st] dy]|]; [|discriminate].
    destruct (stoich_rxns fsem pn dep (m_rxn m) ([], [])) as [[stat dyn]|]; [|discriminate].
    destruct (lookups st dep) as [svals|] eqn:Es; [|discriminate].
    destruct (lookups (map fst (m_vars m)) dep) as [ivals|]; [|discriminate].
    injection H as <-. cbn [c_apv]. rewrite map_app. f_equal.
    apply map_fst_combine. apply (lookups_length _ _ _ Es).
  Qed.

  Lemma names_of_keys m pn cur f :
    evaluable fsem m pn -> map fst cur = pn ->
    names_of fsem m cur f = Ok (view_names m pn f).
  Proof.
    intros Hev Hk. unfold names_of. destruct (create_cache fsem m cur) as [c|] eqn:E.
    - rewrite (create_cache_apv_keys _ _ _ E). rewrite Hk. reflexivity.
    - exfalso. exact (Hev cur Hk E).
  Qed.

  Lemma fill_canon m pn : forall ss ps cur acc tbs,
    NoDup pn -> Forall (fun p => map fst p = pn) ps -> map fst cur = pn ->
    map_res (fun sp => args_table fsem m (snd sp) (fst sp)) (combine ss ps) = Ok tbs ->
    length ss = length ps ->
    exists cur', fill fsem FX m ss ps (mkSt cur acc) = (Ok (acc ++ tbs), mkSt cur' (acc ++ tbs))
                 /\ map fst cur' = pn.
  Proof.
    induction ss as [|s ss IH]; intros ps cur acc tbs Hnd Hall Hk Hm Hlen.
    - destruct ps; [|discriminate]. cbn [combine map_res] in Hm. injection Hm as <-.
      exists cur. cbn [fill s_raw]. rewrite app_nil_r. split; [reflexivity|exact Hk].
    - destruct ps as [|p ps]; [discriminate|]. pose proof (Forall_inv Hall) as Hp. pose proof (Forall_inv_tail Hall) as Hall'. cbn beta in Hp.
      cbn [combine map_res fst snd] in Hm.
      destruct (args_table fsem m p s) as [tb|] eqn:Et; [|discriminate].
      destruct (map_res (fun sp => args_table fsem m (snd sp) (fst sp)) (combine ss ps)) as [tbs'|] eqn:Er; [|discriminate].
      injection Hm as <-.
      cbn [fill]. change (rf_fill_reapply FX) with true. cbn [s_cur s_raw].
      rewrite (apply_params_same p cur); [|rewrite Hp; exact Hnd|rewrite Hp; exact Hk].
      cbn [negb]. rewrite Et.
      destruct (IH ps p (acc ++ [tb]) tbs' Hnd Hall' Hp Er) as [cur' [E K]]; [cbn [length] in Hlen; lia|].
      exists cur'. rewrite E. rewrite <- app_assoc. split; [reflexivity|exact K].
  Qed.

  (** [finally: update_parameters(in_force)] puts back exactly what was found *)
  Lemma put_back_same cur cur' :
    NoDup (map fst cur) -> map fst cur' = map fst cur -> put_back FX cur cur' = cur.
  Proof.
    intros Hnd Hk. unfold put_back. change (rf_view FX) with VKRestores. cbn match.
    rewrite (apply_params_same cur cur' Hnd Hk). reflexivity.
  Qed.

  (** the lazy table is filled with the canonical tables and the model's parameters are what they were *)
  Lemma compute_args_good m r pn tbs st :
    wf_res r pn -> canon_tables fsem m r = Ok tbs -> good_state pn tbs st ->
    compute_args fsem FX m r st = (Ok tbs, mkSt (s_cur st) tbs).
  Proof.
    intros [Hnd [Hlen [Hne Hall]]] Hc [Hk Hraw]. destruct st as [cur raw]. cbn [s_cur s_raw] in *.
    unfold compute_args. change (rf_view FX) with VKRestores. cbn match.
    change (rf_fill_guard FX) with true. cbn [s_raw s_cur andb].
    assert (Hfill : (let '(ra, st1) := fill fsem FX m (r_segs r) (r_pars r) (mkSt cur []) in
                     (ra, mkSt (put_back FX cur (s_cur st1)) (s_raw st1))) = (Ok tbs, mkSt cur tbs)).
    { destruct (fill_canon m pn (r_segs r) (r_pars r) cur [] tbs Hnd Hall Hk Hc Hlen) as [cur' [E K]].
      rewrite E. cbn [s_cur s_raw app].
      rewrite put_back_same; [reflexivity|rewrite Hk; exact Hnd|rewrite K, Hk; reflexivity]. }
    destruct Hraw as [-> | ->].
    - cbn [nonempty]. exact Hfill.
    - destruct tbs as [|tb tbs]; cbn [nonempty].
      + exact Hfill.
      + reflexivity.
  Qed.

  Lemma view_selected_spec m r pn tbs st f n conc :
    wf_res r pn -> evaluable fsem m pn -> canon_tables fsem m r = Ok tbs -> good_state pn tbs st ->
    fst (view_selected fsem FX m r f n conc st) = spec_selected pk fsem m r pn f n conc
    /\ good_state pn tbs (snd (view_selected fsem FX m r f n conc st))
    /\ s_cur (snd (view_selected fsem FX m r f n conc st)) = s_cur st.
  Proof.
    intros Hwf Hev Hc Hg. unfold view_selected, spec_selected.
    rewrite (compute_args_good m r pn tbs st Hwf Hc Hg), Hc.
    cbn [s_cur]. destruct Hg as [Hk _]. rewrite (names_of_keys m pn (s_cur st) f Hev Hk).
    assert (G : good_state pn tbs (mkSt (s_cur st) tbs)) by (split; [exact Hk|right; reflexivity]).
    destruct (map_res (select_cols lookups (view_names m pn f)) tbs); cbn [fst snd s_cur];
      (split; [reflexivity|split; [exact G|reflexivity]]).
  Qed.

  Lemma rhs_loop_spec m pn : forall tbs ps cur,
    NoDup pn -> Forall (fun p => map fst p = pn) ps -> map fst cur = pn ->
    exists cur', rhs_loop fsem FX m tbs ps cur = (spec_rhs_list fsem m tbs ps, cur') /\ map fst cur' = pn.
  Proof.
    induction tbs as [|tb tbs IH]; intros ps cur Hnd Hall Hk.
    - destruct ps; exists cur; split; auto.
    - destruct ps as [|p ps]; [exists cur; split; auto|].
      pose proof (Forall_inv Hall) as Hp. pose proof (Forall_inv_tail Hall) as Hall'. cbn beta in Hp.
      cbn [rhs_loop spec_rhs_list]. change (rf_rhs_reapply FX) with true.
      rewrite (apply_params_same p cur); [|rewrite Hp; exact Hnd|rewrite Hp; exact Hk].
      cbn [negb]. destruct (rhs_table fsem m p tb) as [f|e].
      + destruct (IH ps p Hnd Hall' Hp) as [cur' [E K]]. rewrite E.
        destruct (spec_rhs_list fsem m tbs ps); exists cur'; split; auto.
      + exists p. split; auto.
  Qed.

  Lemma view_rhs_spec m r pn tbs st n conc :
    wf_res r pn -> canon_tables fsem m r = Ok tbs -> good_state pn tbs st ->
    fst (view_rhs fsem FX m r n conc st) = spec_rhs pk fsem m r n conc
    /\ good_state pn tbs (snd (view_rhs fsem FX m r n conc st))
    /\ s_cur (snd (view_rhs fsem FX m r n conc st)) = s_cur st.
  Proof.
    intros Hwf Hc Hg. unfold view_rhs, spec_rhs.
    rewrite (compute_args_good m r pn tbs st Hwf Hc Hg), Hc.
    destruct Hwf as [Hnd [Hlen [Hne Hall]]]. destruct Hg as [Hk _]. cbn [s_cur s_raw].
    destruct (rhs_loop_spec m pn tbs (r_pars r) (s_cur st) Hnd Hall Hk) as [c2 [E2 K2]]. rewrite E2.
    assert (G : good_state pn tbs (mkSt (s_cur st) tbs)) by (split; [exact Hk|right; reflexivity]).
    assert (P : put_back FX (s_cur st) c2 = s_cur st)
      by (apply put_back_same; [rewrite Hk; exact Hnd|rewrite K2, Hk; reflexivity]).
    destruct (spec_rhs_list fsem m tbs (r_pars r)); cbn [fst snd s_cur]; rewrite P;
      (split; [reflexivity|split; [exact G|reflexivity]]).
  Qed.

  Lemma scale_loop_spec m v neg names pn : forall fs ps cur,
    NoDup pn -> Forall (fun p => map fst p = pn) ps -> map fst cur = pn ->
    exists cur', scale_loop fsem m v neg names fs ps cur = (spec_scale fsem m v neg names fs ps, cur')
                 /\ map fst cur' = pn.
  Proof.
    induction fs as [|f fs IH]; intros ps cur Hnd Hall Hk.
    - destruct ps; exists cur; split; auto.
    - destruct ps as [|p ps]; [exists cur; split; auto|].
      pose proof (Forall_inv Hall) as Hp. pose proof (Forall_inv_tail Hall) as Hall'. cbn beta in Hp.
      cbn [scale_loop spec_scale].
      rewrite (apply_params_same p cur); [|rewrite Hp; exact Hnd|rewrite Hp; exact Hk].
      cbn [negb]. destruct (stoich_of_variable fsem m p v) as [sto|e]; [|exists p; split; auto].
      destruct (lookups names sto) as [cs|]; [|exists p; split; auto].
      destruct (IH ps p Hnd Hall' Hp) as [cur' [E K]]. rewrite E.
      destruct (spec_scale fsem m v neg names fs ps); exists cur'; split; auto.
  Qed.

  Lemma Forall_last {A} (P : A -> Prop) (l : list A) d : Forall P l -> l <> [] -> P (last l d).
  Proof.
    induction l as [|x l IH]; intros H Hne; [contradiction|].
    destruct l as [|y l]; [exact (Forall_inv H)|].
    change (last (x :: y :: l) d) with (last (y :: l) d). apply IH; [exact (Forall_inv_tail H)|discriminate].
  Qed.

  Lemma view_prodcons_first_spec m r pn tbs st neg v scaled n conc :
    wf_res r pn -> evaluable fsem m pn -> canon_tables fsem m r = Ok tbs -> good_state pn tbs st ->
    fst (view_prodcons_first fsem FX m r neg v scaled n conc st) = spec_prodcons_first pk fsem m r pn neg v scaled n conc
    /\ good_state pn tbs (snd (view_prodcons_first fsem FX m r neg v scaled n conc st)).
  Proof.
    intros Hwf Hev Hc Hg. pose proof Hwf as [Hnd [Hlen [Hne Hall]]].
    pose proof (Forall_last _ _ [] Hall Hne) as Hlast. cbn beta in Hlast.
    unfold view_prodcons_first, spec_prodcons_first.
    destruct (r_pars r) as [|p0 ps] eqn:Ep; [contradiction|].
    pose proof (Forall_inv Hall) as Hp0. cbn beta in Hp0. destruct Hg as [Hk Hraw].
    rewrite (apply_params_same p0 (s_cur st)); [|rewrite Hp0; exact Hnd|rewrite Hp0; exact Hk].
    cbn [negb].
    assert (G0 : good_state pn tbs (mkSt p0 (s_raw st))) by (split; [exact Hp0|exact Hraw]).
    destruct (stoich_of_variable fsem m p0 v) as [sto|e]; [|cbn [fst snd]; split; auto].
    fold (signed_names neg sto).
    destruct (view_selected_spec m r pn tbs (mkSt p0 (s_raw st)) (flags_fluxes true) n false Hwf Hev Hc G0) as [E1 [G1 _]].
    destruct (view_selected fsem FX m r (flags_fluxes true) n false (mkSt p0 (s_raw st))) as [o st1].
    cbn [fst snd] in E1, G1. rewrite E1.
    destruct (spec_selected pk fsem m r pn (flags_fluxes true) n false) as [f0|fl|?|?|d0| |e0|]; cbn [fst snd]; try (split; auto; fail).
    destruct (map_res (select_cols lookupsQ (signed_names neg sto)) fl) as [fl1|e1]; [|cbn [fst snd]; split; auto].
    destruct G1 as [K1 R1].
    pose proof Hnd as HndL. rewrite <- Hlast in HndL.
    destruct scaled.
    - destruct (scale_loop_spec m v neg (signed_names neg sto) pn fl1 (p0 :: ps) (s_cur st1) Hnd Hall K1) as [cur2 [E2 K2]].
      rewrite E2. destruct (spec_scale fsem m v neg (signed_names neg sto) fl1 (p0 :: ps)) as [fl2|e2].
      + rewrite (apply_params_same (last (p0 :: ps) []) cur2); [|exact HndL|exact (eq_trans K2 (eq_sym Hlast))].
        cbn [negb]. assert (G3 : good_state pn tbs (mkSt (last (p0 :: ps) []) (s_raw st1))) by (split; [exact Hlast|exact R1]).
        destruct conc; [destruct (concat0 fl2)|]; cbn [fst snd]; split; auto.
      + cbn [fst snd]. split; [reflexivity|]. split; [exact K2|exact R1].
    - rewrite (apply_params_same (last (p0 :: ps) []) (s_cur st1)); [|exact HndL|exact (eq_trans K1 (eq_sym Hlast))].
      cbn [negb]. assert (G3 : good_state pn tbs (mkSt (last (p0 :: ps) []) (s_raw st1))) by (split; [exact Hlast|exact R1]).
      destruct conc; [destruct (concat0 fl1)|]; cbn [fst snd]; split; auto.
  Qed.

  (** the repaired bodies: the view is the property's rule, from every reachable state, and the model's
      parameters are left as they were found *)
  Lemma view_prodcons_rows_spec m r pn tbs st neg v scaled n conc :
    wf_res r pn -> evaluable fsem m pn -> canon_tables fsem m r = Ok tbs -> good_state pn tbs st ->
    fst (view_prodcons_rows fsem FX m r neg v scaled n conc st) = spec_prodcons_rows pk fsem m r pn neg v scaled n conc
    /\ good_state pn tbs (snd (view_prodcons_rows fsem FX m r neg v scaled n conc st))
    /\ s_cur (snd (view_prodcons_rows fsem FX m r neg v scaled n conc st)) = s_cur st.
  Proof.
    intros Hwf Hev Hc Hg.
    unfold view_prodcons_rows, spec_prodcons_rows.
    destruct (factors_of m v) as [|f0 fs0] eqn:Ef; [cbn [fst snd]; split; [reflexivity|split; [exact Hg|reflexivity]]|].
    rewrite (compute_args_good m r pn tbs st Hwf Hc Hg), Hc.
    assert (G1 : good_state pn tbs (mkSt (s_cur st) tbs)) by (destruct Hg as [Hk _]; split; [exact Hk|right; reflexivity]).
    destruct (map_res (coef_rows fsem neg (f0 :: fs0)) tbs) as [coefs|e];
      [|cbn [fst snd s_cur]; split; [reflexivity|split; [exact G1|reflexivity]]].
    destruct (view_selected_spec m r pn tbs (mkSt (s_cur st) tbs) (flags_fluxes true) n false Hwf Hev Hc G1) as [E1 [G2 K2]].
    destruct (view_selected fsem FX m r (flags_fluxes true) n false (mkSt (s_cur st) tbs)) as [o st2].
    cbn [fst snd s_cur] in E1, G2, K2. rewrite E1.
    destruct (spec_selected pk fsem m r pn (flags_fluxes true) n false) as [fa|fl|?|?|?| |e0|]; cbn [fst snd];
      try (split; [reflexivity|split; [exact G2|exact K2]]; fail).
    destruct (mask_all scaled (kept (f0 :: fs0) coefs) fl coefs) as [ml|e1];
      [|cbn [fst snd]; split; [reflexivity|split; [exact G2|exact K2]]].
    unfold prodcons_tail. change (rf_view FX) with VKRestores. cbn match.
    destruct conc; [destruct (mconcat0 ml)|]; cbn [fst snd]; (split; [reflexivity|split; [exact G2|exact K2]]).
  Qed.

  Lemma view_prodcons_spec m r pn tbs st neg v scaled n conc :
    wf_res r pn -> evaluable fsem m pn -> canon_tables fsem m r = Ok tbs -> good_state pn tbs st ->
    fst (view_prodcons fsem FX m r neg v scaled n conc st) = spec_prodcons pk fsem m r pn neg v scaled n conc
    /\ good_state pn tbs (snd (view_prodcons fsem FX m r neg v scaled n conc st)).
  Proof.
    intros Hwf Hev Hc Hg.
    assert (H : forall k : prod_kind,
      fst (match k with
           | PKFirst => view_prodcons_first fsem FX m r neg v scaled n conc st
           | PKRows => view_prodcons_rows fsem FX m r neg v scaled n conc st
           | PKUnknown => (VOther, st)
           end)
      = match k with
        | PKFirst => spec_prodcons_first pk fsem m r pn neg v scaled n conc
        | PKRows => spec_prodcons_rows pk fsem m r pn neg v scaled n conc
        | PKUnknown => VOther
        end
      /\ good_state pn tbs (snd (match k with
                                 | PKFirst => view_prodcons_first fsem FX m r neg v scaled n conc st
                                 | PKRows => view_prodcons_rows fsem FX m r neg v scaled n conc st
                                 | PKUnknown => (VOther, st)
                                 end))).
    { intros k. destruct k.
      - apply view_prodcons_first_spec; assumption.
      - destruct (view_prodcons_rows_spec m r pn tbs st neg v scaled n conc Hwf Hev Hc Hg) as [E [G _]]. split; assumption.
      - cbn [fst snd]. split; [reflexivity|exact Hg]. }
    exact (H pk).
  Qed.

  Lemma view_vars_spec m r pn tbs st dv ro sv conc n :
    wf_res r pn -> evaluable fsem m pn -> canon_tables fsem m r = Ok tbs -> good_state pn tbs st ->
    fst (view_vars fsem FX m r dv ro sv conc n st) = spec_vars pk fsem m r pn dv ro sv conc n
    /\ good_state pn tbs (snd (view_vars fsem FX m r dv ro sv conc n st))
    /\ s_cur (snd (view_vars fsem FX m r dv ro sv conc n st)) = s_cur st.
  Proof.
    intros Hwf Hev Hc Hg. unfold view_vars, spec_vars.
    destruct (negb (dv || ro || sv)); [cbn [fst snd]; split; [reflexivity|split; [exact Hg|reflexivity]]|].
    apply view_selected_spec; assumption.
  Qed.

  Lemma lookup_in_keys {A} k (d : list (name * A)) : In k (map fst d) -> lookup k d <> None.
  Proof.
    induction d as [|[k' v'] d IH]; cbn [map fst In lookup]; [contradiction|].
    intros [->|Hin]; [rewrite N.eqb_refl; discriminate|].
    destruct (N.eqb k k'); [discriminate|apply IH; exact Hin].
  Qed.
  Lemma lookup_some_keys {A} k (d : list (name * A)) x : lookup k d = Some x -> In k (map fst d).
  Proof.
    induction d as [|[k' v'] d IH]; cbn [map fst In lookup]; [discriminate|].
    destruct (N.eqb_spec k k') as [->|Hne]; [left; reflexivity|]. intro H. right. apply IH. exact H.
  Qed.

  (** every read, from every reachable state: the answer is the state-free specification, and the
      state stays reachable *)
  Lemma run_op_spec m r pn tbs o st :
    wf_res r pn -> evaluable fsem m pn -> canon_tables fsem m r = Ok tbs -> good_state pn tbs st ->
    (is_view o = true -> fst (run_op fsem FX m r o st) = spec_op pk fsem m r pn o)
    /\ good_state pn tbs (snd (run_op fsem FX m r o st)).
  Proof.
    intros Hwf Hev Hc Hg. destruct o; cbn [run_op spec_op is_view].
    - destruct (view_selected_spec m r pn tbs st f n conc Hwf Hev Hc Hg) as [E [G _]]; split; auto.
    - destruct (view_vars_spec m r pn tbs st dv ro sv conc n Hwf Hev Hc Hg) as [E [G _]]; split; auto.
    - destruct (view_selected_spec m r pn tbs st (flags_fluxes surr) n conc Hwf Hev Hc Hg) as [E [G _]]; split; auto.
    - destruct (view_vars_spec m r pn tbs st true true true true NNone Hwf Hev Hc Hg) as [E [G _]]; split; auto.
    - destruct (view_selected_spec m r pn tbs st (flags_fluxes true) NNone true Hwf Hev Hc Hg) as [E [G _]]; split; auto.
    - destruct (view_vars_spec m r pn tbs st true true true true NNone Hwf Hev Hc Hg) as [E1 [G1 _]].
      destruct (view_vars fsem FX m r true true true true NNone st) as [a st1]. cbn [fst snd] in E1, G1. rewrite E1.
      destruct (spec_vars pk fsem m r pn true true true true NNone) as [fa|?|?|?|?| |?|]; cbn [fst snd]; try (split; auto; fail).
      destruct (view_selected_spec m r pn tbs st1 (flags_fluxes true) NNone true Hwf Hev Hc G1) as [E2 [G2 _]].
      destruct (view_selected fsem FX m r (flags_fluxes true) NNone true st1) as [b st2]. cbn [fst snd] in E2, G2. rewrite E2.
      destruct (spec_selected pk fsem m r pn (flags_fluxes true) NNone true); cbn [fst snd]; split; auto.
    - destruct (view_rhs_spec m r pn tbs st n conc Hwf Hc Hg) as [E [G _]]; split; auto.
    - destruct (view_prodcons_spec m r pn tbs st false v scaled n conc Hwf Hev Hc Hg); split; auto.
    - destruct (view_prodcons_spec m r pn tbs st true v scaled n conc Hwf Hev Hc Hg); split; auto.
    - destruct (view_vars_spec m r pn tbs st false false false true NNone Hwf Hev Hc Hg) as [E1 [G1 _]].
      destruct (view_vars fsem FX m r false false false true NNone st) as [a st1]. cbn [fst snd] in E1, G1. rewrite E1.
      destruct (spec_vars pk fsem m r pn false false false true NNone) as [fa|?|?|?|?| |?|]; cbn [fst snd]; try (split; auto; fail).
      destruct (rev (f_rows fa)); cbn [fst snd]; split; auto.
    - destruct Hg as [Hk Hraw]. destruct (lookup k (s_cur st)) eqn:E; cbn [fst snd].
      + split.
        * intros _. assert (Hin : In k pn) by (rewrite <- Hk; apply (lookup_some_keys _ _ _ E)).
          apply memN_In in Hin. rewrite Hin. reflexivity.
        * split; cbn [s_cur s_raw]; [|exact Hraw]. rewrite set_assoc_keys; [exact Hk|rewrite E; discriminate].
      + split; [|split; assumption]. intros _.
        destruct (memN k pn) eqn:Em; [|reflexivity]. exfalso. apply memN_In in Em. rewrite <- Hk in Em.
        exact (lookup_in_keys _ _ Em E).
    - split; [discriminate|exact Hg].
  Qed.

  (** induction over read sequences *)
  Lemma run_ops_nth m r pn tbs :
    wf_res r pn -> evaluable fsem m pn -> canon_tables fsem m r = Ok tbs ->
    forall os st i o, good_state pn tbs st -> nth_error os i = Some o -> is_view o = true ->
    nth_error (run_ops fsem FX m r os st) i = Some (spec_op pk fsem m r pn o).
  Proof.
    intros Hwf Hev Hc. induction os as [|o' os IH]; intros st i o Hg Hn Hv.
    - destruct i; discriminate.
    - cbn [run_ops]. destruct (run_op_spec m r pn tbs o' st Hwf Hev Hc Hg) as [E G].
      destruct (run_op fsem FX m r o' st) as [x st'] eqn:Er. cbn [fst snd] in E, G.
      destruct i as [|i]; cbn [nth_error] in *.
      + injection Hn as ->. rewrite (E Hv). reflexivity.
      + apply (IH st' i o G Hn Hv).
  Qed.

  Lemma fresh_is_good pn tbs cur : map fst cur = pn -> good_state pn tbs (mkSt cur []).
  Proof. intro H. split; [exact H|left; reflexivity]. Qed.

  Lemma read_order_irrelevant m r pn tbs :
    wf_res r pn -> evaluable fsem m pn -> canon_tables fsem m r = Ok tbs ->
    forall os1 os2 st1 st2 i j o,
      good_state pn tbs st1 -> good_state pn tbs st2 ->
      nth_error os1 i = Some o -> nth_error os2 j = Some o -> is_view o = true ->
      nth_error (run_ops fsem FX m r os1 st1) i = nth_error (run_ops fsem FX m r os2 st2) j.
  Proof.
    intros Hwf Hev Hc os1 os2 st1 st2 i j o G1 G2 H1 H2 Hv.
    rewrite (run_ops_nth m r pn tbs Hwf Hev Hc os1 st1 i o G1 H1 Hv).
    rewrite (run_ops_nth m r pn tbs Hwf Hev Hc os2 st2 j o G2 H2 Hv). reflexivity.
  Qed.

  (** cells of a view = cells of the per-segment tables computed under the segment's own parameters *)
  Lemma args_view_is_tables m r pn tbs st f :
    wf_res r pn -> evaluable fsem m pn -> canon_tables fsem m r = Ok tbs -> good_state pn tbs st ->
    fst (run_op fsem FX m r (OArgs f false NNone) st) =
    match map_res (select_cols lookups (view_names m pn f)) tbs with
    | Ok data => VFrames (map qframe data)
    | Err e => VErr e
    end.
  Proof.
    intros Hwf Hev Hc Hg. cbn [run_op].
    destruct (view_selected_spec m r pn tbs st f NNone false Hwf Hev Hc Hg) as [E _]. rewrite E.
    unfold spec_selected. rewrite Hc. destruct (map_res _ tbs); reflexivity.
  Qed.

  Lemma rhs_view_is_model_rhs m r pn tbs st :
    wf_res r pn -> canon_tables fsem m r = Ok tbs -> good_state pn tbs st ->
    fst (run_op fsem FX m r (ORhs NNone false) st) =
    match spec_rhs_list fsem m tbs (r_pars r) with
    | Ok fs => VFrames (map qframe fs)
    | Err e => VErr e
    end.
  Proof.
    intros Hwf Hc Hg. cbn [run_op].
    destruct (view_rhs_spec m r pn tbs st NNone false Hwf Hc Hg) as [E _]. rewrite E.
    unfold spec_rhs. rewrite Hc. destruct (spec_rhs_list fsem m tbs (r_pars r)); reflexivity.
  Qed.

  Lemma adjust_conc data n d :
    adjust FX data n false = VFrames d ->
    adjust FX data n true = match concat0 d with Ok f => VFrame f | Err e => VErr e end.
  Proof. unfold adjust. destruct (normalise FX data n); intro H; [injection H as <-; reflexivity|discriminate]. Qed.

  Lemma adjust_norm data n :
    adjust FX data n false = match normalise FX data n with Ok d => VFrames d | Err e => VErr e end.
  Proof. unfold adjust. destruct (normalise FX data n); reflexivity. Qed.

  Lemma spec_selected_conc m r pn f n d :
    spec_selected pk fsem m r pn f n false = VFrames d ->
    spec_selected pk fsem m r pn f n true = match concat0 d with Ok x => VFrame x | Err e => VErr e end.
  Proof.
    unfold spec_selected. destruct (canon_tables fsem m r) as [a|]; [|discriminate].
    destruct (map_res (select_cols lookups (view_names m pn f)) a); [|discriminate]. apply adjust_conc.
  Qed.
  Lemma spec_vars_conc m r pn dv ro sv n d :
    spec_vars pk fsem m r pn dv ro sv false n = VFrames d ->
    spec_vars pk fsem m r pn dv ro sv true n = match concat0 d with Ok x => VFrame x | Err e => VErr e end.
  Proof.
    unfold spec_vars. destruct (negb (dv || ro || sv)); [apply adjust_conc|apply spec_selected_conc].
  Qed.
  Lemma spec_rhs_conc m r n d :
    spec_rhs pk fsem m r n false = VFrames d ->
    spec_rhs pk fsem m r n true = match concat0 d with Ok x => VFrame x | Err e => VErr e end.
  Proof.
    unfold spec_rhs. destruct (canon_tables fsem m r) as [a|]; [|discriminate].
    destruct (spec_rhs_list fsem m a (r_pars r)); [|discriminate]. apply adjust_conc.
  Qed.

  Definition stacked (d : list (frame Q)) : out := match concat0 d with Ok x => VFrame x | Err e => VErr e end.

  Lemma concat_is_stack m r pn tbs st1 st2 d :
    wf_res r pn -> evaluable fsem m pn -> canon_tables fsem m r = Ok tbs ->
    good_state pn tbs st1 -> good_state pn tbs st2 ->
    (forall f n, fst (run_op fsem FX m r (OArgs f false n) st1) = VFrames d ->
                 fst (run_op fsem FX m r (OArgs f true n) st2) = stacked d)
    /\ (forall dv ro sv n, fst (run_op fsem FX m r (OVars dv ro sv false n) st1) = VFrames d ->
                 fst (run_op fsem FX m r (OVars dv ro sv true n) st2) = stacked d)
    /\ (forall surr n, fst (run_op fsem FX m r (OFluxes surr n false) st1) = VFrames d ->
                 fst (run_op fsem FX m r (OFluxes surr n true) st2) = stacked d)
    /\ (forall n, fst (run_op fsem FX m r (ORhs n false) st1) = VFrames d ->
                 fst (run_op fsem FX m r (ORhs n true) st2) = stacked d).
  Proof.
    intros Hwf Hev Hc G1 G2. unfold stacked.
    assert (S1 : forall o, is_view o = true -> fst (run_op fsem FX m r o st1) = spec_op pk fsem m r pn o)
      by (intros o; apply (run_op_spec m r pn tbs o st1 Hwf Hev Hc G1)).
    assert (S2 : forall o, is_view o = true -> fst (run_op fsem FX m r o st2) = spec_op pk fsem m r pn o)
      by (intros o; apply (run_op_spec m r pn tbs o st2 Hwf Hev Hc G2)).
    repeat split; intros.
    - rewrite S2 by reflexivity. rewrite S1 in H by reflexivity. apply spec_selected_conc. exact H.
    - rewrite S2 by reflexivity. rewrite S1 in H by reflexivity. apply spec_vars_conc. exact H.
    - rewrite S2 by reflexivity. rewrite S1 in H by reflexivity. apply spec_selected_conc. exact H.
    - rewrite S2 by reflexivity. rewrite S1 in H by reflexivity. apply spec_rhs_conc. exact H.
  Qed.

  Definition normalised (data : list (frame Q)) (n : norm) : out :=
    match normalise FX data n with Ok d => VFrames d | Err e => VErr e end.

  Lemma spec_selected_norm m r pn f n data :
    spec_selected pk fsem m r pn f NNone false = VFrames data ->
    spec_selected pk fsem m r pn f n false = normalised data n.
  Proof.
    unfold spec_selected, normalised. destruct (canon_tables fsem m r) as [a|]; [|discriminate].
    destruct (map_res (select_cols lookups (view_names m pn f)) a) as [l|]; [|discriminate].
    intro H. change (adjust FX (map qframe l) NNone false) with (VFrames (map qframe l)) in H.
    injection H as <-. apply adjust_norm.
  Qed.
  Lemma spec_vars_norm m r pn dv ro sv n data :
    spec_vars pk fsem m r pn dv ro sv false NNone = VFrames data ->
    spec_vars pk fsem m r pn dv ro sv false n = normalised data n.
  Proof.
    unfold spec_vars. destruct (negb (dv || ro || sv)); [|apply spec_selected_norm].
    intro H. unfold adjust in H. cbn [normalise] in H. injection H as <-. apply adjust_norm.
  Qed.
  Lemma spec_rhs_norm m r n data :
    spec_rhs pk fsem m r NNone false = VFrames data -> spec_rhs pk fsem m r n false = normalised data n.
  Proof.
    unfold spec_rhs, normalised. destruct (canon_tables fsem m r) as [a|]; [|discriminate].
    destruct (spec_rhs_list fsem m a (r_pars r)) as [l|]; [|discriminate].
    intro H. change (adjust FX (map qframe l) NNone false) with (VFrames (map qframe l)) in H.
    injection H as <-. apply adjust_norm.
  Qed.

  Lemma normalised_view m r pn tbs st1 st2 data :
    wf_res r pn -> evaluable fsem m pn -> canon_tables fsem m r = Ok tbs ->
    good_state pn tbs st1 -> good_state pn tbs st2 ->
    (forall f n, fst (run_op fsem FX m r (OArgs f false NNone) st1) = VFrames data ->
                 fst (run_op fsem FX m r (OArgs f false n) st2) = normalised data n)
    /\ (forall dv ro sv n, fst (run_op fsem FX m r (OVars dv ro sv false NNone) st1) = VFrames data ->
                 fst (run_op fsem FX m r (OVars dv ro sv false n) st2) = normalised data n)
    /\ (forall surr n, fst (run_op fsem FX m r (OFluxes surr NNone false) st1) = VFrames data ->
                 fst (run_op fsem FX m r (OFluxes surr n false) st2) = normalised data n)
    /\ (forall n, fst (run_op fsem FX m r (ORhs NNone false) st1) = VFrames data ->
                 fst (run_op fsem FX m r (ORhs n false) st2) = normalised data n).
  Proof.
    intros Hwf Hev Hc G1 G2.
    assert (S1 : forall o, is_view o = true -> fst (run_op fsem FX m r o st1) = spec_op pk fsem m r pn o)
      by (intros o; apply (run_op_spec m r pn tbs o st1 Hwf Hev Hc G1)).
    assert (S2 : forall o, is_view o = true -> fst (run_op fsem FX m r o st2) = spec_op pk fsem m r pn o)
      by (intros o; apply (run_op_spec m r pn tbs o st2 Hwf Hev Hc G2)).
    repeat split; intros.
    - rewrite S2 by reflexivity. rewrite S1 in H by reflexivity. apply spec_selected_norm. exact H.
    - rewrite S2 by reflexivity. rewrite S1 in H by reflexivity. apply spec_vars_norm. exact H.
    - rewrite S2 by reflexivity. rewrite S1 in H by reflexivity. apply spec_selected_norm. exact H.
    - rewrite S2 by reflexivity. rewrite S1 in H by reflexivity. apply spec_rhs_norm. exact H.
  Qed.

  Lemma prodcons_is_spec m r pn tbs st (neg : bool) v scaled n conc :
    wf_res r pn -> evaluable fsem m pn -> canon_tables fsem m r = Ok tbs -> good_state pn tbs st ->
    fst (run_op fsem FX m r (if neg then OConsumers v scaled n conc else OProducers v scaled n conc) st)
    = spec_prodcons pk fsem m r pn neg v scaled n conc.
  Proof.
    intros Hwf Hev Hc Hg. destruct neg; cbn [run_op]; apply (view_prodcons_spec m r pn tbs); assumption.
  Qed.
End Proofs.

(** * what [normalise] computes, branch by branch (fixed per-row branch) *)
Lemma normalise_scalar pk data q :
  is_zero q = false ->
  normalise (expected_facts pk) data (NScalar q) = Ok (map (fun f => div_frame f q) data).
Proof. intro H. cbn [normalise]. rewrite H. reflexivity. Qed.

Lemma normalise_per_segment pk data l :
  existsb is_zero l = false -> length l = length data ->
  normalise (expected_facts pk) data (NList l) = Ok (map (fun fq => div_frame (fst fq) (snd fq)) (combine data l)).
Proof. intros H Hl. cbn [normalise]. rewrite H, Hl, Nat.eqb_refl. reflexivity. Qed.

Lemma norm_rows_grouped : forall data qss,
  Forall2 (fun f qs => length qs = length (f_rows f)) data qss ->
  norm_rows data (concat qss) = Ok (map (fun fq => div_rows (fst fq) (snd fq)) (combine data qss)).
Proof.
  induction 1 as [|f qs data qss Hlen Hrest IH]; [reflexivity|].
  cbn [norm_rows concat combine map fst snd].
  rewrite <- Hlen. rewrite firstn_app, Nat.sub_diag, firstn_all, firstn_O, app_nil_r, Nat.eqb_refl.
  rewrite skipn_app, Nat.sub_diag, skipn_all, skipn_O. cbn [app]. rewrite IH. reflexivity.
Qed.

Lemma normalise_per_row pk data qss :
  existsb is_zero (concat qss) = false -> length (concat qss) <> length data ->
  Forall2 (fun f qs => length qs = length (f_rows f)) data qss ->
  normalise (expected_facts pk) data (NList (concat qss))
  = Ok (map (fun fq => div_rows (fst fq) (snd fq)) (combine data qss)).
Proof.
  intros H Hne Hf. cbn [normalise]. rewrite H.
  destruct (Nat.eqb_spec (length (concat qss)) (length data)) as [E|_]; [contradiction|].
  change (rf_norm_rows (expected_facts pk)) with NRFixed. cbn match. apply norm_rows_grouped. exact Hf.
Qed.

(** * which fluxes the repaired producers / consumers list: exactly the factors whose signed coefficient
      is positive in some reported row of some segment *)
Lemma pos_somewhere_spec coefs j :
  pos_somewhere coefs j = true <-> exists rows row, In rows coefs /\ In row rows /\ 0 < nth j row 0.
Proof.
  unfold pos_somewhere. rewrite existsb_exists. split.
  - intros [rows [Hin H]]. apply existsb_exists in H. destruct H as [row [Hr H]].
    exists rows, row. split; [exact Hin|]. split; [exact Hr|]. apply Z.ltb_lt. exact H.
  - intros [rows [row [Hin [Hr H]]]]. exists rows. split; [exact Hin|]. apply existsb_exists.
    exists row. split; [exact Hr|]. apply Z.ltb_lt. exact H.
Qed.

Lemma indexed_from_in {A} (l : list A) : forall k j x,
  In (j, x) (combine (seq k (length l)) l) <-> (k <= j)%nat /\ nth_error l (j - k) = Some x.
Proof.
  induction l as [|y l IH]; intros k j x; cbn [length seq combine In].
  - split; [intros []|]. intros [_ H]. destruct (j - k)%nat; discriminate.
  - rewrite IH. split.
    + intros [E|[Hle Hn]].
      * injection E as <- <-. split; [lia|]. rewrite Nat.sub_diag. reflexivity.
      * split; [lia|]. replace (j - k)%nat with (S (j - S k)) by lia. exact Hn.
    + intros [Hle Hn]. destruct (Nat.eq_dec j k) as [->|Hne].
      * left. rewrite Nat.sub_diag in Hn. cbn in Hn. injection Hn as <-. reflexivity.
      * right. split; [lia|]. replace (j - k)%nat with (S (j - S k)) in Hn by lia. exact Hn.
Qed.

Lemma kept_spec fs coefs j rn :
  In (j, rn) (kept fs coefs) <->
  (exists c, nth_error fs j = Some (rn, c)) /\
  exists rows row, In rows coefs /\ In row rows /\ 0 < nth j row 0.
Proof.
  unfold kept, indexed. rewrite in_map_iff. split.
  - intros [[j' [rn' c]] [E Hin]]. cbn [fst snd] in E. injection E as -> ->.
    apply filter_In in Hin. destruct Hin as [Hin Hp]. cbn [fst] in Hp.
    apply indexed_from_in in Hin. destruct Hin as [_ Hn]. rewrite Nat.sub_0_r in Hn.
    split; [exists c; exact Hn|]. apply pos_somewhere_spec. exact Hp.
  - intros [[c Hn] Hp]. exists (j, (rn, c)). split; [reflexivity|].
    apply filter_In. split; [|cbn [fst]; apply pos_somewhere_spec; exact Hp].
    apply indexed_from_in. split; [lia|]. rewrite Nat.sub_0_r. exact Hn.
Qed.

Lemma mask_cell_spec scaled q c :
  (0 < c -> mask_cell scaled q c = Some (if scaled then (q * inject_Z c)%Q else q)) /\
  (c <= 0 -> mask_cell scaled q c = None).
Proof. unfold mask_cell. destruct (Z.ltb_spec 0 c); split; intro; try reflexivity; lia. Qed.

(** * reading a result never changes the parameter values of the shared model (since /repo 4167248)

    For the bodies the tree has ([expected_facts PKRows]): every read leaves [s_cur] exactly as found; only the
    user's own [model.update_parameter] changes it.  Hence, at any position of any sequence of reads and user
    edits, [model.get_parameter_values()] shows what the user last set. *)
Section Keeps.
  Variable fsem : fnid -> list Z -> Z.
  Notation FXR := (expected_facts PKRows).

  Lemma run_op_keeps m r pn tbs o st :
    wf_res r pn -> evaluable fsem m pn -> canon_tables fsem m r = Ok tbs -> good_state pn tbs st ->
    s_cur (snd (run_op fsem FXR m r o st)) = user_edit o (s_cur st).
  Proof.
    intros Hwf Hev Hc Hg.
    assert (PC : forall neg v scaled n conc,
               s_cur (snd (view_prodcons fsem FXR m r neg v scaled n conc st)) = s_cur st).
    { intros. unfold view_prodcons. change (rf_prod FXR) with PKRows. cbn match.
      destruct (view_prodcons_rows_spec PKRows fsem m r pn tbs st neg v scaled n conc Hwf Hev Hc Hg) as [_ [_ K]]. exact K. }
    destruct o; cbn [run_op user_edit].
    - destruct (view_selected_spec PKRows fsem m r pn tbs st f n conc Hwf Hev Hc Hg) as [_ [_ K]]. exact K.
    - destruct (view_vars_spec PKRows fsem m r pn tbs st dv ro sv conc n Hwf Hev Hc Hg) as [_ [_ K]]. exact K.
    - destruct (view_selected_spec PKRows fsem m r pn tbs st (flags_fluxes surr) n conc Hwf Hev Hc Hg) as [_ [_ K]]. exact K.
    - destruct (view_vars_spec PKRows fsem m r pn tbs st true true true true NNone Hwf Hev Hc Hg) as [_ [_ K]]. exact K.
    - destruct (view_selected_spec PKRows fsem m r pn tbs st (flags_fluxes true) NNone true Hwf Hev Hc Hg) as [_ [_ K]]. exact K.
    - destruct (view_vars_spec PKRows fsem m r pn tbs st true true true true NNone Hwf Hev Hc Hg) as [_ [G1 K1]].
      destruct (view_vars fsem FXR m r true true true true NNone st) as [a st1]. cbn [fst snd] in G1, K1.
      destruct a; cbn [fst snd]; try exact K1.
      destruct (view_selected_spec PKRows fsem m r pn tbs st1 (flags_fluxes true) NNone true Hwf Hev Hc G1) as [_ [_ K2]].
      destruct (view_selected fsem FXR m r (flags_fluxes true) NNone true st1) as [b st2]. cbn [fst snd] in K2.
      destruct b; cbn [fst snd]; rewrite K2; exact K1.
    - destruct (view_rhs_spec PKRows fsem m r pn tbs st n conc Hwf Hc Hg) as [_ [_ K]]. exact K.
    - apply PC.
    - apply PC.
    - destruct (view_vars_spec PKRows fsem m r pn tbs st false false false true NNone Hwf Hev Hc Hg) as [_ [_ K1]].
      destruct (view_vars fsem FXR m r false false false true NNone st) as [a st1]. cbn [fst snd] in K1.
      destruct a; cbn [fst snd]; try exact K1.
      destruct (rev (f_rows f)); cbn [fst snd]; exact K1.
    - destruct (lookup k (s_cur st)); reflexivity.
    - reflexivity.
  Qed.

  Lemma final_state_pars m r pn tbs :
    wf_res r pn -> evaluable fsem m pn -> canon_tables fsem m r = Ok tbs ->
    forall os st, good_state pn tbs st ->
      s_cur (final_state fsem FXR m r os st) = user_edits os (s_cur st)
      /\ good_state pn tbs (final_state fsem FXR m r os st).
  Proof.
    intros Hwf Hev Hc. induction os as [|o os IH]; intros st Hg; cbn [final_state user_edits].
    - split; [reflexivity|exact Hg].
    - destruct (run_op_spec PKRows fsem m r pn tbs o st Hwf Hev Hc Hg) as [_ G].
      destruct (IH _ G) as [E G']. rewrite E. rewrite (run_op_keeps m r pn tbs o st Hwf Hev Hc Hg).
      split; [reflexivity|exact G'].
  Qed.

  (** what [model.get_parameter_values()] shows at position [i] of any sequence: the user's edits so far *)
  Lemma model_pars_in_sequences m r pn tbs :
    wf_res r pn -> evaluable fsem m pn -> canon_tables fsem m r = Ok tbs ->
    forall os st i, good_state pn tbs st -> nth_error os i = Some OModelPars ->
      nth_error (run_ops fsem FXR m r os st) i = Some (pars_dict (user_edits (firstn i os) (s_cur st))).
  Proof.
    intros Hwf Hev Hc. induction os as [|o os IH]; intros st i Hg Hn.
    - destruct i; discriminate.
    - cbn [run_ops].
      pose proof (run_op_keeps m r pn tbs o st Hwf Hev Hc Hg) as K.
      destruct (run_op_spec PKRows fsem m r pn tbs o st Hwf Hev Hc Hg) as [_ G].
      destruct (run_op fsem FXR m r o st) as [x st'] eqn:Er. cbn [fst snd] in K, G.
      destruct i as [|i]; cbn [nth_error firstn user_edits] in *.
      + injection Hn as ->. cbn [run_op] in Er. injection Er as <- _. reflexivity.
      + rewrite (IH st' i G Hn). rewrite K. reflexivity.
  Qed.
End Keeps.

(** * the concatenated frame has EVERY row of every segment, in order -- also when two segments report the same time *)
Lemma length_concat_rows (l : list (frame Q)) :
  length (concat (map f_rows l)) = list_sum (map (fun x => length (f_rows x)) l).
Proof.
  induction l as [|x l IH]; [reflexivity|].
  cbn [map concat]. rewrite app_length, IH. reflexivity.
Qed.

Lemma concat0_rows data f :
  concat0 data = Ok f ->
  f_idx f = concat (map f_idx data) /\ f_rows f = concat (map f_rows data)
  /\ length (f_rows f) = list_sum (map (fun x => length (f_rows x)) data).
Proof.
  unfold concat0. destruct data as [|f0 rest]; [discriminate|]. intro H. injection H as <-. cbn [f_idx f_rows].
  split; [reflexivity|]. split; [reflexivity|]. exact (length_concat_rows (f0 :: rest)).
Qed.
