(** C10 -- "stoichiometry times reported fluxes equals reported derivatives": the specification side.
    NO proofs in this file.

    [nv_table m tb] is computed from the REPORTED table [tb] of one segment (the frame
    Simulation.get_args shows: every value, parameter, derived value, flux and readout of every row)
    and from the DECLARED stoichiometries [r_st] of the reactions only -- it never looks at the model
    cache, at the static/dynamic split, at the coefficient dictionaries by compound, or at any
    parameter state of the shared model:

      cell (row, x)  =  sum over the reactions r in declaration order of  N[x, r](row) * v_r(row)

    with v_r(row) the reported flux of r in that row and N[x, r](row) the declared coefficient of x
    in r: a number, or the coefficient function applied to the values REPORTED in that row (so a
    coefficient computed from parameters is taken under the parameter values shown for that row,
    i.e. the segment's; one computed from states/time at that row's state and time); 0 when r does
    not mention x.  A name that is not reported makes the sum undefined ([None]). *)
From Coq Require Import List NArith ZArith QArith Bool.
From MxlBase Require Import ListX.
From SimRes Require Import ResModel.
Import ListNotations.
Local Open Scope Z_scope.

Definition oadd (a b : option Z) : option Z :=
  match a, b with Some x, Some y => Some (x + y) | _, _ => None end.
Definition omul (a b : option Z) : option Z :=
  match a, b with Some x, Some y => Some (x * y) | _, _ => None end.

Section Nv.
  Variable fsem : fnid -> list Z -> Z.

  (** [coef_val fsem e c] (ResModel.v): the declared coefficient [c] evaluated on the values of one row;
      [row_env tb (t, row)] (ResModel.v): the values reported for one row, time = the index *)

  (** N[x, r](row) * v_r(row) *)
  Definition nv_term (e : env) (x rn : name) (r : rxn) : option Z :=
    match lookup x (r_st r) with
    | None => Some 0
    | Some c => omul (coef_val fsem e c) (lookup rn e)
    end.

  Fixpoint nv_sum (e : env) (x : name) (rs : list (name * rxn)) : option Z :=
    match rs with
    | [] => Some 0
    | (rn, r) :: rest => oadd (nv_term e x rn r) (nv_sum e x rest)
    end.

  Definition nv_row (m : model) (e : env) : option (list Z) :=
    map_opt (fun x => nv_sum e x (m_rxn m)) (map fst (m_vars m)).

  Definition nv_table (m : model) (tb : frame Z) : res (frame Z) :=
    match map_res (fun tr => of_opt EKey (nv_row m (row_env tb tr))) (combine (f_idx tb) (f_rows tb)) with
    | Err e => Err e
    | Ok rows => Ok (mkFrame (f_idx tb) (map fst (m_vars m)) rows)
    end.
End Nv.

(** names of a model as [Model._insert_id] guarantees them: "time" is protected, every variable,
    parameter, derived value, reaction and readout has its own name ([m_order] lists the derived
    values and reactions); the keys of the reaction dict and of each stoichiometry dict are unique *)
Definition wf_names (m : model) (pn : list name) : Prop :=
  NoDup (time_name :: map fst (m_vars m) ++ pn ++ m_order m ++ map fst (m_ro m)) /\
  NoDup (map fst (m_rxn m)) /\
  Forall (fun nr => NoDup (map fst (r_st (snd nr)))) (m_rxn m).

Fixpoint nodupN (l : list N) : bool :=
  match l with
  | [] => true
  | x :: r => negb (memN x r) && nodupN r
  end.

(** boolean form, evaluated on every generated model by the correspondence *)
Definition wf_namesb (m : model) (pn : list name) : bool :=
  nodupN (time_name :: map fst (m_vars m) ++ pn ++ m_order m ++ map fst (m_ro m))
  && nodupN (map fst (m_rxn m))
  && forallb (fun nr => nodupN (map fst (r_st (snd nr)))) (m_rxn m).
