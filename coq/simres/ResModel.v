(** C10 -- executable model of [mxlpy.simulation.Simulation] (result views) and of the parts of
    [mxlpy.model.Model] the views go through.  NO proofs in this file.

    Layer A (Model): [create_cache] (one evaluation pass at t=0, static/dynamic split through the
    growing [all_parameter_names], static/dynamic coefficient tables with dict semantics),
    [_get_args] + readouts, [get_arg_names], [get_args_time_course], [_get_right_hand_side],
    [get_right_hand_side_time_course], [get_stoichiometries_of_variable], [update_parameter(s)].
    The cache is a pure function of (structure, current parameter values): [update_parameter]
    carries [@_invalidate_cache] (pinned fact [rf_model_shape]).  The evaluation order
    ([cache.order], the sorter's result -- property C02) is an INPUT of the model ([m_order]).
    Not modelled (no such components are generated): surrogates, data, initial assignments
    (assignment-defined parameters are exercised by the harness oracle only, see design/C10.md).

    Layer B (Simulation): a result is segments + per-segment parameter dicts; the mutable state
    touched by reading a view is (current parameter values of the shared model, raw_args).
    Every view is a state transition [state -> out * state].

    Values are [Z] (the harness uses an exact integer integrator and polynomial functions);
    view outputs are [Q] because normalisation divides. *)
From Coq Require Import List NArith ZArith QArith Bool.
From MxlBase Require Import ListX.
Import ListNotations.
Local Open Scope Z_scope.

Definition name := N.
Definition fnid := N.
Definition time_name : name := 0%N.
Definition env := list (name * Z).

(** [EShape]: the source has a shape the model does not know ([VKUnknown]); the harness never reports it,
    so it is equal to no observed outcome *)
Inductive err := EKey | EValue | EIndex | ENonFinite | EShape.
Inductive res (A : Type) := Ok (a : A) | Err (e : err).
Arguments Ok {A} a.
Arguments Err {A} e.

Definition bind {A B} (r : res A) (f : A -> res B) : res B :=
  match r with Ok a => f a | Err e => Err e end.
Definition of_opt {A} (e : err) (o : option A) : res A :=
  match o with Some a => Ok a | None => Err e end.

Fixpoint map_res {A B} (f : A -> res B) (l : list A) : res (list B) :=
  match l with
  | [] => Ok []
  | x :: r => match f x with
              | Err e => Err e
              | Ok y => match map_res f r with Err e => Err e | Ok ys => Ok (y :: ys) end
              end
  end.

Fixpoint map_opt {A B} (f : A -> option B) (l : list A) : option (list B) :=
  match l with
  | [] => Some []
  | x :: r => match f x, map_opt f r with Some y, Some ys => Some (y :: ys) | _, _ => None end
  end.

(** dictionaries = insertion-ordered association lists *)
Fixpoint lookup {A} (n : name) (e : list (name * A)) : option A :=
  match e with
  | [] => None
  | (k, v) :: r => if N.eqb n k then Some v else lookup n r
  end.

Fixpoint lookups (ns : list name) (e : env) : option (list Z) :=
  match ns with
  | [] => Some []
  | n :: r => match lookup n e, lookups r e with
              | Some v, Some vs => Some (v :: vs)
              | _, _ => None
              end
  end.

(** [d[k] = v] : overwrite in place or append *)
Fixpoint set_assoc {A} (k : name) (v : A) (d : list (name * A)) : list (name * A) :=
  match d with
  | [] => [(k, v)]
  | (k', v') :: r => if N.eqb k k' then (k, v) :: r else (k', v') :: set_assoc k v r
  end.

Definition get_or_nil {A} (k : name) (d : list (name * list A)) : list A :=
  match lookup k d with Some l => l | None => [] end.
(** [d.setdefault(cpd, {})] *)
Definition touch {A} (cpd : name) (d : list (name * list A)) : list (name * list A) :=
  match lookup cpd d with Some _ => d | None => d ++ [(cpd, [])] end.
(** [d.setdefault(cpd, {})[rxn] = v] *)
Definition set_inner {A} (cpd rxn : name) (v : A) (d : list (name * list (name * A))) :=
  set_assoc cpd (set_assoc rxn v (get_or_nil cpd d)) d.

(* ------------------------------------------------------------------------------------ *)
(** * Layer A: the Model *)

Inductive coef := CStat (z : Z) | CDyn (f : fnid) (args : list name).
Record fncall := mkCall { fc_fn : fnid; fc_args : list name }.
Record rxn := mkRxn { r_call : fncall; r_st : list (name * coef) }.
Record model := mkModel {
  m_vars : list (name * Z);          (* _variables: name -> initial value *)
  m_der : list (name * fncall);      (* _derived, declaration order *)
  m_rxn : list (name * rxn);         (* _reactions, declaration order *)
  m_ro : list (name * fncall);       (* _readouts, declaration order *)
  m_order : list name                (* cache.order: result of _sort_dependencies (C02) *)
}.

Record cache := mkCache {
  c_dyn_order : list name;
  c_apv : env;                                        (* all_parameter_values *)
  c_stat : list (name * list (name * Z));             (* stoich_by_cpds *)
  c_dyn : list (name * list (name * fncall));         (* dyn_stoich_by_cpds *)
  c_init : env                                        (* initial_conditions *)
}.

Record frame (A : Type) := mkFrame { f_idx : list Z; f_cols : list name; f_rows : list (list A) }.
Arguments mkFrame {A} _ _ _.
Arguments f_idx {A} _.
Arguments f_cols {A} _.
Arguments f_rows {A} _.

Section Sem.
  Variable fsem : fnid -> list Z -> Z.   (* what CPython computes for a rate function *)

  (** [fn] applied to [args[a] for a in el.args]; a missing name is a KeyError ([None]) *)
  Definition calc (c : fncall) (e : env) : option Z :=
    match lookups (fc_args c) e with Some vs => Some (fsem (fc_fn c) vs) | None => None end.

  (** [to_sort = derived | reactions] / [containers = derived | reactions] *)
  Definition comp_call (m : model) (n : name) : option fncall :=
    match lookup n (m_rxn m) with
    | Some r => Some (r_call r)
    | None => lookup n (m_der m)
    end.

  (** [for name in order: container[name].calculate_inpl(name, args)] *)
  Fixpoint eval_names (m : model) (ns : list name) (e : env) : option env :=
    match ns with
    | [] => Some e
    | n :: r => match comp_call m n with
                | None => None
                | Some c => match calc c e with
                            | None => None
                            | Some v => eval_names m r ((n, v) :: e)
                            end
                end
    end.

  (** [for name, ro in readouts.items(): ro.calculate_inpl(name, args)] *)
  Fixpoint eval_calls (cs : list (name * fncall)) (e : env) : option env :=
    match cs with
    | [] => Some e
    | (n, c) :: r => match calc c e with None => None | Some v => eval_calls r ((n, v) :: e) end
    end.

  (** static/dynamic split: returns (all_parameter_names, static_order, dyn_order); depends on
      the parameter NAMES only *)
  Fixpoint classify (m : model) (ns : list name) (pn st dy : list name)
    : option (list name * list name * list name) :=
    match ns with
    | [] => Some (pn, st, dy)
    | n :: r =>
        match lookup n (m_rxn m) with
        | Some _ => classify m r pn st (dy ++ [n])
        | None =>
            match lookup n (m_der m) with
            | None => None                                   (* self._derived[name]: KeyError *)
            | Some c => if forallb (fun a => memN a pn) (fc_args c)
                        then classify m r (pn ++ [n]) (st ++ [n]) dy
                        else classify m r pn st (dy ++ [n])
            end
        end
    end.

  Definition stoich_tables := (list (name * list (name * Z)) * list (name * list (name * fncall)))%type.

  Fixpoint stoich_entries (pn : list name) (dep : env) (rn : name) (st : list (name * coef))
           (acc : stoich_tables) : option stoich_tables :=
    match st with
    | [] => Some acc
    | (cpd, factor) :: r =>
        let stat := touch cpd (fst acc) in
        match factor with
        | CStat z => stoich_entries pn dep rn r (set_inner cpd rn z stat, snd acc)
        | CDyn f args =>
            if forallb (fun a => memN a pn) args
            then match calc (mkCall f args) dep with
                 | None => None
                 | Some v => stoich_entries pn dep rn r (set_inner cpd rn v stat, snd acc)
                 end
            else stoich_entries pn dep rn r (stat, set_inner cpd rn (mkCall f args) (snd acc))
        end
    end.

  Fixpoint stoich_rxns (pn : list name) (dep : env) (rs : list (name * rxn)) (acc : stoich_tables)
    : option stoich_tables :=
    match rs with
    | [] => Some acc
    | (rn, r) :: rest => match stoich_entries pn dep rn (r_st r) acc with
                         | None => None
                         | Some acc' => stoich_rxns pn dep rest acc'
                         end
    end.

  (** [Model._create_cache] under the current parameter values [cur] *)
  Definition create_cache (m : model) (cur : env) : option cache :=
    let env0 := (time_name, 0) :: m_vars m ++ cur in
    match eval_names m (m_order m) env0 with
    | None => None
    | Some dep =>
        match classify m (m_order m) (map fst cur) [] [] with
        | None => None
        | Some (pn, st, dy) =>
            match stoich_rxns pn dep (m_rxn m) ([], []) with
            | None => None
            | Some (stat, dyn) =>
                match lookups st dep, lookups (map fst (m_vars m)) dep with
                | Some svals, Some ivals =>
                    Some (mkCache dy (cur ++ combine st svals) stat dyn (combine (map fst (m_vars m)) ivals))
                | _, _ => None
                end
            end
        end
    end.

  (** [Model._get_args]: cached static values | variables | time, then the dynamic components *)
  Definition get_args_env (m : model) (c : cache) (vars : env) (t : Z) : option env :=
    eval_names m (c_dyn_order c) ((time_name, t) :: vars ++ c_apv c).

  Record flags := mkFlags { fl_var : bool; fl_par : bool; fl_dpar : bool; fl_dvar : bool;
                            fl_rxn : bool; fl_svar : bool; fl_sflux : bool; fl_ro : bool }.
  Definition all_flags := mkFlags true true true true true true true true.

  Definition sel (b : bool) (l : list name) : list name := if b then l else [].

  (** [Model.get_arg_names(include_time=False, ...)]: variables, parameters, derived variables,
      derived parameters, reactions, (surrogates: none), readouts.  [apn] = keys of
      [cache.all_parameter_values] *)
  Definition arg_names (m : model) (pnames apn : list name) (f : flags) : list name :=
    sel (fl_var f) (map fst (m_vars m))
    ++ sel (fl_par f) pnames
    ++ sel (fl_dvar f) (filter (fun n => negb (memN n apn)) (map fst (m_der m)))
    ++ sel (fl_dpar f) (filter (fun n => memN n apn) (map fst (m_der m)))
    ++ sel (fl_rxn f) (map fst (m_rxn m))
    ++ sel (fl_ro f) (map fst (m_ro m)).

  Definition names_of (m : model) (cur : env) (f : flags) : res (list name) :=
    match create_cache m cur with
    | None => Err EKey
    | Some c => Ok (arg_names m (map fst cur) (map fst (c_apv c)) f)
    end.

  Definition seg := list (Z * list Z).   (* one raw_variables frame: (time, values in variable order) *)

  (** one row of [get_args_time_course(..., everything included)] *)
  Definition args_row (m : model) (c : cache) (names : list name) (row : Z * list Z) : option (list Z) :=
    match get_args_env m c (combine (map fst (m_vars m)) (snd row)) (fst row) with
    | None => None
    | Some e => match eval_calls (m_ro m) e with
                | None => None
                | Some e' => lookups names e'
                end
    end.

  (** [Model.get_args_time_course(variables=seg, include_* = True)] under parameters [cur] *)
  Definition args_table (m : model) (cur : env) (s : seg) : res (frame Z) :=
    match create_cache m cur with
    | None => Err EKey
    | Some c =>
        let names := arg_names m (map fst cur) (map fst (c_apv c)) all_flags in
        match map_res (fun row => of_opt EKey (args_row m c names row)) s with
        | Err e => Err e
        | Ok rows => Ok (mkFrame (map fst s) names rows)
        end
    end.

  (** [dxdt[k] += d] on a Series indexed by the variable names (KeyError for another key) *)
  Fixpoint add_to (k : name) (d : Z) (dx : env) : option env :=
    match dx with
    | [] => None
    | (k', v) :: r => if N.eqb k k' then Some ((k', v + d) :: r)
                      else match add_to k d r with Some r' => Some ((k', v) :: r') | None => None end
    end.

  Fixpoint rhs_stat_inner (k : name) (stoc : list (name * Z)) (e dx : env) : option env :=
    match stoc with
    | [] => Some dx
    | (flux, n) :: r => match lookup flux e with
                        | None => None
                        | Some v => match add_to k (n * v) dx with
                                    | None => None
                                    | Some dx' => rhs_stat_inner k r e dx'
                                    end
                        end
    end.
  Fixpoint rhs_stat (tb : list (name * list (name * Z))) (e dx : env) : option env :=
    match tb with
    | [] => Some dx
    | (k, stoc) :: r => match rhs_stat_inner k stoc e dx with None => None | Some dx' => rhs_stat r e dx' end
    end.
  Fixpoint rhs_dyn_inner (k : name) (sd : list (name * fncall)) (e dx : env) : option env :=
    match sd with
    | [] => Some dx
    | (flux, dv) :: r => match calc dv e, lookup flux e with
                         | Some n, Some v => match add_to k (n * v) dx with
                                             | None => None
                                             | Some dx' => rhs_dyn_inner k r e dx'
                                             end
                         | _, _ => None
                         end
    end.
  Fixpoint rhs_dyn (tb : list (name * list (name * fncall))) (e dx : env) : option env :=
    match tb with
    | [] => Some dx
    | (k, sd) :: r => match rhs_dyn_inner k sd e dx with None => None | Some dx' => rhs_dyn r e dx' end
    end.

  (** [Model._get_right_hand_side(args=e, var_names, cache)] *)
  Definition rhs_row (m : model) (c : cache) (e : env) : option (list Z) :=
    let dx0 := map (fun kv => (fst kv, 0)) (m_vars m) in
    match rhs_stat (c_stat c) e dx0 with
    | None => None
    | Some dx1 => match rhs_dyn (c_dyn c) e dx1 with
                  | None => None
                  | Some dx2 => Some (map snd dx2)
                  end
    end.

  (** [Model.get_right_hand_side_time_course(args=tb)] under [cur]; each row is
      [variables.to_dict() | {"time": time}] *)
  Definition rhs_table (m : model) (cur : env) (tb : frame Z) : res (frame Z) :=
    match create_cache m cur with
    | None => Err EKey
    | Some c =>
        match map_res (fun tr => of_opt EKey (rhs_row m c ((time_name, fst tr) :: combine (f_cols tb) (snd tr))))
                      (combine (f_idx tb) (f_rows tb)) with
        | Err e => Err e
        | Ok rows => Ok (mkFrame (f_idx tb) (map fst (m_vars m)) rows)
        end
    end.

  Fixpoint dyn_into (sd : list (name * fncall)) (e : env) (sto : list (name * Z)) : option (list (name * Z)) :=
    match sd with
    | [] => Some sto
    | (rn, d) :: r => match calc d e with None => None | Some v => dyn_into r e (set_assoc rn v sto) end
    end.

  (** [Model.get_stoichiometries_of_variable(variable)] (variables=None, time=0.0) *)
  Definition stoich_of_variable (m : model) (cur : env) (v : name) : res (list (name * Z)) :=
    match create_cache m cur with
    | None => Err EKey
    | Some c =>
        match get_args_env m c (c_init c) 0 with
        | None => Err EKey
        | Some e =>
            match lookup v (c_stat c) with
            | None => Err EKey
            | Some sto => of_opt EKey (dyn_into (get_or_nil v (c_dyn c)) e sto)
            end
        end
    end.

  (** [Model.update_parameters(p)]: one [update_parameter] per item; an unknown name raises
      KeyError AFTER the earlier items were written *)
  Fixpoint apply_params (p cur : env) : env * bool :=
    match p with
    | [] => (cur, true)
    | (k, v) :: r => match lookup k cur with
                     | None => (cur, false)
                     | Some _ => apply_params r (set_assoc k v cur)
                     end
    end.

  (** a declared coefficient evaluated on the values of one row *)
  Definition coef_val (e : env) (c : coef) : option Z :=
    match c with
    | CStat z => Some z
    | CDyn f args => calc (mkCall f args) e
    end.

  (** the values reported for one row of a table ([row.to_dict() | {"time": time}]) *)
  Definition row_env (tb : frame Z) (tr : Z * list Z) : env :=
    (time_name, fst tr) :: combine (f_cols tb) (snd tr).

  (* ---------------------------------------------------------------------------------- *)
  (** * Layer B: the Simulation *)

  Inductive norm_rows_kind := NRFixed | NRRebindEmpty | NRUnknown.
  (** get_producers / get_consumers: [PKFirst] = the snapshot's bodies (sign decided once, under the
      first segment's parameters at the model's initial state); [PKRows] = the repaired bodies
      (fixes/C10-prodcons-per-segment.diff: coefficient evaluated on every reported row) *)
  Inductive prod_kind := PKFirst | PKRows | PKUnknown.
  (** what a model-evaluating view does to the parameter values of the SHARED model:
      [VKRestores]   (since /repo 4167248) [_compute_args] and [get_right_hand_side] remember the values in
                     force ([_parameters_in_force()]), re-apply each segment's parameters inside [try:] and put
                     back what they found in [finally:]; [_get_fluxes_by_sign] has no trailing
                     [update_parameters(self.raw_parameters[-1])];
      [VKLeavesLast] the bodies before that commit: nothing is put back, the model is left at the LAST
                     segment's parameters (a read undid a user's update_parameter);
      [VKUnknown]    any other shape: the views that go through the mechanism answer [EShape]. *)
  Inductive view_kind := VKRestores | VKLeavesLast | VKUnknown.
  Record res_facts := mkResFacts {
    rf_norm_rows : norm_rows_kind;   (* per-row branch of _normalise_split_results *)
    rf_fill_guard : bool;            (* _compute_args: `if len(self.raw_args) > 0: return self.raw_args` *)
    rf_fill_reapply : bool;          (* _compute_args: update_parameters(p) before each segment's table *)
    rf_rhs_reapply : bool;           (* get_right_hand_side: update_parameters(p) per segment *)
    rf_prod : prod_kind;             (* which bodies get_producers / get_consumers have *)
    rf_select_adjust_shape : bool;   (* _select_data / _adjust_data / scalar + per-segment branches *)
    rf_views_shape : bool;           (* get_args/get_variables/get_fluxes/get_combined/get_new_y0/properties *)
    rf_model_shape : bool;           (* model.py: update_parameter(s), get_arg_names, rhs time course, stoichiometries *)
    rf_view : view_kind              (* do the views put the model's parameter values back? *)
  }.

  Record simres := mkRes { r_segs : list seg; r_pars : list env }.
  Record state := mkSt { s_cur : env; s_raw : list (frame Z) }.

  Inductive norm := NNone | NScalar (q : Q) | NList (l : list Q).

  Inductive op :=
  | OArgs (f : flags) (conc : bool) (n : norm)
  | OVars (dv ro sv conc : bool) (n : norm)
  | OFluxes (surr : bool) (n : norm) (conc : bool)
  | OPropVariables
  | OPropFluxes
  | OCombined
  | ORhs (n : norm) (conc : bool)
  | OProducers (v : name) (scaled : bool) (n : norm) (conc : bool)
  | OConsumers (v : name) (scaled : bool) (n : norm) (conc : bool)
  | ONewY0
  | OUserUpd (k : name) (v : Z)     (* the user calls model.update_parameter(k, v) *)
  | OModelPars.                     (* observe model.get_parameter_values() *)

  Inductive out :=
  | VFrame (f : frame Q)
  | VFrames (l : list (frame Q))
  | VMFrame (f : frame (option Q))           (* a frame with NaN cells ([None]) *)
  | VMFrames (l : list (frame (option Q)))
  | VDict (d : list (name * Q))
  | VUnit
  | VErr (e : err)
  | VOther.                         (* an outcome outside the model: equal to nothing *)

  Definition qframe (f : frame Z) : frame Q :=
    mkFrame (f_idx f) (f_cols f) (map (map inject_Z) (f_rows f)).
  Definition seg_frame (m : model) (s : seg) : frame Z :=
    mkFrame (map fst s) (map fst (m_vars m)) (map snd s).

  Definition div_frame (f : frame Q) (q : Q) : frame Q :=
    mkFrame (f_idx f) (f_cols f) (map (map (fun c => (c / q)%Q)) (f_rows f)).
  Definition div_rows (f : frame Q) (qs : list Q) : frame Q :=
    mkFrame (f_idx f) (f_cols f)
            (map (fun rq => map (fun c => (c / snd rq)%Q) (fst rq)) (combine (f_rows f) qs)).

  (** fixed per-row branch: [end = start + len(i)]; [i / reshape(normalise[start:end], (len(i),1))];
      [start = end] *)
  Fixpoint norm_rows (data : list (frame Q)) (l : list Q) : res (list (frame Q)) :=
    match data with
    | [] => Ok []
    | f :: r =>
        let k := length (f_rows f) in
        let sl := firstn k l in
        if Nat.eqb (length sl) k
        then match norm_rows r (skipn k l) with
             | Err e => Err e
             | Ok r' => Ok (div_rows f sl :: r')
             end
        else Err EValue                       (* np.reshape: cannot reshape *)
    end.

  Definition is_zero (q : Q) : bool := Qeq_bool q 0.

  (** [_normalise_split_results]; a zero factor gives inf/nan in pandas: distinguished outcome *)
  Definition normalise (fx : res_facts) (data : list (frame Q)) (n : norm) : res (list (frame Q)) :=
    match n with
    | NNone => Ok data
    | NScalar q => if is_zero q then Err ENonFinite else Ok (map (fun f => div_frame f q) data)
    | NList l =>
        if existsb is_zero l then Err ENonFinite
        else if Nat.eqb (length l) (length data)
        then Ok (map (fun fq => div_frame (fst fq) (snd fq)) (combine data l))
        else match rf_norm_rows fx with
             | NRFixed => norm_rows data l
             | NRRebindEmpty => Ok []         (* `results = []` before `for i in results` *)
             | NRUnknown => Err EValue
             end
    end.

  (** [pd.concat(data, axis=0)] of frames with equal columns *)
  Definition concat0 (data : list (frame Q)) : res (frame Q) :=
    match data with
    | [] => Err EValue                        (* No objects to concatenate *)
    | f :: _ => Ok (mkFrame (concat (map f_idx data)) (f_cols f) (concat (map f_rows data)))
    end.

  (** [Simulation._adjust_data] *)
  Definition adjust (fx : res_facts) (data : list (frame Q)) (n : norm) (conc : bool) : out :=
    match normalise fx data n with
    | Err e => VErr e
    | Ok d => if conc then match concat0 d with Ok f => VFrame f | Err e => VErr e end
              else VFrames d
    end.

  (** [frame.loc[:, names]] *)
  Definition select_cols {A} (look : list name -> list (name * A) -> option (list A))
             (names : list name) (f : frame A) : res (frame A) :=
    match map_res (fun row => of_opt EKey (look names (combine (f_cols f) row))) (f_rows f) with
    | Err e => Err e
    | Ok rows => Ok (mkFrame (f_idx f) names rows)
    end.

  Fixpoint lookupsQ (ns : list name) (e : list (name * Q)) : option (list Q) :=
    match ns with
    | [] => Some []
    | n :: r => match lookup n e, lookupsQ r e with
                | Some v, Some vs => Some (v :: vs)
                | _, _ => None
                end
    end.

  (** [Simulation._compute_args]: zip(strict=True) over segments and parameter dicts *)
  Fixpoint fill (fx : res_facts) (m : model) (ss : list seg) (ps : list env) (st : state)
    : res (list (frame Z)) * state :=
    match ss, ps with
    | [], [] => (Ok (s_raw st), st)
    | s :: ss', p :: ps' =>
        let '(cur', ok) := if rf_fill_reapply fx then apply_params p (s_cur st) else (s_cur st, true) in
        if negb ok then (Err EKey, mkSt cur' (s_raw st))
        else match args_table m cur' s with
             | Err e => (Err e, mkSt cur' (s_raw st))
             | Ok tb => fill fx m ss' ps' (mkSt cur' (s_raw st ++ [tb]))
             end
    | _, _ => (Err EValue, st)
    end.

  Definition nonempty {A} (l : list A) : bool := match l with [] => false | _ => true end.

  (** [finally: self.model.update_parameters(in_force)] -- [in_force] lists every parameter of the model
      with the value found on entry, so the call cannot fail; nothing is put back by the old bodies *)
  Definition put_back (fx : res_facts) (in_force cur : env) : env :=
    match rf_view fx with
    | VKRestores => fst (apply_params in_force cur)
    | _ => cur
    end.

  Definition compute_args (fx : res_facts) (m : model) (r : simres) (st : state)
    : res (list (frame Z)) * state :=
    match rf_view fx with
    | VKUnknown => (Err EShape, st)
    | _ =>
        if rf_fill_guard fx && nonempty (s_raw st) then (Ok (s_raw st), st)
        else let '(ra, st1) := fill fx m (r_segs r) (r_pars r) st in      (* try: ... *)
             (ra, mkSt (put_back fx (s_cur st) (s_cur st1)) (s_raw st1))   (* finally: put back, also on error *)
    end.

  (** [_select_data(self._compute_args(), flags)] then [_adjust_data] *)
  Definition view_selected (fx : res_facts) (m : model) (r : simres) (f : flags) (n : norm) (conc : bool)
             (st : state) : out * state :=
    let '(ra, st1) := compute_args fx m r st in
    match ra with
    | Err e => (VErr e, st1)
    | Ok tbs =>
        match names_of m (s_cur st1) f with
        | Err e => (VErr e, st1)
        | Ok names =>
            match map_res (select_cols lookups names) tbs with
            | Err e => (VErr e, st1)
            | Ok data => (adjust fx (map qframe data) n conc, st1)
            end
        end
    end.

  Definition flags_vars (dv ro sv : bool) := mkFlags true false false dv false sv false ro.
  Definition flags_fluxes (surr : bool) := mkFlags false false false false true false surr false.

  Definition view_vars (fx : res_facts) (m : model) (r : simres) (dv ro sv conc : bool) (n : norm)
             (st : state) : out * state :=
    if negb (dv || ro || sv)
    then (adjust fx (map (fun s => qframe (seg_frame m s)) (r_segs r)) n conc, st)
    else view_selected fx m r (flags_vars dv ro sv) n conc st.

  (** zip(strict=True) over the argument tables and the parameter dicts *)
  Fixpoint rhs_loop (fx : res_facts) (m : model) (tbs : list (frame Z)) (ps : list env) (cur : env)
    : res (list (frame Z)) * env :=
    match tbs, ps with
    | [], [] => (Ok [], cur)
    | tb :: tbs', p :: ps' =>
        let '(cur', ok) := if rf_rhs_reapply fx then apply_params p cur else (cur, true) in
        if negb ok then (Err EKey, cur')
        else match rhs_table m cur' tb with
             | Err e => (Err e, cur')
             | Ok f => match rhs_loop fx m tbs' ps' cur' with
                       | (Ok fs, c2) => (Ok (f :: fs), c2)
                       | (Err e, c2) => (Err e, c2)
                       end
             end
    | _, _ => (Err EValue, cur)
    end.

  Definition view_rhs (fx : res_facts) (m : model) (r : simres) (n : norm) (conc : bool) (st : state)
    : out * state :=
    let '(ra, st1) := compute_args fx m r st in
    match ra with
    | Err e => (VErr e, st1)
    | Ok tbs =>
        (* in_force = the values found after _compute_args; try: the loop; finally: put back *)
        match rhs_loop fx m tbs (r_pars r) (s_cur st1) with
        | (Err e, c2) => (VErr e, mkSt (put_back fx (s_cur st1) c2) (s_raw st1))
        | (Ok fs, c2) => (adjust fx (map qframe fs) n conc, mkSt (put_back fx (s_cur st1) c2) (s_raw st1))
        end
    end.

  Definition scale_frame (f : frame Q) (cs : list Z) : frame Q :=
    mkFrame (f_idx f) (f_cols f)
            (map (fun row => map (fun cq => (fst cq * inject_Z (snd cq))%Q) (combine row cs)) (f_rows f)).

  (** the [if scaled:] loop of get_producers / get_consumers *)
  Fixpoint scale_loop (m : model) (v : name) (neg : bool) (names : list name)
           (fs : list (frame Q)) (ps : list env) (cur : env) : res (list (frame Q)) * env :=
    match fs, ps with
    | [], [] => (Ok [], cur)
    | f :: fs', p :: ps' =>
        let '(cur', ok) := apply_params p cur in
        if negb ok then (Err EKey, cur')
        else match stoich_of_variable m cur' v with
             | Err e => (Err e, cur')
             | Ok sto =>
                 match lookups names sto with
                 | None => (Err EKey, cur')
                 | Some cs =>
                     let cs' := if neg then map Z.opp cs else cs in
                     match scale_loop m v neg names fs' ps' cur' with
                     | (Ok r, c2) => (Ok (scale_frame f cs' :: r), c2)
                     | (Err e, c2) => (Err e, c2)
                     end
                 end
             end
    | _, _ => (Err EValue, cur)
    end.

  (** [get_producers] ([neg=false], [v > 0]) and [get_consumers] ([neg=true], [v < 0]) *)
  Definition view_prodcons_first (fx : res_facts) (m : model) (r : simres) (neg : bool) (v : name)
             (scaled : bool) (n : norm) (conc : bool) (st : state) : out * state :=
    match r_pars r with
    | [] => (VErr EIndex, st)
    | p0 :: _ =>
        let '(cur0, ok) := apply_params p0 (s_cur st) in
        let st0 := mkSt cur0 (s_raw st) in
        if negb ok then (VErr EKey, st0)
        else match stoich_of_variable m cur0 v with
             | Err e => (VErr e, st0)
             | Ok sto =>
                 let names := map fst (filter (fun kv => if neg then snd kv <? 0 else 0 <? snd kv) sto) in
                 let '(o, st1) := view_selected fx m r (flags_fluxes true) n false st0 in
                 match o with
                 | VFrames fl =>
                     match map_res (select_cols lookupsQ names) fl with
                     | Err e => (VErr e, st1)
                     | Ok fl1 =>
                         let '(rs, cur2) := if scaled then scale_loop m v neg names fl1 (r_pars r) (s_cur st1)
                                            else (Ok fl1, s_cur st1) in
                         match rs with
                         | Err e => (VErr e, mkSt cur2 (s_raw st1))
                         | Ok fl2 =>
                             let '(cur3, ok3) := apply_params (last (r_pars r) []) cur2 in
                             let st3 := mkSt cur3 (s_raw st1) in
                             if negb ok3 then (VErr EKey, st3)
                             else if conc then match concat0 fl2 with
                                               | Ok f => (VFrame f, st3)
                                               | Err e => (VErr e, st3)
                                               end
                                  else (VFrames fl2, st3)
                         end
                     end
                 | VErr e => (VErr e, st1)
                 | _ => (VErr EValue, st1)
                 end
             end
    end.

  (** ** the repaired bodies ([_get_fluxes_by_sign], fixes/C10-prodcons-per-segment.diff) *)

  (** [factors]: the declared coefficient of [v] in every reaction that mentions it, declaration order *)
  Definition factors_of (m : model) (v : name) : list (name * coef) :=
    flat_map (fun nr => match lookup v (r_st (snd nr)) with Some c => [(fst nr, c)] | None => [] end) (m_rxn m).

  Definition signed (neg : bool) (z : Z) : Z := if neg then - z else z.

  (** the coefficient frame of one reported table: per row, [sign * coefficient] of every factor,
      evaluated on the values reported in that row *)
  Definition coef_rows (neg : bool) (fs : list (name * coef)) (tb : frame Z) : res (list (list Z)) :=
    map_res (fun tr => of_opt EKey (map_opt (fun nc => option_map (signed neg) (coef_val (row_env tb tr) (snd nc))) fs))
            (combine (f_idx tb) (f_rows tb)).

  (** [(c[k] > 0).any()] over all segments *)
  Definition pos_somewhere (coefs : list (list (list Z))) (j : nat) : bool :=
    existsb (fun rows => existsb (fun row => 0 <? nth j row 0) rows) coefs.
  Definition indexed {A} (l : list A) : list (nat * A) := combine (seq 0 (length l)) l.
  (** [names] with the position of each in [factors] *)
  Definition kept (fs : list (name * coef)) (coefs : list (list (list Z))) : list (nat * name) :=
    map (fun jnc => (fst jnc, fst (snd jnc))) (filter (fun jnc => pos_somewhere coefs (fst jnc)) (indexed fs)).

  (** one cell of [flux.loc[:, names].where(coef > 0)] (then [* coef] if scaled) *)
  Definition mask_cell (scaled : bool) (q : Q) (c : Z) : option Q :=
    if 0 <? c then Some (if scaled then (q * inject_Z c)%Q else q) else None.

  Definition mask_row (scaled : bool) (kp : list (nat * name)) (cols : list name) (frow : list Q) (crow : list Z)
    : option (list (option Q)) :=
    map_opt (fun jn => match lookup (snd jn) (combine cols frow) with
                       | None => None                              (* .loc[:, names]: KeyError *)
                       | Some q => Some (mask_cell scaled q (nth (fst jn) crow 0))
                       end) kp.

  Definition mask_frame (scaled : bool) (kp : list (nat * name)) (f : frame Q) (cr : list (list Z))
    : res (frame (option Q)) :=
    match map_res (fun fc => of_opt EKey (mask_row scaled kp (f_cols f) (fst fc) (snd fc))) (combine (f_rows f) cr) with
    | Err e => Err e
    | Ok rows => Ok (mkFrame (f_idx f) (map snd kp) rows)
    end.

  (** zip(strict=True) over the flux frames and the coefficient frames *)
  Fixpoint mask_all (scaled : bool) (kp : list (nat * name)) (fl : list (frame Q)) (coefs : list (list (list Z)))
    : res (list (frame (option Q))) :=
    match fl, coefs with
    | [], [] => Ok []
    | f :: fl', cr :: coefs' =>
        match mask_frame scaled kp f cr with
        | Err e => Err e
        | Ok mf => match mask_all scaled kp fl' coefs' with Err e => Err e | Ok r => Ok (mf :: r) end
        end
    | _, _ => Err EValue
    end.

  Definition mconcat0 (data : list (frame (option Q))) : res (frame (option Q)) :=
    match data with
    | [] => Err EValue
    | f :: _ => Ok (mkFrame (concat (map f_idx data)) (f_cols f) (concat (map f_rows data)))
    end.

  (** the end of [_get_fluxes_by_sign]: the old bodies ([VKLeavesLast]) re-apply the LAST segment's
      parameters before answering; the current ones answer at once *)
  Definition prodcons_tail (fx : res_facts) (r : simres) (ml : list (frame (option Q))) (conc : bool) (st2 : state)
    : out * state :=
    let answer st3 := if conc then match mconcat0 ml with
                                   | Ok f => (VMFrame f, st3)
                                   | Err e => (VErr e, st3)
                                   end
                      else (VMFrames ml, st3) in
    match rf_view fx with
    | VKLeavesLast =>
        match r_pars r with
        | [] => (VErr EIndex, st2)           (* self.raw_parameters[-1] *)
        | _ =>
            let '(cur3, ok3) := apply_params (last (r_pars r) []) (s_cur st2) in
            let st3 := mkSt cur3 (s_raw st2) in
            if negb ok3 then (VErr EKey, st3) else answer st3
        end
    | _ => answer st2
    end.

  Definition view_prodcons_rows (fx : res_facts) (m : model) (r : simres) (neg : bool) (v : name)
             (scaled : bool) (n : norm) (conc : bool) (st : state) : out * state :=
    match factors_of m v with
    | [] => (VErr EKey, st)                                  (* raise KeyError(variable) *)
    | fs =>
        let '(ra, st1) := compute_args fx m r st in
        match ra with
        | Err e => (VErr e, st1)
        | Ok tbs =>
            match map_res (coef_rows neg fs) tbs with
            | Err e => (VErr e, st1)
            | Ok coefs =>
                let kp := kept fs coefs in
                let '(o, st2) := view_selected fx m r (flags_fluxes true) n false st1 in
                match o with
                | VFrames fl =>
                    match mask_all scaled kp fl coefs with
                    | Err e => (VErr e, st2)
                    | Ok ml => prodcons_tail fx r ml conc st2
                    end
                | VErr e => (VErr e, st2)
                | _ => (VErr EValue, st2)
                end
            end
        end
    end.

  (** [get_producers] ([neg=false]) / [get_consumers] ([neg=true]) as the source has them *)
  Definition view_prodcons (fx : res_facts) (m : model) (r : simres) (neg : bool) (v : name)
             (scaled : bool) (n : norm) (conc : bool) (st : state) : out * state :=
    match rf_prod fx with
    | PKFirst => view_prodcons_first fx m r neg v scaled n conc st
    | PKRows => view_prodcons_rows fx m r neg v scaled n conc st
    | PKUnknown => (VOther, st)
    end.

  (** [pd.concat((variables, fluxes), axis=1)] (equal indexes) *)
  Definition concat1 (a b : frame Q) : frame Q :=
    mkFrame (f_idx a) (f_cols a ++ f_cols b) (map (fun ab => fst ab ++ snd ab) (combine (f_rows a) (f_rows b))).

  Definition run_op (fx : res_facts) (m : model) (r : simres) (o : op) (st : state) : out * state :=
    match o with
    | OArgs f conc n => view_selected fx m r f n conc st
    | OVars dv ro sv conc n => view_vars fx m r dv ro sv conc n st
    | OFluxes surr n conc => view_selected fx m r (flags_fluxes surr) n conc st
    | OPropVariables => view_vars fx m r true true true true NNone st
    | OPropFluxes => view_selected fx m r (flags_fluxes true) NNone true st
    | OCombined =>
        let '(a, st1) := view_vars fx m r true true true true NNone st in
        match a with
        | VFrame fa =>
            let '(b, st2) := view_selected fx m r (flags_fluxes true) NNone true st1 in
            match b with
            | VFrame fb => (VFrame (concat1 fa fb), st2)
            | other => (other, st2)
            end
        | other => (other, st1)
        end
    | ORhs n conc => view_rhs fx m r n conc st
    | OProducers v scaled n conc => view_prodcons fx m r false v scaled n conc st
    | OConsumers v scaled n conc => view_prodcons fx m r true v scaled n conc st
    | ONewY0 =>
        match view_vars fx m r false false false true NNone st with
        | (VFrame f, st1) => match rev (f_rows f) with
                             | [] => (VErr EIndex, st1)
                             | lastrow :: _ => (VDict (combine (f_cols f) lastrow), st1)
                             end
        | (other, st1) => (other, st1)
        end
    | OUserUpd k v =>
        match lookup k (s_cur st) with
        | None => (VErr EKey, st)
        | Some _ => (VUnit, mkSt (set_assoc k v (s_cur st)) (s_raw st))
        end
    | OModelPars => (VDict (map (fun kv => (fst kv, inject_Z (snd kv))) (s_cur st)), st)
    end.

  Fixpoint run_ops (fx : res_facts) (m : model) (r : simres) (os : list op) (st : state) : list out :=
    match os with
    | [] => []
    | o :: rest => let '(x, st') := run_op fx m r o st in x :: run_ops fx m r rest st'
    end.

  Fixpoint final_state (fx : res_facts) (m : model) (r : simres) (os : list op) (st : state) : state :=
    match os with
    | [] => st
    | o :: rest => final_state fx m r rest (snd (run_op fx m r o st))
    end.
End Sem.

(* ------------------------------------------------------------------------------------ *)
(** * boolean comparison of outputs (correspondence only; Q compared with Qeq_bool) *)

Definition err_eqb (a b : err) : bool :=
  match a, b with
  | EKey, EKey | EValue, EValue | EIndex, EIndex | ENonFinite, ENonFinite => true   (* EShape equals nothing *)
  | _, _ => false
  end.
Definition frame_eqb (a b : frame Q) : bool :=
  list_eqb Z.eqb (f_idx a) (f_idx b) && list_eqb N.eqb (f_cols a) (f_cols b)
  && list_eqb (list_eqb Qeq_bool) (f_rows a) (f_rows b).
Definition oq_eqb (a b : option Q) : bool :=
  match a, b with Some x, Some y => Qeq_bool x y | None, None => true | _, _ => false end.
Definition mframe_eqb (a b : frame (option Q)) : bool :=
  list_eqb Z.eqb (f_idx a) (f_idx b) && list_eqb N.eqb (f_cols a) (f_cols b)
  && list_eqb (list_eqb oq_eqb) (f_rows a) (f_rows b).
Definition out_eqb (a b : out) : bool :=
  match a, b with
  | VFrame x, VFrame y => frame_eqb x y
  | VFrames x, VFrames y => list_eqb frame_eqb x y
  | VMFrame x, VMFrame y => mframe_eqb x y
  | VMFrames x, VMFrames y => list_eqb mframe_eqb x y
  | VDict x, VDict y => list_eqb (fun p q => N.eqb (fst p) (fst q) && Qeq_bool (snd p) (snd q)) x y
  | VUnit, VUnit => true
  | VErr x, VErr y => err_eqb x y
  | _, _ => false
  end.
