(** C10 -- specification side: STATE-FREE descriptions of every view.  No proofs.

    [canon_tables m r] : for every segment, the table [Model.get_args_time_course] computes for
    that segment's states and times with the model's parameters set to THAT segment's
    parameter dict -- "the model's values at each point under the parameters in force".
    [spec_op] : what each read must return, as a function of the model structure and the
    result only (no current model parameters, no raw_args). *)
From Coq Require Import List NArith ZArith QArith Bool.
From MxlBase Require Import ListX.
From SimRes Require Import ResModel.
Import ListNotations.
Local Open Scope Z_scope.

(** the facts the theorems are proved for (= the regenerated facts, by C10_facts_pinned), for either
    shape [pk] of get_producers / get_consumers *)
Definition expected_facts (pk : prod_kind) : res_facts := mkResFacts NRFixed true true true pk true true true VKRestores.

(** the same bodies before /repo 4167248: a view left the shared model at the last segment's parameters.
    Only the regression theorem [C10_reads_keep_user_parameters_old_code_refuted] is about this value. *)
Definition old_view_facts (pk : prod_kind) : res_facts := mkResFacts NRFixed true true true pk true true true VKLeavesLast.

(** what the USER did to the shared model's parameters: [model.update_parameter(k, v)] (a KeyError changes nothing) *)
Definition user_edit (o : op) (cur : env) : env :=
  match o with
  | OUserUpd k v => match lookup k cur with Some _ => set_assoc k v cur | None => cur end
  | _ => cur
  end.
Fixpoint user_edits (os : list op) (cur : env) : env :=
  match os with [] => cur | o :: rest => user_edits rest (user_edit o cur) end.
Definition pars_dict (cur : env) : out := VDict (map (fun kv => (fst kv, inject_Z (snd kv))) cur).

Section Spec.
  Variable pk : prod_kind.
  Variable fsem : fnid -> list Z -> Z.
  Notation FX := (expected_facts pk).

  Definition canon_tables (m : model) (r : simres) : res (list (frame Z)) :=
    map_res (fun sp => args_table fsem m (snd sp) (fst sp)) (combine (r_segs r) (r_pars r)).

  (** derived parameters: decided by the parameter NAMES [pn] only *)
  Definition static_names (m : model) (pn : list name) : list name :=
    match classify m (m_order m) pn [] [] with Some (_, st, _) => st | None => [] end.
  Definition view_names (m : model) (pn : list name) (f : flags) : list name :=
    arg_names m pn (pn ++ static_names m pn) f.

  Definition spec_selected (m : model) (r : simres) (pn : list name) (f : flags) (n : norm) (conc : bool) : out :=
    match canon_tables m r with
    | Err e => VErr e
    | Ok tbs =>
        match map_res (select_cols lookups (view_names m pn f)) tbs with
        | Err e => VErr e
        | Ok data => adjust FX (map qframe data) n conc
        end
    end.

  Definition spec_vars (m : model) (r : simres) (pn : list name) (dv ro sv conc : bool) (n : norm) : out :=
    if negb (dv || ro || sv)
    then adjust FX (map (fun s => qframe (seg_frame m s)) (r_segs r)) n conc
    else spec_selected m r pn (flags_vars dv ro sv) n conc.

  Fixpoint spec_rhs_list (m : model) (tbs : list (frame Z)) (ps : list env) : res (list (frame Z)) :=
    match tbs, ps with
    | [], [] => Ok []
    | tb :: tbs', p :: ps' =>
        match rhs_table fsem m p tb with
        | Err e => Err e
        | Ok f => match spec_rhs_list m tbs' ps' with Ok fs => Ok (f :: fs) | Err e => Err e end
        end
    | _, _ => Err EValue
    end.

  (** derivatives: the Model's right-hand side of each reported row under that segment's parameters *)
  Definition spec_rhs (m : model) (r : simres) (n : norm) (conc : bool) : out :=
    match canon_tables m r with
    | Err e => VErr e
    | Ok tbs => match spec_rhs_list m tbs (r_pars r) with
                | Err e => VErr e
                | Ok fs => adjust FX (map qframe fs) n conc
                end
    end.

  Fixpoint spec_scale (m : model) (v : name) (neg : bool) (names : list name)
           (fs : list (frame Q)) (ps : list env) : res (list (frame Q)) :=
    match fs, ps with
    | [], [] => Ok []
    | f :: fs', p :: ps' =>
        match stoich_of_variable fsem m p v with
        | Err e => Err e
        | Ok sto =>
            match lookups names sto with
            | None => Err EKey
            | Some cs =>
                match spec_scale m v neg names fs' ps' with
                | Ok r => Ok (scale_frame f (if neg then map Z.opp cs else cs) :: r)
                | Err e => Err e
                end
            end
        end
    | _, _ => Err EValue
    end.

  Definition signed_names (neg : bool) (sto : list (name * Z)) : list name :=
    map fst (filter (fun kv => if neg then snd kv <? 0 else 0 <? snd kv) sto).

  (** the snapshot's rule ([PKFirst]) *)
  Definition spec_prodcons_first (m : model) (r : simres) (pn : list name) (neg : bool) (v : name)
             (scaled : bool) (n : norm) (conc : bool) : out :=
    match r_pars r with
    | [] => VErr EIndex
    | p0 :: _ =>
        match stoich_of_variable fsem m p0 v with
        | Err e => VErr e
        | Ok sto =>
            match spec_selected m r pn (flags_fluxes true) n false with
            | VFrames fl =>
                match map_res (select_cols lookupsQ (signed_names neg sto)) fl with
                | Err e => VErr e
                | Ok fl1 =>
                    match (if scaled then spec_scale m v neg (signed_names neg sto) fl1 (r_pars r) else Ok fl1) with
                    | Err e => VErr e
                    | Ok fl2 => if conc then match concat0 fl2 with Ok f => VFrame f | Err e => VErr e end
                                else VFrames fl2
                    end
                end
            | VErr e => VErr e
            | _ => VErr EValue
            end
        end
    end.

  (** the property's rule ([PKRows], the repaired code): from the REPORTED tables only.
      Column [rn] (a reaction that mentions [v], declaration order) is listed iff its coefficient
      [N[v, rn](row) = coef_val (row_env tb row) c] has the sign in SOME reported row of the result;
      the cell at (row, rn) is the reported (normalised) flux -- times |N[v, rn](row)| when [scaled]
      -- iff the coefficient has the sign in THAT row, and NaN ([None]) otherwise ([mask_cell]). *)
  Definition spec_prodcons_rows (m : model) (r : simres) (pn : list name) (neg : bool) (v : name)
             (scaled : bool) (n : norm) (conc : bool) : out :=
    match factors_of m v with
    | [] => VErr EKey
    | fs =>
        match canon_tables m r with
        | Err e => VErr e
        | Ok tbs =>
            match map_res (coef_rows fsem neg fs) tbs with
            | Err e => VErr e
            | Ok coefs =>
                match spec_selected m r pn (flags_fluxes true) n false with
                | VFrames fl =>
                    match mask_all scaled (kept fs coefs) fl coefs with
                    | Err e => VErr e
                    | Ok ml => if conc then match mconcat0 ml with Ok f => VMFrame f | Err e => VErr e end
                               else VMFrames ml
                    end
                | VErr e => VErr e
                | _ => VErr EValue
                end
            end
        end
    end.

  Definition spec_prodcons (m : model) (r : simres) (pn : list name) (neg : bool) (v : name)
             (scaled : bool) (n : norm) (conc : bool) : out :=
    match pk with
    | PKFirst => spec_prodcons_first m r pn neg v scaled n conc
    | PKRows => spec_prodcons_rows m r pn neg v scaled n conc
    | PKUnknown => VOther
    end.

  Definition spec_op (m : model) (r : simres) (pn : list name) (o : op) : out :=
    match o with
    | OArgs f conc n => spec_selected m r pn f n conc
    | OVars dv ro sv conc n => spec_vars m r pn dv ro sv conc n
    | OFluxes surr n conc => spec_selected m r pn (flags_fluxes surr) n conc
    | OPropVariables => spec_vars m r pn true true true true NNone
    | OPropFluxes => spec_selected m r pn (flags_fluxes true) NNone true
    | OCombined =>
        match spec_vars m r pn true true true true NNone with
        | VFrame fa => match spec_selected m r pn (flags_fluxes true) NNone true with
                       | VFrame fb => VFrame (concat1 fa fb)
                       | other => other
                       end
        | other => other
        end
    | ORhs n conc => spec_rhs m r n conc
    | OProducers v scaled n conc => spec_prodcons m r pn false v scaled n conc
    | OConsumers v scaled n conc => spec_prodcons m r pn true v scaled n conc
    | ONewY0 =>
        match spec_vars m r pn false false false true NNone with
        | VFrame f => match rev (f_rows f) with
                      | [] => VErr EIndex
                      | lastrow :: _ => VDict (combine (f_cols f) lastrow)
                      end
        | other => other
        end
    | OUserUpd k _ => if memN k pn then VUnit else VErr EKey
    | OModelPars => VUnit                 (* not a view: no claim *)
    end.

  Definition is_view (o : op) : bool := match o with OModelPars => false | _ => true end.

  (** well-formed results (what Simulator.get_result hands out): one parameter dict per segment,
      at least one segment, every dict lists exactly the model's parameters [pn] *)
  Definition wf_res (r : simres) (pn : list name) : Prop :=
    NoDup pn /\ length (r_segs r) = length (r_pars r) /\ r_pars r <> [] /\
    Forall (fun p => map fst p = pn) (r_pars r).

  (** the model evaluates whatever VALUES its parameters have (evaluation can only fail on names) *)
  Definition evaluable (m : model) (pn : list name) : Prop :=
    forall cur, map fst cur = pn -> create_cache fsem m cur <> None.

  (** states reachable by reading: the shared model has the right parameter names (any values)
      and raw_args is empty or holds the canonical tables *)
  Definition good_state (pn : list name) (tbs : list (frame Z)) (st : state) : Prop :=
    map fst (s_cur st) = pn /\ (s_raw st = [] \/ s_raw st = tbs).
End Spec.

(** a regression shape that is NOT in the tree (seeded change C10-5): after [pd.concat] the frame is filtered with
    [combined.loc[~combined.index.duplicated(keep="last")]] -- of the rows that report the same time only the last
    survives.  [C10_concat_unique_times_refuted] shows what it loses. *)
Fixpoint keep_last (idx : list Z) (rows : list (list Q)) : list (Z * list Q) :=
  match idx, rows with
  | t :: idx', r :: rows' => if existsb (Z.eqb t) idx' then keep_last idx' rows' else (t, r) :: keep_last idx' rows'
  | _, _ => []
  end.
Definition concat0_unique_times (data : list (frame Q)) : res (frame Q) :=
  match concat0 data with
  | Ok f => let l := keep_last (f_idx f) (f_rows f) in Ok (mkFrame (map fst l) (f_cols f) (map snd l))
  | Err e => Err e
  end.
