(** C12 -- refusal: whatever names a key that is NOT in the translation symbol table cannot be
    converted (KeyError or an earlier exception; never equations).

    The shipped symbol table is  variables | parameters | data  (+ the derived values inserted by the
    derived loop): a SURROGATE OUTPUT is not a key.  So
      * a reaction / converted derived value / state-dependent coefficient that takes a surrogate
        output as an argument, and
      * a coefficient-table row that names a surrogate FLUX (not a key of the reaction dictionary)
    are refused -- for every value of the other facts -- and the simulator falls back to running
    without a Jacobian.

    With the MERGED table  variables | parameters | data | surrogates  (fact SymVarsParsDataSurr)
    the witness [w4] converts: its equations treat the surrogate output as a free constant, the
    Jacobian misses the output's dependence on the state, and the Jacobian function's matrix has an
    entry that is not a number. *)
From Coq Require Import QArith Qabs Lqa.
From MxlBase Require Import ListX.
From Symbolic Require Import Expr ExprProofs SymModel FnTab SymProofs ClosureProofs Witness.
Open Scope Q_scope.

Section Refuse.
  Variable fsym : fnid -> list expr -> option expr.

  Lemma conv_one_args tab c e : conv_one fsym tab c = inr e -> forall a, In a (c_args c) -> In a (map fst tab).
  Proof.
    unfold conv_one. destruct (lookup_all tab (c_args c)) as [es|] eqn:E; [|discriminate]. intros _.
    apply lookup_all_Forall2 in E. induction E as [|x a es args H1 _ IH]; intros b Hb; [destruct Hb|].
    destruct Hb as [Hb|Hb]; [subst b; eapply lookup_key; exact H1|exact (IH b Hb)].
  Qed.

  Lemma insert_derived_each ds : forall tab tab', insert_derived fsym ds tab = inr tab' ->
    incl (map fst tab') (map fst ds ++ map fst tab) /\
    forall k c, In (k, c) ds -> forall a, In a (c_args c) -> In a (map fst ds ++ map fst tab).
  Proof.
    induction ds as [|[k c] ds IH]; intros tab tab' H; cbn [insert_derived] in H.
    - injection H as H. subst. split; [intros a Ha; exact Ha|intros k c []].
    - destruct (conv_one fsym tab c) as [x|e] eqn:E; [discriminate|].
      destruct (IH _ _ H) as [I1 I2].
      assert (Hsub : incl (map fst ds ++ map fst ((k, e) :: tab)) (map fst ((k, c) :: ds) ++ map fst tab)).
      { intros a Ha. cbn [map fst] in *. apply in_app_or in Ha. destruct Ha as [Ha|[Ha|Ha]].
        - right. apply in_or_app. left. exact Ha.
        - left. exact Ha.
        - right. apply in_or_app. right. exact Ha. }
      split.
      + intros a Ha. apply Hsub. apply I1. exact Ha.
      + intros k' c' [Hin|Hin] a Ha.
        * injection Hin as H1 H2. subst k' c'. cbn [map fst]. right. apply in_or_app. right.
          exact (conv_one_args tab c e E a Ha).
        * apply Hsub. exact (I2 k' c' Hin a Ha).
  Qed.

  Lemma conv_rxns_each tab rs : forall rx, conv_rxns fsym tab rs = inr rx ->
    map fst rx = map fst rs /\ forall k c, In (k, c) rs -> forall a, In a (c_args c) -> In a (map fst tab).
  Proof.
    induction rs as [|[k c] rs IH]; intros rx H; cbn [conv_rxns] in H.
    - injection H as H. subst. split; [reflexivity|intros k c []].
    - destruct (conv_one fsym tab c) as [x|e] eqn:E; [discriminate|].
      destruct (conv_rxns fsym tab rs) as [x|l] eqn:E2; [discriminate|]. injection H as H. subst rx.
      destruct (IH l eq_refl) as [I1 I2]. split; [cbn [map fst]; rewrite I1; reflexivity|].
      intros k' c' [Hin|Hin] a Ha; [injection Hin as H1 H2; subst k' c'; exact (conv_one_args tab c e E a Ha)|exact (I2 k' c' Hin a Ha)].
  Qed.

  Lemma stat_row_each rxns cpd st : forall eqs eqs', stat_row rxns cpd st eqs = inr eqs' ->
    forall r n, In (r, n) st -> In r (map fst rxns).
  Proof.
    induction st as [|[r n] st IH]; intros eqs eqs' H r' n' Hin; [destruct Hin|]. cbn [stat_row] in H.
    destruct (lookup r rxns) as [re|] eqn:E; [|discriminate].
    destruct Hin as [Hin|Hin]; [injection Hin as H1 H2; subst r' n'; eapply lookup_key; exact E|exact (IH _ _ H r' n' Hin)].
  Qed.

  Lemma stat_loop_each rxns tbl : forall eqs eqs', stat_loop rxns tbl eqs = inr eqs' ->
    forall cpd row r n, In (cpd, row) tbl -> In (r, n) row -> In r (map fst rxns).
  Proof.
    induction tbl as [|[cpd st] tbl IH]; intros eqs eqs' H c row r n Hin Hr; [destruct Hin|]. cbn [stat_loop] in H.
    destruct (stat_row rxns cpd st eqs) as [x|eqs1] eqn:E; [discriminate|].
    destruct Hin as [Hin|Hin]; [injection Hin as H1 H2; subst c row; exact (stat_row_each _ _ _ _ _ E r n Hr)|exact (IH _ _ H c row r n Hin Hr)].
  Qed.

  Lemma dyn_row_each tab rxns cpd ds : forall eqs eqs', dyn_row fsym tab rxns cpd ds eqs = inr eqs' ->
    forall r c, In (r, c) ds -> forall a, In a (c_args c) -> In a (map fst tab).
  Proof.
    induction ds as [|[r c] ds IH]; intros eqs eqs' H r' c' Hin a Ha; [destruct Hin|]. cbn [dyn_row] in H.
    destruct (conv_one fsym tab c) as [x|ce] eqn:E; [discriminate|].
    destruct (lookup r rxns) as [re|]; [|discriminate].
    destruct Hin as [Hin|Hin]; [injection Hin as H1 H2; subst r' c'; exact (conv_one_args tab c ce E a Ha)|exact (IH _ _ H r' c' Hin a Ha)].
  Qed.

  Lemma dyn_loop_coef_each tab rxns tbl : forall eqs eqs', dyn_loop_coef fsym tab rxns tbl eqs = inr eqs' ->
    forall cpd row r c, In (cpd, row) tbl -> In (r, c) row -> forall a, In a (c_args c) -> In a (map fst tab).
  Proof.
    induction tbl as [|[cpd ds] tbl IH]; intros eqs eqs' H c0 row r c Hin Hr a Ha; [destruct Hin|]. cbn [dyn_loop_coef] in H.
    destruct (dyn_row fsym tab rxns cpd ds eqs) as [x|eqs1] eqn:E; [discriminate|].
    destruct Hin as [Hin|Hin]; [injection Hin as H1 H2; subst c0 row; exact (dyn_row_each _ _ _ _ _ _ E r c Hr a Ha)|exact (IH _ _ H c0 row r c Hin Hr a Ha)].
  Qed.

  Lemma pick_in_order_complete order ders k c :
    In k order -> lookup k ders = Some c -> In (k, c) (pick_in_order order ders).
  Proof.
    induction order as [|k' order IH]; intros Hin Hl; [destruct Hin|]. cbn [pick_in_order].
    destruct Hin as [Hin|Hin].
    - subst k'. rewrite Hl. left. reflexivity.
    - destruct (lookup k' ders); [right|]; exact (IH Hin Hl).
  Qed.

  Lemma sym_entries_keys names : map fst (sym_entries names) = names.
  Proof. unfold sym_entries. rewrite map_map. cbn [fst]. apply map_id. Qed.

  (** [a] is no key of the symbol table and no derived value: nothing ever inserts it *)
  Definition NoKey (names : list name) (m : smodel) (a : name) : Prop := ~ In a names /\ ~ In a (map fst (m_der m)).

  (** the four ways a model can name something that is not in the table *)
  Definition NamesUnknown (names : list name) (F : sym_facts) (m : smodel) : Prop :=
    (exists k c a, In (k, c) (m_rxn m) /\ In a (c_args c) /\ NoKey names m a) \/
    (sf_order F = OrdDependency /\
     exists k c a, In k (m_order m) /\ lookup k (m_der m) = Some c /\ In a (c_args c) /\ NoKey names m a) \/
    (exists cpd row r c a, In (cpd, row) (m_dyn m) /\ In (r, c) row /\ In a (c_args c) /\ NoKey names m a) \/
    (exists cpd row r n, In (cpd, row) (m_stoich m) /\ In (r, n) row /\ ~ In r (map fst (m_rxn m))).

  Theorem refused_on names F m : NamesUnknown names F m -> forall eqs, to_symbolic_on fsym names F m <> SymOk eqs.
  Proof.
    intros HU eqs H. unfold to_symbolic_on in H.
    destruct (der_sequence F m) as [ds|] eqn:Eds; [|discriminate].
    destruct (insert_derived fsym ds (sym_entries names)) as [x|tab] eqn:Etab; [discriminate|].
    destruct (conv_rxns fsym tab (m_rxn m)) as [x|rxns] eqn:Erx; [discriminate|].
    destruct (stat_loop rxns (m_stoich m) []) as [x|eqs0] eqn:Est; [discriminate|].
    destruct (dyn_part fsym F tab rxns (m_dyn m) eqs0) as [x|eqs1] eqn:Edy; [discriminate|].
    clear H.
    destruct (insert_derived_each ds _ _ Etab) as [Hkeys Heach]. rewrite sym_entries_keys in Hkeys, Heach.
    assert (Hds : incl (map fst ds) (map fst (m_der m))).
    { intros a Ha. apply in_map_iff in Ha. destruct Ha as [[k c] [H1 H2]]. cbn [fst] in H1. subst a.
      apply in_map_iff. exists (k, c). split; [reflexivity|]. eapply der_sequence_In; eassumption. }
    assert (Hno : forall a, NoKey names m a -> ~ In a (map fst ds ++ names)).
    { intros a [N1 N2] Ha. apply in_app_or in Ha. destruct Ha as [Ha|Ha]; [exact (N2 (Hds a Ha))|exact (N1 Ha)]. }
    destruct (conv_rxns_each tab (m_rxn m) rxns Erx) as [Hrk Hreach].
    destruct HU as [[k [c [a [H1 [H2 H3]]]]]|[[HF [k [c [a [H1 [H2 [H3 H4]]]]]]]|[[cpd [row [r [c [a [H1 [H2 [H3 H4]]]]]]]]|[cpd [row [r [n [H1 [H2 H3]]]]]]]]].
    - apply (Hno a H3). apply Hkeys. exact (Hreach k c H1 a H2).
    - apply (Hno a H4). apply (Heach k c); [|exact H3].
      unfold der_sequence in Eds. rewrite HF in Eds. injection Eds as Eds. subst ds.
      apply pick_in_order_complete; assumption.
    - unfold dyn_part in Edy. destruct (sf_dyn F).
      + destruct (dyn_loop tab rxns (m_dyn m)) as [x|] eqn:E; [discriminate|].
        pose proof (dyn_loop_none tab rxns (m_dyn m) E cpd row H1) as Hr. subst row. destruct H2.
      + apply (Hno a H4). apply Hkeys. exact (dyn_loop_coef_each tab rxns (m_dyn m) eqs0 eqs1 Edy cpd row r c H1 H2 a H3).
      + discriminate.
    - apply H3. rewrite <- Hrk. exact (stat_loop_each rxns (m_stoich m) [] eqs0 Est cpd row r n H1 H2).
  Qed.
End Refuse.

(** the static statement's view of the model (any value of the fact sf_stat) has the same names *)
Lemma names_unknown_view names F m tbl :
  (forall cpd row r n, In (cpd, row) (m_stoich m) -> In (r, n) row -> exists row' n', In (cpd, row') tbl /\ In (r, n') row') ->
  NamesUnknown names F m -> NamesUnknown names F (with_stoich m tbl).
Proof.
  intros Hk [H|[H|[H|H]]].
  - left. exact H.
  - right. left. exact H.
  - right. right. left. exact H.
  - right. right. right. destruct H as (cpd & row & r & n & H1 & H2 & H3).
    destruct (Hk _ _ _ _ H1 H2) as (row' & n' & H4 & H5). exists cpd, row', r, n'.
    split; [exact H4|]. split; [exact H5|exact H3].
Qed.

Theorem unknown_name_refused fsym F m names :
  table_names F m = Some names ->
  ((exists k c a, In (k, c) (m_rxn m) /\ In a (c_args c) /\ ~ In a names /\ ~ In a (map fst (m_der m))) \/
   (sf_order F = OrdDependency /\
    exists k c a, In k (m_order m) /\ lookup k (m_der m) = Some c /\ In a (c_args c) /\ ~ In a names /\ ~ In a (map fst (m_der m))) \/
   (exists cpd row r c a, In (cpd, row) (m_dyn m) /\ In (r, c) row /\ In a (c_args c) /\ ~ In a names /\ ~ In a (map fst (m_der m))) \/
   (exists cpd row r n, In (cpd, row) (m_stoich m) /\ In (r, n) row /\ ~ In r (map fst (m_rxn m)))) ->
  forall eqs, to_symbolic fsym F m <> SymOk eqs.
Proof.
  intros Hn HU eqs H. apply to_symbolic_inv in H. destruct H as (names' & tbl & En & _ & Hk & H).
  rewrite Hn in En. injection En as En. subst names'.
  exact (refused_on fsym names F (with_stoich m tbl) (names_unknown_view names F m tbl Hk HU) eqs H).
Qed.

(** under the shipped table: a SURROGATE OUTPUT named by a reaction, a converted derived value or a
    state-dependent coefficient, or a surrogate FLUX in a coefficient table, is refused -- and the
    simulator is left without Jacobian.  Names are unique across a model (Model._insert_id), so a
    surrogate output is no variable / parameter / data / derived / reaction name. *)
Definition SurrNamesFresh (m : smodel) : Prop :=
  forall o, In o (surr_outputs m) ->
    ~ In o (base_names m) /\ ~ In o (map fst (m_der m)) /\ ~ In o (map fst (m_rxn m)).

Definition UsesSurrogate (m : smodel) : Prop :=
  (exists k c a, In (k, c) (m_rxn m) /\ In a (c_args c) /\ In a (surr_outputs m)) \/
  (exists k c a, In k (m_order m) /\ lookup k (m_der m) = Some c /\ In a (c_args c) /\ In a (surr_outputs m)) \/
  (exists cpd row r c a, In (cpd, row) (m_dyn m) /\ In (r, c) row /\ In a (c_args c) /\ In a (surr_outputs m)) \/
  (exists cpd row r n, In (cpd, row) (m_stoich m) /\ In (r, n) row /\ In r (surr_outputs m)).

Theorem surrogate_output_refused fsym sdiff F m :
  sf_symtab F = SymVarsParsData -> sf_order F = OrdDependency ->
  SurrNamesFresh m -> UsesSurrogate m ->
  exists e, to_symbolic fsym F m = SymErr e /\
            init_jac fsym sdiff F m = JacNone e /\
            forall m' t x, call_closure F m' (init_jac fsym sdiff F m) t x = CNoJac.
Proof.
  intros HFt HFo Hfresh Huse.
  assert (Hno : forall eqs, to_symbolic fsym F m <> SymOk eqs).
  { apply (unknown_name_refused fsym F m (base_names m)); [unfold table_names; rewrite HFt; reflexivity|].
    change (NamesUnknown (base_names m) F m).
    assert (Hk : forall a, In a (surr_outputs m) -> NoKey (base_names m) m a).
    { intros a Ha. destruct (Hfresh a Ha) as [N1 [N2 _]]. split; assumption. }
    destruct Huse as [[k [c [a [H1 [H2 H3]]]]]|[[k [c [a [H1 [H2 [H3 H4]]]]]]|[[cpd [row [r [c [a [H1 [H2 [H3 H4]]]]]]]]|[cpd [row [r [n [H1 [H2 H3]]]]]]]]].
    - left. exists k, c, a. split; [exact H1|]. split; [exact H2|exact (Hk a H3)].
    - right. left. split; [exact HFo|]. exists k, c, a. repeat split; try assumption; apply (Hk a H4).
    - right. right. left. exists cpd, row, r, c, a. repeat split; try assumption; apply (Hk a H4).
    - right. right. right. exists cpd, row, r, n. split; [exact H1|]. split; [exact H2|].
      exact (proj2 (proj2 (Hfresh r H3))). }
  destruct (to_symbolic fsym F m) as [eqs|e] eqn:E; [exfalso; exact (Hno eqs eq_refl)|].
  exists e. split; [reflexivity|]. apply fallback. exact E.
Qed.

(** ---- w4: a surrogate output feeding an ordinary reaction ------------------------------------- *)
(** variables 1 (x), 2 (y); parameter 3 (k); surrogate 10 with argument [1] and output 6 = twice(x);
    reaction 5 = mass_action_1s(1, 3): x -> y;  reaction 7 = mass_action_1s(2, 6) = y * out: y -> *)
Definition w4 : smodel :=
  mkSM [1%N; 2%N] [(3%N, PPlain 2)] [] []
       [(5%N, mkComp 29%N [1%N; 3%N]); (7%N, mkComp 29%N [2%N; 6%N])]
       [10%N; 5%N; 7%N]
       [(1%N, [(5%N, -1)]); (2%N, [(5%N, 1); (7%N, -1)])]
       []
       [(10%N, mkSurr [1%N] [(6%N, 24%N)])].

(** the merged table of the regression *)
Definition facts_merged_surr : sym_facts :=
  mkSymFacts OrdDependency SymVarsParsDataSurr StatFloatTimesRate DynCoefTimesRate EqsByVarNames JacEqsByVars
             LamTimeVarsPars ThirdNumericByName FallbackWarnAnyException TimeShifted VarSymPlain.

(** the state x = 1 + h, y = 2 (k = 2): every component resolved, the surrogate output included *)
Definition w4_env (h : Q) : name -> Q :=
  fun n => match n with
           | 1%N => 1 + h | 2%N => 2 | 3%N => 2
           | 6%N => (1 + h) * 2               (* twice(x) *)
           | 5%N => 2 * (1 + h)               (* k * x *)
           | 7%N => (1 + h) * 2 * 2           (* out * y *)
           | _ => 0
           end.

Lemma w4_fresh : SurrNamesFresh w4.
Proof.
  intros o Ho. vm_compute in Ho. destruct Ho as [Ho|[]]. subst o.
  repeat split; intros H; vm_compute in H; repeat (destruct H as [H|H]; [discriminate H|]); exact H.
Qed.

Lemma w4_uses_rxn : exists k c a, In (k, c) (m_rxn w4) /\ In a (c_args c) /\ In a (surr_outputs w4).
Proof.
  exists 7%N, (mkComp 29%N [2%N; 6%N]), 6%N. split; [right; left; reflexivity|].
  split; [right; left; reflexivity|left; reflexivity].
Qed.

Lemma w4_uses : UsesSurrogate w4.
Proof.
  left. exists 7%N, (mkComp 29%N [2%N; 6%N]), 6%N. split; [right; left; reflexivity|].
  split; [right; left; reflexivity|left; reflexivity].
Qed.

Lemma w4_refused_now : to_symbolic fsym_lib facts_now w4 = SymErr ErrKey /\ run_closure facts_now w4 0 [1; 2] = ObsNoJac.
Proof. split; vm_compute; reflexivity. Qed.

Lemma w4_resolved h : Resolved fsem_lib w4 (w4_env h) /\ SurrResolved fsem_lib w4 (w4_env h).
Proof.
  split; [split|].
  - intros k c Hin. destruct Hin.
  - intros k c Hin. cbn [w4 m_rxn In] in Hin.
    destruct Hin as [Hin|[Hin|[]]]; injection Hin as <- <-; unfold fsem_lib; cbn; unfold Pos.to_nat; cbn; ring.
  - intros k s o f Hin Ho. cbn [w4 m_surr In] in Hin. destruct Hin as [Hin|[]]. injection Hin as <- <-.
    cbn [su_outs In] in Ho. destruct Ho as [Ho|[]]. injection Ho as <- <-. unfold fsem_lib; cbn; unfold Pos.to_nat; cbn; ring.
Qed.

(** the numeric right-hand side of y along x = 1 + h is affine in h with slope -2 = k - 2*y ... *)
Lemma w4_increment h : num_rhs fsem_lib w4 (w4_env h) 2%N - num_rhs fsem_lib w4 (w4_env 0) 2%N == h * (-2).
Proof. unfold num_rhs. cbn. unfold Pos.to_nat. cbn. ring. Qed.

(** ... but the merged table converts w4, and the Jacobian entry d(dy/dt)/dx it yields is k = 2 (the
    surrogate output is a constant to it); the Jacobian function's entry d(dy/dt)/dy = -out mentions
    the unbound name 6: not a number *)
Lemma w4_merged :
  exists eqs, to_symbolic fsym_lib facts_merged_surr w4 = SymOk eqs /\
    (exists e, In e eqs /\ In 6%N (syms e)) /\
    (exists row d, nth_error (jacobian D eqs (m_vars w4)) 1 = Some row /\ nth_error row 0 = Some d /\
                   eval (w4_env 0) d == 2) /\
    call_closure facts_merged_surr w4 (init_jac fsym_lib D facts_merged_surr w4) 0 [1; 2] = CErr ErrName.
Proof.
  eexists. split; [vm_compute; reflexivity|]. split; [|split].
  - eexists. split; [right; left; reflexivity|]. vm_compute. tauto.
  - eexists. eexists. split; [vm_compute; reflexivity|]. split; [vm_compute; reflexivity|]. vm_compute. reflexivity.
  - vm_compute. reflexivity.
Qed.

(** ... so 2 is NOT the derivative: no remainder bound B*h^2 exists (the true slope is -2) *)
Lemma w4_not_the_derivative :
  ~ exists B, 0 <= B /\ forall h, Qabs h <= 1 ->
      Qabs (num_rhs fsem_lib w4 (w4_env h) 2%N - num_rhs fsem_lib w4 (w4_env 0) 2%N - h * 2) <= B * (h * h).
Proof.
  intros [B [HB H]].
  assert (Hp : 0 < B + 1) by lra.
  pose (h := / (B + 1)).
  assert (Hh0 : 0 < h) by (apply Qinv_lt_0_compat; exact Hp).
  assert (Hh1 : h * (B + 1) == 1) by (unfold h; rewrite Qmult_comm; apply Qmult_inv_r; lra).
  assert (Hle : h <= 1) by nra.
  specialize (H h).
  assert (Ha : Qabs h <= 1) by (rewrite Qabs_pos; lra).
  specialize (H Ha).
  assert (E : num_rhs fsem_lib w4 (w4_env h) 2%N - num_rhs fsem_lib w4 (w4_env 0) 2%N - h * 2 == -(4 * h)).
  { rewrite w4_increment. ring. }
  rewrite E in H. rewrite Qabs_opp in H. rewrite Qabs_pos in H by lra.
  nra.
Qed.

(** ---- w3 (state-dependent coefficient) meets the hypotheses of the any-declaration-order theorem ---- *)
Lemma w3_convertible : Convertible fsym_lib w3.
Proof.
  constructor.
  - intros k c Hin. destruct Hin.
  - intros k c Hin a Ha. cbn [w3 m_rxn] in Hin. in_cases Hin; cbn [c_args] in Ha; in_cases Ha; vm_compute; solve_or.
  - intros k c Hin. cbn [w3 m_der m_rxn app] in Hin. in_cases Hin; cbn [c_fn c_args length].
    eapply translates_len2; [reflexivity|]. intros a b. discriminate.
  - intros cpd row r n Hin Hr. vm_compute in Hin. in_cases Hin; in_cases Hr; vm_compute; solve_or.
  - intros cpd row r c Hin Hr. vm_compute in Hin. in_cases Hin; in_cases Hr. split; [vm_compute; solve_or|]. split.
    + intros a Ha. cbn [c_args] in Ha. in_cases Ha. vm_compute. solve_or.
    + cbn [c_fn c_args length]. eapply translates_len1; [reflexivity|]. intros a. discriminate.
  - intros v Hv. cbn [w3 m_vars] in Hv. in_cases Hv.
    + left. eexists. split; [vm_compute; left; reflexivity|discriminate].
    + right. eexists. split; [vm_compute; left; reflexivity|discriminate].
Qed.

Lemma w3_order_ok : OrderOk w3.
Proof.
  split.
  - intros k Hk. destruct Hk.
  - intros pre k post c Ho Hl. vm_compute in Hl. discriminate.
Qed.
