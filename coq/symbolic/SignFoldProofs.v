(** C12 -- proofs about (a) the key order of the simulator's y0 mapping and the Jacobian function (seeded change
    C12-5) and (b) symbol assumptions and sign-branching rate laws (SignFold.v, seeded change C12-4). *)
From Coq Require Import QArith Qabs Lqa Bool Permutation.
From MxlBase Require Import ListX.
From Symbolic Require Import Expr ExprProofs SymModel FnTab SymProofs ClosureProofs Witness SignFold.
Open Scope Q_scope.

(** ======================================================================================== *)
(** (a) y0 key order *)

Lemma init_jac_y0_shipped fsym sdiff F m y0keys :
  sf_lam F = LamTimeVarsPars ->
  init_jac_y0 fsym sdiff F m y0keys = Some (init_jac fsym sdiff F m).
Proof. intros H. unfold init_jac_y0, lam_vnames, init_jac. rewrite H. reflexivity. Qed.

(** under the seeded shape the state vector (variable order) is unpacked into the KEYS of y0 *)
Lemma init_jac_y0_keys fsym sdiff F m y0keys eqs :
  sf_lam F = LamTimeY0KeysPars -> to_symbolic fsym F m = SymOk eqs ->
  init_jac_y0 fsym sdiff F m y0keys = Some (JacFn (jacobian sdiff eqs (m_vars m)) y0keys (map fst (m_pars m))).
Proof. intros H E. unfold init_jac_y0, lam_vnames. rewrite H, E. reflexivity. Qed.

Definition facts_y0_keys : sym_facts :=
  mkSymFacts OrdDependency SymVarsParsData StatFloatTimesRate DynCoefTimesRate EqsByVarNames JacEqsByVars
             LamTimeY0KeysPars ThirdNumericByName FallbackWarnAnyException TimeShifted VarSymPlain.

(** w5: variables 1, 2; parameter 3 = 1; reaction 4 = mass_action_2s(1, 1, 3) = k * x1 * x1 : 1 -> 2.
    d(dx/dt)/dx1 = [-2*x1; 2*x1]: the Jacobian depends on WHICH state entry is bound to the name 1. *)
Definition w5 : smodel :=
  mkSM [1%N; 2%N] [(3%N, PPlain 1)] [] []
       [(4%N, mkComp 31%N [1%N; 1%N; 3%N])]
       [4%N]
       [(1%N, [(4%N, -1)]); (2%N, [(4%N, 1)])]
       [] [].

Lemma w5_y0_keys :
  Permutation [2%N; 1%N] (m_vars w5) /\
  sym_obs_eqb (run_sym facts_now w5 [(1%N, 1); (2%N, 2); (3%N, 1)]) (ObsVals [-1; 1] [[-2; 0]; [2; 0]]) = true /\
  clo_obs_eqb (run_closure_y0 facts_now w5 [2%N; 1%N] 0 [1; 2]) (ObsCloMat [[-2; 0]; [2; 0]]) = true /\
  clo_obs_eqb (run_closure_y0 facts_y0_keys w5 (m_vars w5) 0 [1; 2]) (ObsCloMat [[-2; 0]; [2; 0]]) = true /\
  clo_obs_eqb (run_closure_y0 facts_y0_keys w5 [2%N; 1%N] 0 [1; 2]) (ObsCloMat [[-4; 0]; [4; 0]]) = true.
Proof.
  split; [apply perm_swap|].
  repeat split; vm_compute; reflexivity.
Qed.

(** ======================================================================================== *)
(** (b) symbol assumptions *)

Lemma nonneg_known_sound nn env e :
  (forall n, nn n = true -> 0 <= env n) -> nonneg_known nn e = true -> 0 <= eval env e.
Proof.
  intros Hnn. induction e as [q|n|a IHa b IHb|a IHa b IHb]; cbn [nonneg_known eval]; intros H.
  - apply Qle_bool_iff. exact H.
  - apply Hnn. exact H.
  - apply andb_true_iff in H. destruct H as [Ha Hb]. specialize (IHa Ha). specialize (IHb Hb). lra.
  - apply andb_true_iff in H. destruct H as [Ha Hb]. apply Qmult_le_0_compat; [exact (IHa Ha)|exact (IHb Hb)].
Qed.

Lemma is_neg_nonneg q : 0 <= q -> is_neg q = false.
Proof.
  intros H. unfold is_neg. destruct (Qlt_le_dec q 0) as [L|L]; [|reflexivity].
  exfalso. exact (Qlt_not_le _ _ L H).
Qed.

Lemma is_neg_proper a b : a == b -> is_neg a = is_neg b.
Proof.
  intros E. unfold is_neg. destruct (Qlt_le_dec a 0) as [La|La], (Qlt_le_dec b 0) as [Lb|Lb]; try reflexivity; exfalso.
  - rewrite E in La. exact (Qlt_not_le _ _ La Lb).
  - rewrite <- E in Lb. exact (Qlt_not_le _ _ Lb La).
Qed.

(** deciding the relationals from assumptions that HOLD at env does not change the value at env *)
Lemma fold_sound nn env p :
  (forall n, nn n = true -> 0 <= env n) -> peval env (fold nn p) == peval env p.
Proof.
  intros Hnn. induction p as [e|neg c a IHa b IHb|a IHa b IHb|a IHa b IHb]; cbn [fold peval].
  - reflexivity.
  - destruct (nonneg_known nn c) eqn:K.
    + rewrite (is_neg_nonneg _ (nonneg_known_sound nn env c Hnn K)).
      destruct neg; cbn [eqb]; [exact IHb|exact IHa].
    + cbn [peval]. destruct (eqb (is_neg (eval env c)) neg); [exact IHa|exact IHb].
  - rewrite IHa, IHb. reflexivity.
  - rewrite IHa, IHb. reflexivity.
Qed.

(** ... and differentiation is branch-wise, so the Jacobian loses exactly the same branches *)
Lemma pD_fold nn x p : pD x (fold nn p) = fold nn (pD x p).
Proof.
  induction p as [e|neg c a IHa b IHb|a IHa b IHb|a IHa b IHb]; cbn [fold pD].
  - reflexivity.
  - destruct (nonneg_known nn c); [destruct neg; assumption|]. cbn [pD]. rewrite IHa, IHb. reflexivity.
  - rewrite IHa, IHb. reflexivity.
  - rewrite IHa, IHb. reflexivity.
Qed.

Lemma psubst_sound args body : forall p env,
  psubst args body = Some p -> peval env p == pfsem body (map (eval env) args).
Proof.
  unfold pfsem.
  induction body as [e|neg c a IHa b IHb|a IHa b IHb|a IHa b IHb]; cbn [psubst peval]; intros p env H.
  - destruct (subst args e) as [e'|] eqn:E; [|discriminate]. injection H as H. subst. cbn [peval].
    exact (subst_sound args e e' env E).
  - destruct (subst args c) as [c'|] eqn:E; [|discriminate].
    destruct (psubst args a) as [a'|]; [|discriminate]. destruct (psubst args b) as [b'|]; [|discriminate].
    injection H as H. subst. cbn [peval].
    rewrite (is_neg_proper _ _ (subst_sound args c c' env E)).
    destruct (eqb _ neg); [exact (IHa a' env eq_refl)|exact (IHb b' env eq_refl)].
  - destruct (psubst args a) as [a'|]; [|discriminate]. destruct (psubst args b) as [b'|]; [|discriminate].
    injection H as H. subst. cbn [peval]. rewrite (IHa a' env eq_refl), (IHb b' env eq_refl). reflexivity.
  - destruct (psubst args a) as [a'|]; [|discriminate]. destruct (psubst args b) as [b'|]; [|discriminate].
    injection H as H. subst. cbn [peval]. rewrite (IHa a' env eq_refl), (IHb b' env eq_refl). reflexivity.
Qed.

(** the translation of a sign-branching function is sound at every environment in which the ASSUMED symbols are
    non-negative *)
Lemma ptranslate_sound F m args body p env :
  (forall nn n, assumed_nonneg F m = Some nn -> nn n = true -> 0 <= env n) ->
  ptranslate F m args body = Some p ->
  peval env p == pfsem body (map (eval env) args).
Proof.
  intros Hnn H. unfold ptranslate in H.
  destruct (assumed_nonneg F m) as [nn|] eqn:A; [|discriminate].
  destruct (psubst args body) as [q|] eqn:S; [|discriminate]. injection H as H. subst.
  rewrite (fold_sound nn env q (fun n => Hnn nn n eq_refl)). exact (psubst_sound args body q env S).
Qed.

(** plain symbols: nothing is assumed, so the translation is sound at EVERY state -- negative ones included *)
Lemma ptranslate_plain_sound F m args body p env :
  sf_varsym F = VarSymPlain ->
  ptranslate F m args body = Some p ->
  peval env p == pfsem body (map (eval env) args).
Proof.
  intros HF. apply ptranslate_sound. intros nn n A. unfold assumed_nonneg in A. rewrite HF in A.
  injection A as A. subst. discriminate.
Qed.

(** non-negative variable symbols: sound only where every variable is >= 0 *)
Lemma ptranslate_nonneg_partial F m args body p env :
  sf_varsym F = VarSymNonneg ->
  (forall v, In v (m_vars m) -> 0 <= env v) ->
  ptranslate F m args body = Some p ->
  peval env p == pfsem body (map (eval env) args).
Proof.
  intros HF Hv. apply ptranslate_sound. intros nn n A. unfold assumed_nonneg in A. rewrite HF in A.
  injection A as A. subst. intros Hm. apply Hv. apply memN_In. exact Hm.
Qed.

(** ... and the translated derivative is the translation of the derivative (same assumptions) *)
Lemma ptranslate_D F m args body p x :
  ptranslate F m args body = Some p ->
  exists nn q, assumed_nonneg F m = Some nn /\ psubst args body = Some q /\ pD x p = fold nn (pD x q).
Proof.
  intros H. unfold ptranslate in H.
  destruct (assumed_nonneg F m) as [nn|]; [|discriminate].
  destruct (psubst args body) as [q|]; [|discriminate]. injection H as H. subst.
  exists nn, q. repeat split. apply pD_fold.
Qed.

Definition facts_nonneg : sym_facts :=
  mkSymFacts OrdDependency SymVarsParsData StatFloatTimesRate DynCoefTimesRate EqsByVarNames JacEqsByVars
             LamTimeVarsPars ThirdNumericByName FallbackWarnAnyException TimeShifted VarSymNonneg.

(** witness: the rectified leak  -g*V if V < 0 else 0  with V = variable 1 of w5 and g = parameter 3, at V = -1, g = 2 *)
Definition w6_env : name -> Q := env_of [(1%N, -1); (2%N, 2); (3%N, 2)].
Definition w6_args : list expr := [ESym 1%N; ESym 3%N].

Lemma w6_nonneg_refuted :
  In 1%N (m_vars w5) /\ w6_env 1%N < 0 /\
  pfsem b_rect_neg (map (eval w6_env) w6_args) == 2 /\
  (exists p, ptranslate facts_now w5 w6_args b_rect_neg = Some p /\
             peval w6_env p == 2 /\ peval w6_env (pD 1%N p) == -2) /\
  (exists p, ptranslate facts_nonneg w5 w6_args b_rect_neg = Some p /\
             p = PPoly (EConst 0) /\ peval w6_env p == 0 /\ peval w6_env (pD 1%N p) == 0 /\
             ~ peval w6_env p == pfsem b_rect_neg (map (eval w6_env) w6_args)).
Proof.
  split; [left; reflexivity|]. split; [vm_compute; reflexivity|]. split; [vm_compute; reflexivity|]. split.
  - eexists. split; [vm_compute; reflexivity|]. split; vm_compute; reflexivity.
  - eexists. split; [vm_compute; reflexivity|]. split; [reflexivity|]. split; [vm_compute; reflexivity|].
    split; [vm_compute; reflexivity|]. vm_compute. discriminate.
Qed.

(** the hand-written |V| inside a product (id 63), same story *)
Lemma w6_abs_coupling :
  (exists p, ptranslate facts_now w5 [ESym 1%N; ESym 2%N; ESym 3%N] b_abs_coupling = Some p /\ peval w6_env p == 4) /\
  (exists p, ptranslate facts_nonneg w5 [ESym 1%N; ESym 2%N; ESym 3%N] b_abs_coupling = Some p /\ peval w6_env p == -4) /\
  pfsem b_abs_coupling (map (eval w6_env) [ESym 1%N; ESym 2%N; ESym 3%N]) == 4.
Proof.
  split; [eexists; split; vm_compute; reflexivity|]. split; [eexists; split; vm_compute; reflexivity|].
  vm_compute. reflexivity.
Qed.
