(** C12 -- the concrete function table used when the model is RUN (correspondence) and to show that
    the Section hypotheses about [fsym]/[fsem] are satisfiable.  Mirrors harness/c12_fns.py:
    ids 0..10 = harness/fnlib.py, ids 20.. = the polynomial members of the shipped rate-law
    library mxlpy.fns, id 40 = a function fn_to_sympy cannot parse.
    A body is a polynomial over the POSITIONAL argument symbols [ESym i]. *)
From Coq Require Import QArith.
From MxlBase Require Import ListX.
From Symbolic Require Import Expr SymModel.
Open Scope Q_scope.

Definition a0 := ESym 0%N. Definition a1 := ESym 1%N. Definition a2 := ESym 2%N.
Definition a3 := ESym 3%N. Definition a4 := ESym 4%N.
Definition ENeg (e : expr) := EMul (EConst (-1)) e.
Definition ESub (a b : expr) := EAdd a (ENeg b).

(** (arity, body) *)
Definition fn_table (f : fnid) : option (nat * expr) :=
  match f with
  | 0%N => Some (1%nat, a0)                                         (* f_id *)
  | 1%N => Some (1%nat, ENeg a0)                                    (* f_neg *)
  | 2%N => Some (2%nat, EAdd a0 a1)                                 (* f_add *)
  | 3%N => Some (2%nat, ESub a0 a1)                                 (* f_sub *)
  | 4%N => Some (2%nat, EMul a0 a1)                                 (* f_mul *)
  | 5%N => Some (3%nat, EAdd (EMul a0 a1) a2)                       (* f_lin *)
  | 6%N => Some (1%nat, EMul a0 a0)                                 (* f_sq *)
  | 7%N => Some (2%nat, EAdd (ESub (EMul a0 a0) (EMul (EConst 3) a1)) (EConst 1))   (* f_poly2 *)
  | 8%N => Some (0%nat, EConst 2)                                   (* f_two *)
  | 9%N => Some (3%nat, EMul (EMul a2 a0) a1)                       (* f_ma2 *)
  | 10%N => Some (3%nat, EAdd (EAdd a0 a1) a2)                      (* f_sum3 *)
  | 20%N => Some (1%nat, a0)                                        (* fns.constant *)
  | 21%N => Some (1%nat, ENeg a0)                                   (* fns.neg *)
  | 22%N => Some (2%nat, ESub a0 a1)                                (* fns.minus *)
  | 23%N => Some (2%nat, EMul a0 a1)                                (* fns.mul *)
  | 24%N => Some (1%nat, EMul a0 (EConst 2))                        (* fns.twice *)
  | 25%N => Some (2%nat, EAdd a0 a1)                                (* fns.add *)
  | 26%N => Some (2%nat, EMul a0 a1)                                (* fns.proportional *)
  | 27%N => Some (2%nat, ESub a1 a0)                                (* fns.moiety_1s(x, x_total) *)
  | 28%N => Some (3%nat, ESub (ESub a2 a0) a1)                      (* fns.moiety_2s(x1, x2, x_total) *)
  | 29%N => Some (2%nat, EMul a1 a0)                                (* fns.mass_action_1s(s1, k) *)
  | 30%N => Some (4%nat, ESub (EMul a2 a0) (EMul a3 a1))            (* fns.mass_action_1s_1p(s1,p1,kf,kr) *)
  | 31%N => Some (3%nat, EMul (EMul a2 a0) a1)                      (* fns.mass_action_2s(s1,s2,k) *)
  | 32%N => Some (5%nat, ESub (EMul (EMul a3 a0) a1) (EMul a4 a2))  (* fns.mass_action_2s_1p(s1,s2,p1,kf,kr) *)
  | 33%N => Some (3%nat, EMul a2 (ESub a1 a0))                      (* fns.diffusion_1s_1p(inside,outside,k) *)
  | _ => None                                                       (* 40: not translatable *)
  end.

(** fn_to_sympy on a table function: arity must match (zip(strict=True) raises ValueError, which
    fn_to_sympy turns into None), then positional substitution *)
Definition fsym_lib (f : fnid) (es : list expr) : option expr :=
  match fn_table f with
  | Some (ar, body) => if Nat.eqb (length es) ar then subst es body else None
  | None => None
  end.

(** what CPython computes *)
Definition fsem_lib (f : fnid) (vs : list Q) : Q :=
  match fn_table f with
  | Some (_, body) => eval (fun i => nth (N.to_nat i) vs 0) body
  | None => 0
  end.

(** ---- running the model on one correspondence case ------------------------------------------ *)
Definition env_of (l : list (name * Q)) : name -> Q :=
  fun n => match lookup n l with Some q => q | None => 0 end.

Inductive sym_obs := ObsErr (e : err) | ObsVals (eqs : list Q) (jac : list (list Q)).
Inductive clo_obs := ObsNoJac | ObsCloErr (e : err) | ObsCloMat (rows : list (list Q)).

(** values of the symbolic equations and of the Jacobian at a point (what the lambdified
    sm.eqs / sm.jacobian() return) *)
Definition run_sym (F : sym_facts) (m : smodel) (point : list (name * Q)) : sym_obs :=
  match to_symbolic fsym_lib F m with
  | SymErr e => ObsErr e
  | SymOk eqs =>
      ObsVals (map (eval (env_of point)) eqs)
              (map (map (eval (env_of point))) (jacobian D eqs (m_vars m)))
  end.

Definition run_closure (F : sym_facts) (m : smodel) (t : Q) (x : list Q) : clo_obs :=
  match call_closure_at F m (init_jac fsym_lib D F m) None t x with     (* a fresh simulator: _time_shift is None *)
  | CNoJac => ObsNoJac
  | CErr e => ObsCloErr e
  | CMat rows => ObsCloMat rows
  end.

(** ... of a simulator constructed with y0 = a mapping whose keys are in the order [y0keys] *)
Definition run_closure_y0 (F : sym_facts) (m : smodel) (y0keys : list name) (t : Q) (x : list Q) : clo_obs :=
  match init_jac_y0 fsym_lib D F m y0keys with
  | None => ObsCloErr ErrUnmodelled
  | Some js =>
      match call_closure_at F m js None t x with
      | CNoJac => ObsNoJac
      | CErr e => ObsCloErr e
      | CMat rows => ObsCloMat rows
      end
  end.

Definition sym_obs_eqb (a b : sym_obs) : bool :=
  match a, b with
  | ObsErr x, ObsErr y => err_eqb x y
  | ObsVals e1 j1, ObsVals e2 j2 => qlist_eqb e1 e2 && qmat_eqb j1 j2
  | _, _ => false
  end.
Definition clo_obs_eqb (a b : clo_obs) : bool :=
  match a, b with
  | ObsNoJac, ObsNoJac => true
  | ObsCloErr x, ObsCloErr y => err_eqb x y
  | ObsCloMat r1, ObsCloMat r2 => qmat_eqb r1 r2
  | _, _ => false
  end.

(** the numeric right-hand side of the model at a fully resolved environment given as a table
    (the harness supplies the values of all rates it read from the implementation) *)
Definition run_num_rhs (m : smodel) (allvals : list (name * Q)) : list Q :=
  map (num_rhs fsem_lib m (env_of allvals)) (m_vars m).

Record case := mkCase {
  k_model : smodel ;
  k_point : list (name * Q) ;      (* values of variables and plain parameters (= the model's own values) *)
  k_time : Q ;
  k_x : list Q ;                   (* the state in variable order *)
  k_sym : sym_obs ;                (* implementation: lambdified eqs + jacobian at the point *)
  k_clo : clo_obs ;                (* implementation: Simulator(...).integrator.jacobian(t, x) *)
  k_rates : list (name * Q) ;      (* implementation: values of every component at (t, x) (get_args) *)
  k_rhs : list Q ;                 (* implementation: model(t, x) *)
  k_raw : raw_stoich ;             (* the model's own stoichiometries (reaction -> compound -> factor) *)
  k_parnames : list name ;         (* keys of cache.all_parameter_values (= all_parameter_names) *)
  k_pv : list (name * Q) ;         (* cache.all_parameter_values *)
  k_y0keys : list name ;           (* key order of the y0 mapping a second simulator was constructed with *)
  k_clo_y0 : clo_obs               (* implementation: Simulator(m, y0=<that mapping>, ...).integrator.jacobian(t, x) *)
}.

(** the coefficient tables of the cache (inputs of the conversion) are what [build_tables] makes of
    the model's own stoichiometries *)
Definition tables_ok (c : case) : bool :=
  let tb := build_tables fsem_lib (k_parnames c) (env_of (k_pv c)) (k_raw c) in
  tbl_eqb Qeq_bool (fst tb) (m_stoich (k_model c)) && tbl_eqb comp_eqb (snd tb) (m_dyn (k_model c)).

(** ... and the model's right-hand side from its own stoichiometries is the implementation's *)
Definition run_raw_rhs (c : case) : list Q :=
  map (raw_rhs fsem_lib (env_of (k_rates c)) (k_raw c)) (m_vars (k_model c)).

(** every surrogate output has, in the environment read from the implementation, the value the
    surrogate's function gives at the argument values (ties [m_surr] to Model.get_args) *)
Definition surr_ok (c : case) : bool :=
  let env := env_of (k_rates c) in
  forallb (fun s => forallb (fun o => Qeq_bool (env (fst o)) (fsem_lib (snd o) (map env (su_args (snd s))))) (su_outs (snd s)))
          (m_surr (k_model c)).

Definition varsym_known (F : sym_facts) : bool :=
  match sf_varsym F with VarSymUnknown => false | _ => true end.

Definition case_ok (F : sym_facts) (c : case) : bool :=
  varsym_known F
  && sym_obs_eqb (run_sym F (k_model c) (k_point c)) (k_sym c)
  && clo_obs_eqb (run_closure F (k_model c) (k_time c) (k_x c)) (k_clo c)
  && clo_obs_eqb (run_closure_y0 F (k_model c) (k_y0keys c) (k_time c) (k_x c)) (k_clo_y0 c)
  && qlist_eqb (run_num_rhs (k_model c) (k_rates c)) (k_rhs c)
  && tables_ok c
  && qlist_eqb (run_raw_rhs c) (k_rhs c)
  && surr_ok c.
