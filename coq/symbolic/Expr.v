(** C12 -- polynomial expressions over Q: the fragment of SymPy expressions the model works with.

    [expr] is what [fn_to_sympy] / [to_symbolic_model] build (sums and products of numbers and
    symbols), [eval] its meaning under an assignment of numbers to symbols, [D] the formal
    derivative (the model of [sympy.Matrix.jacobian]'s entry-wise differentiation; proved to be
    THE derivative in ExprProofs.v), [subst] positional substitution of argument expressions into
    a function body (the model of [expr.subs(dict(zip(fn_args, model_args)))]).

    No proofs in this file (the model still runs when a proof breaks). *)
From Coq Require Import QArith Qabs.
From MxlBase Require Import ListX.
Open Scope Q_scope.

Definition name := N.

Inductive expr :=
| EConst (q : Q)
| ESym (n : name)
| EAdd (a b : expr)
| EMul (a b : expr).

Fixpoint eval (env : name -> Q) (e : expr) : Q :=
  match e with
  | EConst q => q
  | ESym n => env n
  | EAdd a b => eval env a + eval env b
  | EMul a b => eval env a * eval env b
  end.

(** formal derivative with respect to the symbol [x] *)
Fixpoint D (x : name) (e : expr) : expr :=
  match e with
  | EConst _ => EConst 0
  | ESym n => if N.eqb n x then EConst 1 else EConst 0
  | EAdd a b => EAdd (D x a) (D x b)
  | EMul a b => EAdd (EMul (D x a) b) (EMul a (D x b))
  end.

(** symbols occurring in an expression *)
Fixpoint syms (e : expr) : list name :=
  match e with
  | EConst _ => []
  | ESym n => [n]
  | EAdd a b | EMul a b => syms a ++ syms b
  end.

(** positional substitution: [ESym i] of a function body stands for the i-th argument.
    [None] = the body names an argument position that was not supplied. *)
Fixpoint subst (args : list expr) (e : expr) : option expr :=
  match e with
  | EConst q => Some (EConst q)
  | ESym i => nth_error args (N.to_nat i)
  | EAdd a b =>
      match subst args a, subst args b with
      | Some a', Some b' => Some (EAdd a' b')
      | _, _ => None
      end
  | EMul a b =>
      match subst args a, subst args b with
      | Some a', Some b' => Some (EMul a' b')
      | _, _ => None
      end
  end.

Definition upd (env : name -> Q) (x : name) (v : Q) : name -> Q :=
  fun n => if N.eqb n x then v else env n.

(** Taylor remainder of [e] in direction [x]:
      eval (upd env x (env x + h)) e == eval env e + h * eval env (D x e) + h*h * rem x env h e
    (ExprProofs.taylor).  Only used in statements and proofs. *)
Fixpoint rem (x : name) (env : name -> Q) (h : Q) (e : expr) : Q :=
  match e with
  | EConst _ | ESym _ => 0
  | EAdd a b => rem x env h a + rem x env h b
  | EMul a b =>
      let a0 := eval env a in let a1 := eval env (D x a) in let ra := rem x env h a in
      let b0 := eval env b in let b1 := eval env (D x b) in let rb := rem x env h b in
      a1 * b1 + a0 * rb + b0 * ra + h * (a1 * rb + b1 * ra) + h * h * (ra * rb)
  end.

(** a bound of |rem| that does not depend on h, for |h| <= 1 *)
Fixpoint rem_bound (x : name) (env : name -> Q) (e : expr) : Q :=
  match e with
  | EConst _ | ESym _ => 0
  | EAdd a b => rem_bound x env a + rem_bound x env b
  | EMul a b =>
      let a0 := Qabs (eval env a) in let a1 := Qabs (eval env (D x a)) in let ba := rem_bound x env a in
      let b0 := Qabs (eval env b) in let b1 := Qabs (eval env (D x b)) in let bb := rem_bound x env b in
      a1 * b1 + a0 * bb + b0 * ba + (a1 * bb + b1 * ba) + ba * bb
  end.

(** boolean comparison of rational lists / matrices (correspondence files) *)
Fixpoint qlist_eqb (a b : list Q) : bool :=
  match a, b with
  | [], [] => true
  | x :: a', y :: b' => Qeq_bool x y && qlist_eqb a' b'
  | _, _ => false
  end.
Fixpoint qmat_eqb (a b : list (list Q)) : bool :=
  match a, b with
  | [], [] => true
  | x :: a', y :: b' => qlist_eqb x y && qmat_eqb a' b'
  | _, _ => false
  end.
