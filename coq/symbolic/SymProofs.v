(** C12 -- proofs about [to_symbolic] (the model of to_symbolic_model):

      * soundness: whenever the conversion returns equations, they evaluate -- at EVERY resolved
        environment -- to the numeric right-hand side in variable order ([to_symbolic_sound],
        for every value of the facts: whichever order the derived values are converted in, a
        returned result is never wrong);
      * the cache tables the equations are assembled from ([build_tables]) against the model's
        own stoichiometries: equal to the right-hand side with every computed coefficient at its
        current value iff the parameter-only computed coefficients have the value they had when the
        cache was built ([tables_sum], [every_parameter_setting_partial]);
      * symbols: the equations mention base symbols only ([to_symbolic_syms]);
      * success: a convertible model converts under the dependency-order fact whatever the
        declaration order ([convertible_converts]);
      * a state-dependent computed coefficient: converted by the repaired statement (covered by
        soundness through [dyn_part_val]); refused under the pre-fix fact ([dyn_raises_old]). *)
From Coq Require Import QArith Qabs Lqa.
From MxlBase Require Import ListX.
From Symbolic Require Import Expr ExprProofs SymModel.
Open Scope Q_scope.

Lemma Forall2_imp {A B} (R1 R2 : A -> B -> Prop) l1 l2 :
  (forall a b, R1 a b -> R2 a b) -> Forall2 R1 l1 l2 -> Forall2 R2 l1 l2.
Proof. intros H F. induction F; constructor; [apply H; assumption|assumption]. Qed.

(** ---- the static statement's view of the coefficient table (fact sf_stat) ----------------- *)
Lemma with_stoich_eta m : with_stoich m (m_stoich m) = m.
Proof. destruct m; reflexivity. Qed.

Lemma stat_view_float F m : sf_stat F = StatFloatTimesRate -> stat_view F m = Some m.
Proof. intros H. unfold stat_view. rewrite H. reflexivity. Qed.

(** Fraction.limit_denominator returns a fraction with a small denominator unchanged *)
Lemma limit_den_small x : (Z.pos (Qden (Qred x)) <= max_den)%Z -> limit_den x = Some x.
Proof. intros H. unfold limit_den. apply Z.leb_le in H. rewrite H. reflexivity. Qed.

Lemma limit_row_id st : (forall r n, In (r, n) st -> limit_den n = Some n) -> limit_row st = Some st.
Proof.
  induction st as [|[r n] st IH]; intros H; cbn [limit_row]; [reflexivity|].
  rewrite (H r n (or_introl eq_refl)), IH; [reflexivity|]. intros r' n' Hin. apply (H r' n'). right. exact Hin.
Qed.

Lemma limit_tbl_id tbl :
  (forall cpd row r n, In (cpd, row) tbl -> In (r, n) row -> limit_den n = Some n) -> limit_tbl tbl = Some tbl.
Proof.
  induction tbl as [|[cpd st] tbl IH]; intros H; cbn [limit_tbl]; [reflexivity|].
  rewrite limit_row_id, IH; [reflexivity| |].
  - intros c row r n H1 H2. apply (H c row r n); [right; exact H1|exact H2].
  - intros r n Hin. apply (H cpd st r n); [left; reflexivity|exact Hin].
Qed.

(** the rational statement sees the model itself when every coefficient survives limit_denominator *)
Lemma stat_view_rational_exact F m :
  sf_stat F = StatRationalLimited ->
  (forall cpd row r n, In (cpd, row) (m_stoich m) -> In (r, n) row -> limit_den n = Some n) ->
  stat_view F m = Some m.
Proof.
  intros HF H. unfold stat_view. rewrite HF, (limit_tbl_id _ H). cbn [option_map]. rewrite with_stoich_eta. reflexivity.
Qed.

Lemma limit_row_keys st : forall st', limit_row st = Some st' -> forall r n, In (r, n) st -> exists n', In (r, n') st'.
Proof.
  induction st as [|[r0 n0] st IH]; intros st' H r n Hin; [destruct Hin|]. cbn [limit_row] in H.
  destruct (limit_den n0) as [n0'|]; [|discriminate]. destruct (limit_row st) as [l|]; [|discriminate].
  injection H as H. subst st'. destruct Hin as [E|Hin].
  - injection E as E1 E2. subst. exists n0'. left. reflexivity.
  - destruct (IH l eq_refl r n Hin) as [n' Hn']. exists n'. right. exact Hn'.
Qed.

Lemma limit_tbl_keys tbl : forall tbl', limit_tbl tbl = Some tbl' ->
  forall cpd row r n, In (cpd, row) tbl -> In (r, n) row -> exists row' n', In (cpd, row') tbl' /\ In (r, n') row'.
Proof.
  induction tbl as [|[c0 st0] tbl IH]; intros tbl' H cpd row r n Hin Hr; [destruct Hin|]. cbn [limit_tbl] in H.
  destruct (limit_row st0) as [st0'|] eqn:E0; [|discriminate]. destruct (limit_tbl tbl) as [l|]; [|discriminate].
  injection H as H. subst tbl'. destruct Hin as [E|Hin].
  - injection E as E1 E2. subst. destruct (limit_row_keys _ _ E0 r n Hr) as [n' Hn']. exists st0', n'. split; [left; reflexivity|exact Hn'].
  - destruct (IH l eq_refl cpd row r n Hin Hr) as (row' & n' & H1 & H2). exists row', n'. split; [right; exact H1|exact H2].
Qed.

(** whatever the fact: the static loop sees the model with SOME table that has the same keys *)
Lemma stat_view_shape F m m' : stat_view F m = Some m' ->
  exists tbl, m' = with_stoich m tbl /\
    forall cpd row r n, In (cpd, row) (m_stoich m) -> In (r, n) row -> exists row' n', In (cpd, row') tbl /\ In (r, n') row'.
Proof.
  unfold stat_view. destruct (sf_stat F); intros H.
  - injection H as H. subst m'. exists (m_stoich m). split; [symmetry; apply with_stoich_eta|].
    intros cpd row r n H1 H2. exists row, n. split; assumption.
  - destruct (limit_tbl (m_stoich m)) as [tbl|] eqn:E; [|discriminate]. injection H as H. subst m'.
    exists tbl. split; [reflexivity|]. exact (limit_tbl_keys _ _ E).
  - discriminate.
Qed.

(** ---- association lists ----------------------------------------------------------------- *)
Lemma lookup_In {A} k (l : list (name * A)) v : lookup k l = Some v -> In (k, v) l.
Proof.
  induction l as [|[k' v'] l IH]; cbn [lookup]; intros H; [discriminate|].
  destruct (N.eqb k' k) eqn:E.
  - apply N.eqb_eq in E. injection H as H. subst. left. reflexivity.
  - right. apply IH. exact H.
Qed.

Lemma lookup_None {A} k (l : list (name * A)) : lookup k l = None <-> ~ In k (map fst l).
Proof.
  induction l as [|[k' v'] l IH]; cbn [lookup map fst In].
  - split; [intros _ []|reflexivity].
  - destruct (N.eqb k' k) eqn:E.
    + apply N.eqb_eq in E. split; [discriminate|]. intros H. exfalso. apply H. left. exact E.
    + apply N.eqb_neq in E. rewrite IH. split; intros H; [intros [H1|H1]; [exact (E H1)|exact (H H1)]|].
      intros H1. apply H. right. exact H1.
Qed.

Lemma lookup_Some_key {A} k (l : list (name * A)) : In k (map fst l) -> lookup k l <> None.
Proof. intros H E. apply lookup_None in E. exact (E H). Qed.

Lemma lookup_key {A} k (l : list (name * A)) v : lookup k l = Some v -> In k (map fst l).
Proof. intros H. apply lookup_In in H. apply in_map_iff. exists (k, v). split; [reflexivity|exact H]. Qed.

Lemma lookup_all_Forall2 {A} (tab : list (name * A)) args es :
  lookup_all tab args = Some es -> Forall2 (fun e a => lookup a tab = Some e) es args.
Proof.
  revert es. induction args as [|a args IH]; cbn [lookup_all]; intros es H.
  - injection H as H. subst. constructor.
  - destruct (lookup a tab) as [e|] eqn:E; [|discriminate].
    destruct (lookup_all tab args) as [es'|]; [|discriminate].
    injection H as H. subst. constructor; [exact E|apply IH; reflexivity].
Qed.

Lemma lookup_all_total {A} (tab : list (name * A)) args :
  (forall a, In a args -> lookup a tab <> None) ->
  exists es, lookup_all tab args = Some es /\ length es = length args.
Proof.
  induction args as [|a args IH]; cbn [lookup_all]; intros H.
  - exists []. split; reflexivity.
  - destruct (lookup a tab) as [e|] eqn:E; [|exfalso; apply (H a); [left; reflexivity|exact E]].
    destruct IH as [es [E1 E2]]; [intros b Hb; apply H; right; exact Hb|].
    rewrite E1. exists (e :: es). split; [reflexivity|cbn [length]; rewrite E2; reflexivity].
Qed.

Lemma lookup_base names k e :
  lookup k (map (fun n => (n, ESym n)) names) = Some e -> e = ESym k /\ In k names.
Proof.
  induction names as [|n names IH]; cbn [map lookup]; intros H; [discriminate|].
  destruct (N.eqb n k) eqn:E.
  - apply N.eqb_eq in E. injection H as H. subst. split; [reflexivity|left; reflexivity].
  - destruct (IH H) as [H1 H2]. split; [exact H1|right; exact H2].
Qed.

Lemma pick_in_order_In order ders k c : In (k, c) (pick_in_order order ders) -> In (k, c) ders.
Proof.
  induction order as [|k' order IH]; cbn [pick_in_order]; intros H; [destruct H|].
  destruct (lookup k' ders) as [c'|] eqn:E.
  - destruct H as [H|H]; [injection H as H1 H2; subst; apply lookup_In; exact E|apply IH; exact H].
  - apply IH. exact H.
Qed.

Lemma der_sequence_In F m ds k c : der_sequence F m = Some ds -> In (k, c) ds -> In (k, c) (m_der m).
Proof.
  unfold der_sequence. destruct (sf_order F); intros H Hin; try discriminate; injection H as H; subst.
  - exact Hin.
  - eapply pick_in_order_In. exact Hin.
Qed.

(** ---- to_symbolic = to_symbolic_on at the static statement's view --------------------------- *)
Lemma to_symbolic_on_with fsym names F m tbl :
  to_symbolic_on fsym names F (with_stoich m tbl) =
    match der_sequence F m with
    | None => SymErr ErrUnmodelled
    | Some ds =>
    match insert_derived fsym ds (sym_entries names) with
    | inl e => SymErr e
    | inr tab =>
    match conv_rxns fsym tab (m_rxn m) with
    | inl e => SymErr e
    | inr rxns =>
    match stat_loop rxns tbl [] with
    | inl e => SymErr e
    | inr eqs0 =>
    match dyn_part fsym F tab rxns (m_dyn m) eqs0 with
    | inl e => SymErr e
    | inr eqs =>
    match lookup_all eqs (m_vars m) with
    | None => SymErr ErrKey
    | Some l => SymOk l
    end end end end end end.
Proof. reflexivity. Qed.

Lemma to_symbolic_inv fsym F m eqs : to_symbolic fsym F m = SymOk eqs ->
  exists names tbl, table_names F m = Some names /\ stat_view F m = Some (with_stoich m tbl) /\
    (forall cpd row r n, In (cpd, row) (m_stoich m) -> In (r, n) row -> exists row' n', In (cpd, row') tbl /\ In (r, n') row') /\
    to_symbolic_on fsym names F (with_stoich m tbl) = SymOk eqs.
Proof.
  intros H. unfold to_symbolic in H. destruct (table_names F m) as [names|]; [|discriminate].
  destruct (stat_view F m) as [m'|] eqn:Ev; [|discriminate].
  destruct (stat_view_shape F m m' Ev) as (tbl & -> & Hk). exists names, tbl.
  split; [reflexivity|]. split; [reflexivity|]. split; [exact Hk|exact H].
Qed.

(** under the exact view (shipped fact, or every coefficient survives) to_symbolic IS to_symbolic_on *)
Lemma to_symbolic_exact fsym F m names : table_names F m = Some names -> stat_view F m = Some m ->
  to_symbolic fsym F m = to_symbolic_on fsym names F m.
Proof. intros H1 H2. unfold to_symbolic. rewrite H1, H2. reflexivity. Qed.

(** ======================================================================================== *)
(** soundness *)
Section Sound.
  Variable fsym : fnid -> list expr -> option expr.
  Variable fsem : fnid -> list Q -> Q.
  (** the per-function translation is sound (property C06's subject) *)
  Hypothesis fsym_sound : forall f es e env, fsym f es = Some e -> eval env e == fsem f (map (eval env) es).
  (** a rate function is a function of the VALUES of its arguments *)
  Hypothesis fsem_proper : forall f vs ws, Forall2 Qeq vs ws -> fsem f vs == fsem f ws.

  Variable env : name -> Q.

  Definition TabOk (tab : list (name * expr)) : Prop := forall k e, lookup k tab = Some e -> eval env e == env k.

  Lemma TabOk_cons tab k e : TabOk tab -> eval env e == env k -> TabOk ((k, e) :: tab).
  Proof.
    intros Ht He k' e'. cbn [lookup]. destruct (N.eqb k k') eqn:E; intros H.
    - apply N.eqb_eq in E. injection H as H. subst. exact He.
    - apply Ht. exact H.
  Qed.

  Lemma TabOk_base names : TabOk (map (fun n => (n, ESym n)) names).
  Proof. intros k e H. apply lookup_base in H. destruct H as [H _]. subst. reflexivity. Qed.

  Lemma lookup_all_vals tab args es :
    TabOk tab -> lookup_all tab args = Some es -> Forall2 Qeq (map (eval env) es) (map env args).
  Proof.
    intros Ht H. apply lookup_all_Forall2 in H.
    induction H as [|e a es args H1 _ IH]; cbn [map]; constructor; [apply Ht; exact H1|exact IH].
  Qed.

  Lemma conv_one_sound tab c e :
    TabOk tab -> conv_one fsym tab c = inr e -> eval env e == fsem (c_fn c) (map env (c_args c)).
  Proof.
    unfold conv_one. intros Ht H.
    destruct (lookup_all tab (c_args c)) as [es|] eqn:E; [|discriminate].
    destruct (fsym (c_fn c) es) as [e'|] eqn:E2; [|discriminate].
    injection H as H. subst e'.
    rewrite (fsym_sound _ _ _ env E2). apply fsem_proper. eapply lookup_all_vals; eassumption.
  Qed.

  Definition CompsOk (cs : list (name * comp)) : Prop :=
    forall k c, In (k, c) cs -> env k == fsem (c_fn c) (map env (c_args c)).

  Lemma insert_derived_ok ds : forall tab tab',
    TabOk tab -> CompsOk ds -> insert_derived fsym ds tab = inr tab' -> TabOk tab'.
  Proof.
    induction ds as [|[k c] ds IH]; cbn [insert_derived]; intros tab tab' Ht Hc H.
    - injection H as H. subst. exact Ht.
    - destruct (conv_one fsym tab c) as [x|e] eqn:E; [discriminate|].
      eapply IH; [| |exact H].
      + apply TabOk_cons; [exact Ht|]. rewrite (conv_one_sound _ _ _ Ht E). symmetry. apply Hc. left. reflexivity.
      + intros k' c' Hin. apply Hc. right. exact Hin.
  Qed.

  Lemma conv_rxns_ok tab rs : forall rx,
    TabOk tab -> CompsOk rs -> conv_rxns fsym tab rs = inr rx -> TabOk rx.
  Proof.
    induction rs as [|[k c] rs IH]; cbn [conv_rxns]; intros rx Ht Hc H.
    - injection H as H. subst. intros k e Hl. discriminate.
    - destruct (conv_one fsym tab c) as [x|e] eqn:E; [discriminate|].
      destruct (conv_rxns fsym tab rs) as [x|l] eqn:E2; [discriminate|].
      injection H as H. subst rx. apply TabOk_cons.
      + eapply IH; [exact Ht| |reflexivity]. intros k' c' Hin. apply Hc. right. exact Hin.
      + rewrite (conv_one_sound _ _ _ Ht E). symmetry. apply Hc. left. reflexivity.
  Qed.

  Lemma eq_get_cons eqs cpd e v :
    eq_get ((cpd, e) :: eqs) v = if N.eqb cpd v then e else eq_get eqs v.
  Proof. unfold eq_get. cbn [lookup]. destruct (N.eqb cpd v); reflexivity. Qed.

  Lemma stat_row_val rxns cpd st : forall eqs eqs',
    TabOk rxns -> stat_row rxns cpd st eqs = inr eqs' ->
    forall v, eval env (eq_get eqs' v) == eval env (eq_get eqs v) + (if N.eqb cpd v then row_sum env st else 0).
  Proof.
    induction st as [|[r n] st IH]; cbn [stat_row row_sum]; intros eqs eqs' Hr H v.
    - injection H as H. subst. destruct (N.eqb cpd v); ring.
    - destruct (lookup r rxns) as [re|] eqn:E; [|discriminate].
      rewrite (IH _ _ Hr H v). rewrite eq_get_cons.
      destruct (N.eqb cpd v) eqn:Ev.
      + apply N.eqb_eq in Ev. subst v. cbn [eval]. rewrite (Hr _ _ E). ring.
      + ring.
  Qed.

  Lemma stat_loop_val rxns tbl : forall eqs eqs',
    TabOk rxns -> stat_loop rxns tbl eqs = inr eqs' ->
    forall v, eval env (eq_get eqs' v) == eval env (eq_get eqs v) + stat_sum env tbl v.
  Proof.
    induction tbl as [|[cpd st] tbl IH]; cbn [stat_loop stat_sum]; intros eqs eqs' Hr H v.
    - injection H as H. subst. ring.
    - destruct (stat_row rxns cpd st eqs) as [x|eqs1] eqn:E; [discriminate|].
      rewrite (IH _ _ Hr H v). rewrite (stat_row_val _ _ _ _ _ Hr E v). ring.
  Qed.

  Lemma dyn_loop_none tab rxns tbl :
    dyn_loop tab rxns tbl = None -> forall cpd row, In (cpd, row) tbl -> row = [].
  Proof.
    induction tbl as [|[c [|[r d] row]] tbl IH]; cbn [dyn_loop]; intros H cpd row' Hin.
    - destruct Hin.
    - destruct Hin as [Hin|Hin]; [injection Hin as _ Hin; symmetry; exact Hin|exact (IH H _ _ Hin)].
    - exfalso. destruct (lookup_all tab (c_args d)); [destruct (lookup r rxns)|]; discriminate.
  Qed.

  Lemma dyn_sum_empty (tbl : list (name * list (name * comp))) v :
    (forall cpd row, In (cpd, row) tbl -> row = []) -> dyn_sum fsem env tbl v == 0.
  Proof.
    induction tbl as [|[c row] tbl IH]; cbn [dyn_sum]; intros H; [reflexivity|].
    rewrite IH; [|intros c' r' Hin; apply (H c'); right; exact Hin].
    rewrite (H c row (or_introl eq_refl)). cbn [dyn_row_sum]. destruct (N.eqb c v); ring.
  Qed.

  Lemma dyn_row_val tab rxns cpd ds : forall eqs eqs',
    TabOk tab -> TabOk rxns -> dyn_row fsym tab rxns cpd ds eqs = inr eqs' ->
    forall v, eval env (eq_get eqs' v) == eval env (eq_get eqs v) + (if N.eqb cpd v then dyn_row_sum fsem env ds else 0).
  Proof.
    induction ds as [|[r c] ds IH]; cbn [dyn_row dyn_row_sum]; intros eqs eqs' Ht Hr H v.
    - injection H as H. subst. destruct (N.eqb cpd v); ring.
    - destruct (conv_one fsym tab c) as [x|ce] eqn:Ec; [discriminate|].
      destruct (lookup r rxns) as [re|] eqn:E; [|discriminate].
      rewrite (IH _ _ Ht Hr H v). rewrite eq_get_cons.
      destruct (N.eqb cpd v) eqn:Ev.
      + apply N.eqb_eq in Ev. subst v. cbn [eval]. rewrite (Hr _ _ E). rewrite (conv_one_sound _ _ _ Ht Ec). ring.
      + ring.
  Qed.

  Lemma dyn_loop_coef_val tab rxns tbl : forall eqs eqs',
    TabOk tab -> TabOk rxns -> dyn_loop_coef fsym tab rxns tbl eqs = inr eqs' ->
    forall v, eval env (eq_get eqs' v) == eval env (eq_get eqs v) + dyn_sum fsem env tbl v.
  Proof.
    induction tbl as [|[cpd ds] tbl IH]; cbn [dyn_loop_coef dyn_sum]; intros eqs eqs' Ht Hr H v.
    - injection H as H. subst. ring.
    - destruct (dyn_row fsym tab rxns cpd ds eqs) as [x|eqs1] eqn:E; [discriminate|].
      rewrite (IH _ _ Ht Hr H v). rewrite (dyn_row_val _ _ _ _ _ _ Ht Hr E v). ring.
  Qed.

  Lemma dyn_part_val F tab rxns tbl eqs eqs' :
    TabOk tab -> TabOk rxns -> dyn_part fsym F tab rxns tbl eqs = inr eqs' ->
    forall v, eval env (eq_get eqs' v) == eval env (eq_get eqs v) + dyn_sum fsem env tbl v.
  Proof.
    unfold dyn_part. intros Ht Hr H v. destruct (sf_dyn F).
    - destruct (dyn_loop tab rxns tbl) as [x|] eqn:E; [discriminate|]. injection H as H. subst eqs'.
      rewrite (dyn_sum_empty _ v (dyn_loop_none _ _ _ E)). ring.
    - exact (dyn_loop_coef_val _ _ _ _ _ Ht Hr H v).
    - discriminate.
  Qed.

  Lemma lookup_all_eq_get eqs vars l :
    lookup_all eqs vars = Some l -> Forall2 (fun e v => e = eq_get eqs v) l vars.
  Proof.
    intros H. apply lookup_all_Forall2 in H.
    induction H as [|e a es args H1 _ IH]; constructor; [unfold eq_get; rewrite H1; reflexivity|exact IH].
  Qed.

  (** MAIN: a returned result is right, at this (arbitrary) resolved environment *)
  Theorem to_symbolic_on_sound names F m eqs :
    Resolved fsem m env ->
    to_symbolic_on fsym names F m = SymOk eqs ->
    Forall2 (fun e v => eval env e == num_rhs fsem m env v) eqs (m_vars m).
  Proof.
    intros [Hder Hrxn] H. unfold to_symbolic_on in H.
    destruct (der_sequence F m) as [ds|] eqn:Eds; [|discriminate].
    destruct (insert_derived fsym ds (sym_entries names)) as [x|tab] eqn:Etab; [discriminate|].
    destruct (conv_rxns fsym tab (m_rxn m)) as [x|rxns] eqn:Erx; [discriminate|].
    destruct (stat_loop rxns (m_stoich m) []) as [x|eqs0] eqn:Est; [discriminate|].
    destruct (dyn_part fsym F tab rxns (m_dyn m) eqs0) as [x|eqs1] eqn:Edy; [discriminate|].
    destruct (lookup_all eqs1 (m_vars m)) as [l|] eqn:El; [|discriminate].
    injection H as H. subst l.
    assert (Htab : TabOk tab).
    { eapply insert_derived_ok; [apply TabOk_base| |exact Etab].
      intros k c Hin. apply Hder. eapply der_sequence_In; eassumption. }
    assert (Hrx : TabOk rxns) by (eapply conv_rxns_ok; [exact Htab|exact Hrxn|exact Erx]).
    pose proof (stat_loop_val _ _ _ _ Hrx Est) as Hval.
    pose proof (dyn_part_val _ _ _ _ _ _ Htab Hrx Edy) as Hdy.
    apply lookup_all_eq_get in El.
    induction El as [|e v es vs He _ IH]; constructor; [|exact IH].
    subst e. rewrite Hdy, Hval. unfold num_rhs.
    unfold eq_get. cbn [lookup eval]. ring.
  Qed.

  (** ... whatever the symbol table is made of (every value of the fact sf_symtab) *)
  Theorem to_symbolic_sound F m eqs :
    stat_view F m = Some m ->          (* the static statement multiplies by the coefficient itself *)
    Resolved fsem m env ->
    to_symbolic fsym F m = SymOk eqs ->
    Forall2 (fun e v => eval env e == num_rhs fsem m env v) eqs (m_vars m).
  Proof.
    intros HS HR H. unfold to_symbolic in H. destruct (table_names F m) as [names|]; [|discriminate].
    rewrite HS in H. exact (to_symbolic_on_sound names F m eqs HR H).
  Qed.

  (** pre-fix fact DynListTimesRate: a state-dependent computed coefficient is refused (modelled
      on non-Integer rate expressions, see SymModel.dyn_part) *)
  Lemma dyn_raises_old F m cpd row :
    sf_dyn F = DynListTimesRate ->
    In (cpd, row) (m_dyn m) -> row <> [] -> forall eqs, to_symbolic fsym F m <> SymOk eqs.
  Proof.
    intros HF Hin Hne eqs H. apply to_symbolic_inv in H. destruct H as (names & tbl & _ & _ & _ & H).
    rewrite to_symbolic_on_with in H.
    destruct (der_sequence F m) as [ds|]; [|discriminate].
    destruct (insert_derived fsym ds (sym_entries names)) as [x|tab]; [discriminate|].
    destruct (conv_rxns fsym tab (m_rxn m)) as [x|rxns]; [discriminate|].
    destruct (stat_loop rxns tbl []) as [x|eqs0]; [discriminate|].
    unfold dyn_part in H. rewrite HF in H.
    destruct (dyn_loop tab rxns (m_dyn m)) as [x|] eqn:Edy; [discriminate|].
    apply Hne. eapply dyn_loop_none; eassumption.
  Qed.

  (** ---- the cache tables against the model's own stoichiometries --------------------------- *)
  Variable parnames : list name.
  Variable env0 : name -> Q.

  (** a parameter-only computed coefficient has (at [env]) the value it had when the cache was built *)
  Definition CoefStable (f : coef) : Prop :=
    match f with
    | CNum _ => True
    | CFun c => is_static parnames c = true ->
                fsem (c_fn c) (map env (c_args c)) == fsem (c_fn c) (map env0 (c_args c))
    end.

  Lemma row_sum_app st r n : row_sum env (st ++ [(r, n)]) == row_sum env st + n * env r.
  Proof. induction st as [|[r' n'] st IH]; cbn [app row_sum]; [ring|rewrite IH; ring]. Qed.

  Lemma dyn_row_sum_app ds r c :
    dyn_row_sum fsem env (ds ++ [(r, c)]) == dyn_row_sum fsem env ds + fsem (c_fn c) (map env (c_args c)) * env r.
  Proof. induction ds as [|[r' c'] ds IH]; cbn [app dyn_row_sum]; [ring|rewrite IH; ring]. Qed.

  Lemma stat_sum_add cpd r n tbl v :
    stat_sum env (tbl_add cpd r n tbl) v == stat_sum env tbl v + (if N.eqb cpd v then n * env r else 0).
  Proof.
    induction tbl as [|[c row] tbl IH]; cbn [tbl_add stat_sum].
    - cbn [row_sum]. destruct (N.eqb cpd v); ring.
    - destruct (N.eqb c cpd) eqn:E; cbn [stat_sum].
      + apply N.eqb_eq in E. subst c. destruct (N.eqb cpd v); [rewrite row_sum_app|]; ring.
      + rewrite IH. ring.
  Qed.

  Lemma dyn_sum_add cpd r c tbl v :
    dyn_sum fsem env (tbl_add cpd r c tbl) v ==
    dyn_sum fsem env tbl v + (if N.eqb cpd v then fsem (c_fn c) (map env (c_args c)) * env r else 0).
  Proof.
    induction tbl as [|[c' row] tbl IH]; cbn [tbl_add dyn_sum].
    - cbn [dyn_row_sum]. destruct (N.eqb cpd v); ring.
    - destruct (N.eqb c' cpd) eqn:E; cbn [dyn_sum].
      + apply N.eqb_eq in E. subst c'. destruct (N.eqb cpd v); [rewrite dyn_row_sum_app|]; ring.
      + rewrite IH. ring.
  Qed.

  Lemma stat_sum_setdefault cpd (tbl : list (name * list (name * Q))) v :
    stat_sum env (setdefault cpd tbl) v == stat_sum env tbl v.
  Proof.
    induction tbl as [|[c row] tbl IH]; cbn [setdefault stat_sum].
    - cbn [row_sum]. destruct (N.eqb cpd v); ring.
    - destruct (N.eqb c cpd); cbn [stat_sum]; [reflexivity|rewrite IH; reflexivity].
  Qed.

  Definition tables_sum (acc : tables) (v : name) : Q := stat_sum env (fst acc) v + dyn_sum fsem env (snd acc) v.

  Lemma add_factor_sum rxn cpd f acc v :
    CoefStable f ->
    tables_sum (add_factor fsem parnames env0 rxn cpd f acc) v ==
    tables_sum acc v + (if N.eqb cpd v then coef_val fsem env f * env rxn else 0).
  Proof.
    unfold tables_sum, add_factor. intros Hs. destruct f as [q|c]; cbn [fst snd coef_val].
    - rewrite stat_sum_add. ring.
    - cbn [CoefStable] in Hs. destruct (is_static parnames c) eqn:E; cbn [fst snd].
      + rewrite stat_sum_add. destruct (N.eqb cpd v); [rewrite (Hs eq_refl)|]; ring.
      + rewrite stat_sum_setdefault, dyn_sum_add. ring.
  Qed.

  Lemma add_rxn_sum rxn sto : forall acc v,
    (forall cpd f, In (cpd, f) sto -> CoefStable f) ->
    tables_sum (add_rxn fsem parnames env0 rxn sto acc) v == tables_sum acc v + raw_row_sum fsem env rxn sto v.
  Proof.
    induction sto as [|[cpd f] sto IH]; cbn [add_rxn raw_row_sum]; intros acc v Hs.
    - ring.
    - rewrite IH; [|intros c' f' Hin; apply (Hs c'); right; exact Hin].
      rewrite add_factor_sum; [ring|]. apply (Hs cpd). left. reflexivity.
  Qed.

  Lemma build_from_sum raw : forall acc v,
    (forall rxn sto cpd f, In (rxn, sto) raw -> In (cpd, f) sto -> CoefStable f) ->
    tables_sum (build_from fsem parnames env0 raw acc) v == tables_sum acc v + raw_rhs fsem env raw v.
  Proof.
    induction raw as [|[rxn sto] raw IH]; cbn [build_from raw_rhs]; intros acc v Hs.
    - ring.
    - rewrite IH; [|intros r s c f H1 H2; apply (Hs r s c f); [right; exact H1|exact H2]].
      rewrite add_rxn_sum; [ring|]. intros c f Hin. apply (Hs rxn sto c f); [left; reflexivity|exact Hin].
  Qed.

  (** the sums over the two cache tables are the model's right-hand side, provided the
      parameter-only computed coefficients still have their cache-time value *)
  Theorem tables_rhs raw v :
    (forall rxn sto cpd f, In (rxn, sto) raw -> In (cpd, f) sto -> CoefStable f) ->
    tables_sum (build_tables fsem parnames env0 raw) v == raw_rhs fsem env raw v.
  Proof.
    intros Hs. unfold build_tables. rewrite build_from_sum; [|exact Hs].
    unfold tables_sum. cbn [fst snd stat_sum dyn_sum]. ring.
  Qed.

  Theorem every_parameter_setting_partial F m raw eqs :
    stat_view F m = Some m ->
    m_stoich m = fst (build_tables fsem parnames env0 raw) ->
    m_dyn m = snd (build_tables fsem parnames env0 raw) ->
    (forall rxn sto cpd f, In (rxn, sto) raw -> In (cpd, f) sto -> CoefStable f) ->
    Resolved fsem m env ->
    to_symbolic fsym F m = SymOk eqs ->
    Forall2 (fun e v => eval env e == raw_rhs fsem env raw v) eqs (m_vars m).
  Proof.
    intros HS H1 H2 Hs Hres H.
    pose proof (to_symbolic_sound F m eqs HS Hres H) as Hsound.
    eapply Forall2_imp; [|exact Hsound]. cbn beta. intros e v He.
    rewrite He. rewrite <- (tables_rhs raw v Hs). unfold num_rhs, tables_sum. rewrite H1, H2. reflexivity.
  Qed.
End Sound.

(** ======================================================================================== *)
(** the equations mention base symbols only *)
Section Syms.
  Variable fsym : fnid -> list expr -> option expr.
  (** the translation introduces no symbols of its own *)
  Hypothesis fsym_syms : forall f es e, fsym f es = Some e ->
    forall n, In n (syms e) -> exists e', In e' es /\ In n (syms e').
  Variable B : list name.

  Definition TabIn (tab : list (name * expr)) : Prop := forall k e, lookup k tab = Some e -> incl (syms e) B.

  Lemma TabIn_cons tab k e : TabIn tab -> incl (syms e) B -> TabIn ((k, e) :: tab).
  Proof.
    intros Ht He k' e'. cbn [lookup]. destruct (N.eqb k k'); intros H.
    - injection H as H. subst. exact He.
    - eapply Ht. exact H.
  Qed.

  Lemma conv_one_syms tab c e : TabIn tab -> conv_one fsym tab c = inr e -> incl (syms e) B.
  Proof.
    unfold conv_one. intros Ht H.
    destruct (lookup_all tab (c_args c)) as [es|] eqn:E; [|discriminate].
    destruct (fsym (c_fn c) es) as [e'|] eqn:E2; [|discriminate].
    injection H as H. subst e'. intros n Hn.
    destruct (fsym_syms _ _ _ E2 n Hn) as [e' [He' Hn']].
    apply lookup_all_Forall2 in E.
    clear E2 Hn. induction E as [|x a es args H1 _ IH]; [destruct He'|].
    destruct He' as [He'|He']; [subst x; exact (Ht _ _ H1 n Hn')|exact (IH He')].
  Qed.

  Lemma insert_derived_syms ds : forall tab tab', TabIn tab -> insert_derived fsym ds tab = inr tab' -> TabIn tab'.
  Proof.
    induction ds as [|[k c] ds IH]; cbn [insert_derived]; intros tab tab' Ht H.
    - injection H as H. subst. exact Ht.
    - destruct (conv_one fsym tab c) as [x|e] eqn:E; [discriminate|].
      eapply IH; [|exact H]. apply TabIn_cons; [exact Ht|eapply conv_one_syms; eassumption].
  Qed.

  Lemma conv_rxns_syms tab rs : forall rx, TabIn tab -> conv_rxns fsym tab rs = inr rx -> TabIn rx.
  Proof.
    induction rs as [|[k c] rs IH]; cbn [conv_rxns]; intros rx Ht H.
    - injection H as H. subst. intros k e Hl. discriminate.
    - destruct (conv_one fsym tab c) as [x|e] eqn:E; [discriminate|].
      destruct (conv_rxns fsym tab rs) as [x|l] eqn:E2; [discriminate|].
      injection H as H. subst rx. apply TabIn_cons; [eapply IH; [exact Ht|reflexivity]|eapply conv_one_syms; eassumption].
  Qed.

  Lemma stat_row_syms rxns cpd st : forall eqs eqs', TabIn rxns -> TabIn eqs -> stat_row rxns cpd st eqs = inr eqs' -> TabIn eqs'.
  Proof.
    induction st as [|[r n] st IH]; cbn [stat_row]; intros eqs eqs' Hr He H.
    - injection H as H. subst. exact He.
    - destruct (lookup r rxns) as [re|] eqn:E; [|discriminate].
      eapply IH; [exact Hr| |exact H]. apply TabIn_cons; [exact He|].
      cbn [syms]. intros z Hz. unfold eq_get in Hz.
      apply in_app_or in Hz. destruct Hz as [Hz|Hz].
      + destruct (lookup cpd eqs) as [e0|] eqn:E0; [exact (He _ _ E0 z Hz)|destruct Hz].
      + cbn [app] in Hz. exact (Hr _ _ E z Hz).
  Qed.

  Lemma stat_loop_syms rxns tbl : forall eqs eqs', TabIn rxns -> TabIn eqs -> stat_loop rxns tbl eqs = inr eqs' -> TabIn eqs'.
  Proof.
    induction tbl as [|[cpd st] tbl IH]; cbn [stat_loop]; intros eqs eqs' Hr He H.
    - injection H as H. subst. exact He.
    - destruct (stat_row rxns cpd st eqs) as [x|eqs1] eqn:E; [discriminate|].
      eapply IH; [exact Hr| |exact H]. exact (stat_row_syms _ _ _ _ _ Hr He E).
  Qed.
  Lemma dyn_row_syms tab rxns cpd ds : forall eqs eqs',
    TabIn tab -> TabIn rxns -> TabIn eqs -> dyn_row fsym tab rxns cpd ds eqs = inr eqs' -> TabIn eqs'.
  Proof.
    induction ds as [|[r c] ds IH]; cbn [dyn_row]; intros eqs eqs' Ht Hr He H.
    - injection H as H. subst. exact He.
    - destruct (conv_one fsym tab c) as [x|ce] eqn:Ec; [discriminate|].
      destruct (lookup r rxns) as [re|] eqn:E; [|discriminate].
      eapply IH; [exact Ht|exact Hr| |exact H]. apply TabIn_cons; [exact He|].
      cbn [syms]. intros z Hz. unfold eq_get in Hz.
      apply in_app_or in Hz. destruct Hz as [Hz|Hz].
      + destruct (lookup cpd eqs) as [e0|] eqn:E0; [exact (He _ _ E0 z Hz)|destruct Hz].
      + apply in_app_or in Hz. destruct Hz as [Hz|Hz]; [exact (conv_one_syms _ _ _ Ht Ec z Hz)|exact (Hr _ _ E z Hz)].
  Qed.

  Lemma dyn_loop_coef_syms tab rxns tbl : forall eqs eqs',
    TabIn tab -> TabIn rxns -> TabIn eqs -> dyn_loop_coef fsym tab rxns tbl eqs = inr eqs' -> TabIn eqs'.
  Proof.
    induction tbl as [|[cpd ds] tbl IH]; cbn [dyn_loop_coef]; intros eqs eqs' Ht Hr He H.
    - injection H as H. subst. exact He.
    - destruct (dyn_row fsym tab rxns cpd ds eqs) as [x|eqs1] eqn:E; [discriminate|].
      eapply IH; [exact Ht|exact Hr| |exact H]. exact (dyn_row_syms _ _ _ _ _ _ Ht Hr He E).
  Qed.

  Lemma dyn_part_syms F tab rxns tbl eqs eqs' :
    TabIn tab -> TabIn rxns -> TabIn eqs -> dyn_part fsym F tab rxns tbl eqs = inr eqs' -> TabIn eqs'.
  Proof.
    unfold dyn_part. intros Ht Hr He H. destruct (sf_dyn F).
    - destruct (dyn_loop tab rxns tbl); [discriminate|]. injection H as H. subst. exact He.
    - exact (dyn_loop_coef_syms _ _ _ _ _ Ht Hr He H).
    - discriminate.
  Qed.
End Syms.

Theorem to_symbolic_on_syms fsym
  (fsym_syms : forall f es e, fsym f es = Some e -> forall n, In n (syms e) -> exists e', In e' es /\ In n (syms e'))
  names F m eqs :
  to_symbolic_on fsym names F m = SymOk eqs -> forall e, In e eqs -> incl (syms e) names.
Proof.
  intros H. unfold to_symbolic_on in H.
  destruct (der_sequence F m) as [ds|] eqn:Eds; [|discriminate].
  destruct (insert_derived fsym ds (sym_entries names)) as [x|tab] eqn:Etab; [discriminate|].
  destruct (conv_rxns fsym tab (m_rxn m)) as [x|rxns] eqn:Erx; [discriminate|].
  destruct (stat_loop rxns (m_stoich m) []) as [x|eqs0] eqn:Est; [discriminate|].
  destruct (dyn_part fsym F tab rxns (m_dyn m) eqs0) as [x|eqs1] eqn:Edy; [discriminate|].
  destruct (lookup_all eqs1 (m_vars m)) as [l|] eqn:El; [|discriminate].
  injection H as H. subst l.
  assert (Hb : TabIn names (sym_entries names)).
  { intros k e Hl. apply lookup_base in Hl. destruct Hl as [H1 H2]. subst e. cbn [syms].
    intros z [Hz|[]]. subst z. exact H2. }
  pose proof (insert_derived_syms fsym fsym_syms _ _ _ _ Hb Etab) as Htab.
  pose proof (conv_rxns_syms fsym fsym_syms _ _ _ _ Htab Erx) as Hrx.
  assert (He0 : TabIn names []) by (intros k e Hl; discriminate).
  pose proof (stat_loop_syms names _ _ _ _ Hrx He0 Est) as Heqs0.
  pose proof (dyn_part_syms fsym fsym_syms names _ _ _ _ _ _ Htab Hrx Heqs0 Edy) as Heqs.
  apply lookup_all_Forall2 in El.
  intros e Hin. induction El as [|x a es args H1 _ IH]; [destruct Hin|].
  destruct Hin as [Hin|Hin]; [subst x; exact (Heqs _ _ H1)|exact (IH Hin)].
Qed.

(** the returned equations mention keys of the symbol table only; with the shipped table
    (variables | parameters | data) these are the base names *)
Theorem to_symbolic_syms_table fsym
  (fsym_syms : forall f es e, fsym f es = Some e -> forall n, In n (syms e) -> exists e', In e' es /\ In n (syms e'))
  F m eqs :
  to_symbolic fsym F m = SymOk eqs ->
  exists names, table_names F m = Some names /\ forall e, In e eqs -> incl (syms e) names.
Proof.
  intros H. apply to_symbolic_inv in H. destruct H as (names & tbl & En & _ & _ & H).
  exists names. split; [exact En|]. exact (to_symbolic_on_syms fsym fsym_syms names F (with_stoich m tbl) eqs H).
Qed.

Theorem to_symbolic_syms fsym
  (fsym_syms : forall f es e, fsym f es = Some e -> forall n, In n (syms e) -> exists e', In e' es /\ In n (syms e'))
  F m eqs :
  sf_symtab F = SymVarsParsData ->
  to_symbolic fsym F m = SymOk eqs -> forall e, In e eqs -> incl (syms e) (base_names m).
Proof.
  intros HF H. apply to_symbolic_inv in H. destruct H as (names & tbl & En & _ & _ & H).
  unfold table_names in En. rewrite HF in En. injection En as En. subst names.
  exact (to_symbolic_on_syms fsym fsym_syms (base_names m) F (with_stoich m tbl) eqs H).
Qed.

Lemma to_symbolic_length fsym F m eqs : to_symbolic fsym F m = SymOk eqs -> length eqs = length (m_vars m).
Proof.
  intros H. apply to_symbolic_inv in H. destruct H as (names & tbl & _ & _ & _ & H).
  rewrite to_symbolic_on_with in H.
  destruct (der_sequence F m) as [ds|]; [|discriminate].
  destruct (insert_derived fsym ds (sym_entries names)) as [x|tab]; [discriminate|].
  destruct (conv_rxns fsym tab (m_rxn m)) as [x|rxns]; [discriminate|].
  destruct (stat_loop rxns tbl []) as [x|eqs0]; [discriminate|].
  destruct (dyn_part fsym F tab rxns (m_dyn m) eqs0) as [x|eqs1]; [discriminate|].
  destruct (lookup_all eqs1 (m_vars m)) as [l|] eqn:El; [|discriminate].
  injection H as H. subst l. apply lookup_all_Forall2 in El.
  induction El; cbn [length]; [reflexivity|rewrite IHEl; reflexivity].
Qed.

(** ======================================================================================== *)
(** success: a convertible model converts in dependency order, whatever the declaration order *)
Section Success.
  Variable fsym : fnid -> list expr -> option expr.

  Definition der_names (m : smodel) : list name := map fst (m_der m).

  (** every clause reads [m_der]/[m_rxn] through membership only: the declaration order of the
      derived values and reactions is irrelevant to it *)
  Record Convertible (m : smodel) : Prop := {
    cv_der_args : forall k c, In (k, c) (m_der m) -> forall a, In a (c_args c) -> In a (base_names m) \/ In a (der_names m) ;
    cv_rxn_args : forall k c, In (k, c) (m_rxn m) -> forall a, In a (c_args c) -> In a (base_names m) \/ In a (der_names m) ;
    cv_translate : forall k c, In (k, c) (m_der m ++ m_rxn m) ->
                   forall es, length es = length (c_args c) -> fsym (c_fn c) es <> None ;
    cv_stoich_rxn : forall cpd row r n, In (cpd, row) (m_stoich m) -> In (r, n) row -> In r (map fst (m_rxn m)) ;
    (* a state-dependent computed coefficient is converted like a rate: its reaction is a reaction of
       the model, its arguments are convertible names, its function translates *)
    cv_dyn : forall cpd row r c, In (cpd, row) (m_dyn m) -> In (r, c) row ->
             In r (map fst (m_rxn m)) /\
             (forall a, In a (c_args c) -> In a (base_names m) \/ In a (der_names m)) /\
             (forall es, length es = length (c_args c) -> fsym (c_fn c) es <> None) ;
    cv_covered : forall v, In v (m_vars m) ->
                 (exists row, In (v, row) (m_stoich m) /\ row <> []) \/ (exists row, In (v, row) (m_dyn m) /\ row <> [])
  }.

  (** what property C02 proves of [cache.order] for every declaration order: it lists every derived
      value, each after the derived values it names *)
  Definition OrderOk (m : smodel) : Prop :=
    (forall k, In k (der_names m) -> In k (m_order m)) /\
    (forall pre k post c, m_order m = pre ++ k :: post -> lookup k (m_der m) = Some c ->
       forall a, In a (c_args c) -> In a (der_names m) -> In a pre).

  Variable m : smodel.
  Hypothesis Hconv : Convertible m.
  Hypothesis Hord : OrderOk m.

  Definition Has (tab : list (name * expr)) (pre : list name) : Prop :=
    forall a, In a (base_names m) \/ (In a pre /\ In a (der_names m)) -> lookup a tab <> None.

  Lemma Has_cons tab pre k e : Has tab pre -> Has ((k, e) :: tab) (pre ++ [k]).
  Proof.
    intros H a Ha. cbn [lookup]. destruct (N.eqb k a) eqn:E; [discriminate|].
    apply H. destruct Ha as [Ha|[Ha Hd]]; [left; exact Ha|right].
    split; [|exact Hd]. apply in_app_or in Ha. destruct Ha as [Ha|[Ha|[]]]; [exact Ha|].
    apply N.eqb_neq in E. contradiction.
  Qed.

  Lemma conv_one_total tab c :
    (forall a, In a (c_args c) -> lookup a tab <> None) ->
    (forall es, length es = length (c_args c) -> fsym (c_fn c) es <> None) ->
    exists e, conv_one fsym tab c = inr e.
  Proof.
    intros Ha Hf. unfold conv_one. destruct (lookup_all_total tab (c_args c) Ha) as [es [E1 E2]].
    rewrite E1. destruct (fsym (c_fn c) es) as [e|] eqn:E; [exists e; reflexivity|exfalso; exact (Hf es E2 E)].
  Qed.

  Lemma pick_insert_ok post : forall pre tab,
    m_order m = pre ++ post -> Has tab pre ->
    exists tab', insert_derived fsym (pick_in_order post (m_der m)) tab = inr tab' /\ Has tab' (pre ++ post).
  Proof.
    induction post as [|k post IH]; intros pre tab Ho Ht; cbn [pick_in_order insert_derived].
    - exists tab. split; [reflexivity|rewrite app_nil_r; exact Ht].
    - assert (Ho' : m_order m = (pre ++ [k]) ++ post) by (rewrite <- app_assoc; exact Ho).
      destruct (lookup k (m_der m)) as [c|] eqn:E.
      + cbn [insert_derived].
        destruct (conv_one_total tab c) as [e Ee].
        * intros a Ha. apply Ht. pose proof (lookup_In _ _ _ E) as Hin.
          destruct (cv_der_args m Hconv k c Hin a Ha) as [Hb|Hd]; [left; exact Hb|right].
          split; [|exact Hd]. exact (proj2 Hord pre k post c Ho E a Ha Hd).
        * apply (cv_translate m Hconv k c). apply in_or_app. left. apply lookup_In. exact E.
        * rewrite Ee. destruct (IH (pre ++ [k]) ((k, e) :: tab) Ho' (Has_cons _ _ _ _ Ht)) as [tab' [H1 H2]].
          exists tab'. split; [exact H1|]. rewrite <- app_assoc in H2. exact H2.
      + assert (Ht' : Has tab (pre ++ [k])).
        { intros a Ha. apply Ht. destruct Ha as [Ha|[Ha Hd]]; [left; exact Ha|right]. split; [|exact Hd].
          apply in_app_or in Ha. destruct Ha as [Ha|[Ha|[]]]; [exact Ha|]. subst a.
          apply lookup_None in E. contradiction. }
        destruct (IH (pre ++ [k]) tab Ho' Ht') as [tab' [H1 H2]].
        exists tab'. split; [exact H1|]. rewrite <- app_assoc in H2. exact H2.
  Qed.

  Lemma conv_rxns_total tab rs :
    (forall k c, In (k, c) rs -> exists e, conv_one fsym tab c = inr e) ->
    exists rx, conv_rxns fsym tab rs = inr rx /\ map fst rx = map fst rs.
  Proof.
    induction rs as [|[k c] rs IH]; intros H; cbn [conv_rxns].
    - exists []. split; reflexivity.
    - destruct (H k c (or_introl eq_refl)) as [e Ee]. rewrite Ee.
      destruct IH as [rx [E1 E2]]; [intros k' c' Hin; apply (H k'); right; exact Hin|].
      rewrite E1. exists ((k, e) :: rx). split; [reflexivity|cbn [map fst]; rewrite E2; reflexivity].
  Qed.

  Lemma stat_row_total rxns cpd st : forall eqs,
    (forall r n, In (r, n) st -> lookup r rxns <> None) ->
    exists eqs', stat_row rxns cpd st eqs = inr eqs' /\
      (forall v, lookup v eqs <> None -> lookup v eqs' <> None) /\ (st <> [] -> lookup cpd eqs' <> None).
  Proof.
    induction st as [|[r n] st IH]; intros eqs H; cbn [stat_row].
    - exists eqs. split; [reflexivity|]. split; [intros v Hv; exact Hv|intros Hne; exfalso; apply Hne; reflexivity].
    - destruct (lookup r rxns) as [re|] eqn:E; [|exfalso; exact (H r n (or_introl eq_refl) E)].
      destruct (IH ((cpd, EAdd (eq_get eqs cpd) (EMul (EConst n) re)) :: eqs)) as [eqs' [E1 [E2 E3]]];
        [intros r' n' Hin; apply (H r' n'); right; exact Hin|].
      exists eqs'. split; [exact E1|]. split.
      + intros v Hv. apply E2. cbn [lookup]. destruct (N.eqb cpd v); [discriminate|exact Hv].
      + intros _. apply E2. cbn [lookup]. rewrite N.eqb_refl. discriminate.
  Qed.

  Lemma stat_loop_total rxns tbl : forall eqs,
    (forall cpd row r n, In (cpd, row) tbl -> In (r, n) row -> lookup r rxns <> None) ->
    exists eqs', stat_loop rxns tbl eqs = inr eqs' /\
      (forall v, lookup v eqs <> None -> lookup v eqs' <> None) /\
      (forall cpd row, In (cpd, row) tbl -> row <> [] -> lookup cpd eqs' <> None).
  Proof.
    induction tbl as [|[cpd st] tbl IH]; intros eqs H; cbn [stat_loop].
    - exists eqs. split; [reflexivity|]. split; [intros v Hv; exact Hv|intros c r []].
    - destruct (stat_row_total rxns cpd st eqs) as [eqs1 [E1 [E2 E3]]];
        [intros r n Hin; apply (H cpd st r n); [left; reflexivity|exact Hin]|].
      rewrite E1.
      destruct (IH eqs1) as [eqs' [F1 [F2 F3]]];
        [intros c row r n H1 H2; apply (H c row r n); [right; exact H1|exact H2]|].
      exists eqs'. split; [exact F1|]. split.
      + intros v Hv. apply F2. apply E2. exact Hv.
      + intros c row [Hin|Hin] Hne; [injection Hin as H1 H2; subst; apply F2; apply E3; exact Hne|exact (F3 c row Hin Hne)].
  Qed.

  Lemma dyn_row_total tab rxns cpd ds : forall eqs,
    (forall r c, In (r, c) ds -> lookup r rxns <> None /\ exists e, conv_one fsym tab c = inr e) ->
    exists eqs', dyn_row fsym tab rxns cpd ds eqs = inr eqs' /\
      (forall v, lookup v eqs <> None -> lookup v eqs' <> None) /\ (ds <> [] -> lookup cpd eqs' <> None).
  Proof.
    induction ds as [|[r c] ds IH]; intros eqs H; cbn [dyn_row].
    - exists eqs. split; [reflexivity|]. split; [intros v Hv; exact Hv|intros Hne; exfalso; apply Hne; reflexivity].
    - destruct (H r c (or_introl eq_refl)) as [Hr [ce Ece]]. rewrite Ece.
      destruct (lookup r rxns) as [re|] eqn:E; [|exfalso; exact (Hr eq_refl)].
      destruct (IH ((cpd, EAdd (eq_get eqs cpd) (EMul ce re)) :: eqs)) as [eqs' [E1 [E2 E3]]];
        [intros r' c' Hin; apply (H r' c'); right; exact Hin|].
      exists eqs'. split; [exact E1|]. split.
      + intros v Hv. apply E2. cbn [lookup]. destruct (N.eqb cpd v); [discriminate|exact Hv].
      + intros _. apply E2. cbn [lookup]. rewrite N.eqb_refl. discriminate.
  Qed.

  Lemma dyn_loop_coef_total tab rxns tbl : forall eqs,
    (forall cpd row r c, In (cpd, row) tbl -> In (r, c) row -> lookup r rxns <> None /\ exists e, conv_one fsym tab c = inr e) ->
    exists eqs', dyn_loop_coef fsym tab rxns tbl eqs = inr eqs' /\
      (forall v, lookup v eqs <> None -> lookup v eqs' <> None) /\
      (forall cpd row, In (cpd, row) tbl -> row <> [] -> lookup cpd eqs' <> None).
  Proof.
    induction tbl as [|[cpd ds] tbl IH]; intros eqs H; cbn [dyn_loop_coef].
    - exists eqs. split; [reflexivity|]. split; [intros v Hv; exact Hv|intros c r []].
    - destruct (dyn_row_total tab rxns cpd ds eqs) as [eqs1 [E1 [E2 E3]]];
        [intros r c Hin; apply (H cpd ds r c); [left; reflexivity|exact Hin]|].
      rewrite E1.
      destruct (IH eqs1) as [eqs' [F1 [F2 F3]]];
        [intros c0 row r c H1 H2; apply (H c0 row r c); [right; exact H1|exact H2]|].
      exists eqs'. split; [exact F1|]. split.
      + intros v Hv. apply F2. apply E2. exact Hv.
      + intros c0 row [Hin|Hin] Hne; [injection Hin as H1 H2; subst; apply F2; apply E3; exact Hne|exact (F3 c0 row Hin Hne)].
  Qed.

  (** the conversion over the shipped symbol table (variables | parameters | data) *)
  Theorem convertible_converts_on F :
    sf_order F = OrdDependency -> sf_dyn F = DynCoefTimesRate ->
    exists eqs, to_symbolic_on fsym (base_names m) F m = SymOk eqs.
  Proof.
    intros HF HFd. unfold to_symbolic_on, der_sequence. rewrite HF.
    destruct (pick_insert_ok (m_order m) [] (sym_entries (base_names m)) eq_refl) as [tab [Etab Htab]].
    { intros a [Ha|[[] _]]. apply lookup_Some_key. unfold sym_entries. rewrite map_map. cbn [fst]. rewrite map_id. exact Ha. }
    rewrite Etab. cbn [app] in Htab.
    assert (Hall : forall a, In a (base_names m) \/ In a (der_names m) -> lookup a tab <> None).
    { intros a [Ha|Ha]; apply Htab; [left; exact Ha|right; split; [apply (proj1 Hord); exact Ha|exact Ha]]. }
    destruct (conv_rxns_total tab (m_rxn m)) as [rxns [Erx Hkeys]].
    { intros k c Hin. apply conv_one_total.
      - intros a Ha. apply Hall. exact (cv_rxn_args m Hconv k c Hin a Ha).
      - apply (cv_translate m Hconv k c). apply in_or_app. right. exact Hin. }
    rewrite Erx.
    destruct (stat_loop_total rxns (m_stoich m) []) as [eqs1 [Est [_ Hcov]]].
    { intros cpd row r n H1 H2. apply lookup_Some_key. rewrite Hkeys. exact (cv_stoich_rxn m Hconv cpd row r n H1 H2). }
    rewrite Est. unfold dyn_part. rewrite HFd.
    destruct (dyn_loop_coef_total tab rxns (m_dyn m) eqs1) as [eqs2 [Edy [Hkeep Hcovd]]].
    { intros cpd row r c H1 H2. destruct (cv_dyn m Hconv cpd row r c H1 H2) as [Hr [Ha Hf]]. split.
      - apply lookup_Some_key. rewrite Hkeys. exact Hr.
      - apply conv_one_total; [intros a Hin; apply Hall; exact (Ha a Hin)|exact Hf]. }
    rewrite Edy.
    destruct (lookup_all_total eqs2 (m_vars m)) as [l [El _]].
    { intros v Hv. destruct (cv_covered m Hconv v Hv) as [[row [H1 H2]]|[row [H1 H2]]].
      - apply Hkeep. exact (Hcov v row H1 H2).
      - exact (Hcovd v row H1 H2). }
    rewrite El. exists l. reflexivity.
  Qed.

  Theorem convertible_converts F :
    sf_order F = OrdDependency -> sf_symtab F = SymVarsParsData -> sf_dyn F = DynCoefTimesRate ->
    sf_stat F = StatFloatTimesRate ->
    exists eqs, to_symbolic fsym F m = SymOk eqs.
  Proof.
    intros HF HFt HFd HFs. unfold to_symbolic, table_names. rewrite HFt, (stat_view_float F m HFs).
    exact (convertible_converts_on F HF HFd).
  Qed.
End Success.
