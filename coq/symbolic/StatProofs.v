(** C12 -- the coefficient of the static statement (fact sf_stat), regression theorems for the seeded change C12-9:

      eqs[cpd] = eqs.get(cpd, Integer(0)) + Rational(stoich_value).limit_denominator() * rxns[rxn]

    limit_denominator() returns the nearest fraction with a denominator <= 10^6.  For a coefficient of ordinary
    size that IS the coefficient (up to rounding far below binary64); for a unit-conversion factor it is not:
    |c| < 5e-7 becomes 0 (the reaction vanishes from the equation and from the Jacobian), c of order 1e-6 becomes
    the nearest 1/n.

      * [rational_small_denominators_sound]: under that fact the equations are still right for every model whose
        static coefficients have denominators <= 10^6 in lowest terms (why ordinary stoichiometries do not show it);
      * [w7]: dx1/dt = -(3/10^7) * k*x1, dx2/dt = k*x1.  Shipped fact: equations evaluate to the right-hand side;
        rational fact: the equation of x1 is 0. *)
From Coq Require Import QArith Qabs Lqa.
From MxlBase Require Import ListX.
From Symbolic Require Import Expr ExprProofs SymModel FnTab SymProofs ClosureProofs Witness.
Open Scope Q_scope.

Definition facts_rational : sym_facts :=
  mkSymFacts OrdDependency SymVarsParsData StatRationalLimited DynCoefTimesRate EqsByVarNames JacEqsByVars
             LamTimeVarsPars ThirdNumericByName FallbackWarnAnyException TimeShifted VarSymPlain.

Section RationalSound.
  Variable fsym : fnid -> list expr -> option expr.
  Variable fsem : fnid -> list Q -> Q.
  Hypothesis fsym_sound : forall f es e env, fsym f es = Some e -> eval env e == fsem f (map (eval env) es).
  Hypothesis fsem_proper : forall f vs ws, Forall2 Qeq vs ws -> fsem f vs == fsem f ws.

  Theorem float_sound env F m eqs :
    sf_stat F = StatFloatTimesRate ->
    Resolved fsem m env ->
    to_symbolic fsym F m = SymOk eqs ->
    Forall2 (fun e v => eval env e == num_rhs fsem m env v) eqs (m_vars m).
  Proof.
    intros HF. exact (to_symbolic_sound fsym fsem fsym_sound fsem_proper env F m eqs (stat_view_float F m HF)).
  Qed.

  Theorem rational_small_denominators_sound env F m eqs :
    sf_stat F = StatRationalLimited ->
    (forall cpd row r n, In (cpd, row) (m_stoich m) -> In (r, n) row -> (Z.pos (Qden (Qred n)) <= 1000000)%Z) ->
    Resolved fsem m env ->
    to_symbolic fsym F m = SymOk eqs ->
    Forall2 (fun e v => eval env e == num_rhs fsem m env v) eqs (m_vars m).
  Proof.
    intros HF Hsmall. apply (to_symbolic_sound fsym fsem fsym_sound fsem_proper env F m eqs).
    apply stat_view_rational_exact; [exact HF|].
    intros cpd row r n H1 H2. apply limit_den_small. exact (Hsmall cpd row r n H1 H2).
  Qed.
End RationalSound.

(** ---- w7 ------------------------------------------------------------------------------------ *)
(** variables 1 (a big medium pool, tracked in other units), 2; parameter 3 (k);
    reaction 5 = mass_action_1s(1, 3) = k*x1 with stoichiometry {1: -3e-7, 2: 1} *)
Definition w7 : smodel :=
  mkSM [1%N; 2%N] [(3%N, PPlain 4)] [] []
       [(5%N, mkComp 29%N [1%N; 3%N])]
       [5%N]
       [(1%N, [(5%N, -(3 # 10000000))]); (2%N, [(5%N, 1)])]
       [] [].
Definition w7_env : name -> Q := env_of [(1%N, 5); (2%N, 1); (3%N, 4); (5%N, 20)].

Lemma w7_resolved : Resolved fsem_lib w7 w7_env.
Proof.
  split; intros k c Hin; cbn [w7 m_der m_rxn In] in Hin;
    repeat (destruct Hin as [Hin|Hin]; [injection Hin as <- <-; vm_compute; reflexivity|]); destruct Hin.
Qed.

(** what CPython's Fraction.limit_denominator() makes of unit-conversion factors *)
Lemma limit_den_examples :
  limit_den (3 # 10000000) = Some (0 # 1) /\
  limit_den (-(3 # 10000000)) = Some (0 # 1) /\
  limit_den (13 # 10000000) = Some (1 # 769231) /\
  limit_den (-(7 # 10000000)) = Some (-1 # 1000000) /\
  limit_den (1 # 2097152) = Some (0 # 1) /\
  limit_den (1 # 3) = Some (1 # 3) /\ limit_den (-(3 # 2)) = Some (-(3 # 2)).
Proof. vm_compute. repeat split; reflexivity. Qed.

Lemma w7_shipped :
  exists eqs, to_symbolic fsym_lib facts_now w7 = SymOk eqs /\
    qlist_eqb (map (eval w7_env) eqs) (map (num_rhs fsem_lib w7 w7_env) (m_vars w7)) = true /\
    qlist_eqb (map (eval w7_env) eqs) [-(3 # 500000); 20] = true /\
    qmat_eqb (map (map (eval w7_env)) (jacobian D eqs (m_vars w7))) [[-(3 # 2500000); 0]; [4; 0]] = true.
Proof. eexists. split; [vm_compute; reflexivity|]. repeat split; vm_compute; reflexivity. Qed.

Lemma w7_rational :
  exists eqs, to_symbolic fsym_lib facts_rational w7 = SymOk eqs /\
    qlist_eqb (map (eval w7_env) eqs) [0; 20] = true /\
    qmat_eqb (map (map (eval w7_env)) (jacobian D eqs (m_vars w7))) [[0; 0]; [4; 0]] = true /\
    ~ Forall2 (fun e v => eval w7_env e == num_rhs fsem_lib w7 w7_env v) eqs (m_vars w7).
Proof.
  eexists. split; [vm_compute; reflexivity|]. split; [vm_compute; reflexivity|]. split; [vm_compute; reflexivity|].
  intros H. inversion H as [|e v es vs H1 _]; subst. vm_compute in H1. discriminate H1.
Qed.
