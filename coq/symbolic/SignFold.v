(** C12 -- rate laws that BRANCH ON THE SIGN of an argument, and what SymPy's symbol assumptions do to them.

    [fn_to_sympy] turns  `if v < 0: return a` / `a if v < 0 else b` / `... v >= 0 ...`  into
    Piecewise((a, c < 0), (b, True))  resp.  Piecewise((a, c >= 0), (b, True)); the model arguments are
    substituted for the function's parameters, and SymPy EVALUATES a relational as soon as it can decide it from
    the assumptions the symbols carry.  With plain symbols (sympy.Symbol(name), the shipped [list_of_symbols]) a
    sign test on a variable is undecidable and both branches stay; with Symbol(name, nonnegative=True) (seeded
    change C12-4) `V < 0` is False and `V >= 0` is True AT CONVERSION TIME: the branch taken for negative states
    disappears from the equations and -- differentiation being branch-wise -- from the Jacobian.

    [pexpr] = polynomial expressions (Expr.expr) under sign conditionals, sums and products;
    [nonneg_known] = the part of SymPy's assumption engine that matters here (a number >= 0, a symbol assumed
    non-negative, sums and products of such: a conservative reading -- SymPy also normalises e.g. (-1)*(-1)*x --
    used only for soundness statements and for a witness);
    [fold] = evaluation of the decidable relationals;  [assumed_nonneg] = which symbols carry the assumption,
    under the regenerated fact [sf_varsym].  No proofs in this file. *)
From Coq Require Import QArith.
From MxlBase Require Import ListX.
From Symbolic Require Import Expr SymModel.
Open Scope Q_scope.

Inductive pexpr :=
| PPoly (e : expr)
| PIf (neg : bool) (c : expr) (a b : pexpr)   (* neg = true:  Piecewise((a, c < 0), (b, True))
                                                 neg = false: Piecewise((a, c >= 0), (b, True)) *)
| PAdd (a b : pexpr)
| PMul (a b : pexpr).

Definition is_neg (q : Q) : bool := match Qlt_le_dec q 0 with left _ => true | right _ => false end.

Fixpoint peval (env : name -> Q) (p : pexpr) : Q :=
  match p with
  | PPoly e => eval env e
  | PIf neg c a b => if Bool.eqb (is_neg (eval env c)) neg then peval env a else peval env b
  | PAdd a b => peval env a + peval env b
  | PMul a b => peval env a * peval env b
  end.

(** branch-wise derivative (what SymPy's diff does with a Piecewise) *)
Fixpoint pD (x : name) (p : pexpr) : pexpr :=
  match p with
  | PPoly e => PPoly (D x e)
  | PIf neg c a b => PIf neg c (pD x a) (pD x b)
  | PAdd a b => PAdd (pD x a) (pD x b)
  | PMul a b => PAdd (PMul (pD x a) b) (PMul a (pD x b))
  end.

(** positional substitution of the model arguments (polynomial expressions: symbols of variables and
    parameters, or converted derived values) for the function's parameters *)
Fixpoint psubst (args : list expr) (p : pexpr) : option pexpr :=
  match p with
  | PPoly e => option_map PPoly (subst args e)
  | PIf neg c a b =>
      match subst args c, psubst args a, psubst args b with
      | Some c', Some a', Some b' => Some (PIf neg c' a' b')
      | _, _, _ => None
      end
  | PAdd a b =>
      match psubst args a, psubst args b with Some a', Some b' => Some (PAdd a' b') | _, _ => None end
  | PMul a b =>
      match psubst args a, psubst args b with Some a', Some b' => Some (PMul a' b') | _, _ => None end
  end.

(** is the expression known to be >= 0 from the assumptions [nn] on the symbols? *)
Fixpoint nonneg_known (nn : name -> bool) (e : expr) : bool :=
  match e with
  | EConst q => Qle_bool 0 q
  | ESym n => nn n
  | EAdd a b | EMul a b => nonneg_known nn a && nonneg_known nn b
  end.

(** evaluation of the relationals that are decidable from the assumptions: c >= 0 known makes `c < 0` False
    (the first piece is dropped) and `c >= 0` True (the first piece is taken) *)
Fixpoint fold (nn : name -> bool) (p : pexpr) : pexpr :=
  match p with
  | PPoly e => PPoly e
  | PIf neg c a b =>
      if nonneg_known nn c then (if neg then fold nn b else fold nn a)
      else PIf neg c (fold nn a) (fold nn b)
  | PAdd a b => PAdd (fold nn a) (fold nn b)
  | PMul a b => PMul (fold nn a) (fold nn b)
  end.

(** which symbols carry the assumption `nonnegative` under the regenerated fact; None = unmodelled *)
Definition assumed_nonneg (F : sym_facts) (m : smodel) : option (name -> bool) :=
  match sf_varsym F with
  | VarSymPlain => Some (fun _ => false)
  | VarSymNonneg => Some (fun n => memN n (m_vars m))
  | VarSymUnknown => None
  end.

(** fn_to_sympy on a sign-branching body with the model arguments [args], in a model converted under F *)
Definition ptranslate (F : sym_facts) (m : smodel) (args : list expr) (body : pexpr) : option pexpr :=
  match assumed_nonneg F m, psubst args body with
  | Some nn, Some p => Some (fold nn p)
  | _, _ => None
  end.

(** what CPython computes for the body at argument values [vs] *)
Definition pfsem (body : pexpr) (vs : list Q) : Q := peval (fun i => nth (N.to_nat i) vs 0) body.

(** the bodies of harness/c12_fns.py ids 60.. (positional parameters ESym 0, ESym 1, ...) *)
Definition p0 := ESym 0%N. Definition p1 := ESym 1%N. Definition p2 := ESym 2%N.
Definition b_rect_neg : pexpr := PIf true p0 (PPoly (EMul (EMul (EConst (-1)) p1) p0)) (PPoly (EConst 0)).   (* 60 *)
Definition b_abs : pexpr := PIf true p0 (PPoly (EMul (EConst (-1)) p0)) (PPoly p0).                          (* 61 *)
Definition b_pos_part : pexpr := PIf false p0 (PPoly p0) (PPoly (EConst 0)).                                 (* 62 *)
Definition b_abs_coupling : pexpr := PMul (PPoly (EMul p2 p1)) b_abs.                                        (* 63 *)
Definition b_leaky : pexpr := PIf false p0 (PPoly p0) (PPoly (EMul p1 p0)).                                  (* 64 *)
