(** C12 -- executable model of

      * src/mxlpy/symbolic/symbolic_model.py :: to_symbolic_model, SymbolicModel.jacobian
      * src/mxlpy/simulator.py :: Simulator._initialise_integrator (the Jacobian closure)

    statement by statement, parameterised by the facts regenerated from the source
    (GenSymFacts.v) and by the function translator [fsym] (= fn_to_sympy, property C06's subject)
    and the differentiator [sdiff] (= SymPy's diff inside Matrix.jacobian).

    INPUT of the model ([smodel]) is exactly what the Python function reads: the model's
    containers in declaration order (surrogates included: the conversion reads their output NAMES)
    and the parts of the ModelCache it consults
    ([order], [stoich_by_cpds], [dyn_stoich_by_cpds], [var_names], [all_parameter_values]).
    How the cache is built is the subject of C01/C02/C03 (coq/core), not of this file.

    Dictionaries are insertion-ordered association lists; [symbols[k] = e] is modelled by
    consing (k,e) in front and looking up the first match -- the same observable behaviour for
    the lookups, which is all the code does with these dictionaries.

    The name 0 is "time".  No proofs in this file. *)
From Coq Require Import QArith.
From MxlBase Require Import ListX.
From Symbolic Require Import Expr.
Open Scope Q_scope.

Definition fnid := N.
Definition time_name : name := 0%N.

(** value of a parameter: a plain number, or an InitialAssignment whose resolved value the cache
    holds in [all_parameter_values] (it is NOT in [get_parameter_values()]) *)
Inductive pval := PPlain (q : Q) | PIA (resolved : Q).
Definition pval_num (p : pval) : Q := match p with PPlain q => q | PIA q => q end.
Definition is_plain (p : pval) : bool := match p with PPlain _ => true | PIA _ => false end.

Record comp := mkComp { c_fn : fnid ; c_args : list name }.

(** a surrogate (MockSurrogate / surrogates.qss.Surrogate / ...): [predict] maps the values of [su_args]
    to one value per output name; an output named in a stoichiometry is a FLUX (it appears as a
    reaction name in the cache's coefficient tables), the others are values other components may
    name as arguments.  [su_outs] pairs every output with the function computing it from the
    argument values (used by the numeric specification only; the conversion reads the NAMES). *)
Record surr := mkSurr { su_args : list name ; su_outs : list (name * fnid) }.

Record smodel := mkSM {
  m_vars : list name ;                          (* _variables keys = cache.var_names = initial_conditions keys *)
  m_pars : list (name * pval) ;                 (* _parameters, declaration order *)
  m_data : list name ;                          (* _data keys *)
  m_der : list (name * comp) ;                  (* _derived, declaration order *)
  m_rxn : list (name * comp) ;                  (* _reactions, declaration order *)
  m_order : list name ;                         (* cache.order *)
  m_stoich : list (name * list (name * Q)) ;    (* cache.stoich_by_cpds : cpd -> rxn -> number *)
  m_dyn : list (name * list (name * comp)) ;    (* cache.dyn_stoich_by_cpds : cpd -> rxn -> Derived *)
  m_surr : list (name * surr)                   (* _surrogates, declaration order *)
}.

(** ---- facts regenerated from the source ------------------------------------------------ *)
Inductive der_order := OrdDeclaration | OrdDependency | OrdUnknown.
Inductive closure_third := ThirdParamRecords | ThirdNumericByName | ThirdBaseValues | ThirdUnknown.
Inductive jac_layout := JacEqsByVars | JacUnknown.
Inductive eqs_order := EqsByVarNames | EqsUnknown.
(** lambdify(("time", <state names>, parameter names), jac): the state names are
    self.model.get_variable_names() (LamTimeVarsPars, shipped) or list(y0) = the KEYS of the initial-state
    mapping the simulator holds, in their order (LamTimeY0KeysPars: seeded change C12-5, a regression) *)
Inductive lam_args := LamTimeVarsPars | LamTimeY0KeysPars | LamUnknown.
(** how the symbols of the model variables are created: plain sympy.Symbol(name) (list_of_symbols), or
    sympy.Symbol(name, nonnegative=True) (seeded change C12-4, a regression: SymPy then decides sign tests on
    variables at conversion time -- coq/symbolic/SignFold.v) *)
Inductive var_symbols := VarSymPlain | VarSymNonneg | VarSymUnknown.
Inductive sym_table := SymVarsParsData | SymVarsParsDataSurr | SymUnknown.
(** the static statement: the coefficient is sympy.Float(stoich_value) (shipped), or
    sympy.Rational(stoich_value).limit_denominator() (StatRationalLimited: seeded change C12-9, a regression --
    the nearest fraction with denominator <= 10^6 is NOT the coefficient when the coefficient is of
    unit-conversion size) *)
Inductive stat_term := StatFloatTimesRate | StatRationalLimited | StatUnknown.
Inductive dyn_term := DynListTimesRate | DynCoefTimesRate | DynUnknown.
Inductive fallback_kind := FallbackWarnAnyException | FallbackUnknown.
Inductive time_arg := TimePlain | TimeShifted | TimeUnknown.

Record sym_facts := mkSymFacts {
  sf_order : der_order ;          (* derived inserted into the symbol table in which order *)
  sf_symtab : sym_table ;         (* symbols = variables | parameters | data   (| surrogates: the merged table, a regression) *)
  sf_stat : stat_term ;           (* eqs[cpd] = eqs.get(cpd, 0.0) + Float(n) * rxns[rxn]   (| Rational(n).limit_denominator() * rxns[rxn]) *)
  sf_dyn : dyn_term ;             (* the dynamic-coefficient statement (list * expression) *)
  sf_eqs : eqs_order ;            (* eqs = [eqs[i] for i in cache.var_names] *)
  sf_jac : jac_layout ;           (* Matrix(eqs).jacobian(Matrix(list(variables.values()))) *)
  sf_lam : lam_args ;             (* lambdify(("time", variable names, parameter names), jac) *)
  sf_third : closure_third ;      (* what the closure passes as third argument *)
  sf_fallback : fallback_kind ;   (* try: ... except Exception: warn; jac_fn stays None *)
  sf_time : time_arg ;            (* first argument of the closure: t | t + t_shift (absolute time after an override) *)
  sf_varsym : var_symbols         (* variables = {name: Symbol(name)}  |  Symbol(name, nonnegative=True) *)
}.

(** ---- outcomes ------------------------------------------------------------------------- *)
Inductive err := ErrKey | ErrValue | ErrType | ErrName | ErrUnmodelled.
Inductive sym_result := SymOk (eqs : list expr) | SymErr (e : err).

Fixpoint lookup {A} (k : name) (l : list (name * A)) : option A :=
  match l with
  | [] => None
  | (k', v) :: rest => if N.eqb k' k then Some v else lookup k rest
  end.

(** [ [tab[i] for i in args] ] ; None = KeyError *)
Fixpoint lookup_all {A} (tab : list (name * A)) (args : list name) : option (list A) :=
  match args with
  | [] => Some []
  | a :: rest =>
      match lookup a tab, lookup_all tab rest with
      | Some e, Some es => Some (e :: es)
      | _, _ => None
      end
  end.

Definition plain_par_names (m : smodel) : list name :=
  map fst (filter (fun p => is_plain (snd p)) (m_pars m)).

(** keys of  variables | parameters | data  (parameters = get_parameter_values(): plain ones only) *)
Definition base_names (m : smodel) : list name := m_vars m ++ plain_par_names m ++ m_data m.
Definition sym_entries (ns : list name) : list (name * expr) := map (fun n => (n, ESym n)) ns.
Definition base_symbols (m : smodel) : list (name * expr) := sym_entries (base_names m).

(** model.get_surrogate_output_names(include_fluxes=True) *)
Definition surr_outputs (m : smodel) : list name := flat_map (fun s => map fst (su_outs (snd s))) (m_surr m).

(** the keys of the translation symbol table [symbols] under the regenerated fact.  The shipped table
    is  variables | parameters | data : a surrogate output is NOT a key (it is only reported in
    SymbolicModel.external), so naming one is a KeyError.  SymVarsParsDataSurr is the merged table
    variables | parameters | data | surrogates  (every value is the symbol of its own key, so the
    order of the union is irrelevant to the lookups). *)
Definition table_names (F : sym_facts) (m : smodel) : option (list name) :=
  match sf_symtab F with
  | SymVarsParsData => Some (base_names m)
  | SymVarsParsDataSurr => Some (base_names m ++ surr_outputs m)
  | SymUnknown => None
  end.

(** ---- the coefficient of the static statement under the regenerated fact ------------------------
    fractions.Fraction.limit_denominator(max_denominator=1000000) of CPython 3.12, to which
    sympy.Rational.limit_denominator delegates, statement by statement:

        if self._denominator <= max_denominator: return Fraction(self)
        p0, q0, p1, q1 = 0, 1, 1, 0
        n, d = self._numerator, self._denominator
        while True:
            a = n//d
            q2 = q0+a*q1
            if q2 > max_denominator: break
            p0, q0, p1, q1 = p1, q1, p0+a*p1, q2
            n, d = d, n-a*d
        k = (max_denominator-q0)//q1
        if 2*d*(q0+k*q1) <= self._denominator: return Fraction(p1, q1)
        else: return Fraction(p0+k*p1, q0+k*q1)

    (// is floor division = Z.div for a positive divisor.)  The loop is the continued-fraction expansion: the
    denominators q grow at least like the Fibonacci numbers, so it breaks within 31 rounds for max_denominator =
    10^6; the fuel 64 is never used up on a Fraction (exhaustion = None = an UNMODELLED outcome that equals no
    observation; validated against CPython's function on every run by the correspondence shard c12_limden). *)
Definition max_den : Z := 1000000.

Fixpoint limit_loop (fuel : nat) (p0 q0 p1 q1 n d : Z) : option (Z * Z * Z * Z * Z) :=
  match fuel with
  | O => None
  | S f =>
      let a := (n / d)%Z in
      let q2 := (q0 + a * q1)%Z in
      if (max_den <? q2)%Z then Some (p0, q0, p1, q1, d)
      else limit_loop f p1 q1 (p0 + a * p1)%Z q2 d (n - a * d)%Z
  end.

Definition limit_den (x : Q) : option Q :=
  let r := Qred x in
  if (Z.pos (Qden r) <=? max_den)%Z then Some x
  else
    match limit_loop 64 0 1 1 0 (Qnum r) (Z.pos (Qden r)) with
    | None => None
    | Some (p0, q0, p1, q1, d) =>
        let k := ((max_den - q0) / q1)%Z in
        if (2 * d * (q0 + k * q1) <=? Z.pos (Qden r))%Z
        then Some (p1 # Z.to_pos q1)
        else Some ((p0 + k * p1) # Z.to_pos (q0 + k * q1))
    end.

Fixpoint limit_row (st : list (name * Q)) : option (list (name * Q)) :=
  match st with
  | [] => Some []
  | (r, n) :: rest =>
      match limit_den n, limit_row rest with
      | Some n', Some l => Some ((r, n') :: l)
      | _, _ => None
      end
  end.
Fixpoint limit_tbl (tbl : list (name * list (name * Q))) : option (list (name * list (name * Q))) :=
  match tbl with
  | [] => Some []
  | (cpd, st) :: rest =>
      match limit_row st, limit_tbl rest with
      | Some st', Some l => Some ((cpd, st') :: l)
      | _, _ => None
      end
  end.

Definition with_stoich (m : smodel) (tbl : list (name * list (name * Q))) : smodel :=
  mkSM (m_vars m) (m_pars m) (m_data m) (m_der m) (m_rxn m) (m_order m) tbl (m_dyn m) (m_surr m).

(** the model as the static loop SEES it: cache.stoich_by_cpds with every number replaced by the coefficient the
    statement multiplies the rate with.  Shipped: Float(n) = n, the model itself. *)
Definition stat_view (F : sym_facts) (m : smodel) : option smodel :=
  match sf_stat F with
  | StatFloatTimesRate => Some m
  | StatRationalLimited => option_map (with_stoich m) (limit_tbl (m_stoich m))
  | StatUnknown => None
  end.

Section WithSymPy.
  Variable fsym : fnid -> list expr -> option expr.   (* fn_to_sympy(fn, model_args=...) ; None = cannot parse *)
  Variable sdiff : name -> expr -> expr.              (* SymPy differentiation of one entry *)

  (** one [fn_to_sympy(v.fn, origin=k, model_args=[symbols[i] for i in v.args])] *)
  Definition conv_one (tab : list (name * expr)) (c : comp) : err + expr :=
    match lookup_all tab (c_args c) with
    | None => inl ErrKey
    | Some es => match fsym (c_fn c) es with None => inl ErrValue | Some e => inr e end
    end.

  (** "Insert derived into symbols" loop *)
  Fixpoint insert_derived (ds : list (name * comp)) (tab : list (name * expr)) : err + list (name * expr) :=
    match ds with
    | [] => inr tab
    | (k, c) :: rest =>
        match conv_one tab c with
        | inl e => inl e
        | inr e => insert_derived rest ((k, e) :: tab)
        end
    end.

  (** [for name in cache.order if name in derived: v = derived[name]] *)
  Fixpoint pick_in_order (order : list name) (ders : list (name * comp)) : list (name * comp) :=
    match order with
    | [] => []
    | k :: rest =>
        match lookup k ders with
        | Some c => (k, c) :: pick_in_order rest ders
        | None => pick_in_order rest ders
        end
    end.

  Definition der_sequence (F : sym_facts) (m : smodel) : option (list (name * comp)) :=
    match sf_order F with
    | OrdDeclaration => Some (m_der m)
    | OrdDependency => Some (pick_in_order (m_order m) (m_der m))
    | OrdUnknown => None
    end.

  (** "Insert derived into reaction via args" loop; rxns is a separate dictionary *)
  Fixpoint conv_rxns (tab : list (name * expr)) (rs : list (name * comp)) : err + list (name * expr) :=
    match rs with
    | [] => inr []
    | (k, c) :: rest =>
        match conv_one tab c with
        | inl e => inl e
        | inr e => match conv_rxns tab rest with inl e' => inl e' | inr l => inr ((k, e) :: l) end
        end
    end.

  Definition eq_get (eqs : list (name * expr)) (cpd : name) : expr :=
    match lookup cpd eqs with Some e => e | None => EConst 0 end.

  (** inner loop of the static part:  eqs[cpd] = eqs.get(cpd, Float(0.0)) + Float(n) * rxns[rxn] *)
  Fixpoint stat_row (rxns : list (name * expr)) (cpd : name) (st : list (name * Q)) (eqs : list (name * expr))
    : err + list (name * expr) :=
    match st with
    | [] => inr eqs
    | (r, n) :: rest =>
        match lookup r rxns with
        | None => inl ErrKey
        | Some re => stat_row rxns cpd rest ((cpd, EAdd (eq_get eqs cpd) (EMul (EConst n) re)) :: eqs)
        end
    end.

  Fixpoint stat_loop (rxns : list (name * expr)) (tbl : list (name * list (name * Q))) (eqs : list (name * expr))
    : err + list (name * expr) :=
    match tbl with
    | [] => inr eqs
    | (cpd, st) :: rest =>
        match stat_row rxns cpd st eqs with
        | inl e => inl e
        | inr eqs' => stat_loop rxns rest eqs'
        end
    end.

  (** the dynamic part: the first entry evaluates [symbols[i] for i in der.args] (KeyError), then
      rxns[rxn] (KeyError), then multiplies a list by an expression (TypeError) *)
  Fixpoint dyn_loop (tab rxns : list (name * expr)) (tbl : list (name * list (name * comp))) : option err :=
    match tbl with
    | [] => None
    | (_, []) :: rest => dyn_loop tab rxns rest
    | (_, (r, c) :: _) :: _ =>
        match lookup_all tab (c_args c) with
        | None => Some ErrKey
        | Some _ => match lookup r rxns with None => Some ErrKey | Some _ => Some ErrType end
        end
    end.

  (** the repaired dynamic part (fact DynCoefTimesRate):
        if (coef := fn_to_sympy(der.fn, origin=rxn, model_args=[symbols[i] for i in der.args])) is None: raise ValueError
        eqs[cpd] = eqs.get(cpd, Float(0.0)) + coef * rxns[rxn] *)
  Fixpoint dyn_row (tab rxns : list (name * expr)) (cpd : name) (ds : list (name * comp)) (eqs : list (name * expr))
    : err + list (name * expr) :=
    match ds with
    | [] => inr eqs
    | (r, c) :: rest =>
        match conv_one tab c with
        | inl e => inl e
        | inr ce =>
            match lookup r rxns with
            | None => inl ErrKey
            | Some re => dyn_row tab rxns cpd rest ((cpd, EAdd (eq_get eqs cpd) (EMul ce re)) :: eqs)
            end
        end
    end.
  Fixpoint dyn_loop_coef (tab rxns : list (name * expr)) (tbl : list (name * list (name * comp))) (eqs : list (name * expr))
    : err + list (name * expr) :=
    match tbl with
    | [] => inr eqs
    | (cpd, ds) :: rest =>
        match dyn_row tab rxns cpd ds eqs with
        | inl e => inl e
        | inr eqs' => dyn_loop_coef tab rxns rest eqs'
        end
    end.

  (** the dynamic part under the regenerated fact.  DynListTimesRate is the snapshot's statement
      [fn_to_sympy(der.fn, [symbols...] * rxns[rxn])] (misplaced parenthesis): it is modelled on rate
      expressions that are not SymPy Integers (list * expression: TypeError); on an Integer rate
      Python repeats the list and fn_to_sympy returns the function's UNSUBSTITUTED body -- that case
      is outside the expression fragment (recorded defect, fixes/C12-dynamic-coefficient.diff). *)
  Definition dyn_part (F : sym_facts) (tab rxns : list (name * expr)) (tbl : list (name * list (name * comp)))
             (eqs : list (name * expr)) : err + list (name * expr) :=
    match sf_dyn F with
    | DynListTimesRate => match dyn_loop tab rxns tbl with Some e => inl e | None => inr eqs end
    | DynCoefTimesRate => dyn_loop_coef tab rxns tbl eqs
    | DynUnknown => inl ErrUnmodelled
    end.

  Definition to_symbolic_on (names : list name) (F : sym_facts) (m : smodel) : sym_result :=
    match der_sequence F m with
    | None => SymErr ErrUnmodelled
    | Some ds =>
    match insert_derived ds (sym_entries names) with
    | inl e => SymErr e
    | inr tab =>
    match conv_rxns tab (m_rxn m) with
    | inl e => SymErr e
    | inr rxns =>
    match stat_loop rxns (m_stoich m) [] with
    | inl e => SymErr e
    | inr eqs0 =>
    match dyn_part F tab rxns (m_dyn m) eqs0 with
    | inl e => SymErr e
    | inr eqs =>
    match lookup_all eqs (m_vars m) with           (* [eqs[i] for i in cache.var_names] *)
    | None => SymErr ErrKey
    | Some l => SymOk l
    end end end end end end.

  Definition to_symbolic (F : sym_facts) (m : smodel) : sym_result :=
    match table_names F m with
    | None => SymErr ErrUnmodelled
    | Some names =>
        match stat_view F m with
        | None => SymErr ErrUnmodelled
        | Some m' => to_symbolic_on names F m'
        end
    end.

  (** SymbolicModel.jacobian: rows = equations (variable order), columns = variables.values() *)
  Definition jacobian (eqs : list expr) (vars : list name) : list (list expr) :=
    map (fun e => map (fun v => sdiff v e) vars) eqs.

  (** ---- Simulator._initialise_integrator ------------------------------------------------ *)
  Inductive jac_state :=
  | JacNone (warned : err)                                             (* fallback: warning, jac_fn = None *)
  | JacFn (jac : list (list expr)) (vnames pnames : list name).        (* lambdify(("time", vnames, pnames), jac) *)

  Definition init_jac (F : sym_facts) (m : smodel) : jac_state :=
    match to_symbolic F m with
    | SymErr e => JacNone e
    | SymOk eqs => JacFn (jacobian eqs (m_vars m)) (m_vars m) (map fst (m_pars m))
    end.

  (** the names the lambdified function unpacks the state vector into, given the keys of the simulator's
      initial-state mapping [self.y0] in their order (with y0=None these are the model's variables in
      declaration order: self.y0 = model.get_initial_conditions()).  The state vector itself is ALWAYS in
      model variable order: tuple(y0[k] for k in self.model.get_variable_names()). *)
  Definition lam_vnames (F : sym_facts) (m : smodel) (y0keys : list name) : option (list name) :=
    match sf_lam F with
    | LamTimeVarsPars => Some (m_vars m)
    | LamTimeY0KeysPars => Some y0keys
    | LamUnknown => None
    end.

  (** _initialise_integrator of a simulator constructed with an explicit y0 mapping; None = unmodelled *)
  Definition init_jac_y0 (F : sym_facts) (m : smodel) (y0keys : list name) : option jac_state :=
    match lam_vnames F m y0keys with
    | None => None
    | Some vn =>
        Some match to_symbolic F m with
             | SymErr e => JacNone e
             | SymOk eqs => JacFn (jacobian eqs (m_vars m)) vn (map fst (m_pars m))
             end
    end.

  (** what a Python name is bound to inside the lambdified function *)
  Inductive pyval := VNum (q : Q) | VRec.        (* a number | a Parameter container object *)

  (** third positional argument of the closure, evaluated at call time; None = KeyError *)
  Definition third_arg (F : sym_facts) (m : smodel) (pnames : list name) : option (list pyval) :=
    match sf_third F with
    | ThirdParamRecords => Some (map (fun _ => VRec) (m_pars m))                  (* _parameters.values() *)
    | ThirdNumericByName =>                                                        (* [all_parameter_values[k] for k in names] *)
        option_map (map (fun p => VNum (pval_num p))) (lookup_all (m_pars m) pnames)
    | ThirdBaseValues =>                                                           (* get_parameter_values().values() *)
        Some (map (fun p => VNum (pval_num (snd p))) (filter (fun p => is_plain (snd p)) (m_pars m)))
    | ThirdUnknown => None
    end.

  (** [ [n1, n2, ...] = values ] ; None = ValueError (wrong number of values to unpack) *)
  Fixpoint bind (names : list name) (vals : list pyval) : option (list (name * pyval)) :=
    match names, vals with
    | [], [] => Some []
    | n :: ns, v :: vs => option_map (cons (n, v)) (bind ns vs)
    | _, _ => None
    end.

  (** evaluation inside the lambdified function.  A name bound to a Parameter container: TypeError.
      An UNBOUND name (a data or -- merged table -- surrogate symbol): SymPy's lambdify leaves the Symbol
      object in the function's namespace, the entry of the returned matrix is a SymPy expression and
      not a number (SciPy then dies with TypeError "Cannot convert expression to float"); this
      not-a-number outcome is what [ErrName] stands for. *)
  Fixpoint eval_py (env : list (name * pyval)) (e : expr) : err + Q :=
    match e with
    | EConst q => inr q
    | ESym n => match lookup n env with None => inl ErrName | Some VRec => inl ErrType | Some (VNum q) => inr q end
    | EAdd a b =>
        match eval_py env a, eval_py env b with
        | inr x, inr y => inr (x + y)
        | inl e, _ => inl e
        | _, inl e => inl e
        end
    | EMul a b =>
        match eval_py env a, eval_py env b with
        | inr x, inr y => inr (x * y)
        | inl e, _ => inl e
        | _, inl e => inl e
        end
    end.

  Fixpoint eval_row (env : list (name * pyval)) (row : list expr) : err + list Q :=
    match row with
    | [] => inr []
    | e :: rest =>
        match eval_py env e with
        | inl x => inl x
        | inr q => match eval_row env rest with inl x => inl x | inr l => inr (q :: l) end
        end
    end.
  Fixpoint eval_matrix (env : list (name * pyval)) (mat : list (list expr)) : err + list (list Q) :=
    match mat with
    | [] => inr []
    | r :: rest =>
        match eval_row env r with
        | inl x => inl x
        | inr l => match eval_matrix env rest with inl x => inl x | inr ls => inr (l :: ls) end
        end
    end.

  Inductive closure_result := CNoJac | CErr (e : err) | CMat (rows : list (list Q)).

  (** the local scope of the lambdified function: time, then the unpacked variables, then the
      unpacked parameters; a later binding shadows an earlier one, so it goes in front *)
  Definition closure_env (t : Q) (bv bp : list (name * pyval)) : list (name * pyval) :=
    rev bp ++ rev bv ++ [(time_name, VNum t)].

  (** jac_fn(t, x) = _jac_fn(t, x, <third>) *)
  Definition call_closure (F : sym_facts) (m : smodel) (js : jac_state) (t : Q) (x : list Q) : closure_result :=
    match js with
    | JacNone _ => CNoJac
    | JacFn jac vn pn =>
        match third_arg F m pn with
        | None => CErr (match sf_third F with ThirdUnknown => ErrUnmodelled | _ => ErrKey end)
        | Some third =>
            match bind vn (map VNum x), bind pn third with
            | Some bv, Some bp =>
                match eval_matrix (closure_env t bv bp) jac with
                | inl e => CErr e
                | inr rows => CMat rows
                end
            | _, _ => CErr ErrValue
            end
        end
    end.
  (** what the closure passes as time:  t  (snapshot)  |  t + t_shift  with
      t_shift = 0.0 if self._time_shift is None else self._time_shift  (after a variable override the
      integrator restarts at its own time 0; the Jacobian still sees absolute time) *)
  Definition closure_time (F : sym_facts) (time_shift : option Q) (t : Q) : option Q :=
    match sf_time F with
    | TimePlain => Some t
    | TimeShifted => Some (t + match time_shift with None => 0 | Some s => s end)
    | TimeUnknown => None
    end.

  (** jac_fn(t, x) as the integrator calls it *)
  Definition call_closure_at (F : sym_facts) (m : smodel) (js : jac_state) (time_shift : option Q) (t : Q) (x : list Q)
    : closure_result :=
    match closure_time F time_shift t with
    | None => CErr ErrUnmodelled
    | Some ta => call_closure F m js ta x
    end.
End WithSymPy.

(** ---- the numeric right-hand side (Model.__call__), as a specification --------------------- *)
Section Numeric.
  Variable fsem : fnid -> list Q -> Q.            (* what CPython computes for a rate / derived function *)

  (** the values of all components at one state: every derived value and every rate equals its
      function applied to the values of its arguments (property C01 proves that the cache-based
      evaluation computes exactly these) *)
  Definition Resolved (m : smodel) (env : name -> Q) : Prop :=
    (forall k c, In (k, c) (m_der m) -> env k == fsem (c_fn c) (map env (c_args c))) /\
    (forall k c, In (k, c) (m_rxn m) -> env k == fsem (c_fn c) (map env (c_args c))).

  (** ... and every surrogate output has the value its surrogate predicts from the argument values
      (needed only to SHOW that a Jacobian is wrong when a surrogate output is treated as a constant:
      the positive theorems hold whatever the surrogate outputs are) *)
  Definition SurrResolved (m : smodel) (env : name -> Q) : Prop :=
    forall k s o f, In (k, s) (m_surr m) -> In (o, f) (su_outs s) -> env o == fsem f (map env (su_args s)).

  Fixpoint row_sum (env : name -> Q) (st : list (name * Q)) : Q :=
    match st with [] => 0 | (r, n) :: rest => n * env r + row_sum env rest end.
  Fixpoint stat_sum (env : name -> Q) (tbl : list (name * list (name * Q))) (v : name) : Q :=
    match tbl with
    | [] => 0
    | (cpd, st) :: rest => (if N.eqb cpd v then row_sum env st else 0) + stat_sum env rest v
    end.
  Fixpoint dyn_row_sum (env : name -> Q) (ds : list (name * comp)) : Q :=
    match ds with [] => 0 | (r, c) :: rest => fsem (c_fn c) (map env (c_args c)) * env r + dyn_row_sum env rest end.
  Fixpoint dyn_sum (env : name -> Q) (tbl : list (name * list (name * comp))) (v : name) : Q :=
    match tbl with
    | [] => 0
    | (cpd, ds) :: rest => (if N.eqb cpd v then dyn_row_sum env ds else 0) + dyn_sum env rest v
    end.

  (** dx_v/dt = sum over the static table of n * rate + sum over the dynamic table of coef(...) * rate *)
  Definition num_rhs (m : smodel) (env : name -> Q) (v : name) : Q :=
    stat_sum env (m_stoich m) v + dyn_sum env (m_dyn m) v.
End Numeric.

(** ---- where the cache's coefficient tables come from ------------------------------------------
    Model._create_cache, loop "Calculate dynamic and static stochiometries":

      for rxn_name, rxn in self._reactions.items():
          for cpd_name, factor in rxn.stoichiometry.items():
              d_static = stoich_by_compounds.setdefault(cpd_name, {})
              if isinstance(factor, Derived):
                  if all(i in all_parameter_names for i in factor.args):
                      d_static[rxn_name] = factor.calculate(dependent)      (* a NUMBER: value now *)
                  else:
                      dyn_stoich_by_compounds.setdefault(cpd_name, {})[rxn_name] = factor
              else:
                  d_static[rxn_name] = factor

    The keys of one Python dict are distinct, so [d[rxn_name] = ...] always creates a new key in the
    row: modelled as appending at the end of the row (insertion order). *)
Inductive coef := CNum (q : Q) | CFun (c : comp).
Definition raw_stoich := list (name * list (name * coef)).    (* reaction -> (compound -> factor) *)

(** [tbl.setdefault(cpd, {})] *)
Fixpoint setdefault {A} (cpd : name) (tbl : list (name * list (name * A))) : list (name * list (name * A)) :=
  match tbl with
  | [] => [(cpd, [])]
  | (c, row) :: rest => if N.eqb c cpd then (c, row) :: rest else (c, row) :: setdefault cpd rest
  end.
(** [tbl.setdefault(cpd, {})[rxn] = v] *)
Fixpoint tbl_add {A} (cpd rxn : name) (v : A) (tbl : list (name * list (name * A))) : list (name * list (name * A)) :=
  match tbl with
  | [] => [(cpd, [(rxn, v)])]
  | (c, row) :: rest => if N.eqb c cpd then (c, row ++ [(rxn, v)]) :: rest else (c, row) :: tbl_add cpd rxn v rest
  end.

Section Build.
  Variable fsem : fnid -> list Q -> Q.
  Variable parnames : list name.        (* all_parameter_names: parameters and parameter-only derived values *)
  Variable env0 : name -> Q.            (* [dependent]: the values when the cache is built *)

  Definition is_static (c : comp) : bool := forallb (fun a => memN a parnames) (c_args c).

  Definition tables := (list (name * list (name * Q)) * list (name * list (name * comp)))%type.

  Definition add_factor (rxn cpd : name) (f : coef) (acc : tables) : tables :=
    match f with
    | CNum q => (tbl_add cpd rxn q (fst acc), snd acc)
    | CFun c =>
        if is_static c
        then (tbl_add cpd rxn (fsem (c_fn c) (map env0 (c_args c))) (fst acc), snd acc)
        else (setdefault cpd (fst acc), tbl_add cpd rxn c (snd acc))
    end.
  Fixpoint add_rxn (rxn : name) (sto : list (name * coef)) (acc : tables) : tables :=
    match sto with
    | [] => acc
    | (cpd, f) :: rest => add_rxn rxn rest (add_factor rxn cpd f acc)
    end.
  Fixpoint build_from (raw : raw_stoich) (acc : tables) : tables :=
    match raw with
    | [] => acc
    | (rxn, sto) :: rest => build_from rest (add_rxn rxn sto acc)
    end.
  Definition build_tables (raw : raw_stoich) : tables := build_from raw ([], []).
End Build.

(** the numeric right-hand side from the model's own stoichiometries (Model.__call__:
    dxdt[cpd] += factor * flux, every computed factor evaluated at the CURRENT values) *)
Section RawNumeric.
  Variable fsem : fnid -> list Q -> Q.
  Definition coef_val (env : name -> Q) (f : coef) : Q :=
    match f with CNum q => q | CFun c => fsem (c_fn c) (map env (c_args c)) end.
  Fixpoint raw_row_sum (env : name -> Q) (rxn : name) (sto : list (name * coef)) (v : name) : Q :=
    match sto with
    | [] => 0
    | (cpd, f) :: rest => (if N.eqb cpd v then coef_val env f * env rxn else 0) + raw_row_sum env rxn rest v
    end.
  Fixpoint raw_rhs (env : name -> Q) (raw : raw_stoich) (v : name) : Q :=
    match raw with
    | [] => 0
    | (rxn, sto) :: rest => raw_row_sum env rxn sto v + raw_rhs env rest v
    end.
End RawNumeric.

(** boolean comparison of coefficient tables (correspondence files) *)
Definition comp_eqb (a b : comp) : bool :=
  N.eqb (c_fn a) (c_fn b) && (length (c_args a) =? length (c_args b))%nat
  && forallb (fun p => N.eqb (fst p) (snd p)) (combine (c_args a) (c_args b)).
Fixpoint row_eqb {A} (eqb : A -> A -> bool) (a b : list (name * A)) : bool :=
  match a, b with
  | [], [] => true
  | (k, x) :: a', (k', y) :: b' => N.eqb k k' && eqb x y && row_eqb eqb a' b'
  | _, _ => false
  end.
Fixpoint tbl_eqb {A} (eqb : A -> A -> bool) (a b : list (name * list (name * A))) : bool :=
  match a, b with
  | [], [] => true
  | (k, x) :: a', (k', y) :: b' => N.eqb k k' && row_eqb eqb x y && tbl_eqb eqb a' b'
  | _, _ => false
  end.

(** ---- decidable comparisons for the correspondence files ----------------------------------- *)
Definition err_eqb (a b : err) : bool :=
  match a, b with
  | ErrKey, ErrKey | ErrValue, ErrValue | ErrType, ErrType | ErrName, ErrName => true
  | _, _ => false            (* ErrUnmodelled never equals anything *)
  end.
