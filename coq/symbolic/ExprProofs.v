(** C12 -- the formal derivative [D] is the derivative: exact Taylor identity with an explicit
    polynomial remainder, and the analytic consequence (difference quotient converges, with a
    bound that is uniform in |h| <= 1). *)
From Coq Require Import QArith Qabs Lqa.
From MxlBase Require Import ListX.
From Symbolic Require Import Expr.
Open Scope Q_scope.

Lemma eval_ext env1 env2 e :
  (forall n, In n (syms e) -> env1 n == env2 n) -> eval env1 e == eval env2 e.
Proof.
  induction e as [q|n|a IHa b IHb|a IHa b IHb]; cbn [eval syms]; intros H.
  - reflexivity.
  - apply H. left. reflexivity.
  - rewrite IHa, IHb; [reflexivity| |]; intros n Hn; apply H; apply in_or_app; auto.
  - rewrite IHa, IHb; [reflexivity| |]; intros n Hn; apply H; apply in_or_app; auto.
Qed.

Lemma D_syms x e : incl (syms (D x e)) (syms e).
Proof.
  induction e as [q|n|a IHa b IHb|a IHa b IHb]; cbn [D syms].
  - intros z Hz. exact Hz.
  - destruct (N.eqb n x); intros z Hz; destruct Hz.
  - intros z Hz. apply in_app_or in Hz. apply in_or_app. destruct Hz; [left; apply IHa|right; apply IHb]; assumption.
  - intros z Hz. apply in_or_app.
    apply in_app_or in Hz. destruct Hz as [Hz|Hz]; apply in_app_or in Hz; destruct Hz as [Hz|Hz].
    + left. apply IHa. exact Hz.
    + right. exact Hz.
    + left. exact Hz.
    + right. apply IHb. exact Hz.
Qed.

(** exact Taylor identity *)
Lemma taylor x env h e :
  eval (upd env x (env x + h)) e == eval env e + h * eval env (D x e) + h * h * rem x env h e.
Proof.
  induction e as [q|n|a IHa b IHb|a IHa b IHb]; cbn [eval D rem].
  - ring.
  - unfold upd. destruct (N.eqb n x) eqn:E; cbn [eval].
    + apply N.eqb_eq in E. subst n. ring.
    + ring.
  - rewrite IHa, IHb. ring.
  - rewrite IHa, IHb. ring.
Qed.

Lemma Qabs_mul_le a b c d : Qabs a <= c -> Qabs b <= d -> Qabs (a * b) <= c * d.
Proof.
  intros Ha Hb. rewrite Qabs_Qmult.
  pose proof (Qabs_nonneg a). pose proof (Qabs_nonneg b).
  nra.
Qed.

Lemma rem_bound_nonneg x env e : 0 <= rem_bound x env e.
Proof.
  induction e as [q|n|a IHa b IHb|a IHa b IHb]; cbn [rem_bound]; try lra.
  pose proof (Qabs_nonneg (eval env a)). pose proof (Qabs_nonneg (eval env b)).
  pose proof (Qabs_nonneg (eval env (D x a))). pose proof (Qabs_nonneg (eval env (D x b))).
  nra.
Qed.

Lemma rem_bounded x env h e : Qabs h <= 1 -> Qabs (rem x env h e) <= rem_bound x env e.
Proof.
  intros Hh.
  induction e as [q|n|a IHa b IHb|a IHa b IHb]; cbn [rem rem_bound].
  - cbn. lra.
  - cbn. lra.
  - eapply Qle_trans; [apply Qabs_triangle|]. lra.
  - set (a0 := eval env a) in *. set (a1 := eval env (D x a)) in *. set (ra := rem x env h a) in *.
    set (b0 := eval env b) in *. set (b1 := eval env (D x b)) in *. set (rb := rem x env h b) in *.
    set (Ba := rem_bound x env a) in *. set (Bb := rem_bound x env b) in *.
    assert (HBa : 0 <= Ba) by apply rem_bound_nonneg.
    assert (HBb : 0 <= Bb) by apply rem_bound_nonneg.
    assert (H1 : Qabs (a1 * b1) <= Qabs a1 * Qabs b1) by (rewrite Qabs_Qmult; lra).
    assert (H2 : Qabs (a0 * rb) <= Qabs a0 * Bb) by (apply Qabs_mul_le; [lra|exact IHb]).
    assert (H3 : Qabs (b0 * ra) <= Qabs b0 * Ba) by (apply Qabs_mul_le; [lra|exact IHa]).
    assert (H4 : Qabs (a1 * rb) <= Qabs a1 * Bb) by (apply Qabs_mul_le; [lra|exact IHb]).
    assert (H5 : Qabs (b1 * ra) <= Qabs b1 * Ba) by (apply Qabs_mul_le; [lra|exact IHa]).
    assert (H6 : Qabs (ra * rb) <= Ba * Bb) by (apply Qabs_mul_le; assumption).
    assert (H45 : Qabs (a1 * rb + b1 * ra) <= Qabs a1 * Bb + Qabs b1 * Ba)
      by (eapply Qle_trans; [apply Qabs_triangle|lra]).
    assert (H7 : Qabs (h * (a1 * rb + b1 * ra)) <= 1 * (Qabs a1 * Bb + Qabs b1 * Ba))
      by (apply Qabs_mul_le; assumption).
    assert (Hhh : Qabs (h * h) <= 1 * 1) by (apply Qabs_mul_le; assumption).
    assert (H8 : Qabs (h * h * (ra * rb)) <= 1 * 1 * (Ba * Bb))
      by (apply Qabs_mul_le; assumption).
    eapply Qle_trans; [apply Qabs_triangle|].
    eapply Qle_trans; [apply Qplus_le_compat; [|apply Qle_refl]; apply Qabs_triangle|].
    eapply Qle_trans; [apply Qplus_le_compat; [|apply Qle_refl]; apply Qplus_le_compat; [|apply Qle_refl]; apply Qabs_triangle|].
    eapply Qle_trans; [apply Qplus_le_compat; [|apply Qle_refl]; apply Qplus_le_compat; [|apply Qle_refl];
                       apply Qplus_le_compat; [|apply Qle_refl]; apply Qabs_triangle|].
    lra.
Qed.

(** [eval env (D x e)] is the derivative of [v |-> eval (upd env x v) e] at [v = env x]: the error of
    the linear approximation is at most [B * h^2] for every rational step with |h| <= 1, with one
    bound [B] for all such h (so the difference quotient converges to it as h -> 0). *)
Lemma D_is_derivative x env e :
  exists B, 0 <= B /\
    forall h, Qabs h <= 1 ->
      Qabs (eval (upd env x (env x + h)) e - eval env e - h * eval env (D x e)) <= B * (h * h).
Proof.
  exists (rem_bound x env e). split; [apply rem_bound_nonneg|].
  intros h Hh.
  assert (E : eval (upd env x (env x + h)) e - eval env e - h * eval env (D x e) == h * h * rem x env h e)
    by (rewrite taylor; ring).
  rewrite E. rewrite Qabs_Qmult.
  assert (Hsq : Qabs (h * h) == h * h).
  { apply Qabs_pos. nra. }
  rewrite Hsq.
  pose proof (rem_bounded x env h e Hh) as Hb.
  assert (0 <= h * h) by nra.
  set (r := Qabs (rem x env h e)) in *. set (B := rem_bound x env e) in *.
  nra.
Qed.
