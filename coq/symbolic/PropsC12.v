(** C12 -- Symbolic equations and Jacobian agree with the numeric model.

    ONLY theorem statements (written out in full), each closed by [exact <lemma>] and followed by
    [Print Assumptions].  The statements are about the executable model of
      to_symbolic_model / SymbolicModel.jacobian          (SymModel.to_symbolic, SymModel.jacobian)
      Simulator._initialise_integrator's Jacobian closure (SymModel.init_jac, SymModel.call_closure)
      the coefficient tables of Model._create_cache       (SymModel.build_tables)
    instantiated at [gen_sym_facts], the facts REGENERATED from /repo's source on every run.

    SymPy enters as universally quantified functions with the stated hypotheses only:
      fsym  = fn_to_sympy on one function (sound: property C06's subject; introduces no symbols),
      sdiff = SymPy's differentiation (agrees in value with the verified formal derivative [D]),
      fsem  = what CPython computes for a rate function (a function of the argument VALUES).
    [Resolved fsem m env]: env gives every derived value and rate the value of its function at the
    values of its arguments -- i.e. env is "a state and parameter setting" with all components
    resolved (what property C01 proves the numeric model computes).  All theorems quantify over
    ALL models, environments and states; numbers are exact rationals. *)
From Coq Require Import QArith Qabs Permutation.
From MxlBase Require Import ListX.
From Symbolic Require Import Expr ExprProofs SymModel FnTab GenSymFacts SymProofs ClosureProofs Witness SurrProofs StatProofs SignFold SignFoldProofs.
Open Scope Q_scope.

Theorem C12_facts_pinned :
  gen_sym_facts = mkSymFacts OrdDependency SymVarsParsData StatFloatTimesRate DynCoefTimesRate EqsByVarNames JacEqsByVars LamTimeVarsPars ThirdNumericByName FallbackWarnAnyException TimeShifted VarSymPlain.
Proof. vm_compute. reflexivity. Qed.
Print Assumptions C12_facts_pinned.

(** (1) Whenever the conversion returns equations, they evaluate -- at every state and parameter
    setting -- to the numeric right-hand side (the sums over the cache's coefficient tables the
    numeric model uses), in variable order.  Holds for EVERY value of the other facts: whichever order
    the derived values are converted in, a returned result is never wrong.
    (Statement changed in the closing pass for seeded change C12-9: the coefficient of the static statement became
    a modelled alternative -- Float(n), shipped, or Rational(n).limit_denominator() -- and the statement is about the
    shipped one (hypothesis on the fact, met by gen_sym_facts: C12_facts_pinned); under the other it holds for small
    denominators only and is refuted otherwise: C12_rational_coefficients_partial / _refuted below.) *)
Theorem C12_eqs_equal_rhs :
  forall (fsym : fnid -> list expr -> option expr) (fsem : fnid -> list Q -> Q),
    (forall f es e env, fsym f es = Some e -> eval env e == fsem f (map (eval env) es)) ->
    (forall f vs ws, Forall2 Qeq vs ws -> fsem f vs == fsem f ws) ->
    forall (env : name -> Q) (F : sym_facts) (m : smodel) (eqs : list expr),
      sf_stat F = StatFloatTimesRate ->       (* the shipped static statement: the coefficient itself *)
      Resolved fsem m env ->
      to_symbolic fsym F m = SymOk eqs ->
      Forall2 (fun e v => eval env e == num_rhs fsem m env v) eqs (m_vars m).
Proof. exact float_sound. Qed.
Print Assumptions C12_eqs_equal_rhs.

(** regression theorems for the seeded change C12-9 (fact StatRationalLimited:
    coef = sympy.Rational(stoich_value).limit_denominator(), the nearest fraction with denominator <= 10^6).
    FULL STATEMENT (false under that fact): as C12_eqs_equal_rhs.  What remains true: models all of whose static
    coefficients have a denominator <= 10^6 in lowest terms (1, 2, 1/2, 1/3, 0.1 ...) -- why ordinary
    stoichiometries do not show the change: *)
Theorem C12_rational_coefficients_partial :
  forall (fsym : fnid -> list expr -> option expr) (fsem : fnid -> list Q -> Q),
    (forall f es e env, fsym f es = Some e -> eval env e == fsem f (map (eval env) es)) ->
    (forall f vs ws, Forall2 Qeq vs ws -> fsem f vs == fsem f ws) ->
    forall (env : name -> Q) (F : sym_facts) (m : smodel) (eqs : list expr),
      sf_stat F = StatRationalLimited ->
      (forall cpd row r n, In (cpd, row) (m_stoich m) -> In (r, n) row -> (Z.pos (Qden (Qred n)) <= 1000000)%Z) ->
      Resolved fsem m env ->
      to_symbolic fsym F m = SymOk eqs ->
      Forall2 (fun e v => eval env e == num_rhs fsem m env v) eqs (m_vars m).
Proof. exact rational_small_denominators_sound. Qed.
Print Assumptions C12_rational_coefficients_partial.

(** ... and refuted by a unit-conversion factor: w7 = a medium pool x1 taken up with rate k*x1 and stoichiometry
    {x1: -3e-7, x2: 1}.  CPython's limit_denominator (modelled statement by statement, SymModel.limit_den) maps
    3e-7 to 0, 1.3e-6 to 1/769231, -7e-7 to -1/10^6, 2^-21 to 0.  At x1 = 5, k = 4 the numeric right-hand side is
    [-3/500000; 20] and the shipped statement's equations evaluate to exactly that, Jacobian [[-3/2500000; 0]; [4; 0]];
    with the rational statement the equation of x1 IS 0 and the reaction has vanished from its Jacobian row. *)
Theorem C12_rational_coefficients_refuted :
  sf_stat facts_rational = StatRationalLimited /\
  (limit_den (3 # 10000000) = Some (0 # 1) /\
   limit_den (-(3 # 10000000)) = Some (0 # 1) /\
   limit_den (13 # 10000000) = Some (1 # 769231) /\
   limit_den (-(7 # 10000000)) = Some (-1 # 1000000) /\
   limit_den (1 # 2097152) = Some (0 # 1) /\
   limit_den (1 # 3) = Some (1 # 3) /\ limit_den (-(3 # 2)) = Some (-(3 # 2))) /\
  Resolved fsem_lib w7 w7_env /\
  (exists eqs, to_symbolic fsym_lib gen_sym_facts w7 = SymOk eqs /\
     qlist_eqb (map (eval w7_env) eqs) (map (num_rhs fsem_lib w7 w7_env) (m_vars w7)) = true /\
     qlist_eqb (map (eval w7_env) eqs) [-(3 # 500000); 20] = true /\
     qmat_eqb (map (map (eval w7_env)) (jacobian D eqs (m_vars w7))) [[-(3 # 2500000); 0]; [4; 0]] = true) /\
  (exists eqs, to_symbolic fsym_lib facts_rational w7 = SymOk eqs /\
     qlist_eqb (map (eval w7_env) eqs) [0; 20] = true /\
     qmat_eqb (map (map (eval w7_env)) (jacobian D eqs (m_vars w7))) [[0; 0]; [4; 0]] = true /\
     ~ Forall2 (fun e v => eval w7_env e == num_rhs fsem_lib w7 w7_env v) eqs (m_vars w7)).
Proof. exact (conj eq_refl (conj limit_den_examples (conj w7_resolved (conj w7_shipped w7_rational)))). Qed.
Print Assumptions C12_rational_coefficients_refuted.

(** (1') ... and to the right-hand side computed from the model's OWN stoichiometries with every
    computed coefficient at its current value (Model.__call__), where the tables are what
    Model._create_cache built at some earlier setting env0 -- PROVIDED every parameter-only computed
    coefficient still has the value it had then.

    FULL STATEMENT (false of the code, recorded finding frozen-computed-coefficient): the same
    without the hypothesis on the computed coefficients.  Missing part: the value of a
    parameter-only Derived coefficient is folded into the equations as a number. *)
Theorem C12_every_parameter_setting_partial :
  forall (fsym : fnid -> list expr -> option expr) (fsem : fnid -> list Q -> Q),
    (forall f es e env, fsym f es = Some e -> eval env e == fsem f (map (eval env) es)) ->
    (forall f vs ws, Forall2 Qeq vs ws -> fsem f vs == fsem f ws) ->
    forall (env : name -> Q) (parnames : list name) (env0 : name -> Q)
           (F : sym_facts) (m : smodel) (raw : raw_stoich) (eqs : list expr),
      sf_stat F = StatFloatTimesRate ->
      m_stoich m = fst (build_tables fsem parnames env0 raw) ->
      m_dyn m = snd (build_tables fsem parnames env0 raw) ->
      (forall rxn sto cpd f, In (rxn, sto) raw -> In (cpd, f) sto ->
         match f with
         | CNum _ => True
         | CFun c => is_static parnames c = true ->
                     fsem (c_fn c) (map env (c_args c)) == fsem (c_fn c) (map env0 (c_args c))
         end) ->
      Resolved fsem m env ->
      to_symbolic fsym F m = SymOk eqs ->
      Forall2 (fun e v => eval env e == raw_rhs fsem env raw v) eqs (m_vars m).
Proof.
  exact (fun fsym fsem H1 H2 env parnames env0 F m raw eqs HF =>
    every_parameter_setting_partial fsym fsem H1 H2 env parnames env0 F m raw eqs (stat_view_float F m HF)).
Qed.
Print Assumptions C12_every_parameter_setting_partial.

Theorem C12_every_parameter_setting_refuted :
  exists eqs, to_symbolic fsym_lib gen_sym_facts w2 = SymOk eqs /\
    m_stoich w2 = fst (build_tables fsem_lib w2_parnames w2_env0 w2_raw) /\
    m_dyn w2 = snd (build_tables fsem_lib w2_parnames w2_env0 w2_raw) /\
    Resolved fsem_lib w2 w2_env /\
    ~ Forall2 (fun e v => eval w2_env e == raw_rhs fsem_lib w2_env w2_raw v) eqs (m_vars w2).
Proof.
  exact (let (eqs, H) := w2_frozen in
         ex_intro _ eqs (conj (proj1 H) (conj eq_refl (conj eq_refl (conj w2_resolved (proj2 H)))))).
Qed.
Print Assumptions C12_every_parameter_setting_refuted.

(** (2) Jacobian layout: row i belongs to the equation of the i-th variable, column j is the
    derivative by the j-th variable. *)
Theorem C12_jacobian_layout :
  forall (sdiff : name -> expr -> expr) (eqs : list expr) (vars : list name) i j e x,
    nth_error eqs i = Some e -> nth_error vars j = Some x ->
    exists row, nth_error (jacobian sdiff eqs vars) i = Some row /\ nth_error row j = Some (sdiff x e).
Proof. exact jacobian_layout. Qed.
Print Assumptions C12_jacobian_layout.

(** (2') Every entry of the symbolic Jacobian IS the partial derivative of the numeric right-hand
    side: moving the j-th variable by any rational h, |h| <= 1, and re-resolving the model changes
    the i-th numeric derivative by h * J[i][j] up to B * h^2, one B for all such h.
    Holds for models WITH surrogates too (whatever converts does not depend on a surrogate output,
    by C12_surrogate_output_refused).  The symbol table is a regenerated fact since the model knows
    surrogates: the statement is about the shipped table (hypothesis on F, met by gen_sym_facts);
    for the merged table it is false -- C12_surrogate_merged_table_refuted. *)
Theorem C12_jacobian_is_derivative :
  forall (fsym : fnid -> list expr -> option expr) (fsem : fnid -> list Q -> Q) (sdiff : name -> expr -> expr),
    (forall f es e env, fsym f es = Some e -> eval env e == fsem f (map (eval env) es)) ->
    (forall f vs ws, Forall2 Qeq vs ws -> fsem f vs == fsem f ws) ->
    (forall f es e, fsym f es = Some e -> forall n, In n (syms e) -> exists e', In e' es /\ In n (syms e')) ->
    (forall x e env, eval env (sdiff x e) == eval env (D x e)) ->
    forall (F : sym_facts) (m : smodel) (eqs : list expr) (env : name -> Q),
      sf_symtab F = SymVarsParsData ->       (* the shipped symbol table: variables | parameters | data *)
      sf_stat F = StatFloatTimesRate ->      (* the shipped static statement (see C12_eqs_equal_rhs) *)
      to_symbolic fsym F m = SymOk eqs -> Resolved fsem m env ->
      forall i j vi xj, nth_error (m_vars m) i = Some vi -> nth_error (m_vars m) j = Some xj ->
      exists row d, nth_error (jacobian sdiff eqs (m_vars m)) i = Some row /\ nth_error row j = Some d /\
        exists B, 0 <= B /\
          forall h env', Qabs h <= 1 -> Resolved fsem m env' ->
            (forall n, In n (base_names m) -> env' n == upd env xj (env xj + h) n) ->
            Qabs (num_rhs fsem m env' vi - num_rhs fsem m env vi - h * eval env d) <= B * (h * h).
Proof.
  exact (fun fsym fsem sdiff H1 H2 H3 H4 F m eqs env HFt HFs =>
    jacobian_is_derivative fsym fsem sdiff H1 H2 H3 H4 F m eqs env HFt (stat_view_float F m HFs)).
Qed.
Print Assumptions C12_jacobian_is_derivative.

(** the formal derivative used above is THE derivative (exact Taylor identity, uniform remainder) *)
Theorem C12_formal_derivative_correct :
  forall x env e, exists B, 0 <= B /\
    forall h, Qabs h <= 1 ->
      Qabs (eval (upd env x (env x + h)) e - eval env e - h * eval env (D x e)) <= B * (h * h).
Proof. exact D_is_derivative. Qed.
Print Assumptions C12_formal_derivative_correct.

(** (3) The simulator's Jacobian function binds (time, variable names, parameter names)
    positionally to (t, x, the NUMERIC parameter values read from the model at call time): it
    returns the Jacobian evaluated under exactly that assignment.  Current fact ThirdNumericByName. *)
Theorem C12_closure_binding :
  forall (m : smodel) (jac : list (list expr)) (vn pn : list name) (t : Q) (x : list Q),
    pn = map fst (m_pars m) ->
    NoDup (time_name :: vn ++ pn) ->
    length x = length vn ->
    (forall row e, In row jac -> In e row -> incl (syms e) (time_name :: vn ++ pn)) ->
    call_closure gen_sym_facts m (JacFn jac vn pn) t x
    = CMat (map (map (eval (bound_env t vn x (m_pars m)))) jac)
    /\ bound_env t vn x (m_pars m) time_name = t
    /\ (forall i v q, nth_error vn i = Some v -> nth_error x i = Some q -> bound_env t vn x (m_pars m) v = q)
    /\ (forall k p, In (k, p) (m_pars m) -> bound_env t vn x (m_pars m) k = pval_num p).
Proof.
  exact (fun m jac vn pn t x Hpn Hnd Hlen Hsy =>
    conj (closure_binding gen_sym_facts m jac vn pn t x eq_refl Hpn Hnd Hlen Hsy)
   (conj (bound_env_time t vn x (m_pars m))
   (conj (fun i v q => bound_env_var t vn x (m_pars m) i v q (eq_ind pn (fun l => NoDup (time_name :: vn ++ l)) Hnd _ Hpn) Hlen)
         (fun k p => bound_env_par t vn x (m_pars m) k p (eq_ind pn (fun l => NoDup (time_name :: vn ++ l)) Hnd _ Hpn) Hlen)))).
Qed.
Print Assumptions C12_closure_binding.

(** (3') composed: a simulator constructed on m0 (conversion succeeded), called later when the
    model's parameter VALUES may have been updated (m): the function returns the symbolic Jacobian
    of m0 evaluated at (t, x, the values in m now). *)
Theorem C12_simulator_jacobian :
  forall (fsym : fnid -> list expr -> option expr) (sdiff : name -> expr -> expr),
    (forall f es e, fsym f es = Some e -> forall n, In n (syms e) -> exists e', In e' es /\ In n (syms e')) ->
    (forall x e, incl (syms (sdiff x e)) (syms e)) ->
    forall (m0 m : smodel) (eqs : list expr) (t : Q) (x : list Q),
      to_symbolic fsym gen_sym_facts m0 = SymOk eqs ->
      m_data m0 = [] ->
      map fst (m_pars m) = map fst (m_pars m0) ->
      NoDup (time_name :: m_vars m0 ++ map fst (m_pars m0)) ->
      length x = length (m_vars m0) ->
      call_closure gen_sym_facts m (init_jac fsym sdiff gen_sym_facts m0) t x =
      CMat (map (map (eval (bound_env t (m_vars m0) x (m_pars m)))) (jacobian sdiff eqs (m_vars m0))).
Proof. exact (fun fsym sdiff H1 H2 m0 m eqs t x => simulator_jacobian fsym sdiff H1 H2 gen_sym_facts m0 m eqs t x eq_refl eq_refl). Qed.
Print Assumptions C12_simulator_jacobian.

(** (3'') the integrator calls jac_fn(t, x) with ITS time; after a variable override it restarts at
    its own time 0 and the closure passes absolute time t + _time_shift (nothing is shifted on a
    fresh simulator) *)
Theorem C12_closure_absolute_time :
  forall (m : smodel) (js : jac_state) (t : Q) (x : list Q),
    call_closure_at gen_sym_facts m js None t x = call_closure gen_sym_facts m js (t + 0) x /\
    forall s, call_closure_at gen_sym_facts m js (Some s) t x = call_closure gen_sym_facts m js (t + s) x.
Proof. exact (fun m js t x => conj eq_refl (fun s => eq_refl)). Qed.
Print Assumptions C12_closure_absolute_time.

(** (3-y0) The initial state may be handed to the simulator as a mapping y0 whose keys come in ANY order: the
    state vector the integrator works on is tuple(y0[k] for k in model.get_variable_names()), and the Jacobian
    function is lambdified over model.get_variable_names() -- it is the one of the simulator constructed
    without y0, whatever the key order (so (3), (3') and (3'') hold for it).  Current fact LamTimeVarsPars. *)
Theorem C12_closure_ignores_y0_key_order :
  forall (fsym : fnid -> list expr -> option expr) (sdiff : name -> expr -> expr) (m : smodel) (y0keys : list name),
    init_jac_y0 fsym sdiff gen_sym_facts m y0keys = Some (init_jac fsym sdiff gen_sym_facts m).
Proof. exact (fun fsym sdiff m y0keys => init_jac_y0_shipped fsym sdiff gen_sym_facts m y0keys eq_refl). Qed.
Print Assumptions C12_closure_ignores_y0_key_order.

(** regression theorem for the seeded change C12-5 (fact LamTimeY0KeysPars: lambdify(("time", list(y0), ...))):
    the state vector -- still in variable order -- is unpacked into the KEYS of y0.  On w5 (dx1/dt = -k*x1*x1,
    dx2/dt = k*x1*x1) at the state [1; 2] the Jacobian is [[-2; 0]; [2; 0]]; that is what the current closure
    returns for the key order [2; 1] and what the seeded shape returns for the declaration order, but for
    the key order [2; 1] the seeded shape returns [[-4; 0]; [4; 0]]: the Jacobian at the PERMUTED state. *)
Theorem C12_y0_key_order_refuted :
  sf_lam facts_y0_keys = LamTimeY0KeysPars /\
  (forall (fsym : fnid -> list expr -> option expr) (sdiff : name -> expr -> expr) (m : smodel) (y0keys : list name) (eqs : list expr),
     to_symbolic fsym facts_y0_keys m = SymOk eqs ->
     init_jac_y0 fsym sdiff facts_y0_keys m y0keys
     = Some (JacFn (jacobian sdiff eqs (m_vars m)) y0keys (map fst (m_pars m)))) /\
  Permutation [2%N; 1%N] (m_vars w5) /\
  sym_obs_eqb (run_sym gen_sym_facts w5 [(1%N, 1); (2%N, 2); (3%N, 1)]) (ObsVals [-1; 1] [[-2; 0]; [2; 0]]) = true /\
  clo_obs_eqb (run_closure_y0 gen_sym_facts w5 [2%N; 1%N] 0 [1; 2]) (ObsCloMat [[-2; 0]; [2; 0]]) = true /\
  clo_obs_eqb (run_closure_y0 facts_y0_keys w5 (m_vars w5) 0 [1; 2]) (ObsCloMat [[-2; 0]; [2; 0]]) = true /\
  clo_obs_eqb (run_closure_y0 facts_y0_keys w5 [2%N; 1%N] 0 [1; 2]) (ObsCloMat [[-4; 0]; [4; 0]]) = true.
Proof.
  exact (conj eq_refl (conj (fun fsym sdiff m y0keys eqs H => init_jac_y0_keys fsym sdiff facts_y0_keys m y0keys eqs eq_refl H) w5_y0_keys)).
Qed.
Print Assumptions C12_y0_key_order_refuted.

(** (6) Rate laws that BRANCH ON THE SIGN of an argument (SignFold.v: polynomial expressions under
    Piecewise((a, c < 0), (b, True)) / Piecewise((a, c >= 0), (b, True)), sums and products).  The symbols of the
    model variables are plain sympy.Symbol(name) (fact VarSymPlain): no sign test on them is decided at conversion
    time, and the translation of such a function evaluates to what CPython computes at EVERY environment --
    states with negative entries included. *)
Theorem C12_sign_branches_survive_translation :
  forall (m : smodel) (args : list expr) (body p : pexpr) (env : name -> Q),
    ptranslate gen_sym_facts m args body = Some p ->
    peval env p == pfsem body (map (eval env) args).
Proof. exact (fun m args body p env => ptranslate_plain_sound gen_sym_facts m args body p env eq_refl). Qed.
Print Assumptions C12_sign_branches_survive_translation.

(** ... differentiation is branch-wise and commutes with deciding relationals: the Jacobian entry of a translated
    function is the translation (under the same assumptions) of the branch-wise derivative -- whatever is decided
    at conversion time is decided for the Jacobian too (every value of the fact). *)
Theorem C12_translation_commutes_with_differentiation :
  forall (F : sym_facts) (m : smodel) (args : list expr) (body p : pexpr) (x : name),
    ptranslate F m args body = Some p ->
    exists nn q, assumed_nonneg F m = Some nn /\ psubst args body = Some q /\ pD x p = fold nn (pD x q).
Proof. exact ptranslate_D. Qed.
Print Assumptions C12_translation_commutes_with_differentiation.

(** regression theorems for the seeded change C12-4 (fact VarSymNonneg: Symbol(name, nonnegative=True)).
    FULL STATEMENT (false under that fact): as C12_sign_branches_survive_translation.  What remains true is the
    statement restricted to environments in which every model variable is >= 0: *)
Theorem C12_nonnegative_symbols_partial :
  forall (F : sym_facts) (m : smodel) (args : list expr) (body p : pexpr) (env : name -> Q),
    sf_varsym F = VarSymNonneg ->
    (forall v, In v (m_vars m) -> 0 <= env v) ->
    ptranslate F m args body = Some p ->
    peval env p == pfsem body (map (eval env) args).
Proof. exact ptranslate_nonneg_partial. Qed.
Print Assumptions C12_nonnegative_symbols_partial.

(** ... and refuted at a negative state: the rectified leak  -g*V if V < 0 else 0  (V = variable 1, g = parameter
    3) at V = -1, g = 2 is 2 with slope -2 in V; translated with plain symbols it evaluates to 2 and its derivative
    to -2; translated with non-negative variable symbols it IS the constant 0 (value 0, derivative 0).  Same for a
    hand-written |V| inside a product (4 vs -4). *)
Theorem C12_nonnegative_symbols_refuted :
  sf_varsym facts_nonneg = VarSymNonneg /\
  (In 1%N (m_vars w5) /\ w6_env 1%N < 0 /\
   pfsem b_rect_neg (map (eval w6_env) w6_args) == 2 /\
   (exists p, ptranslate gen_sym_facts w5 w6_args b_rect_neg = Some p /\
              peval w6_env p == 2 /\ peval w6_env (pD 1%N p) == -2) /\
   (exists p, ptranslate facts_nonneg w5 w6_args b_rect_neg = Some p /\
              p = PPoly (EConst 0) /\ peval w6_env p == 0 /\ peval w6_env (pD 1%N p) == 0 /\
              ~ peval w6_env p == pfsem b_rect_neg (map (eval w6_env) w6_args))) /\
  ((exists p, ptranslate gen_sym_facts w5 [ESym 1%N; ESym 2%N; ESym 3%N] b_abs_coupling = Some p /\ peval w6_env p == 4) /\
   (exists p, ptranslate facts_nonneg w5 [ESym 1%N; ESym 2%N; ESym 3%N] b_abs_coupling = Some p /\ peval w6_env p == -4) /\
   pfsem b_abs_coupling (map (eval w6_env) [ESym 1%N; ESym 2%N; ESym 3%N]) == 4).
Proof. exact (conj eq_refl (conj w6_nonneg_refuted w6_abs_coupling)). Qed.
Print Assumptions C12_nonnegative_symbols_refuted.

(** regression witness: with the pre-fix fact (ThirdParamRecords: model._parameters.values()) the
    Jacobian function of a convertible model dies with TypeError as soon as an entry mentions a
    parameter *)
Theorem C12_closure_binding_old_refuted :
  (exists eqs, to_symbolic fsym_lib facts_old_third w2 = SymOk eqs) /\
  sf_third facts_old_third = ThirdParamRecords /\
  call_closure facts_old_third w2 (init_jac fsym_lib D facts_old_third w2) 0 [1; 1 # 2] = CErr ErrType.
Proof. exact (conj (proj1 w2_old_closure_typeerror) (conj eq_refl (proj2 w2_old_closure_typeerror))). Qed.
Print Assumptions C12_closure_binding_old_refuted.

(** (4) A convertible model converts whatever the declaration order of its derived values (and
    reactions): [Convertible] reads the declarations through membership only, and [OrderOk] is
    what property C02 proves of cache.order for every declaration order.  Current facts
    OrdDependency / SymVarsParsData / DynCoefTimesRate.  Since fix 868c092 repaired the dynamic statement
    this INCLUDES models with state-dependent computed coefficients (the earlier statement demanded
    that cache.dyn_stoich_by_cpds be empty; that hypothesis is replaced by: the coefficient's
    reaction is a reaction, its arguments are convertible names, its function translates; and a
    variable may be covered by a dynamic row only -- the earlier statement is the special case). *)
Theorem C12_any_declaration_order :
  forall (fsym : fnid -> list expr -> option expr) (m : smodel),
    (* Convertible, written out *)
    (forall k c, In (k, c) (m_der m) -> forall a, In a (c_args c) -> In a (base_names m) \/ In a (map fst (m_der m))) ->
    (forall k c, In (k, c) (m_rxn m) -> forall a, In a (c_args c) -> In a (base_names m) \/ In a (map fst (m_der m))) ->
    (forall k c, In (k, c) (m_der m ++ m_rxn m) -> forall es, length es = length (c_args c) -> fsym (c_fn c) es <> None) ->
    (forall cpd row r n, In (cpd, row) (m_stoich m) -> In (r, n) row -> In r (map fst (m_rxn m))) ->
    (forall cpd row r c, In (cpd, row) (m_dyn m) -> In (r, c) row ->
       In r (map fst (m_rxn m)) /\
       (forall a, In a (c_args c) -> In a (base_names m) \/ In a (map fst (m_der m))) /\
       (forall es, length es = length (c_args c) -> fsym (c_fn c) es <> None)) ->
    (forall v, In v (m_vars m) ->
       (exists row, In (v, row) (m_stoich m) /\ row <> []) \/ (exists row, In (v, row) (m_dyn m) /\ row <> [])) ->
    (* OrderOk, written out *)
    (forall k, In k (map fst (m_der m)) -> In k (m_order m)) ->
    (forall pre k post c, m_order m = pre ++ k :: post -> lookup k (m_der m) = Some c ->
       forall a, In a (c_args c) -> In a (map fst (m_der m)) -> In a pre) ->
    exists eqs, to_symbolic fsym gen_sym_facts m = SymOk eqs.
Proof.
  exact (fun fsym m H1 H2 H3 H4 H5 H6 O1 O2 =>
    convertible_converts fsym m (Build_Convertible fsym m H1 H2 H3 H4 H5 H6) (conj O1 O2) gen_sym_facts eq_refl eq_refl eq_refl eq_refl).
Qed.
Print Assumptions C12_any_declaration_order.

(** regression witness: with the pre-fix fact (OrdDeclaration) a convertible model whose derived
    values are declared out of dependency order raised KeyError *)
Theorem C12_any_declaration_order_old_refuted :
  Convertible fsym_lib w1 /\ OrderOk w1 /\ sf_order facts_old_order = OrdDeclaration /\
  to_symbolic fsym_lib facts_old_order w1 = SymErr ErrKey.
Proof. exact (conj w1_convertible (conj w1_order_ok (conj eq_refl w1_old_keyerror))). Qed.
Print Assumptions C12_any_declaration_order_old_refuted.

(** (5) What cannot be converted raises rather than using wrong equations: by (1) EVERY returned
    result is right, so the only other outcomes are the modelled exceptions (KeyError for a name that
    is no symbol -- time, assignment-defined parameters, rates --, ValueError for a function that
    does not translate).  State-dependent computed coefficients are converted by the repaired
    statement (fact DynCoefTimesRate; covered by (1), instance in C12_nonvacuous); with the
    pre-fix fact they were refused: *)
Theorem C12_dynamic_coefficient_old_refused :
  forall (fsym : fnid -> list expr -> option expr) (F : sym_facts) (m : smodel) cpd row,
    sf_dyn F = DynListTimesRate ->
    In (cpd, row) (m_dyn m) -> row <> [] -> forall eqs, to_symbolic fsym F m <> SymOk eqs.
Proof. exact dyn_raises_old. Qed.
Print Assumptions C12_dynamic_coefficient_old_refused.

(** (5') Models WITH surrogates.  The translation symbol table is variables | parameters | data: a
    surrogate output is not a key.  A model in which an ordinary reaction, a converted derived value
    or a state-dependent coefficient takes a surrogate OUTPUT as argument, or whose coefficient
    tables name a surrogate FLUX, is refused (an exception, never equations), and the simulator is
    left without Jacobian.  [SurrNamesFresh]: names are unique across a model (Model._insert_id). *)
Theorem C12_surrogate_output_refused :
  forall (fsym : fnid -> list expr -> option expr) (sdiff : name -> expr -> expr) (m : smodel),
    (* SurrNamesFresh, written out *)
    (forall o, In o (surr_outputs m) ->
       ~ In o (base_names m) /\ ~ In o (map fst (m_der m)) /\ ~ In o (map fst (m_rxn m))) ->
    (* UsesSurrogate, written out *)
    ((exists k c a, In (k, c) (m_rxn m) /\ In a (c_args c) /\ In a (surr_outputs m)) \/
     (exists k c a, In k (m_order m) /\ lookup k (m_der m) = Some c /\ In a (c_args c) /\ In a (surr_outputs m)) \/
     (exists cpd row r c a, In (cpd, row) (m_dyn m) /\ In (r, c) row /\ In a (c_args c) /\ In a (surr_outputs m)) \/
     (exists cpd row r n, In (cpd, row) (m_stoich m) /\ In (r, n) row /\ In r (surr_outputs m))) ->
    exists e, to_symbolic fsym gen_sym_facts m = SymErr e /\
              init_jac fsym sdiff gen_sym_facts m = JacNone e /\
              forall m' t x, call_closure gen_sym_facts m' (init_jac fsym sdiff gen_sym_facts m) t x = CNoJac.
Proof. exact (fun fsym sdiff m H1 H2 => surrogate_output_refused fsym sdiff gen_sym_facts m eq_refl eq_refl H1 H2). Qed.
Print Assumptions C12_surrogate_output_refused.

(** ... more generally, for every symbol table and every value of the other facts: naming anything
    that is neither a key of the table nor a derived value (time, an assignment-defined parameter,
    a rate, a surrogate output), or a flux that is no reaction, is refused. *)
Theorem C12_unknown_name_refused :
  forall (fsym : fnid -> list expr -> option expr) (F : sym_facts) (m : smodel) (names : list name),
    table_names F m = Some names ->
    ((exists k c a, In (k, c) (m_rxn m) /\ In a (c_args c) /\ ~ In a names /\ ~ In a (map fst (m_der m))) \/
     (sf_order F = OrdDependency /\
      exists k c a, In k (m_order m) /\ lookup k (m_der m) = Some c /\ In a (c_args c) /\ ~ In a names /\ ~ In a (map fst (m_der m))) \/
     (exists cpd row r c a, In (cpd, row) (m_dyn m) /\ In (r, c) row /\ In a (c_args c) /\ ~ In a names /\ ~ In a (map fst (m_der m))) \/
     (exists cpd row r n, In (cpd, row) (m_stoich m) /\ In (r, n) row /\ ~ In r (map fst (m_rxn m)))) ->
    forall eqs, to_symbolic fsym F m <> SymOk eqs.
Proof. exact unknown_name_refused. Qed.
Print Assumptions C12_unknown_name_refused.

(** regression theorem for the MERGED table (variables | parameters | data | surrogates, fact
    SymVarsParsDataSurr = seeded change C12-3): w4 -- a surrogate output (6 = twice(x)) feeding the
    ordinary reaction 7 = y * out -- is refused under the current facts, but CONVERTS under the
    merged table to equations that mention the output's symbol; the Jacobian entry d(dy/dt)/dx it
    yields evaluates to 2 although along x = 1 + h (every component and the surrogate output
    resolved) the numeric dy/dt moves by exactly -2*h -- no bound B*h^2 exists --, and the Jacobian
    function's matrix has an entry that is not a number (the unbound symbol; SciPy: TypeError). *)
Theorem C12_surrogate_merged_table_refuted :
  sf_symtab facts_merged_surr = SymVarsParsDataSurr /\
  (forall o, In o (surr_outputs w4) ->
     ~ In o (base_names w4) /\ ~ In o (map fst (m_der w4)) /\ ~ In o (map fst (m_rxn w4))) /\
  (exists k c a, In (k, c) (m_rxn w4) /\ In a (c_args c) /\ In a (surr_outputs w4)) /\
  to_symbolic fsym_lib gen_sym_facts w4 = SymErr ErrKey /\
  (forall h, Resolved fsem_lib w4 (w4_env h) /\ SurrResolved fsem_lib w4 (w4_env h)) /\
  (forall h, num_rhs fsem_lib w4 (w4_env h) 2%N - num_rhs fsem_lib w4 (w4_env 0) 2%N == h * (-2)) /\
  (exists eqs, to_symbolic fsym_lib facts_merged_surr w4 = SymOk eqs /\
     (exists e, In e eqs /\ In 6%N (syms e)) /\
     (exists row d, nth_error (jacobian D eqs (m_vars w4)) 1 = Some row /\ nth_error row 0 = Some d /\
                    eval (w4_env 0) d == 2) /\
     call_closure facts_merged_surr w4 (init_jac fsym_lib D facts_merged_surr w4) 0 [1; 2] = CErr ErrName) /\
  ~ (exists B, 0 <= B /\ forall h, Qabs h <= 1 ->
       Qabs (num_rhs fsem_lib w4 (w4_env h) 2%N - num_rhs fsem_lib w4 (w4_env 0) 2%N - h * 2) <= B * (h * h)).
Proof.
  exact (conj eq_refl (conj w4_fresh (conj w4_uses_rxn (conj (proj1 w4_refused_now) (conj w4_resolved (conj w4_increment
        (conj w4_merged w4_not_the_derivative))))))).
Qed.
Print Assumptions C12_surrogate_merged_table_refuted.

(** ... and in the simulator a refused conversion leaves the integrator WITHOUT a Jacobian (after
    the warning) instead of using any equations. *)
Theorem C12_fallback_without_jacobian :
  forall (fsym : fnid -> list expr -> option expr) (sdiff : name -> expr -> expr) (F : sym_facts) (m : smodel) e,
    to_symbolic fsym F m = SymErr e ->
    init_jac fsym sdiff F m = JacNone e /\
    forall m' t x, call_closure F m' (init_jac fsym sdiff F m) t x = CNoJac.
Proof. exact fallback. Qed.
Print Assumptions C12_fallback_without_jacobian.

(** the hypotheses are satisfiable and the statements non-trivial: the concrete function table
    meets everything assumed of SymPy; w1 (derived values declared out of order) is convertible,
    resolved at a concrete environment, converts under the current facts to equations with the
    values [-8; 8]; w3 has a STATE-dependent computed coefficient, meets Convertible / OrderOk and converts
    to equations equal to its right-hand side ([-6; 36]) (w4, a model with a surrogate, meets the
    hypotheses of C12_surrogate_output_refused: see C12_surrogate_merged_table_refuted); the current closure evaluates w2's Jacobian to [[-2;0];[4;0]] *)
Example C12_nonvacuous :
  (forall f es e env, fsym_lib f es = Some e -> eval env e == fsem_lib f (map (eval env) es)) /\
  (forall f vs ws, Forall2 Qeq vs ws -> fsem_lib f vs == fsem_lib f ws) /\
  (forall f es e, fsym_lib f es = Some e -> forall n, In n (syms e) -> exists e', In e' es /\ In n (syms e')) /\
  (forall x e, incl (syms (D x e)) (syms e)) /\
  Convertible fsym_lib w1 /\ OrderOk w1 /\ Resolved fsem_lib w1 w1_env /\
  (exists eqs, to_symbolic fsym_lib gen_sym_facts w1 = SymOk eqs /\ map (eval w1_env) eqs = [-8; 8]) /\
  Resolved fsem_lib w3 w3_env /\ Convertible fsym_lib w3 /\ OrderOk w3 /\
  (m_dyn w3 = [(2%N, [(5%N, mkComp 24%N [1%N])])] /\
   exists eqs, to_symbolic fsym_lib gen_sym_facts w3 = SymOk eqs /\
     qlist_eqb (map (eval w3_env) eqs) (map (raw_rhs fsem_lib w3_env w3_raw) (m_vars w3)) = true /\
     qlist_eqb (map (eval w3_env) eqs) [-6; 36] = true) /\
  clo_obs_eqb (run_closure gen_sym_facts w2 0 [1; 1 # 2]) (ObsCloMat [[-2; 0]; [4; 0]]) = true.
Proof.
  exact (conj fsym_lib_sound (conj fsem_lib_proper (conj fsym_lib_syms (conj D_syms_incl
        (conj w1_convertible (conj w1_order_ok (conj w1_resolved (conj w1_converts (conj w3_resolved (conj w3_convertible (conj w3_order_ok (conj w3_converts w2_now_closure)))))))))))).
Qed.
Print Assumptions C12_nonvacuous.
