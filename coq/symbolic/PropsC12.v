From Symbolic Require Import Expr SymModel GenSymFacts.
Theorem C12_facts_pinned :
  gen_sym_facts = mkSymFacts OrdDependency SymVarsParsData StatFloatTimesRate DynListTimesRate EqsByVarNames JacEqsByVars LamTimeVarsPars ThirdNumericByName FallbackWarnAnyException.
Proof. vm_compute. reflexivity. Qed.
Print Assumptions C12_facts_pinned.
