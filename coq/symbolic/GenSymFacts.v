(* REGENERATED from src/mxlpy/symbolic/symbolic_model.py (to_symbolic_model, SymbolicModel.jacobian),
   src/mxlpy/meta/sympy_tools.py (list_of_symbols) and
   src/mxlpy/simulator.py (Simulator._initialise_integrator) by harness/c12.py; do not edit.
   An unrecognised shape yields a *Unknown constructor, which breaks C12_facts_pinned. *)
From Symbolic Require Import SymModel.
Definition gen_sym_facts : sym_facts :=
  mkSymFacts OrdDependency SymVarsParsData StatFloatTimesRate DynCoefTimesRate EqsByVarNames JacEqsByVars LamTimeVarsPars ThirdNumericByName FallbackWarnAnyException TimeShifted VarSymPlain.
