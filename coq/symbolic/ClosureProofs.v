(* todo *)
