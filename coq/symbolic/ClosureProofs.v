(** C12 -- proofs about SymbolicModel.jacobian and the simulator's Jacobian closure:

      * layout: row i = equation of the i-th variable, column j = derivative by the j-th variable;
      * every entry IS the partial derivative of the NUMERIC right-hand side (through the verified
        formal derivative [D], ExprProofs.D_is_derivative);
      * the closure binds (time, variable names, parameter names) positionally to (t, x, the numeric
        parameter values read at call time) -- for the current fact [ThirdNumericByName]; with the
        pre-fix fact [ThirdParamRecords] every entry that mentions a parameter dies with TypeError;
      * the concrete function table (FnTab.v) satisfies the hypotheses made about SymPy, and the
        witnesses used by PropsC12.v. *)
From Coq Require Import QArith Qabs Lqa Permutation.
From MxlBase Require Import ListX.
From Symbolic Require Import Expr ExprProofs SymModel FnTab SymProofs.
Open Scope Q_scope.

Lemma Forall2_nth {A B} (R : A -> B -> Prop) l1 l2 i b :
  Forall2 R l1 l2 -> nth_error l2 i = Some b -> exists a, nth_error l1 i = Some a /\ R a b.
Proof.
  intros F. revert i. induction F as [|x y l1 l2 Hxy _ IH]; intros [|i] H; cbn [nth_error] in *; try discriminate.
  - injection H as H. subst. exists x. split; [reflexivity|exact Hxy].
  - apply IH. exact H.
Qed.

Lemma Forall2_nth_both {A B} (R : A -> B -> Prop) l1 l2 i a b :
  Forall2 R l1 l2 -> nth_error l1 i = Some a -> nth_error l2 i = Some b -> R a b.
Proof.
  intros F Ha Hb. destruct (Forall2_nth R l1 l2 i b F Hb) as [a' [E Hr]]. rewrite Ha in E. injection E as E. subst. exact Hr.
Qed.

Lemma NoDup_app_parts {A} (a b : list A) :
  NoDup (a ++ b) -> NoDup a /\ NoDup b /\ (forall x, In x a -> In x b -> False).
Proof.
  induction a as [|y a IH]; cbn [app]; intros H.
  - split; [constructor|]. split; [exact H|]. intros x [].
  - inversion H as [|? ? Hnot Hnd]; subst. destruct (IH Hnd) as [H1 [H2 H3]].
    split; [constructor; [intros Hy; apply Hnot; apply in_or_app; left; exact Hy|exact H1]|].
    split; [exact H2|]. intros x [Hx|Hx] Hb; [subst; apply Hnot; apply in_or_app; right; exact Hb|exact (H3 x Hx Hb)].
Qed.

(** ---- layout ------------------------------------------------------------------------------ *)
Lemma jacobian_layout sdiff eqs vars i j e x :
  nth_error eqs i = Some e -> nth_error vars j = Some x ->
  exists row, nth_error (jacobian sdiff eqs vars) i = Some row /\ nth_error row j = Some (sdiff x e).
Proof.
  intros He Hx. unfold jacobian. exists (map (fun v => sdiff v e) vars). split.
  - exact (map_nth_error (fun e0 => map (fun v => sdiff v e0) vars) i eqs He).
  - exact (map_nth_error (fun v => sdiff v e) j vars Hx).
Qed.

Lemma jacobian_shape sdiff eqs vars :
  length (jacobian sdiff eqs vars) = length eqs /\ forall row, In row (jacobian sdiff eqs vars) -> length row = length vars.
Proof.
  unfold jacobian. split; [apply map_length|]. intros row H. apply in_map_iff in H. destruct H as [e [H _]]. subst. apply map_length.
Qed.

(** ---- the Jacobian is the derivative of the numeric right-hand side -------------------------- *)
Section Derivative.
  Variable fsym : fnid -> list expr -> option expr.
  Variable fsem : fnid -> list Q -> Q.
  Variable sdiff : name -> expr -> expr.
  Hypothesis fsym_sound : forall f es e env, fsym f es = Some e -> eval env e == fsem f (map (eval env) es).
  Hypothesis fsem_proper : forall f vs ws, Forall2 Qeq vs ws -> fsem f vs == fsem f ws.
  Hypothesis fsym_syms : forall f es e, fsym f es = Some e -> forall n, In n (syms e) -> exists e', In e' es /\ In n (syms e').
  (** SymPy's differentiation agrees in value with the verified formal derivative *)
  Hypothesis sdiff_ok : forall x e env, eval env (sdiff x e) == eval env (D x e).

  (** for whatever the symbol table is made of: the entry is the partial derivative with every OTHER
      key of the table held fixed -- which is the derivative of the numeric right-hand side exactly when
      the keys are independent quantities (variables, parameters, data: the shipped table), and is NOT
      when a key is a function of the state (a surrogate output: Witness.w4) *)
  Theorem jacobian_is_derivative_table F m eqs env names :
    table_names F m = Some names ->
    stat_view F m = Some m ->
    to_symbolic fsym F m = SymOk eqs -> Resolved fsem m env ->
    forall i j vi xj, nth_error (m_vars m) i = Some vi -> nth_error (m_vars m) j = Some xj ->
    exists row d, nth_error (jacobian sdiff eqs (m_vars m)) i = Some row /\ nth_error row j = Some d /\
      exists B, 0 <= B /\
        forall h env', Qabs h <= 1 -> Resolved fsem m env' ->
          (forall n, In n names -> env' n == upd env xj (env xj + h) n) ->
          Qabs (num_rhs fsem m env' vi - num_rhs fsem m env vi - h * eval env d) <= B * (h * h).
  Proof.
    intros Hnames Hview Hconv Hres i j vi xj Hi Hj.
    pose proof (to_symbolic_sound fsym fsem fsym_sound fsem_proper env F m eqs Hview Hres Hconv) as Hs.
    destruct (Forall2_nth _ _ _ i vi Hs Hi) as [e [He Hev]].
    destruct (jacobian_layout sdiff eqs (m_vars m) i j e xj He Hj) as [row [Hrow Hd]].
    exists row, (sdiff xj e). split; [exact Hrow|]. split; [exact Hd|].
    destruct (D_is_derivative xj env e) as [B [HB Hb]].
    exists B. split; [exact HB|]. intros h env' Hh Hres' Hagree.
    pose proof (to_symbolic_sound fsym fsem fsym_sound fsem_proper env' F m eqs Hview Hres' Hconv) as Hs'.
    pose proof (Forall2_nth_both _ _ _ i e vi Hs' He Hi) as Hev'. cbn beta in Hev'.
    assert (Hsy : incl (syms e) names).
    { destruct (to_symbolic_syms_table fsym fsym_syms F m eqs Hconv) as [names' [E Hin]].
      rewrite Hnames in E. injection E as E. subst names'. apply Hin. eapply nth_error_In. exact He. }
    assert (E1 : num_rhs fsem m env' vi == eval (upd env xj (env xj + h)) e).
    { rewrite <- Hev'. apply eval_ext. intros n Hn. apply Hagree. apply Hsy. exact Hn. }
    rewrite E1. rewrite <- Hev. rewrite (sdiff_ok xj e env). apply Hb. exact Hh.
  Qed.

  Theorem jacobian_is_derivative F m eqs env :
    sf_symtab F = SymVarsParsData ->
    stat_view F m = Some m ->
    to_symbolic fsym F m = SymOk eqs -> Resolved fsem m env ->
    forall i j vi xj, nth_error (m_vars m) i = Some vi -> nth_error (m_vars m) j = Some xj ->
    exists row d, nth_error (jacobian sdiff eqs (m_vars m)) i = Some row /\ nth_error row j = Some d /\
      exists B, 0 <= B /\
        forall h env', Qabs h <= 1 -> Resolved fsem m env' ->
          (forall n, In n (base_names m) -> env' n == upd env xj (env xj + h) n) ->
          Qabs (num_rhs fsem m env' vi - num_rhs fsem m env vi - h * eval env d) <= B * (h * h).
  Proof.
    intros HF. apply jacobian_is_derivative_table. unfold table_names. rewrite HF. reflexivity.
  Qed.
End Derivative.

(** ---- the closure ------------------------------------------------------------------------------ *)
Lemma In_lookup_NoDup {A} (l : list (name * A)) k v : NoDup (map fst l) -> In (k, v) l -> lookup k l = Some v.
Proof.
  induction l as [|[k' v'] l IH]; cbn [map fst lookup]; intros Hnd Hin; [destruct Hin|].
  inversion Hnd as [|? ? Hnot Hnd']; subst.
  destruct Hin as [Hin|Hin].
  - injection Hin as H1 H2. subst. rewrite N.eqb_refl. reflexivity.
  - destruct (N.eqb k' k) eqn:E.
    + apply N.eqb_eq in E. subst k'. exfalso. apply Hnot. apply in_map_iff. exists (k, v). split; [reflexivity|exact Hin].
    + apply IH; assumption.
Qed.

Lemma lookup_all_self {A} (l : list (name * A)) : NoDup (map fst l) ->
  forall l', incl l' l -> lookup_all l (map fst l') = Some (map snd l').
Proof.
  intros Hnd l'. induction l' as [|[k v] l' IH]; intros Hin; cbn [map fst snd lookup_all]; [reflexivity|].
  rewrite (In_lookup_NoDup l k v Hnd (Hin _ (or_introl eq_refl))).
  rewrite IH; [reflexivity|]. intros z Hz. apply Hin. right. exact Hz.
Qed.

Lemma bind_map {A} (f : A -> name) (g : A -> pyval) l :
  bind (map f l) (map g l) = Some (map (fun a => (f a, g a)) l).
Proof. induction l as [|a l IH]; cbn [map bind]; [reflexivity|rewrite IH; reflexivity]. Qed.

Lemma combine_fst_snd {A B} (a : list A) (b : list B) :
  length a = length b -> map fst (combine a b) = a /\ map snd (combine a b) = b.
Proof.
  revert b. induction a as [|x a IH]; intros [|y b] H; cbn [length] in H; try discriminate; cbn [combine map fst snd].
  - split; reflexivity.
  - injection H as H. destruct (IH b H) as [H1 H2]. rewrite H1, H2. split; reflexivity.
Qed.

Lemma eval_py_num pyenv env e :
  (forall n, In n (syms e) -> lookup n pyenv = Some (VNum (env n))) -> eval_py pyenv e = inr (eval env e).
Proof.
  induction e as [q|n|a IHa b IHb|a IHa b IHb]; cbn [eval_py eval syms]; intros H.
  - reflexivity.
  - rewrite (H n (or_introl eq_refl)). reflexivity.
  - rewrite IHa, IHb; [reflexivity| |]; intros n Hn; apply H; apply in_or_app; auto.
  - rewrite IHa, IHb; [reflexivity| |]; intros n Hn; apply H; apply in_or_app; auto.
Qed.

Lemma eval_row_num pyenv env row :
  (forall e, In e row -> forall n, In n (syms e) -> lookup n pyenv = Some (VNum (env n))) ->
  eval_row pyenv row = inr (map (eval env) row).
Proof.
  induction row as [|e row IH]; cbn [eval_row map]; intros H; [reflexivity|].
  rewrite (eval_py_num pyenv env e (H e (or_introl eq_refl))).
  rewrite IH; [reflexivity|]. intros e' He'. apply H. right. exact He'.
Qed.

Lemma eval_matrix_num pyenv env mat :
  (forall row e, In row mat -> In e row -> forall n, In n (syms e) -> lookup n pyenv = Some (VNum (env n))) ->
  eval_matrix pyenv mat = inr (map (map (eval env)) mat).
Proof.
  induction mat as [|row mat IH]; cbn [eval_matrix map]; intros H; [reflexivity|].
  rewrite (eval_row_num pyenv env row (fun e He => H row e (or_introl eq_refl) He)).
  rewrite IH; [reflexivity|]. intros r e Hr. apply H. right. exact Hr.
Qed.

(** the assignment the closure is SUPPOSED to evaluate the Jacobian under: time is t, the i-th
    variable is x_i, a parameter is its numeric value in the model at call time *)
Definition bound_env (t : Q) (vn : list name) (x : list Q) (pars : list (name * pval)) : name -> Q :=
  fun n =>
    if N.eqb n time_name then t
    else match lookup n (combine vn x) with
         | Some q => q
         | None => match lookup n pars with Some p => pval_num p | None => 0 end
         end.

Theorem closure_binding F m jac vn pn t x :
  sf_third F = ThirdNumericByName ->
  pn = map fst (m_pars m) ->                      (* the parameters are those present at construction *)
  NoDup (time_name :: vn ++ pn) ->
  length x = length vn ->
  (forall row e, In row jac -> In e row -> incl (syms e) (time_name :: vn ++ pn)) ->
  call_closure F m (JacFn jac vn pn) t x = CMat (map (map (eval (bound_env t vn x (m_pars m)))) jac).
Proof.
  intros HF Hpn Hnd Hlen Hsyms. unfold call_closure, third_arg. rewrite HF.
  set (pars := m_pars m) in *.
  inversion Hnd as [|? ? Htime Hnd']; subst.
  destruct (NoDup_app_parts _ _ Hnd') as [Hndv [Hndp Hdisj]].
  rewrite (lookup_all_self pars Hndp pars (incl_refl _)). cbn [option_map].
  destruct (combine_fst_snd vn x (eq_sym Hlen)) as [Hc1 Hc2].
  set (c := combine vn x) in *.
  rewrite <- Hc1 at 1. rewrite <- Hc2 at 1. rewrite !map_map. rewrite !bind_map.
  set (bv := map (fun a : name * Q => (fst a, VNum (snd a))) c).
  set (bp := map (fun a : name * pval => (fst a, VNum (pval_num (snd a)))) pars).
  rewrite (eval_matrix_num (closure_env t bv bp) (bound_env t vn x pars) jac); [reflexivity|].
  intros row e Hrow He n Hn.
  assert (Hkeys : map fst (closure_env t bv bp) = rev (map fst pars) ++ rev vn ++ [time_name]).
  { unfold closure_env. rewrite !map_app, !map_rev. unfold bv, bp. rewrite !map_map. cbn [fst map].
    rewrite <- Hc1. reflexivity. }
  assert (Hndk : NoDup (map fst (closure_env t bv bp))).
  { rewrite Hkeys. eapply Permutation_NoDup; [|exact Hnd].
    rewrite app_assoc. eapply perm_trans; [|apply Permutation_cons_append].
    constructor. eapply perm_trans; [apply Permutation_app_comm|].
    apply Permutation_app; apply Permutation_rev. }
  apply In_lookup_NoDup; [exact Hndk|].
  unfold closure_env, bound_env. fold c.
  pose proof (Hsyms row e Hrow He n Hn) as Hin. destruct Hin as [Hin|Hin].
  - subst n. rewrite N.eqb_refl. apply in_or_app. right. apply in_or_app. right. left. reflexivity.
  - assert (Hne : N.eqb n time_name = false).
    { apply N.eqb_neq. intros E. subst n. exact (Htime Hin). }
    rewrite Hne. apply in_app_or in Hin. destruct Hin as [Hin|Hin].
    + (* a variable *)
      rewrite <- Hc1 in Hin. apply in_map_iff in Hin. destruct Hin as [[k q] [Hk Hkq]]. cbn [fst] in Hk. subst k.
      assert (Hndc : NoDup (map fst c)) by (rewrite Hc1; exact Hndv).
      rewrite (In_lookup_NoDup c n q Hndc Hkq).
      apply in_or_app. right. apply in_or_app. left. apply -> in_rev. unfold bv.
      apply in_map_iff. exists (n, q). split; [reflexivity|exact Hkq].
    + (* a parameter *)
      assert (Hnv : lookup n c = None).
      { apply lookup_None. rewrite Hc1. intros Hv.
        exact (Hdisj n Hv Hin). }
      rewrite Hnv. apply in_map_iff in Hin. destruct Hin as [[k p] [Hk Hkp]]. cbn [fst] in Hk. subst k.
      rewrite (In_lookup_NoDup pars n p Hndp Hkp).
      apply in_or_app. left. apply -> in_rev. unfold bp.
      apply in_map_iff. exists (n, p). split; [reflexivity|exact Hkp].
Qed.

(** what [bound_env] binds, spelled out (used to read the theorem; NoDup as above) *)
Lemma bound_env_time t vn x pars : bound_env t vn x pars time_name = t.
Proof. unfold bound_env. rewrite N.eqb_refl. reflexivity. Qed.

Lemma bound_env_var t vn x pars i v q :
  NoDup (time_name :: vn ++ map fst pars) -> length x = length vn ->
  nth_error vn i = Some v -> nth_error x i = Some q -> bound_env t vn x pars v = q.
Proof.
  intros Hnd Hlen Hv Hq. inversion Hnd as [|? ? Htime Hnd']; subst.
  unfold bound_env.
  assert (Hne : N.eqb v time_name = false).
  { apply N.eqb_neq. intros E. subst v. apply Htime. apply in_or_app. left. eapply nth_error_In. exact Hv. }
  rewrite Hne.
  destruct (combine_fst_snd vn x (eq_sym Hlen)) as [Hc1 Hc2].
  assert (Hin : In (v, q) (combine vn x)).
  { clear - Hv Hq. revert x i Hv Hq. induction vn as [|a vn IH]; intros [|b x] [|i] Hv Hq; cbn [nth_error combine] in *; try discriminate.
    - injection Hv as Hv. injection Hq as Hq. subst. left. reflexivity.
    - right. eapply IH; eassumption. }
  rewrite (In_lookup_NoDup (combine vn x) v q); [reflexivity| |exact Hin].
  rewrite Hc1. exact (proj1 (NoDup_app_parts _ _ Hnd')).
Qed.

Lemma bound_env_par t vn x pars k p :
  NoDup (time_name :: vn ++ map fst pars) -> length x = length vn ->
  In (k, p) pars -> bound_env t vn x pars k = pval_num p.
Proof.
  intros Hnd Hlen Hin. inversion Hnd as [|? ? Htime Hnd']; subst.
  assert (Hk : In k (map fst pars)) by (apply in_map_iff; exists (k, p); split; [reflexivity|exact Hin]).
  unfold bound_env.
  assert (Hne : N.eqb k time_name = false).
  { apply N.eqb_neq. intros E. subst k. apply Htime. apply in_or_app. right. exact Hk. }
  rewrite Hne.
  destruct (combine_fst_snd vn x (eq_sym Hlen)) as [Hc1 Hc2].
  assert (Hnv : lookup k (combine vn x) = None).
  { apply lookup_None. rewrite Hc1. intros Hv. exact (proj2 (proj2 (NoDup_app_parts _ _ Hnd')) k Hv Hk). }
  rewrite Hnv. rewrite (In_lookup_NoDup pars k p); [reflexivity| |exact Hin].
  exact (proj1 (proj2 (NoDup_app_parts _ _ Hnd'))).
Qed.

(** a refused conversion leaves the simulator without Jacobian (after the warning) *)
Lemma fallback fsym sdiff F m e :
  to_symbolic fsym F m = SymErr e ->
  init_jac fsym sdiff F m = JacNone e /\
  forall m' t x, call_closure F m' (init_jac fsym sdiff F m) t x = CNoJac.
Proof. intros H. unfold init_jac. rewrite H. split; [reflexivity|]. intros m' t x. reflexivity. Qed.

Lemma init_jac_ok fsym sdiff F m eqs :
  to_symbolic fsym F m = SymOk eqs ->
  init_jac fsym sdiff F m = JacFn (jacobian sdiff eqs (m_vars m)) (m_vars m) (map fst (m_pars m)).
Proof. intros H. unfold init_jac. rewrite H. reflexivity. Qed.

(** ======================================================================================== *)
(** the concrete table satisfies what is assumed of SymPy *)
Lemma nth_Forall2_Qeq vs ws : Forall2 Qeq vs ws -> forall i, nth i vs 0 == nth i ws 0.
Proof.
  intros F. induction F as [|v w vs ws Hvw _ IH]; intros [|i]; cbn [nth]; try reflexivity; [exact Hvw|apply IH].
Qed.

Lemma subst_sound es body : forall e env,
  subst es body = Some e -> eval env e == eval (fun i => nth (N.to_nat i) (map (eval env) es) 0) body.
Proof.
  induction body as [q|n|a IHa b IHb|a IHa b IHb]; cbn [subst eval]; intros e env H.
  - injection H as H. subst. reflexivity.
  - rewrite (nth_error_nth _ _ 0 (map_nth_error (eval env) _ _ H)). reflexivity.
  - destruct (subst es a) as [a'|]; [|discriminate]. destruct (subst es b) as [b'|]; [|discriminate].
    injection H as H. subst. cbn [eval]. rewrite (IHa a' env eq_refl), (IHb b' env eq_refl). reflexivity.
  - destruct (subst es a) as [a'|]; [|discriminate]. destruct (subst es b) as [b'|]; [|discriminate].
    injection H as H. subst. cbn [eval]. rewrite (IHa a' env eq_refl), (IHb b' env eq_refl). reflexivity.
Qed.

Lemma fsym_lib_sound f es e env : fsym_lib f es = Some e -> eval env e == fsem_lib f (map (eval env) es).
Proof.
  unfold fsym_lib, fsem_lib. destruct (fn_table f) as [[ar body]|]; [|discriminate].
  destruct (Nat.eqb (length es) ar); [|discriminate]. apply subst_sound.
Qed.

Lemma fsem_lib_proper f vs ws : Forall2 Qeq vs ws -> fsem_lib f vs == fsem_lib f ws.
Proof.
  intros F. unfold fsem_lib. destruct (fn_table f) as [[ar body]|]; [|reflexivity].
  apply eval_ext. intros n _. apply nth_Forall2_Qeq. exact F.
Qed.

Lemma subst_syms es body : forall e, subst es body = Some e ->
  forall n, In n (syms e) -> exists e', In e' es /\ In n (syms e').
Proof.
  induction body as [q|i|a IHa b IHb|a IHa b IHb]; cbn [subst]; intros e H n Hn.
  - injection H as H. subst. destruct Hn.
  - exists e. split; [eapply nth_error_In; exact H|exact Hn].
  - destruct (subst es a) as [a'|]; [|discriminate]. destruct (subst es b) as [b'|]; [|discriminate].
    injection H as H. subst. cbn [syms] in Hn. apply in_app_or in Hn.
    destruct Hn as [Hn|Hn]; [exact (IHa a' eq_refl n Hn)|exact (IHb b' eq_refl n Hn)].
  - destruct (subst es a) as [a'|]; [|discriminate]. destruct (subst es b) as [b'|]; [|discriminate].
    injection H as H. subst. cbn [syms] in Hn. apply in_app_or in Hn.
    destruct Hn as [Hn|Hn]; [exact (IHa a' eq_refl n Hn)|exact (IHb b' eq_refl n Hn)].
Qed.

Lemma fsym_lib_syms f es e : fsym_lib f es = Some e -> forall n, In n (syms e) -> exists e', In e' es /\ In n (syms e').
Proof.
  unfold fsym_lib. destruct (fn_table f) as [[ar body]|]; [|discriminate].
  destruct (Nat.eqb (length es) ar); [|discriminate]. apply subst_syms.
Qed.

Lemma Forall2_qlist_eqb {A B} (f : A -> Q) (g : B -> Q) l1 l2 :
  Forall2 (fun a b => f a == g b) l1 l2 -> qlist_eqb (map f l1) (map g l2) = true.
Proof.
  intros F. induction F as [|a b l1 l2 H _ IH]; cbn [map qlist_eqb]; [reflexivity|].
  rewrite IH. apply Qeq_bool_iff in H. rewrite H. reflexivity.
Qed.
