(** C12 -- concrete witnesses (closed by computation) used by PropsC12.v:
      * [w1]: a model built from the shipped rate laws whose derived values are declared OUT of
        dependency order -- convertible; converts under the current fact (dependency order), raised
        KeyError under the pre-fix fact (declaration order);
      * [w2]: a parameter-only computed coefficient -- the equations converted at one parameter
        setting are wrong at another (recorded finding frozen-computed-coefficient); the same model
        shows the pre-fix closure (Parameter records as third argument) dying with TypeError;
      * the composed statement about the simulator's Jacobian function. *)
From Coq Require Import QArith Qabs Lqa.
From MxlBase Require Import ListX.
From Symbolic Require Import Expr ExprProofs SymModel FnTab SymProofs ClosureProofs.
Open Scope Q_scope.

Definition facts_now : sym_facts :=
  mkSymFacts OrdDependency SymVarsParsData StatFloatTimesRate DynCoefTimesRate EqsByVarNames JacEqsByVars
             LamTimeVarsPars ThirdNumericByName FallbackWarnAnyException TimeShifted VarSymPlain.
(** the snapshot before fix fd76819 (derived values converted in declaration order) *)
Definition facts_old_order : sym_facts :=
  mkSymFacts OrdDeclaration SymVarsParsData StatFloatTimesRate DynCoefTimesRate EqsByVarNames JacEqsByVars
             LamTimeVarsPars ThirdNumericByName FallbackWarnAnyException TimeShifted VarSymPlain.
(** the snapshot before fix 114d3fe (closure passes model._parameters.values()) *)
Definition facts_old_third : sym_facts :=
  mkSymFacts OrdDependency SymVarsParsData StatFloatTimesRate DynCoefTimesRate EqsByVarNames JacEqsByVars
             LamTimeVarsPars ThirdParamRecords FallbackWarnAnyException TimeShifted VarSymPlain.

(** ---- w1 ------------------------------------------------------------------------------------ *)
(** variables 1,2; parameters 3,4; derived 6 = twice(5) declared BEFORE 5 = proportional(3,4);
    reaction 7 = mass_action_1s(1, 6): 1 -> 2 *)
Definition w1 : smodel :=
  mkSM [1%N; 2%N] [(3%N, PPlain 1); (4%N, PPlain 2)] []
       [(6%N, mkComp 24%N [5%N]); (5%N, mkComp 26%N [3%N; 4%N])]
       [(7%N, mkComp 29%N [1%N; 6%N])]
       [5%N; 6%N; 7%N]
       [(1%N, [(7%N, -1)]); (2%N, [(7%N, 1)])]
       [] [].
Definition w1_env : name -> Q :=
  env_of [(1%N, 2); (2%N, 0); (3%N, 1); (4%N, 2); (5%N, 2); (6%N, 4); (7%N, 8)].

Lemma w1_converts : exists eqs, to_symbolic fsym_lib facts_now w1 = SymOk eqs /\ map (eval w1_env) eqs = [-8; 8].
Proof. eexists. split; [vm_compute; reflexivity|vm_compute; reflexivity]. Qed.

Lemma w1_old_keyerror : to_symbolic fsym_lib facts_old_order w1 = SymErr ErrKey.
Proof. vm_compute. reflexivity. Qed.

Lemma w1_resolved : Resolved fsem_lib w1 w1_env.
Proof.
  split; intros k c Hin; cbn [w1 m_der m_rxn In] in Hin;
    repeat (destruct Hin as [Hin|Hin]; [injection Hin as <- <-; vm_compute; reflexivity|]); destruct Hin.
Qed.

Ltac in_cases H :=
  repeat match type of H with
         | In _ (_ :: _) => destruct H as [H|H]
         | In _ [] => destruct H
         | _ \/ _ => destruct H as [H|H]
         | False => destruct H
         | (_, _) = (_, _) => injection H as H; subst
         | _ = _ => first [discriminate H | subst]
         end.

Ltac solve_or := first [reflexivity | left; solve_or | right; solve_or].

Lemma translates_len1 f body : fn_table f = Some (1%nat, body) -> (forall a, subst [a] body <> None) ->
  forall es, length es = 1%nat -> fsym_lib f es <> None.
Proof.
  intros Ht Hs [|a [|b es]] Hl; cbn [length] in Hl; try discriminate. unfold fsym_lib. rewrite Ht. cbn [length Nat.eqb]. apply Hs.
Qed.
Lemma translates_len2 f body : fn_table f = Some (2%nat, body) -> (forall a b, subst [a; b] body <> None) ->
  forall es, length es = 2%nat -> fsym_lib f es <> None.
Proof.
  intros Ht Hs [|a [|b [|c es]]] Hl; cbn [length] in Hl; try discriminate. unfold fsym_lib. rewrite Ht. cbn [length Nat.eqb]. apply Hs.
Qed.

Lemma w1_convertible : Convertible fsym_lib w1.
Proof.
  constructor.
  - intros k c Hin a Ha. cbn [w1 m_der] in Hin. in_cases Hin; cbn [c_args] in Ha; in_cases Ha; vm_compute; solve_or.
  - intros k c Hin a Ha. cbn [w1 m_rxn] in Hin. in_cases Hin; cbn [c_args] in Ha; in_cases Ha; vm_compute; solve_or.
  - intros k c Hin. cbn [w1 m_der m_rxn app] in Hin. in_cases Hin; cbn [c_fn c_args length].
    + eapply translates_len1; [reflexivity|]. intros a. discriminate.
    + eapply translates_len2; [reflexivity|]. intros a b. discriminate.
    + eapply translates_len2; [reflexivity|]. intros a b. discriminate.
  - intros cpd row r n Hin Hr. cbn [w1 m_stoich] in Hin. in_cases Hin; in_cases Hr; vm_compute; solve_or.
  - intros cpd row r c Hin. destruct Hin.
  - intros v Hv. cbn [w1 m_vars] in Hv. in_cases Hv; left; eexists; (split; [vm_compute; eauto|discriminate]).
Qed.

Lemma w1_order_ok : OrderOk w1.
Proof.
  split.
  - intros k Hk. vm_compute in Hk. in_cases Hk; vm_compute; solve_or.
  - intros pre k post c Ho Hl a Ha Hd. cbn [w1 m_order] in Ho.
    destruct pre as [|p1 [|p2 [|p3 [|p4 pre]]]]; cbn [app] in Ho; inversion Ho; subst; clear Ho;
      vm_compute in Hl; try discriminate; injection Hl as Hl; subst c; cbn [c_args] in Ha;
      in_cases Ha; vm_compute in Hd; in_cases Hd; vm_compute; solve_or.
Qed.

(** ---- w2 ------------------------------------------------------------------------------------ *)
(** variables 1,2; parameters 3,4; reaction 6 = mass_action_1s(1, 4) with stoichiometry
    {1: -1, 2: Derived(twice, [3])}; cache built at 3 = 1; evaluated at 3 = 5 *)
Definition w2_raw : raw_stoich := [(6%N, [(1%N, CNum (-1)); (2%N, CFun (mkComp 24%N [3%N]))])].
Definition w2_parnames : list name := [3%N; 4%N].
Definition w2_env0 : name -> Q := env_of [(1%N, 1); (2%N, 1 # 2); (3%N, 1); (4%N, 2)].
Definition w2_env : name -> Q := env_of [(1%N, 1); (2%N, 1 # 2); (3%N, 5); (4%N, 2); (6%N, 2)].
Definition w2 : smodel :=
  mkSM [1%N; 2%N] [(3%N, PPlain 5); (4%N, PPlain 2)] [] [] [(6%N, mkComp 29%N [1%N; 4%N])] [6%N]
       (fst (build_tables fsem_lib w2_parnames w2_env0 w2_raw))
       (snd (build_tables fsem_lib w2_parnames w2_env0 w2_raw)) [].

Lemma w2_resolved : Resolved fsem_lib w2 w2_env.
Proof.
  split; intros k c Hin; cbn [w2 m_der m_rxn In] in Hin;
    repeat (destruct Hin as [Hin|Hin]; [injection Hin as <- <-; vm_compute; reflexivity|]); destruct Hin.
Qed.

Lemma w2_frozen :
  exists eqs, to_symbolic fsym_lib facts_now w2 = SymOk eqs /\
    ~ Forall2 (fun e v => eval w2_env e == raw_rhs fsem_lib w2_env w2_raw v) eqs (m_vars w2).
Proof.
  eexists. split; [vm_compute; reflexivity|].
  intros F. apply (Forall2_qlist_eqb (eval w2_env) (raw_rhs fsem_lib w2_env w2_raw)) in F.
  vm_compute in F. discriminate.
Qed.

Lemma w2_old_closure_typeerror :
  (exists eqs, to_symbolic fsym_lib facts_old_third w2 = SymOk eqs) /\
  call_closure facts_old_third w2 (init_jac fsym_lib D facts_old_third w2) 0 [1; 1 # 2] = CErr ErrType.
Proof. split; [eexists; vm_compute; reflexivity|vm_compute; reflexivity]. Qed.

Lemma w2_now_closure :
  clo_obs_eqb (run_closure facts_now w2 0 [1; 1 # 2]) (ObsCloMat [[-2; 0]; [4; 0]]) = true.
Proof. vm_compute. reflexivity. Qed.

(** ---- w3: a STATE-dependent computed coefficient (converted by the repaired statement) --------- *)
(** variables 1,2; parameter 3; reaction 5 = mass_action_1s(1, 3) with stoichiometry
    {1: -1, 2: Derived(twice, [1])} *)
Definition w3_raw : raw_stoich := [(5%N, [(1%N, CNum (-1)); (2%N, CFun (mkComp 24%N [1%N]))])].
Definition w3_env : name -> Q := env_of [(1%N, 3); (2%N, 1); (3%N, 2); (5%N, 6)].
Definition w3 : smodel :=
  mkSM [1%N; 2%N] [(3%N, PPlain 2)] [] [] [(5%N, mkComp 29%N [1%N; 3%N])] [5%N]
       (fst (build_tables fsem_lib [3%N] w3_env w3_raw))
       (snd (build_tables fsem_lib [3%N] w3_env w3_raw)) [].

Lemma w3_resolved : Resolved fsem_lib w3 w3_env.
Proof.
  split; intros k c Hin; cbn [w3 m_der m_rxn In] in Hin;
    repeat (destruct Hin as [Hin|Hin]; [injection Hin as <- <-; vm_compute; reflexivity|]); destruct Hin.
Qed.

Lemma w3_converts :
  m_dyn w3 = [(2%N, [(5%N, mkComp 24%N [1%N])])] /\
  exists eqs, to_symbolic fsym_lib facts_now w3 = SymOk eqs /\
    qlist_eqb (map (eval w3_env) eqs) (map (raw_rhs fsem_lib w3_env w3_raw) (m_vars w3)) = true /\
    qlist_eqb (map (eval w3_env) eqs) [-6; 36] = true.
Proof. split; [vm_compute; reflexivity|]. eexists. split; [vm_compute; reflexivity|]. split; vm_compute; reflexivity. Qed.

(** ---- the simulator's Jacobian function, composed ------------------------------------------------ *)
Lemma plain_par_names_incl m : incl (plain_par_names m) (map fst (m_pars m)).
Proof.
  unfold plain_par_names. intros n Hn. apply in_map_iff in Hn. destruct Hn as [p [Hp Hin]].
  apply filter_In in Hin. destruct Hin as [Hin _]. apply in_map_iff. exists p. split; assumption.
Qed.

Section Composed.
  Variable fsym : fnid -> list expr -> option expr.
  Variable sdiff : name -> expr -> expr.
  Hypothesis fsym_syms : forall f es e, fsym f es = Some e -> forall n, In n (syms e) -> exists e', In e' es /\ In n (syms e').
  Hypothesis sdiff_syms : forall x e, incl (syms (sdiff x e)) (syms e).

  Theorem simulator_jacobian F m0 m eqs t x :
    sf_third F = ThirdNumericByName -> sf_symtab F = SymVarsParsData ->
    to_symbolic fsym F m0 = SymOk eqs ->                 (* construction: Simulator(m0, use_jacobian=True) *)
    m_data m0 = [] ->
    map fst (m_pars m) = map fst (m_pars m0) ->          (* later: values may have been updated, names not *)
    NoDup (time_name :: m_vars m0 ++ map fst (m_pars m0)) ->
    length x = length (m_vars m0) ->
    call_closure F m (init_jac fsym sdiff F m0) t x =
    CMat (map (map (eval (bound_env t (m_vars m0) x (m_pars m)))) (jacobian sdiff eqs (m_vars m0))).
  Proof.
    intros HF HFt Hconv Hdata Hnames Hnd Hlen.
    rewrite (init_jac_ok fsym sdiff F m0 eqs Hconv).
    apply closure_binding; try assumption; [symmetry; exact Hnames|].
    intros row e Hrow He n Hn. unfold jacobian in Hrow.
    apply in_map_iff in Hrow. destruct Hrow as [e0 [Hr He0]]. subst row.
    apply in_map_iff in He. destruct He as [v [Hv _]]. subst e.
    apply sdiff_syms in Hn.
    pose proof (to_symbolic_syms fsym fsym_syms F m0 eqs HFt Hconv e0 He0 n Hn) as Hb.
    unfold base_names in Hb. rewrite Hdata, app_nil_r in Hb. right.
    apply in_app_or in Hb. apply in_or_app. destruct Hb as [Hb|Hb]; [left; exact Hb|right; apply plain_par_names_incl; exact Hb].
  Qed.
End Composed.

Lemma D_syms_incl x e : incl (syms (D x e)) (syms e).
Proof. apply D_syms. Qed.
