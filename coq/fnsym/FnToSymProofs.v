(** Soundness of the translator model (FnToSym.v) w.r.t. the Python semantics (PyLang.v) and
    the symbolic semantics (SymLang.v), for [fs = expected_facts]. *)
From FnSym Require Import FnToSym SymProofs.
From Coq Require Import Lia.
Local Open Scope nat_scope.

(** * Fuel is sufficient *)

Lemma ssize_sapp : forall a b, ssize (sapp a b) = ssize a + ssize b.
Proof.
  induction a as [|s r IH]; intros b; simpl.
  - reflexivity.
  - rewrite IH. lia.
Qed.

Lemma tbody_fuel : forall fs S G fuel body rem sigma,
  ssize rem < fuel -> tbody fs S G fuel body rem sigma <> TOutOfFuel.
Proof.
  intros fs S G. induction fuel as [|n IH]; intros body rem sigma H.
  - lia.
  - destruct rem as [|s rest].
    + simpl. unfold fallback. destruct (f_fallback fs); try discriminate.
      destruct (last_assign body None) as [x|]; [destruct (assoc x sigma)|]; discriminate.
    + destruct s as [x e|xs es|c a b|e| | |]; simpl in H.
      * simpl. destruct (texpr fs S G sigma e); [apply IH; lia |].
        destruct (assign_none fs S G sigma x e); [apply IH; lia | discriminate].
      * simpl. destruct (ttuple fs S G sigma xs es); [apply IH; lia | discriminate].
      * assert (Ha : tbody fs S G n (sapp a rest) (sapp a rest) sigma <> TOutOfFuel)
          by (apply IH; rewrite ssize_sapp; lia).
        assert (Hb : tbody fs S G n (sapp b rest) (sapp b rest) sigma <> TOutOfFuel)
          by (apply IH; rewrite ssize_sapp; lia).
        simpl. destruct (f_cf fs) as [[| | |] [| | |]| |]; try discriminate.
        destruct (tbody fs S G n (sapp a rest) (sapp a rest) sigma) as [ie| |];
          destruct (tbody fs S G n (sapp b rest) (sapp b rest) sigma) as [ee| |];
          try congruence; try discriminate.
        destruct (tcond fs S G sigma c); [destruct ee|]; discriminate.
      * simpl. destruct (texpr fs S G sigma e); discriminate.
      * simpl. discriminate.
      * simpl. apply IH; lia.
      * simpl. destruct (f_stmt_else fs); try discriminate. apply IH; lia.
Qed.

Lemma never_out_of_fuel : forall fs S G body sigma,
  tbody fs S G (Datatypes.S (ssize body)) body body sigma <> TOutOfFuel.
Proof. intros. apply tbody_fuel. lia. Qed.

(** * Unfolding equations (all by computation) -- [simpl] does not refold the section-defined
      mutual fixpoints nicely, so the proofs rewrite with these instead. *)
Section Equations.
  Variable fs : facts.
  Variable S : list summary.
  Variable G : list (name * Q).
  Variable F : list fsem.

  Lemma texpr_ENum sigma q :
    texpr fs S G sigma (ENum q) = if f_const_float fs then Some (SNum q) else None.
  Proof. reflexivity. Qed.
  Lemma texpr_EVar sigma x : texpr fs S G sigma (EVar x) = tname G sigma x.
  Proof. reflexivity. Qed.
  Lemma texpr_EUn sigma op a :
    texpr fs S G sigma (EUn op a) =
    match texpr fs S G sigma a with
    | Some s =>
        match lookup_by unop_eqb op (f_un fs) with
        | Some UAdd => Some s
        | Some USub => Some (SNeg s)
        | _ => None
        end
    | None => None
    end.
  Proof. reflexivity. Qed.
  Lemma texpr_EBin sigma op a b :
    texpr fs S G sigma (EBin op a b) =
    match texpr fs S G sigma a, texpr fs S G sigma b with
    | Some x, Some y =>
        match lookup_by binop_eqb op (f_bin fs) with
        | Some BinOther | None => None
        | Some op' => Some (SBin op' x y)
        end
    | _, _ => None
    end.
  Proof. reflexivity. Qed.
  Lemma texpr_EIfExp sigma c a b :
    texpr fs S G sigma (EIfExp c a b) =
    match tcond fs S G sigma c, texpr fs S G sigma a, texpr fs S G sigma b with
    | Some c', Some a', Some b' => Some (SPw (PCons a' c' (PCons b' (SBool true) PNil)))
    | _, _, _ => None
    end.
  Proof. reflexivity. Qed.
  Lemma texpr_ECall sigma f args :
    texpr fs S G sigma (ECall f args) = call_with fs S (targs fs S G sigma args) f.
  Proof. reflexivity. Qed.
  Lemma texpr_ECallKw sigma f slots args :
    texpr fs S G sigma (ECallKw f slots args) =
    match f_kw fs with
    | KwAppended => call_with fs S (targs fs S G sigma args) f
    | _ => None
    end.
  Proof. reflexivity. Qed.
  Lemma texpr_EOther sigma : texpr fs S G sigma EOther = None.
  Proof. reflexivity. Qed.
  Lemma tcond_CCmp sigma l rest :
    tcond fs S G sigma (CCmp l rest) =
    match texpr fs S G sigma l with
    | Some l' => tchain fs S G sigma l' rest None
    | None => None
    end.
  Proof. reflexivity. Qed.
  Lemma tcond_COther sigma : tcond fs S G sigma COther = None.
  Proof. reflexivity. Qed.
  Lemma tchain_ChNil sigma prev acc : tchain fs S G sigma prev ChNil acc = acc.
  Proof. reflexivity. Qed.
  Lemma tchain_ChCons sigma prev op e rest acc :
    tchain fs S G sigma prev (ChCons op e rest) acc =
    match texpr fs S G sigma e with
    | Some r =>
        match lookup_by cmpop_eqb op (f_cmp fs) with
        | Some rel =>
            match rel_of rel prev r with
            | Some c =>
                tchain fs S G sigma r rest
                  (Some (match acc with None => c | Some a => SAnd a c end))
            | None => None
            end
        | None => if f_cmp_else_raises fs then None else tchain fs S G sigma r rest acc
        end
    | None => None
    end.
  Proof. reflexivity. Qed.
  Lemma targs_ENil sigma : targs fs S G sigma ENil = Some [].
  Proof. reflexivity. Qed.
  Lemma targs_ECons sigma e r :
    targs fs S G sigma (ECons e r) =
    match texpr fs S G sigma e, targs fs S G sigma r with
    | Some s, Some ss => Some (s :: ss)
    | _, _ => None
    end.
  Proof. reflexivity. Qed.

  Lemma tbody_SCons n body s rest sigma :
    tbody fs S G (Datatypes.S n) body (SCons s rest) sigma =
    match s with
    | SIf c a b =>
        match f_cf fs with
        | CfContinuation BrCopy BrCopy =>
            match tbody fs S G n (sapp a rest) (sapp a rest) sigma,
                  tbody fs S G n (sapp b rest) (sapp b rest) sigma with
            | TOutOfFuel, _ | _, TOutOfFuel => TOutOfFuel
            | TOk ie', TOk ee' =>
                match tcond fs S G sigma c with
                | Some c' =>
                    match ee' with
                    | SPw ps => TOk (SPw (PCons ie' c' ps))
                    | _ => TOk (SPw (PCons ie' c' (PCons ee' (SBool true) PNil)))
                    end
                | None => TRefused
                end
            | _, _ => TRefused
            end
        | _ => TRefused
        end
    | SReturn e => lift (texpr fs S G sigma e)
    | SReturnNone => TRefused
    | SAssign x e =>
        match texpr fs S G sigma e with
        | Some v => tbody fs S G n body rest ((x, v) :: sigma)
        | None =>
            match assign_none fs S G sigma x e with
            | Some sigma' => tbody fs S G n body rest sigma'
            | None => TRefused
            end
        end
    | STuple xs es =>
        match ttuple fs S G sigma xs es with
        | Some sigma' => tbody fs S G n body rest sigma'
        | None => TRefused
        end
    | SPass => tbody fs S G n body rest sigma
    | SOther =>
        match f_stmt_else fs with
        | StmtSkip => tbody fs S G n body rest sigma
        | _ => TRefused
        end
    end.
  Proof. reflexivity. Qed.

  Lemma eval_ENum rho q : eval F G rho (ENum q) = Some (Qred q).
  Proof. reflexivity. Qed.
  Lemma eval_EVar rho x : eval F G rho (EVar x) = lookup G rho x.
  Proof. reflexivity. Qed.
  Lemma eval_EUn rho op a :
    eval F G rho (EUn op a) =
    match eval F G rho a with
    | Some v => match op with UAdd => Some v | USub => Some (qneg v) | UOther => None end
    | None => None
    end.
  Proof. reflexivity. Qed.
  Lemma eval_EBin rho op a b :
    eval F G rho (EBin op a b) =
    match eval F G rho a, eval F G rho b with
    | Some x, Some y => bin_sem op x y
    | _, _ => None
    end.
  Proof. reflexivity. Qed.
  Lemma eval_EIfExp rho c a b :
    eval F G rho (EIfExp c a b) =
    match evalc F G rho c with
    | Some true => eval F G rho a
    | Some false => eval F G rho b
    | None => None
    end.
  Proof. reflexivity. Qed.
  Lemma eval_ECallKw rho f slots args :
    eval F G rho (ECallKw f slots args) =
    match evals F G rho args with
    | Some vs =>
        match arrange slots vs with
        | Some vs' => match nth_error F (N.to_nat f) with Some g => g vs' | None => None end
        | None => None
        end
    | None => None
    end.
  Proof. reflexivity. Qed.
  Lemma eval_ECall rho f args :
    eval F G rho (ECall f args) =
    match evals F G rho args with
    | Some vs => match nth_error F (N.to_nat f) with Some g => g vs | None => None end
    | None => None
    end.
  Proof. reflexivity. Qed.
  Lemma evalc_CCmp rho l rest :
    evalc F G rho (CCmp l rest) =
    match eval F G rho l with Some v => evalch F G rho v rest | None => None end.
  Proof. reflexivity. Qed.
  Lemma evalch_ChNil rho prev : evalch F G rho prev ChNil = Some true.
  Proof. reflexivity. Qed.
  Lemma evalch_ChCons rho prev op e rest :
    evalch F G rho prev (ChCons op e rest) =
    match eval F G rho e with
    | Some r =>
        match cmp_sem op prev r with
        | Some true => evalch F G rho r rest
        | Some false => Some false
        | None => None
        end
    | None => None
    end.
  Proof. reflexivity. Qed.
  Lemma evals_ENil rho : evals F G rho ENil = Some [].
  Proof. reflexivity. Qed.
  Lemma evals_ECons rho e r :
    evals F G rho (ECons e r) =
    match eval F G rho e, evals F G rho r with
    | Some v, Some vs => Some (v :: vs)
    | _, _ => None
    end.
  Proof. reflexivity. Qed.

  Lemma exec_SNil rho : exec F G rho SNil = Fall rho.
  Proof. reflexivity. Qed.
  Lemma exec_SCons rho s r :
    exec F G rho (SCons s r) =
    match exec1 F G rho s with Fall rho' => exec F G rho' r | o => o end.
  Proof. reflexivity. Qed.
  Lemma exec1_SAssign rho x e :
    exec1 F G rho (SAssign x e) =
    match eval F G rho e with Some v => Fall ((x, v) :: rho) | None => Undef end.
  Proof. reflexivity. Qed.
  Lemma exec1_STuple rho xs es :
    exec1 F G rho (STuple xs es) =
    match evals F G rho es with
    | Some vs => if Nat.eqb (length xs) (length vs) then Fall (bind_all xs vs rho) else Undef
    | None => Undef
    end.
  Proof. reflexivity. Qed.
  Lemma exec1_SIf rho c a b :
    exec1 F G rho (SIf c a b) =
    match evalc F G rho c with
    | Some true => exec F G rho a
    | Some false => exec F G rho b
    | None => Undef
    end.
  Proof. reflexivity. Qed.
  Lemma exec1_SReturn rho e :
    exec1 F G rho (SReturn e) =
    match eval F G rho e with Some v => Ret v | None => Undef end.
  Proof. reflexivity. Qed.
  Lemma exec1_SPass rho : exec1 F G rho SPass = Fall rho.
  Proof. reflexivity. Qed.
End Equations.

Lemma seval_SNeg rho a :
  seval rho (SNeg a) = match seval rho a with Some v => Some (qneg v) | None => None end.
Proof. reflexivity. Qed.
Lemma seval_SBin rho op a b :
  seval rho (SBin op a b) =
  match seval rho a, seval rho b with Some x, Some y => bin_sem op x y | _, _ => None end.
Proof. reflexivity. Qed.
Lemma seval_SPw rho ps : seval rho (SPw ps) = spw rho ps.
Proof. reflexivity. Qed.
Lemma sevalc_SBool rho b : sevalc rho (SBool b) = Some b.
Proof. reflexivity. Qed.
Lemma sevalc_SRel rho op a b :
  sevalc rho (SRel op a b) =
  match seval rho a, seval rho b with Some x, Some y => cmp_sem op x y | _, _ => None end.
Proof. reflexivity. Qed.
Lemma sevalc_SAnd rho c1 c2 : sevalc rho (SAnd c1 c2) = kand (sevalc rho c1) (sevalc rho c2).
Proof. reflexivity. Qed.
Lemma spw_PCons rho e c r :
  spw rho (PCons e c r) =
  match sevalc rho c with
  | Some true => seval rho e
  | Some false => spw rho r
  | None => None
  end.
Proof. reflexivity. Qed.

(** the operator tables of [expected_facts] *)
Lemma un_tr : forall op (s r : sexpr),
  match lookup_by unop_eqb op (f_un expected_facts) with
  | Some UAdd => Some s
  | Some USub => Some (SNeg s)
  | _ => None
  end = Some r ->
  (op = UAdd /\ r = s) \/ (op = USub /\ r = SNeg s).
Proof.
  intros op s r. destruct op; cbn; intro H; try discriminate H; inversion H; auto.
Qed.

Lemma bin_tr : forall op (x y s : sexpr),
  match lookup_by binop_eqb op (f_bin expected_facts) with
  | Some BinOther | None => None
  | Some op' => Some (SBin op' x y)
  end = Some s -> s = SBin op x y.
Proof.
  intros op x y s. destruct op; cbn; intro H; try discriminate H; inversion H; reflexivity.
Qed.

Lemma cmp_tr : forall op,
  (op = CmpOther /\ lookup_by cmpop_eqb op (f_cmp expected_facts) = None) \/
  (exists rel, lookup_by cmpop_eqb op (f_cmp expected_facts) = Some rel /\
               forall a b, rel_of rel a b = Some (SRel op a b)).
Proof.
  destruct op; try (right; eexists; split; [reflexivity | intros; reflexivity]).
  left. split; reflexivity.
Qed.

(** * Unsupported constructs are refused *)

Fixpoint unsupported_e (e : expr) : bool :=
  match e with
  | ENum _ => false
  | EVar _ => false
  | EUn op a => match op with UOther => true | _ => unsupported_e a end
  | EBin op a b => match op with BinOther => true | _ => unsupported_e a || unsupported_e b end
  | EIfExp c a b => unsupported_c c || unsupported_e a || unsupported_e b
  | ECall _ args => unsupported_es args
  | ECallKw _ _ _ => true
  | EOther => true
  end
with unsupported_c (c : cond) : bool :=
  match c with
  | CCmp l rest => unsupported_e l || unsupported_ch rest
  | COther => true
  end
with unsupported_ch (ch : chain) : bool :=
  match ch with
  | ChNil => false
  | ChCons op e rest =>
      match op with CmpOther => true | _ => unsupported_e e || unsupported_ch rest end
  end
with unsupported_es (es : exprs) : bool :=
  match es with
  | ENil => false
  | ECons e r => unsupported_e e || unsupported_es r
  end.

Lemma unsupported_all : forall S G,
  (forall e, unsupported_e e = true -> forall sigma, texpr expected_facts S G sigma e = None) /\
  (forall c, unsupported_c c = true -> forall sigma, tcond expected_facts S G sigma c = None) /\
  (forall ch, unsupported_ch ch = true ->
     forall sigma prev acc, tchain expected_facts S G sigma prev ch acc = None) /\
  (forall es, unsupported_es es = true -> forall sigma, targs expected_facts S G sigma es = None).
Proof.
  intros S G. apply py_mutind.
  - (* ENum *) intros q H. discriminate.
  - (* EVar *) intros x H. discriminate.
  - (* EUn *) intros op e IH H sigma. rewrite texpr_EUn.
    destruct op.
    + simpl in H. rewrite (IH H sigma). reflexivity.
    + simpl in H. rewrite (IH H sigma). reflexivity.
    + destruct (texpr expected_facts S G sigma e); reflexivity.
  - (* EBin *) intros op a IHa b IHb H sigma. rewrite texpr_EBin.
    destruct op;
      try (simpl in H; apply orb_true_iff in H; destruct H as [H|H];
           [ rewrite (IHa H sigma); reflexivity
           | rewrite (IHb H sigma); destruct (texpr expected_facts S G sigma a); reflexivity ]).
    destruct (texpr expected_facts S G sigma a);
      [destruct (texpr expected_facts S G sigma b)|]; reflexivity.
  - (* EIfExp *) intros c IHc a IHa b IHb H sigma. rewrite texpr_EIfExp. simpl in H.
    apply orb_true_iff in H. destruct H as [H|H]; [apply orb_true_iff in H; destruct H as [H|H]|].
    + rewrite (IHc H sigma). reflexivity.
    + rewrite (IHa H sigma). destruct (tcond expected_facts S G sigma c); reflexivity.
    + rewrite (IHb H sigma). destruct (tcond expected_facts S G sigma c);
        [destruct (texpr expected_facts S G sigma a)|]; reflexivity.
  - (* ECall *) intros f args IH H sigma. rewrite texpr_ECall. simpl in H.
    rewrite (IH H sigma). reflexivity.
  - (* ECallKw *) intros f slots args IH H sigma. reflexivity.
  - (* EOther *) intros H sigma. reflexivity.
  - (* CCmp *) intros l IHl rest IHr H sigma. rewrite tcond_CCmp. simpl in H.
    apply orb_true_iff in H. destruct H as [H|H].
    + rewrite (IHl H sigma). reflexivity.
    + destruct (texpr expected_facts S G sigma l); [apply IHr; exact H | reflexivity].
  - (* COther *) intros H sigma. reflexivity.
  - (* ChNil *) intros H. discriminate.
  - (* ChCons *) intros op e IHe rest IHr H sigma prev acc. rewrite tchain_ChCons.
    destruct (cmp_tr op) as [[Hop Hl]|[rel [Hl Hrel]]].
    + rewrite Hl. destruct (texpr expected_facts S G sigma e); reflexivity.
    + assert (H' : unsupported_e e || unsupported_ch rest = true)
        by (destruct op; simpl in H; try exact H; discriminate Hl).
      apply orb_true_iff in H'. destruct H' as [H'|H'].
      * rewrite (IHe H' sigma). reflexivity.
      * destruct (texpr expected_facts S G sigma e) as [r|]; [|reflexivity].
        rewrite Hl, Hrel. apply IHr. exact H'.
  - (* ENil *) intros H. discriminate.
  - (* ECons *) intros e IHe es IHes H sigma. rewrite targs_ECons. simpl in H.
    apply orb_true_iff in H. destruct H as [H|H].
    + rewrite (IHe H sigma). reflexivity.
    + rewrite (IHes H sigma). destruct (texpr expected_facts S G sigma e); reflexivity.
Qed.

Lemma unsupported_expr_refused : forall fs, fs = expected_facts -> forall S G,
  (forall e, unsupported_e e = true -> forall sigma, texpr fs S G sigma e = None).
Proof. intros fs Hfs S G. subst fs. exact (proj1 (unsupported_all S G)). Qed.

Lemma unsupported_cond_refused : forall fs, fs = expected_facts -> forall S G,
  (forall c, unsupported_c c = true -> forall sigma, tcond fs S G sigma c = None).
Proof. intros fs Hfs S G. subst fs. exact (proj1 (proj2 (unsupported_all S G))). Qed.

Lemma unsupported_stmt_refused : forall fs, fs = expected_facts -> forall S G fuel body rest sigma,
  tbody fs S G (Datatypes.S fuel) body (SCons SOther rest) sigma = TRefused
  /\ tbody fs S G (Datatypes.S fuel) body (SCons SReturnNone rest) sigma = TRefused.
Proof. intros fs Hfs S G fuel body rest sigma. subst fs. split; reflexivity. Qed.

(** * Soundness *)

(** the shipped code refuses `x = e` when e has no expression, whatever the reason *)
Lemma assign_none_ef : forall S G sigma x e, assign_none expected_facts S G sigma x e = None.
Proof. reflexivity. Qed.

Lemma ef_arity_cases :
  f_arity expected_facts = ArityStrict \/ f_arity expected_facts = ArityStrictNonEmpty.
Proof. first [left; reflexivity | right; reflexivity]. Qed.

(** a definition and its summary: (1) at every argument list of FULL arity where the function has a value,
    the expression has it; (2) under the lenient arity rule: a call without arguments has a value only if
    the definition has no parameters (this is where the guard on defaults enters) *)
Definition fun_rel (g : fsem) (su : summary) : Prop :=
  forall ps e, su = Some (ps, e) ->
  (forall vs v rho, g vs = Some v -> length ps = length vs ->
     (forall x q, assoc x (combine ps vs) = Some q -> rho x = Some q) ->
     seval rho e = Some v) /\
  (f_arity expected_facts <> ArityStrict -> forall v, g [] = Some v -> ps = []).

Definition tab_rel (F : list fsem) (S : list summary) : Prop := Forall2 fun_rel F S.

Definition inv (sigma : symtab) (rho : env) (rho0 : valuation) : Prop :=
  forall x, match assoc x rho with
            | Some v => exists s, assoc x sigma = Some s /\ seval rho0 s = Some v
            | None => assoc x sigma = None
            end.

Ltac red_in H := cbv beta iota zeta in H.

Lemma Forall2_nth {A B} (R : A -> B -> Prop) l1 l2 :
  Forall2 R l1 l2 ->
  forall i a b, nth_error l1 i = Some a -> nth_error l2 i = Some b -> R a b.
Proof.
  induction 1 as [|x y l1 l2 Hxy HF IH]; intros i a b Ha Hb; destruct i as [|i]; simpl in Ha, Hb;
    try discriminate.
  - inversion Ha; inversion Hb; subst; exact Hxy.
  - eapply IH; eauto.
Qed.

Lemma inv_cons : forall sigma rho rho0 x s v,
  inv sigma rho rho0 -> seval rho0 s = Some v -> inv ((x, s) :: sigma) ((x, v) :: rho) rho0.
Proof.
  intros sigma rho rho0 x s v H Hs y. cbn [assoc].
  destruct (N.eqb y x).
  - exists s. split; [reflexivity | exact Hs].
  - apply H.
Qed.

Lemma inv_bind : forall rho0 xs ss vs sigma rho,
  Forall2 (fun s v => seval rho0 s = Some v) ss vs ->
  inv sigma rho rho0 -> inv (bind_syms xs ss sigma) (bind_all xs vs rho) rho0.
Proof.
  intros rho0. induction xs as [|x xs IH]; intros ss vs sigma rho HF Hi.
  - exact Hi.
  - destruct HF as [|s v ss vs Hsv HF].
    + exact Hi.
    + cbn [bind_syms bind_all]. apply IH; [exact HF|]. apply inv_cons; assumption.
Qed.

Lemma assoc_init : forall ps (vs : list Q) x, length ps = length vs ->
  assoc x (map (fun p => (p, SSym p)) ps) =
  match assoc x (combine ps vs) with Some _ => Some (SSym x) | None => None end.
Proof.
  induction ps as [|p ps IH]; intros vs x Hl; destruct vs as [|v vs]; simpl in Hl;
    try discriminate.
  - reflexivity.
  - cbn [map combine assoc]. destruct (N.eqb x p) eqn:E.
    + apply N.eqb_eq in E. subst. reflexivity.
    + apply IH. lia.
Qed.

Lemma inv_init : forall ps vs (rho0 : valuation), length ps = length vs ->
  (forall x q, assoc x (combine ps vs) = Some q -> rho0 x = Some q) ->
  inv (map (fun p => (p, SSym p)) ps) (combine ps vs) rho0.
Proof.
  intros ps vs rho0 Hl Hext x. rewrite (assoc_init ps vs x Hl).
  destruct (assoc x (combine ps vs)) as [q|] eqn:E.
  - exists (SSym x). split; [reflexivity|]. apply Hext. exact E.
  - reflexivity.
Qed.

Lemma assoc_combine_F2 : forall (rho0 : valuation) ps ss vs,
  Forall2 (fun s v => seval rho0 s = Some v) ss vs ->
  forall x q, assoc x (combine ps vs) = Some q ->
  exists s, assoc x (combine ps ss) = Some s /\ seval rho0 s = Some q.
Proof.
  intros rho0. induction ps as [|p ps IH]; intros ss vs HF x q Hx.
  - discriminate Hx.
  - destruct HF as [|s v ss vs Hsv HF].
    + discriminate Hx.
    + cbn [combine assoc] in Hx |- *. destruct (N.eqb x p).
      * inversion Hx; subst. exists s. split; [reflexivity | exact Hsv].
      * eapply IH; eauto.
Qed.

Lemma Forall2_len {A B} (R : A -> B -> Prop) l1 l2 : Forall2 R l1 l2 -> length l1 = length l2.
Proof. induction 1; simpl; congruence. Qed.

Lemma nested_ok_nonempty : forall fs ps a l, nested_arity_ok fs ps (a :: l) = true.
Proof. intros fs ps a l. unfold nested_arity_ok. destruct (f_arity fs); reflexivity. Qed.

Lemma apply_subs_sound : forall g ps body sargs vs v s (rho0 : valuation),
  fun_rel g (Some (ps, body)) ->
  Forall2 (fun s v => seval rho0 s = Some v) sargs vs ->
  g vs = Some v ->
  nested_arity_ok expected_facts ps sargs = true ->
  apply_subs expected_facts ps sargs body = Some s ->
  seval rho0 s = Some v.
Proof.
  intros g ps body sargs vs v s rho0 Hrel HF Hg Hn Ha. unfold apply_subs in Ha.
  destruct (Hrel ps body eq_refl) as [Hfull Hshort].
  destruct sargs as [|a sargs'].
  - inversion Ha; subst s. inversion HF; subst vs.
    assert (Hps : ps = []).
    { destruct ef_arity_cases as [E|E].
      - unfold nested_arity_ok in Hn. rewrite E in Hn. destruct ps; [reflexivity | discriminate Hn].
      - apply (Hshort (fun H => ltac:(rewrite E in H; discriminate H)) v Hg). }
    subst ps. apply (Hfull [] v rho0 Hg eq_refl).
    intros x q Hx. discriminate Hx.
  - assert (Hlen : length ps = length (a :: sargs') /\
                   Some (subs_sim (combine ps (a :: sargs')) body) = Some s).
    { change (f_subs expected_facts) with SubsSim in Ha. red_in Ha.
      destruct ef_arity_cases as [E|E]; rewrite E in Ha; red_in Ha;
        destruct (Nat.eqb (length ps) (length (a :: sargs'))) eqn:El; try discriminate Ha;
        apply Nat.eqb_eq in El; split; assumption. }
    destruct Hlen as [Hlen Hs]. inversion Hs; subst s. rewrite subs_sim_sound.
    apply (Hfull vs v).
    + exact Hg.
    + rewrite Hlen. exact (Forall2_len _ _ _ HF).
    + intros x q Hx. destruct (assoc_combine_F2 rho0 ps _ _ HF x q Hx) as [s0 [Hs0 Hv0]].
      rewrite Hs0. exact Hv0.
Qed.

Lemma fill_defaults_full : forall n d (vs : list Q), length vs = n -> fill_defaults n d vs = Some vs.
Proof.
  intros n d vs H. unfold fill_defaults. subst n.
  rewrite Nat.leb_refl, Nat.sub_diag, Nat.sub_0_r. cbn [Nat.leb andb].
  rewrite skipn_all. cbn [map]. rewrite app_nil_r. reflexivity.
Qed.

Section Sound.
  Variable F : list fsem.
  Variable S : list summary.
  Hypothesis Htab : tab_rel F S.

  Section Body.
    Variable G : list (name * Q).
    Variable rho0 : valuation.

    Local Notation ef := expected_facts.

    Lemma tname_sound : forall sigma rho x s v,
      inv sigma rho rho0 -> tname G sigma x = Some s -> lookup G rho x = Some v ->
      seval rho0 s = Some v.
    Proof.
      unfold tname, lookup. intros sigma rho x s v Hi Ht Hl. specialize (Hi x).
      destruct (assoc x rho) as [v0|].
      - destruct Hi as [s0 [Ha Hs]]. rewrite Ha in Ht. congruence.
      - rewrite Hi in Ht. destruct (assoc x G) as [q|]; [|discriminate Ht].
        inversion Ht; inversion Hl; subst. reflexivity.
    Qed.

    Lemma tchain_false : forall ch sigma prev' a c',
      tchain ef S G sigma prev' ch (Some a) = Some c' ->
      sevalc rho0 a = Some false -> sevalc rho0 c' = Some false.
    Proof.
      induction ch as [|op e rest IH]; intros sigma prev' a c' Ht Ha.
      - rewrite tchain_ChNil in Ht. inversion Ht; subst. exact Ha.
      - rewrite tchain_ChCons in Ht.
        destruct (texpr ef S G sigma e) as [r|]; [|discriminate Ht].
        destruct (cmp_tr op) as [[Hop Hl]|[rel [Hl Hrel]]].
        + rewrite Hl in Ht. discriminate Ht.
        + rewrite Hl, Hrel in Ht. eapply IH; [exact Ht|].
          rewrite sevalc_SAnd, Ha. reflexivity.
    Qed.

    Lemma expr_sound_all :
      (forall e sigma rho s v, inv sigma rho rho0 ->
         texpr ef S G sigma e = Some s -> eval F G rho e = Some v -> seval rho0 s = Some v) /\
      (forall c sigma rho c' b, inv sigma rho rho0 ->
         tcond ef S G sigma c = Some c' -> evalc F G rho c = Some b -> sevalc rho0 c' = Some b) /\
      (forall ch sigma rho prev' prev acc c' b, inv sigma rho rho0 ->
         seval rho0 prev' = Some prev ->
         (acc = None \/ exists a, acc = Some a /\ sevalc rho0 a = Some true) ->
         tchain ef S G sigma prev' ch acc = Some c' ->
         evalch F G rho prev ch = Some b -> sevalc rho0 c' = Some b) /\
      (forall es sigma rho ss vs, inv sigma rho rho0 ->
         targs ef S G sigma es = Some ss -> evals F G rho es = Some vs ->
         Forall2 (fun s v => seval rho0 s = Some v) ss vs).
    Proof.
      apply py_mutind.
      - (* ENum *) intros q sigma rho s v Hi Ht He.
        rewrite texpr_ENum in Ht. rewrite eval_ENum in He.
        change (f_const_float ef) with true in Ht. red_in Ht.
        inversion Ht; inversion He; subst. reflexivity.
      - (* EVar *) intros x sigma rho s v Hi Ht He.
        rewrite texpr_EVar in Ht. rewrite eval_EVar in He.
        eapply tname_sound; eauto.
      - (* EUn *) intros op a IH sigma rho s v Hi Ht He.
        rewrite texpr_EUn in Ht. rewrite eval_EUn in He.
        destruct (texpr ef S G sigma a) as [sa|] eqn:Hta; [|discriminate Ht].
        destruct (eval F G rho a) as [va|] eqn:Hea; [|discriminate He].
        pose proof (IH _ _ _ _ Hi Hta Hea) as Hsa.
        apply un_tr in Ht. destruct Ht as [[Hop Hs]|[Hop Hs]]; subst op s; red_in He.
        + rewrite Hsa. exact He.
        + rewrite seval_SNeg, Hsa. exact He.
      - (* EBin *) intros op a IHa b IHb sigma rho s v Hi Ht He.
        rewrite texpr_EBin in Ht. rewrite eval_EBin in He.
        destruct (texpr ef S G sigma a) as [sa|] eqn:Hta; [|discriminate Ht].
        destruct (texpr ef S G sigma b) as [sb|] eqn:Htb; [|discriminate Ht].
        destruct (eval F G rho a) as [va|] eqn:Hea; [|discriminate He].
        destruct (eval F G rho b) as [vb|] eqn:Heb; [|discriminate He].
        apply bin_tr in Ht. subst s.
        rewrite seval_SBin, (IHa _ _ _ _ Hi Hta Hea), (IHb _ _ _ _ Hi Htb Heb). exact He.
      - (* EIfExp *) intros c IHc a IHa b IHb sigma rho s v Hi Ht He.
        rewrite texpr_EIfExp in Ht. rewrite eval_EIfExp in He.
        destruct (tcond ef S G sigma c) as [c'|] eqn:Htc; [|discriminate Ht].
        destruct (texpr ef S G sigma a) as [sa|] eqn:Hta; [|discriminate Ht].
        destruct (texpr ef S G sigma b) as [sb|] eqn:Htb; [|discriminate Ht].
        inversion Ht; subst s; clear Ht.
        destruct (evalc F G rho c) as [[|]|] eqn:Hec; [ | |discriminate He].
        + rewrite seval_SPw, spw_PCons, (IHc _ _ _ _ Hi Htc Hec).
          exact (IHa _ _ _ _ Hi Hta He).
        + rewrite seval_SPw, spw_PCons, (IHc _ _ _ _ Hi Htc Hec).
          rewrite spw_PCons, sevalc_SBool.
          exact (IHb _ _ _ _ Hi Htb He).
      - (* ECall *) intros f args IH sigma rho s v Hi Ht He.
        rewrite texpr_ECall in Ht. unfold call_with in Ht. rewrite eval_ECall in He.
        destruct (targs ef S G sigma args) as [sargs|] eqn:Hta; [|discriminate Ht].
        destruct (nth_error S (N.to_nat f)) as [[[ps body]|]|] eqn:HS; try discriminate Ht.
        destruct (nested_arity_ok ef ps sargs) eqn:Hn; [|discriminate Ht].
        destruct (evals F G rho args) as [vs|] eqn:Hev; [|discriminate He].
        destruct (nth_error F (N.to_nat f)) as [g|] eqn:HF; [|discriminate He].
        pose proof (IH _ _ _ _ Hi Hta Hev) as Hargs.
        pose proof (Forall2_nth _ _ _ Htab _ _ _ HF HS) as Hrel.
        exact (apply_subs_sound _ _ _ _ _ _ _ _ Hrel Hargs He Hn Ht).
      - (* ECallKw: has a meaning in Python (bound by name), no translation *)
        intros f slots args IH sigma rho s v Hi Ht He.
        rewrite texpr_ECallKw in Ht. change (f_kw ef) with KwRefused in Ht. discriminate Ht.
      - (* EOther *) intros sigma rho s v Hi Ht He. discriminate He.
      - (* CCmp *) intros l IHl rest IHr sigma rho c' b Hi Ht He.
        rewrite tcond_CCmp in Ht. rewrite evalc_CCmp in He.
        destruct (texpr ef S G sigma l) as [l'|] eqn:Htl; [|discriminate Ht].
        destruct (eval F G rho l) as [vl|] eqn:Hel; [|discriminate He].
        exact (IHr sigma rho l' vl None c' b Hi (IHl _ _ _ _ Hi Htl Hel)
                   (or_introl eq_refl) Ht He).
      - (* COther *) intros sigma rho c' b Hi Ht He. discriminate Ht.
      - (* ChNil *) intros sigma rho prev' prev acc c' b Hi Hp Hacc Ht He.
        rewrite tchain_ChNil in Ht. rewrite evalch_ChNil in He. inversion He; subst b.
        destruct Hacc as [Hacc|[a [Hacc Ha]]]; subst acc; [discriminate Ht|].
        inversion Ht; subst. exact Ha.
      - (* ChCons *) intros op e IHe rest IHr sigma rho prev' prev acc c' b Hi Hp Hacc Ht He.
        rewrite tchain_ChCons in Ht. rewrite evalch_ChCons in He.
        destruct (texpr ef S G sigma e) as [r|] eqn:Hte; [|discriminate Ht].
        destruct (eval F G rho e) as [rv|] eqn:Hee; [|discriminate He].
        pose proof (IHe _ _ _ _ Hi Hte Hee) as Hr.
        destruct (cmp_tr op) as [[Hop Hl]|[rel [Hl Hrel]]].
        + rewrite Hl in Ht. discriminate Ht.
        + rewrite Hl, Hrel in Ht.
          set (acc' := match acc with
                       | None => SRel op prev' r
                       | Some a => SAnd a (SRel op prev' r)
                       end) in Ht.
          assert (Hc : sevalc rho0 (SRel op prev' r) = cmp_sem op prev rv)
            by (rewrite sevalc_SRel, Hp, Hr; reflexivity).
          assert (Hacc' : sevalc rho0 acc' = cmp_sem op prev rv).
          { unfold acc'. destruct Hacc as [Hacc|[a [Hacc Ha]]]; subst acc.
            - exact Hc.
            - rewrite sevalc_SAnd, Ha, Hc.
              destruct (cmp_sem op prev rv) as [[|]|]; reflexivity. }
          destruct (cmp_sem op prev rv) as [[|]|]; [ | |discriminate He].
          * eapply IHr; [exact Hi | exact Hr | | exact Ht | exact He].
            right. exists acc'. split; [reflexivity | exact Hacc'].
          * inversion He; subst b. eapply tchain_false; [exact Ht | exact Hacc'].
      - (* ENil *) intros sigma rho ss vs Hi Ht He.
        rewrite targs_ENil in Ht. rewrite evals_ENil in He.
        inversion Ht; inversion He; subst. constructor.
      - (* ECons *) intros e IHe es IHes sigma rho ss vs Hi Ht He.
        rewrite targs_ECons in Ht. rewrite evals_ECons in He.
        destruct (texpr ef S G sigma e) as [s|] eqn:Hte; [|discriminate Ht].
        destruct (targs ef S G sigma es) as [ss'|] eqn:Hta; [|discriminate Ht].
        destruct (eval F G rho e) as [v|] eqn:Hee; [|discriminate He].
        destruct (evals F G rho es) as [vs'|] eqn:Hev; [|discriminate He].
        inversion Ht; inversion He; subst. constructor.
        + exact (IHe _ _ _ _ Hi Hte Hee).
        + exact (IHes _ _ _ _ Hi Hta Hev).
    Qed.

    Definition expr_sound := proj1 expr_sound_all.
    Definition cond_sound := proj1 (proj2 expr_sound_all).
    Definition args_sound := proj2 (proj2 (proj2 expr_sound_all)).

    Lemma exec_sapp : forall a b rho,
      exec F G rho (sapp a b) =
      match exec F G rho a with Fall rho' => exec F G rho' b | o => o end.
    Proof.
      induction a as [|s r IH]; intros b rho; cbn [sapp].
      - rewrite exec_SNil. reflexivity.
      - rewrite !exec_SCons. destruct (exec1 F G rho s); try reflexivity. apply IH.
    Qed.

    Lemma tbody_sound : forall fuel body rem sigma rho e v,
      inv sigma rho rho0 ->
      tbody ef S G fuel body rem sigma = TOk e ->
      exec F G rho rem = Ret v ->
      seval rho0 e = Some v.
    Proof.
      induction fuel as [|n IH]; intros body rem sigma rho e v Hi Ht He.
      - discriminate Ht.
      - destruct rem as [|s rest].
        + rewrite exec_SNil in He. discriminate He.
        + rewrite tbody_SCons in Ht. rewrite exec_SCons in He.
          destruct s as [x e0|xs es|c a b|e0| | |]; red_in Ht.
          * (* SAssign *) rewrite exec1_SAssign in He.
            destruct (texpr ef S G sigma e0) as [sv|] eqn:Hte;
              [|rewrite assign_none_ef in Ht; discriminate Ht].
            destruct (eval F G rho e0) as [v0|] eqn:Hee; red_in He; [|discriminate He].
            eapply IH; [|exact Ht|exact He].
            apply inv_cons; [exact Hi|]. exact (expr_sound _ _ _ _ _ Hi Hte Hee).
          * (* STuple *) rewrite exec1_STuple in He. unfold ttuple in Ht.
            change (f_tuple ef) with TupSim in Ht. red_in Ht.
            destruct (targs ef S G sigma es) as [ss|] eqn:Hta; [|discriminate Ht].
            destruct (Nat.eqb (length xs) (length ss)); red_in Ht; [|discriminate Ht].
            destruct (evals F G rho es) as [vs|] eqn:Hev; red_in He; [|discriminate He].
            destruct (Nat.eqb (length xs) (length vs)); red_in He; [|discriminate He].
            eapply IH; [|exact Ht|exact He].
            apply inv_bind; [|exact Hi]. exact (args_sound _ _ _ _ _ Hi Hta Hev).
          * (* SIf *) rewrite exec1_SIf in He.
            change (f_cf ef) with (CfContinuation BrCopy BrCopy) in Ht. red_in Ht.
            destruct (tbody ef S G n (sapp a rest) (sapp a rest) sigma) as [ie| |] eqn:Hie;
              destruct (tbody ef S G n (sapp b rest) (sapp b rest) sigma) as [ee| |] eqn:Hee;
              red_in Ht; try discriminate Ht.
            destruct (tcond ef S G sigma c) as [c'|] eqn:Htc; [|discriminate Ht].
            destruct (evalc F G rho c) as [[|]|] eqn:Hec; red_in He; [ | |discriminate He].
            -- rewrite <- exec_sapp in He.
               pose proof (IH _ _ _ _ _ _ Hi Hie He) as Hv.
               pose proof (cond_sound _ _ _ _ _ Hi Htc Hec) as Hc.
               destruct ee; inversion Ht; subst e; rewrite seval_SPw, spw_PCons, Hc; exact Hv.
            -- rewrite <- exec_sapp in He.
               pose proof (IH _ _ _ _ _ _ Hi Hee He) as Hv.
               pose proof (cond_sound _ _ _ _ _ Hi Htc Hec) as Hc.
               destruct ee; inversion Ht; subst e; rewrite seval_SPw, spw_PCons, Hc;
                 try (rewrite spw_PCons, sevalc_SBool); exact Hv.
          * (* SReturn *) rewrite exec1_SReturn in He. unfold lift in Ht.
            destruct (texpr ef S G sigma e0) as [s|] eqn:Hte; [|discriminate Ht].
            destruct (eval F G rho e0) as [v0|] eqn:Hev; red_in He; [|discriminate He].
            inversion Ht; inversion He; subst. exact (expr_sound _ _ _ _ _ Hi Hte Hev).
          * (* SReturnNone *) discriminate Ht.
          * (* SPass *) rewrite exec1_SPass in He. red_in He.
            eapply IH; [exact Hi|exact Ht|exact He].
          * (* SOther *) discriminate Ht.
    Qed.
  End Body.

  Lemma tfun_sound : forall fd,
    (f_arity expected_facts <> ArityStrict -> guard_fd fd = true) ->
    fun_rel (run_fun F fd) (tfun expected_facts S fd).
  Proof.
    intros fd Hguard ps e Heq.
    unfold tfun, tbody_top in Heq.
    change (f_cf expected_facts) with (CfContinuation BrCopy BrCopy) in Heq. red_in Heq.
    destruct (tbody expected_facts S (fd_globals fd) (Datatypes.S (ssize (fd_body fd)))
                (fd_body fd) (fd_body fd) (map (fun p => (p, SSym p)) (fd_params fd)))
      as [e'| |] eqn:Ht; try discriminate Heq.
    inversion Heq; subst ps e; clear Heq.
    split.
    - intros vs v rho Hrun Hlen Hext.
      unfold run_fun in Hrun. rewrite (fill_defaults_full _ _ _ (eq_sym Hlen)) in Hrun.
      destruct (exec F (fd_globals fd) (combine (fd_params fd) vs) (fd_body fd))
        as [v'| |] eqn:He; try discriminate Hrun.
      inversion Hrun; subst v'; clear Hrun.
      eapply tbody_sound; [|exact Ht|exact He].
      apply inv_init; assumption.
    - intros Hl v Hrun. specialize (Hguard Hl).
      unfold run_fun in Hrun.
      destruct (fill_defaults (length (fd_params fd)) (fd_defaults fd) []) as [vs'|] eqn:Hf;
        [|discriminate Hrun].
      unfold fill_defaults in Hf. cbn [length] in Hf. rewrite Nat.sub_0_r in Hf.
      unfold guard_fd in Hguard.
      destruct (fd_params fd) as [|p ps']; [reflexivity|].
      apply Nat.ltb_lt in Hguard.
      destruct (Nat.leb (length (p :: ps')) (length (fd_defaults fd))) eqn:El.
      + apply Nat.leb_le in El. lia.
      + rewrite andb_false_r in Hf. discriminate Hf.
  Qed.
End Sound.

Lemma tab_from : forall fds F S,
  (f_arity expected_facts <> ArityStrict -> forallb guard_fd fds = true) ->
  tab_rel F S -> tab_rel (sems_from fds F) (summaries_from expected_facts fds S).
Proof.
  induction fds as [|fd r IH]; intros F S Hg H.
  - exact H.
  - cbn [sems_from summaries_from]. apply IH.
    + intro Hl. specialize (Hg Hl). cbn [forallb] in Hg. apply andb_true_iff in Hg. exact (proj2 Hg).
    + apply Forall2_app; [exact H|].
      constructor; [|constructor]. apply tfun_sound; [exact H|].
      intro Hl. specialize (Hg Hl). cbn [forallb] in Hg. apply andb_true_iff in Hg. exact (proj1 Hg).
Qed.

Lemma arity_ok_guard : forall fds, arity_ok expected_facts fds ->
  f_arity expected_facts <> ArityStrict -> forallb guard_fd fds = true.
Proof.
  intros fds H Hl. unfold arity_ok in H.
  destruct ef_arity_cases as [E|E]; rewrite E in H.
  - exfalso. exact (Hl E).
  - exact H.
Qed.

Lemma tab_all : forall fds, arity_ok expected_facts fds ->
  tab_rel (sems fds) (summaries expected_facts fds).
Proof. intros fds H. apply tab_from; [exact (arity_ok_guard fds H) | constructor]. Qed.

Lemma sound_unrenamed : forall fs, fs = expected_facts ->
  forall fds i ps e vs v rho,
    arity_ok fs fds ->
    nth_error (summaries fs fds) i = Some (Some (ps, e)) ->
    py_call fds i vs = Some v ->
    length ps = length vs ->
    (forall x q, assoc x (combine ps vs) = Some q -> rho x = Some q) ->
    seval rho e = Some v.
Proof.
  intros fs Hfs fds i ps e vs v rho Hok HS Hcall Hlen Hext. subst fs.
  unfold py_call in Hcall.
  destruct (nth_error (sems fds) i) as [g|] eqn:HF; [|discriminate Hcall].
  pose proof (Forall2_nth _ _ _ (tab_all fds Hok) _ _ _ HF HS) as Hrel.
  exact (proj1 (Hrel ps e eq_refl) vs v rho Hcall Hlen Hext).
Qed.

Lemma sound_renamed : forall fs, fs = expected_facts ->
  forall fds i margs e vs v rho,
    arity_ok fs fds ->
    margs <> [] ->
    fn_to_sympy fs fds i margs = Some e ->
    py_call fds i vs = Some v ->
    Forall2 (fun m x => seval rho m = Some x) margs vs ->
    seval rho e = Some v.
Proof.
  intros fs Hfs fds i margs e vs v rho Hok Hne Hfn Hcall HF2. subst fs.
  unfold fn_to_sympy in Hfn.
  destruct (nth_error (summaries expected_facts fds) i) as [[[ps e0]|]|] eqn:HS;
    try discriminate Hfn.
  unfold py_call in Hcall.
  destruct (nth_error (sems fds) i) as [g|] eqn:HF; [|discriminate Hcall].
  pose proof (Forall2_nth _ _ _ (tab_all fds Hok) _ _ _ HF HS) as Hrel.
  destruct margs as [|m0 margs']; [exfalso; exact (Hne eq_refl)|].
  exact (apply_subs_sound _ _ _ _ _ _ _ _ Hrel HF2 Hcall (nested_ok_nonempty _ _ _ _) Hfn).
Qed.
