(** Soundness of the translator model (FnToSym.v) w.r.t. the Python semantics (PyLang.v) and
    the symbolic semantics (SymLang.v), for [fs = expected_facts]. *)
From FnSym Require Import FnToSym SymProofs.
From Coq Require Import Lia.
Local Open Scope nat_scope.

(** * Fuel is sufficient *)

Lemma ssize_sapp : forall a b, ssize (sapp a b) = ssize a + ssize b.
Proof.
  induction a as [|s r IH]; intros b; simpl.
  - reflexivity.
  - rewrite IH. lia.
Qed.

Lemma tbody_fuel : forall fs S G fuel body rem sigma,
  ssize rem < fuel -> tbody fs S G fuel body rem sigma <> TOutOfFuel.
Proof.
  intros fs S G. induction fuel as [|n IH]; intros body rem sigma H.
  - lia.
  - destruct rem as [|s rest].
    + simpl. unfold fallback.
      destruct (last_assign body None) as [x|]; [destruct (assoc x sigma)|]; discriminate.
    + destruct s as [x e|xs es|c a b|e| | |]; simpl in H.
      * simpl. destruct (texpr fs S G sigma e); [apply IH; lia | discriminate].
      * simpl. destruct (ttuple fs S G sigma xs es); [apply IH; lia | discriminate].
      * assert (Ha : tbody fs S G n (sapp a rest) (sapp a rest) sigma <> TOutOfFuel)
          by (apply IH; rewrite ssize_sapp; lia).
        assert (Hb : tbody fs S G n (sapp b rest) (sapp b rest) sigma <> TOutOfFuel)
          by (apply IH; rewrite ssize_sapp; lia).
        simpl. destruct (f_cf fs); [|discriminate].
        destruct (tbody fs S G n (sapp a rest) (sapp a rest) sigma) as [ie| |];
          destruct (tbody fs S G n (sapp b rest) (sapp b rest) sigma) as [ee| |];
          try congruence; try discriminate.
        destruct (tcond fs S G sigma c); [destruct ee|]; discriminate.
      * simpl. destruct (texpr fs S G sigma e); discriminate.
      * simpl. discriminate.
      * simpl. apply IH; lia.
      * simpl. destruct (f_stmt_else fs); try discriminate. apply IH; lia.
Qed.

Lemma never_out_of_fuel : forall fs S G body sigma,
  tbody fs S G (Datatypes.S (ssize body)) body body sigma <> TOutOfFuel.
Proof. intros. apply tbody_fuel. lia. Qed.

(** * Unfolding equations (all by computation) -- [simpl] does not refold the section-defined
      mutual fixpoints nicely, so the proofs rewrite with these instead. *)
Section Equations.
  Variable fs : facts.
  Variable S : list summary.
  Variable G : list (name * Q).
  Variable F : list fsem.

  Lemma texpr_ENum sigma q :
    texpr fs S G sigma (ENum q) = if f_const_float fs then Some (SNum q) else None.
  Proof. reflexivity. Qed.
  Lemma texpr_EVar sigma x : texpr fs S G sigma (EVar x) = tname G sigma x.
  Proof. reflexivity. Qed.
  Lemma texpr_EUn sigma op a :
    texpr fs S G sigma (EUn op a) =
    match texpr fs S G sigma a with
    | Some s =>
        match lookup_by unop_eqb op (f_un fs) with
        | Some UAdd => Some s
        | Some USub => Some (SNeg s)
        | _ => None
        end
    | None => None
    end.
  Proof. reflexivity. Qed.
  Lemma texpr_EBin sigma op a b :
    texpr fs S G sigma (EBin op a b) =
    match texpr fs S G sigma a, texpr fs S G sigma b with
    | Some x, Some y =>
        match lookup_by binop_eqb op (f_bin fs) with
        | Some BinOther | None => None
        | Some op' => Some (SBin op' x y)
        end
    | _, _ => None
    end.
  Proof. reflexivity. Qed.
  Lemma texpr_EIfExp sigma c a b :
    texpr fs S G sigma (EIfExp c a b) =
    match tcond fs S G sigma c, texpr fs S G sigma a, texpr fs S G sigma b with
    | Some c', Some a', Some b' => Some (SPw (PCons a' c' (PCons b' (SBool true) PNil)))
    | _, _, _ => None
    end.
  Proof. reflexivity. Qed.
  Lemma texpr_ECall sigma f args :
    texpr fs S G sigma (ECall f args) = call_with fs S (targs fs S G sigma args) f.
  Proof. reflexivity. Qed.
  Lemma texpr_ECallKw sigma f args :
    texpr fs S G sigma (ECallKw f args) =
    if f_kw_refused fs then None else call_with fs S (targs fs S G sigma args) f.
  Proof. reflexivity. Qed.
  Lemma texpr_EOther sigma : texpr fs S G sigma EOther = None.
  Proof. reflexivity. Qed.
  Lemma tcond_CCmp sigma l rest :
    tcond fs S G sigma (CCmp l rest) =
    match texpr fs S G sigma l with
    | Some l' => tchain fs S G sigma l' rest None
    | None => None
    end.
  Proof. reflexivity. Qed.
  Lemma tcond_COther sigma : tcond fs S G sigma COther = None.
  Proof. reflexivity. Qed.
  Lemma tchain_ChNil sigma prev acc : tchain fs S G sigma prev ChNil acc = acc.
  Proof. reflexivity. Qed.
  Lemma tchain_ChCons sigma prev op e rest acc :
    tchain fs S G sigma prev (ChCons op e rest) acc =
    match texpr fs S G sigma e with
    | Some r =>
        match lookup_by cmpop_eqb op (f_cmp fs) with
        | Some rel =>
            match rel_of rel prev r with
            | Some c =>
                tchain fs S G sigma r rest
                  (Some (match acc with None => c | Some a => SAnd a c end))
            | None => None
            end
        | None => if f_cmp_else_raises fs then None else tchain fs S G sigma r rest acc
        end
    | None => None
    end.
  Proof. reflexivity. Qed.
  Lemma targs_ENil sigma : targs fs S G sigma ENil = Some [].
  Proof. reflexivity. Qed.
  Lemma targs_ECons sigma e r :
    targs fs S G sigma (ECons e r) =
    match texpr fs S G sigma e, targs fs S G sigma r with
    | Some s, Some ss => Some (s :: ss)
    | _, _ => None
    end.
  Proof. reflexivity. Qed.

  Lemma tbody_SCons n body s rest sigma :
    tbody fs S G (Datatypes.S n) body (SCons s rest) sigma =
    match s with
    | SIf c a b =>
        match f_cf fs with
        | CfUnknown => TRefused
        | CfContinuation =>
            match tbody fs S G n (sapp a rest) (sapp a rest) sigma,
                  tbody fs S G n (sapp b rest) (sapp b rest) sigma with
            | TOutOfFuel, _ | _, TOutOfFuel => TOutOfFuel
            | TOk ie', TOk ee' =>
                match tcond fs S G sigma c with
                | Some c' =>
                    match ee' with
                    | SPw ps => TOk (SPw (PCons ie' c' ps))
                    | _ => TOk (SPw (PCons ie' c' (PCons ee' (SBool true) PNil)))
                    end
                | None => TRefused
                end
            | _, _ => TRefused
            end
        end
    | SReturn e => lift (texpr fs S G sigma e)
    | SReturnNone => TRefused
    | SAssign x e =>
        match texpr fs S G sigma e with
        | Some v => tbody fs S G n body rest ((x, v) :: sigma)
        | None => TRefused
        end
    | STuple xs es =>
        match ttuple fs S G sigma xs es with
        | Some sigma' => tbody fs S G n body rest sigma'
        | None => TRefused
        end
    | SPass => tbody fs S G n body rest sigma
    | SOther =>
        match f_stmt_else fs with
        | StmtSkip => tbody fs S G n body rest sigma
        | _ => TRefused
        end
    end.
  Proof. reflexivity. Qed.

  Lemma eval_ENum rho q : eval F G rho (ENum q) = Some (Qred q).
  Proof. reflexivity. Qed.
  Lemma eval_EVar rho x : eval F G rho (EVar x) = lookup G rho x.
  Proof. reflexivity. Qed.
  Lemma eval_EUn rho op a :
    eval F G rho (EUn op a) =
    match eval F G rho a with
    | Some v => match op with UAdd => Some v | USub => Some (qneg v) | UOther => None end
    | None => None
    end.
  Proof. reflexivity. Qed.
  Lemma eval_EBin rho op a b :
    eval F G rho (EBin op a b) =
    match eval F G rho a, eval F G rho b with
    | Some x, Some y => bin_sem op x y
    | _, _ => None
    end.
  Proof. reflexivity. Qed.
  Lemma eval_EIfExp rho c a b :
    eval F G rho (EIfExp c a b) =
    match evalc F G rho c with
    | Some true => eval F G rho a
    | Some false => eval F G rho b
    | None => None
    end.
  Proof. reflexivity. Qed.
  Lemma eval_ECall rho f args :
    eval F G rho (ECall f args) =
    match evals F G rho args with
    | Some vs => match nth_error F (N.to_nat f) with Some g => g vs | None => None end
    | None => None
    end.
  Proof. reflexivity. Qed.
  Lemma evalc_CCmp rho l rest :
    evalc F G rho (CCmp l rest) =
    match eval F G rho l with Some v => evalch F G rho v rest | None => None end.
  Proof. reflexivity. Qed.
  Lemma evalch_ChNil rho prev : evalch F G rho prev ChNil = Some true.
  Proof. reflexivity. Qed.
  Lemma evalch_ChCons rho prev op e rest :
    evalch F G rho prev (ChCons op e rest) =
    match eval F G rho e with
    | Some r =>
        match cmp_sem op prev r with
        | Some true => evalch F G rho r rest
        | Some false => Some false
        | None => None
        end
    | None => None
    end.
  Proof. reflexivity. Qed.
  Lemma evals_ENil rho : evals F G rho ENil = Some [].
  Proof. reflexivity. Qed.
  Lemma evals_ECons rho e r :
    evals F G rho (ECons e r) =
    match eval F G rho e, evals F G rho r with
    | Some v, Some vs => Some (v :: vs)
    | _, _ => None
    end.
  Proof. reflexivity. Qed.

  Lemma exec_SNil rho : exec F G rho SNil = Fall rho.
  Proof. reflexivity. Qed.
  Lemma exec_SCons rho s r :
    exec F G rho (SCons s r) =
    match exec1 F G rho s with Fall rho' => exec F G rho' r | o => o end.
  Proof. reflexivity. Qed.
  Lemma exec1_SAssign rho x e :
    exec1 F G rho (SAssign x e) =
    match eval F G rho e with Some v => Fall ((x, v) :: rho) | None => Undef end.
  Proof. reflexivity. Qed.
  Lemma exec1_STuple rho xs es :
    exec1 F G rho (STuple xs es) =
    match evals F G rho es with
    | Some vs => if Nat.eqb (length xs) (length vs) then Fall (bind_all xs vs rho) else Undef
    | None => Undef
    end.
  Proof. reflexivity. Qed.
  Lemma exec1_SIf rho c a b :
    exec1 F G rho (SIf c a b) =
    match evalc F G rho c with
    | Some true => exec F G rho a
    | Some false => exec F G rho b
    | None => Undef
    end.
  Proof. reflexivity. Qed.
  Lemma exec1_SReturn rho e :
    exec1 F G rho (SReturn e) =
    match eval F G rho e with Some v => Ret v | None => Undef end.
  Proof. reflexivity. Qed.
  Lemma exec1_SPass rho : exec1 F G rho SPass = Fall rho.
  Proof. reflexivity. Qed.
End Equations.

Lemma seval_SNeg rho a :
  seval rho (SNeg a) = match seval rho a with Some v => Some (qneg v) | None => None end.
Proof. reflexivity. Qed.
Lemma seval_SBin rho op a b :
  seval rho (SBin op a b) =
  match seval rho a, seval rho b with Some x, Some y => bin_sem op x y | _, _ => None end.
Proof. reflexivity. Qed.
Lemma seval_SPw rho ps : seval rho (SPw ps) = spw rho ps.
Proof. reflexivity. Qed.
Lemma sevalc_SBool rho b : sevalc rho (SBool b) = Some b.
Proof. reflexivity. Qed.
Lemma sevalc_SRel rho op a b :
  sevalc rho (SRel op a b) =
  match seval rho a, seval rho b with Some x, Some y => cmp_sem op x y | _, _ => None end.
Proof. reflexivity. Qed.
Lemma sevalc_SAnd rho c1 c2 : sevalc rho (SAnd c1 c2) = kand (sevalc rho c1) (sevalc rho c2).
Proof. reflexivity. Qed.
Lemma spw_PCons rho e c r :
  spw rho (PCons e c r) =
  match sevalc rho c with
  | Some true => seval rho e
  | Some false => spw rho r
  | None => None
  end.
Proof. reflexivity. Qed.

(** the operator tables of [expected_facts] *)
Lemma un_tr : forall op (s r : sexpr),
  match lookup_by unop_eqb op (f_un expected_facts) with
  | Some UAdd => Some s
  | Some USub => Some (SNeg s)
  | _ => None
  end = Some r ->
  (op = UAdd /\ r = s) \/ (op = USub /\ r = SNeg s).
Proof.
  intros op s r. destruct op; cbn; intro H; try discriminate H; inversion H; auto.
Qed.

Lemma bin_tr : forall op (x y s : sexpr),
  match lookup_by binop_eqb op (f_bin expected_facts) with
  | Some BinOther | None => None
  | Some op' => Some (SBin op' x y)
  end = Some s -> s = SBin op x y.
Proof.
  intros op x y s. destruct op; cbn; intro H; try discriminate H; inversion H; reflexivity.
Qed.

Lemma cmp_tr : forall op,
  (op = CmpOther /\ lookup_by cmpop_eqb op (f_cmp expected_facts) = None) \/
  (exists rel, lookup_by cmpop_eqb op (f_cmp expected_facts) = Some rel /\
               forall a b, rel_of rel a b = Some (SRel op a b)).
Proof.
  destruct op; try (right; eexists; split; [reflexivity | intros; reflexivity]).
  left. split; reflexivity.
Qed.

(** * Unsupported constructs are refused *)

Fixpoint unsupported_e (e : expr) : bool :=
  match e with
  | ENum _ => false
  | EVar _ => false
  | EUn op a => match op with UOther => true | _ => unsupported_e a end
  | EBin op a b => match op with BinOther => true | _ => unsupported_e a || unsupported_e b end
  | EIfExp c a b => unsupported_c c || unsupported_e a || unsupported_e b
  | ECall _ args => unsupported_es args
  | ECallKw _ _ => true
  | EOther => true
  end
with unsupported_c (c : cond) : bool :=
  match c with
  | CCmp l rest => unsupported_e l || unsupported_ch rest
  | COther => true
  end
with unsupported_ch (ch : chain) : bool :=
  match ch with
  | ChNil => false
  | ChCons op e rest =>
      match op with CmpOther => true | _ => unsupported_e e || unsupported_ch rest end
  end
with unsupported_es (es : exprs) : bool :=
  match es with
  | ENil => false
  | ECons e r => unsupported_e e || unsupported_es r
  end.

Lemma unsupported_all : forall S G,
  (forall e, unsupported_e e = true -> forall sigma, texpr expected_facts S G sigma e = None) /\
  (forall c, unsupported_c c = true -> forall sigma, tcond expected_facts S G sigma c = None) /\
  (forall ch, unsupported_ch ch = true ->
     forall sigma prev acc, tchain expected_facts S G sigma prev ch acc = None) /\
  (forall es, unsupported_es es = true -> forall sigma, targs expected_facts S G sigma es = None).
Proof.
  intros S G. apply py_mutind.
  - (* ENum *) intros q H. discriminate.
  - (* EVar *) intros x H. discriminate.
  - (* EUn *) intros op e IH H sigma. rewrite texpr_EUn.
    destruct op.
    + simpl in H. rewrite (IH H sigma). reflexivity.
    + simpl in H. rewrite (IH H sigma). reflexivity.
    + destruct (texpr expected_facts S G sigma e); reflexivity.
  - (* EBin *) intros op a IHa b IHb H sigma. rewrite texpr_EBin.
    destruct op;
      try (simpl in H; apply orb_true_iff in H; destruct H as [H|H];
           [ rewrite (IHa H sigma); reflexivity
           | rewrite (IHb H sigma); destruct (texpr expected_facts S G sigma a); reflexivity ]).
    destruct (texpr expected_facts S G sigma a);
      [destruct (texpr expected_facts S G sigma b)|]; reflexivity.
  - (* EIfExp *) intros c IHc a IHa b IHb H sigma. rewrite texpr_EIfExp. simpl in H.
    apply orb_true_iff in H. destruct H as [H|H]; [apply orb_true_iff in H; destruct H as [H|H]|].
    + rewrite (IHc H sigma). reflexivity.
    + rewrite (IHa H sigma). destruct (tcond expected_facts S G sigma c); reflexivity.
    + rewrite (IHb H sigma). destruct (tcond expected_facts S G sigma c);
        [destruct (texpr expected_facts S G sigma a)|]; reflexivity.
  - (* ECall *) intros f args IH H sigma. rewrite texpr_ECall. simpl in H.
    rewrite (IH H sigma). reflexivity.
  - (* ECallKw *) intros f args IH H sigma. reflexivity.
  - (* EOther *) intros H sigma. reflexivity.
  - (* CCmp *) intros l IHl rest IHr H sigma. rewrite tcond_CCmp. simpl in H.
    apply orb_true_iff in H. destruct H as [H|H].
    + rewrite (IHl H sigma). reflexivity.
    + destruct (texpr expected_facts S G sigma l); [apply IHr; exact H | reflexivity].
  - (* COther *) intros H sigma. reflexivity.
  - (* ChNil *) intros H. discriminate.
  - (* ChCons *) intros op e IHe rest IHr H sigma prev acc. rewrite tchain_ChCons.
    destruct (cmp_tr op) as [[Hop Hl]|[rel [Hl Hrel]]].
    + rewrite Hl. destruct (texpr expected_facts S G sigma e); reflexivity.
    + assert (H' : unsupported_e e || unsupported_ch rest = true)
        by (destruct op; simpl in H; try exact H; discriminate Hl).
      apply orb_true_iff in H'. destruct H' as [H'|H'].
      * rewrite (IHe H' sigma). reflexivity.
      * destruct (texpr expected_facts S G sigma e) as [r|]; [|reflexivity].
        rewrite Hl, Hrel. apply IHr. exact H'.
  - (* ENil *) intros H. discriminate.
  - (* ECons *) intros e IHe es IHes H sigma. rewrite targs_ECons. simpl in H.
    apply orb_true_iff in H. destruct H as [H|H].
    + rewrite (IHe H sigma). reflexivity.
    + rewrite (IHes H sigma). destruct (texpr expected_facts S G sigma e); reflexivity.
Qed.

Lemma unsupported_expr_refused : forall fs, fs = expected_facts -> forall S G,
  (forall e, unsupported_e e = true -> forall sigma, texpr fs S G sigma e = None).
Proof. intros fs Hfs S G. subst fs. exact (proj1 (unsupported_all S G)). Qed.

Lemma unsupported_cond_refused : forall fs, fs = expected_facts -> forall S G,
  (forall c, unsupported_c c = true -> forall sigma, tcond fs S G sigma c = None).
Proof. intros fs Hfs S G. subst fs. exact (proj1 (proj2 (unsupported_all S G))). Qed.

Lemma unsupported_stmt_refused : forall fs, fs = expected_facts -> forall S G fuel body rest sigma,
  tbody fs S G (Datatypes.S fuel) body (SCons SOther rest) sigma = TRefused
  /\ tbody fs S G (Datatypes.S fuel) body (SCons SReturnNone rest) sigma = TRefused.
Proof. intros fs Hfs S G fuel body rest sigma. subst fs. split; reflexivity. Qed.
