(** C06 -- Python-to-symbolic translation is sound: equal everywhere, or refused.

    ONLY theorem statements (written out in full), each closed by [exact <lemma>] and followed by
    [Print Assumptions].  All statements are about [gen_fnsym_facts], the facts REGENERATED from
    /repo/src/mxlpy/meta/source_tools.py on every run; [C06_facts_pinned] is the obligation that
    breaks when an operator table, the comparison table (symbolic Eq/Ne), [simultaneous=True],
    the tuple-assignment order, the treatment of unknown statements / keyword arguments (refused, or
    their values appended positionally), the shape of the if/return/assign blocks of [_handle_fn_body]
    (which table each branch of an if is translated on; whether an assignment whose right-hand side has
    no expression refuses or stores the None) or the moment module constants are read is edited.

    Reading guide: [fds] is a module (list of definitions, calls go to earlier ones);
    [py_call fds i vs] is the value CPython gives function i on arguments vs ([None] = no numeric
    value); [fn_to_sympy fs fds i margs] is the translator's result ([None] = no expression; [margs = []]
    is model_args=None); [seval rho e] is the value of a SymPy expression under the valuation rho. *)
From FnSym Require Import FnToSym ConstEnv Resolve GenFnSymFacts SymProofs FnToSymProofs FnToSymProofs2 FnToSymRefuted ResolveProofs ResolveRefuted.

Theorem C06_facts_pinned :
  gen_fnsym_facts =
  mkFacts
    [(Add, Add); (Sub, Sub); (Mul, Mul); (Div, Div); (Pow, Pow); (Mod, Mod); (FloorDiv, FloorDiv)]
    [(UAdd, UAdd); (USub, USub)]
    [(Gt, RelGt); (GtE, RelGe); (Lt, RelLt); (LtE, RelLe); (CEq, RelEq); (CNe, RelNe)]
    true SubsSim TupSim StmtRaise (CfContinuation BrCopy BrCopy) KwRefused true true ConstAtCall C06_expected_fallback C06_expected_arity AnRefuse.
Proof. vm_compute. reflexivity. Qed.
Print Assumptions C06_facts_pinned.

(** the translation of a body always terminates: the model's fuel (size of the body + 1) is never
    exhausted, whatever the facts (duplicating the continuation into both branches of an if is
    bounded by the size measure) *)
Theorem C06_translation_terminates :
  forall fs S G body sigma,
    tbody fs S G (Datatypes.S (ssize body)) body body sigma <> TOutOfFuel.
Proof. exact never_out_of_fuel. Qed.
Print Assumptions C06_translation_terminates.

(** ... and for every sharing discipline of the if block (the table-threading variant model): the
    regression theorems below are about real results, not about exhausted fuel *)
Theorem C06_translation_terminates_every_shape :
  forall fs S G bi be body sigma,
    fst (tbody_sh fs S G bi be (Datatypes.S (ssize body)) body body sigma) <> TOutOfFuel.
Proof. exact threaded_never_out_of_fuel. Qed.
Print Assumptions C06_translation_terminates_every_shape.

(** SOUNDNESS, model_args = None.  For every module, every function i of it: if the translator
    returns an expression e over the function's own argument names ps, then at every argument
    point vs where the function has a value v, e has the value v (under every valuation that gives
    the arguments their values).  Covers local (re)assignments incl. of parameters, tuple
    assignments, if/elif/else with assignments and/or returns in any branch and code after them,
    conditional expressions, ==, != and chained comparisons, calls into earlier functions, module
    constants.
    Since the deepening pass definitions may have DEFAULT arguments, so a function has values at shorter
    argument lists too: the theorem speaks about the argument lists of full arity (hypothesis, was a
    conclusion), and carries [arity_ok]: [True] once fixes/C06-empty-call-arity.diff is in (ArityStrict),
    and for the shipped arity rule the guard "no definition has ALL its parameters defaulted" -- its
    complement is the recorded finding zero-arg-call-of-defaulted-helper (C06_empty_call_refuted). *)
Theorem C06_sound_unrenamed :
  forall fds i ps e vs v rho,
    arity_ok gen_fnsym_facts fds ->
    nth_error (summaries gen_fnsym_facts fds) i = Some (Some (ps, e)) ->
    py_call fds i vs = Some v ->
    length ps = length vs ->
    (forall x q, assoc x (combine ps vs) = Some q -> rho x = Some q) ->
    seval rho e = Some v.
Proof. exact (sound_unrenamed gen_fnsym_facts C06_facts_pinned). Qed.
Print Assumptions C06_sound_unrenamed.

(** SOUNDNESS under renaming.  The arguments are replaced by arbitrary model expressions margs
    (in particular model NAMES, including the function's own argument names in another order, or
    the same name twice): wherever the model expressions denote the argument values vs and the
    function has a value there, the returned expression has that value. *)
Theorem C06_sound :
  forall fds i margs e vs v rho,
    arity_ok gen_fnsym_facts fds ->
    margs <> [] ->
    fn_to_sympy gen_fnsym_facts fds i margs = Some e ->
    py_call fds i vs = Some v ->
    Forall2 (fun m x => seval rho m = Some x) margs vs ->
    seval rho e = Some v.
Proof. exact (sound_renamed gen_fnsym_facts C06_facts_pinned). Qed.
Print Assumptions C06_sound.

(** the substitution lemma the renaming rests on (simultaneous substitution = evaluation under the
    composed valuation) *)
Theorem C06_simultaneous_subs_meaning :
  forall m rho e,
    seval rho (subs_sim m e) =
    seval (fun x => match assoc x m with Some s => seval rho s | None => rho x end) e.
Proof. exact subs_sim_sound. Qed.
Print Assumptions C06_simultaneous_subs_meaning.

(** REFUSAL IS VISIBLE: an expression / condition containing ANYWHERE a node outside the subset
    (any other expression node, keyword call, unknown unary/binary operator, and/or/not,
    is/in comparison) has no translation; an unknown statement or a bare return reached by the
    translator refuses the function. *)
Theorem C06_refusal_visible_expr :
  forall S G e, unsupported_e e = true -> forall sigma, texpr gen_fnsym_facts S G sigma e = None.
Proof. exact (unsupported_expr_refused gen_fnsym_facts C06_facts_pinned). Qed.
Print Assumptions C06_refusal_visible_expr.

Theorem C06_refusal_visible_stmt :
  forall S G fuel body rest sigma,
    tbody gen_fnsym_facts S G (Datatypes.S fuel) body (SCons SOther rest) sigma = TRefused
    /\ tbody gen_fnsym_facts S G (Datatypes.S fuel) body (SCons SReturnNone rest) sigma = TRefused.
Proof. exact (unsupported_stmt_refused gen_fnsym_facts C06_facts_pinned). Qed.
Print Assumptions C06_refusal_visible_stmt.

(** REFUSAL IS VISIBLE, whole bodies.  [refuses_ss body false] says: on SOME path through the ifs of
    the body the translator reaches an unknown statement (while/for/augmented, annotated or chained
    assignment ...), a bare return, or an assignment / tuple assignment / return / if-test containing
    an unsupported expression node -- where a path ends at the first return (code after it is dead and
    legitimately not looked at) and an if sends both branches into the statements that follow it.
    Then the function has no translation, for every table of callee summaries, and so has the module
    entry point under every renaming. *)
Theorem C06_refusal_visible_body :
  forall S fd, refuses_ss (fd_body fd) false = true -> tfun gen_fnsym_facts S fd = None.
Proof. exact (tfun_refused_fs gen_fnsym_facts C06_facts_pinned). Qed.
Print Assumptions C06_refusal_visible_body.

Theorem C06_refusal_visible_module :
  forall fds i fd margs,
    nth_error fds i = Some fd -> refuses_ss (fd_body fd) false = true ->
    fn_to_sympy gen_fnsym_facts fds i margs = None.
Proof. exact (module_refused gen_fnsym_facts C06_facts_pinned). Qed.
Print Assumptions C06_refusal_visible_module.

(** NAMED CONSTANTS, every constant environment.  [now] = the float tables of the modules at the
    time of the call (module id -> name -> value; attribute constants included), [first] = whatever
    tables earlier translations in the same process saw.  The expression returned NOW equals the
    function as it computes NOW, whatever happened before. *)
Theorem C06_sound_every_constant_environment :
  forall first now ms i margs e vs v rho,
    arity_ok gen_fnsym_facts (map (at_env now) ms) ->
    margs <> [] ->
    translate gen_fnsym_facts first now ms i margs = Some e ->
    py_value now ms i vs = Some v ->
    Forall2 (fun m x => seval rho m = Some x) margs vs ->
    seval rho e = Some v.
Proof. exact (sound_constants_renamed gen_fnsym_facts C06_facts_pinned). Qed.
Print Assumptions C06_sound_every_constant_environment.

Theorem C06_sound_every_constant_environment_unrenamed :
  forall first now ms i ps e vs v rho,
    arity_ok gen_fnsym_facts (map (at_env now) ms) ->
    translate_summary gen_fnsym_facts first now ms i = Some (ps, e) ->
    py_value now ms i vs = Some v ->
    length ps = length vs ->
    (forall x q, assoc x (combine ps vs) = Some q -> rho x = Some q) ->
    seval rho e = Some v.
Proof. exact (sound_constants_unrenamed gen_fnsym_facts C06_facts_pinned). Qed.
Print Assumptions C06_sound_every_constant_environment_unrenamed.

Theorem C06_translation_ignores_history :
  forall first first' now ms i margs,
    translate gen_fnsym_facts first now ms i margs = translate gen_fnsym_facts first' now ms i margs.
Proof. exact (translate_history_free gen_fnsym_facts C06_facts_pinned). Qed.
Print Assumptions C06_translation_ignores_history.

(** the table-threading model used for the other shapes of the if block (below), specialised to
    "each branch gets its own copy", is the pure model the soundness theorems are about *)
Theorem C06_threaded_model_agrees :
  forall S G fuel body rem sigma,
    fst (tbody_sh gen_fnsym_facts S G BrCopy BrCopy fuel body rem sigma) =
    tbody gen_fnsym_facts S G fuel body rem sigma.
Proof. exact (threaded_copy_is_pure gen_fnsym_facts (f_equal f_cf C06_facts_pinned)). Qed.
Print Assumptions C06_threaded_model_agrees.

(** The pinned facts are load-bearing: with the facts of the unrepaired source the same model
    returns a WRONG expression (witnesses = findings on the real unrepaired code, now fixed). *)
Theorem C06_sequential_subs_refuted :
  exists fds i margs e vs v rho,
    fn_to_sympy facts_seq_subs fds i margs = Some e /\
    py_call fds i vs = Some v /\
    Forall2 (fun m x => seval rho m = Some x) margs vs /\
    seval rho e <> Some v.
Proof. exact seq_subs_wrong. Qed.
Print Assumptions C06_sequential_subs_refuted.

Theorem C06_structural_eq_refuted :
  exists fds i ps e vs v rho,
    nth_error (summaries facts_struct_eq fds) i = Some (Some (ps, e)) /\
    py_call fds i vs = Some v /\
    (forall x q, assoc x (combine ps vs) = Some q -> rho x = Some q) /\
    seval rho e <> Some v.
Proof. exact struct_eq_wrong. Qed.
Print Assumptions C06_structural_eq_refuted.

Theorem C06_sequential_tuple_refuted :
  exists fds i ps e vs v rho,
    nth_error (summaries facts_seq_tuple fds) i = Some (Some (ps, e)) /\
    py_call fds i vs = Some v /\
    (forall x q, assoc x (combine ps vs) = Some q -> rho x = Some q) /\
    seval rho e <> Some v.
Proof. exact seq_tuple_wrong. Qed.
Print Assumptions C06_sequential_tuple_refuted.

(** ARITY of nested calls and DEFAULT arguments.
    (a) zip without strict (seeded C07-6): `hill(s, vmax) = vmax * saturation(s)` with `def saturation(s, n=2.0)`
        is accepted and the helper's n stays a bare symbol: with a model component called n = 4 the expression
        gives 3/2 * 16/17 where Python gives 6/5;  both strict rules refuse it.
    (b) the SHIPPED rule skips the strict zip for an EMPTY argument list: `caller0(a) = a + allopt()` with
        `def allopt(n=2.0)` is accepted with n as a free symbol (Python: 7) -- the code violates the property
        outside the guard [arity_ok]; with `if model_args is not None:` (ArityStrict) it is refused. *)
Theorem C06_truncating_zip_refuted :
  exists e rho,
    fn_to_sympy (facts_arity ArityTruncate) [w_saturation; w_hill] 1 [SSym 1%N; SSym 3%N] = Some e /\
    py_call [w_saturation; w_hill] 1 [2#1; 3#2] = Some (6#5) /\
    Forall2 (fun m x => seval rho m = Some x) [SSym 1%N; SSym 3%N] [2#1; 3#2] /\
    seval rho e <> Some (6#5).
Proof. exact truncating_zip_wrong. Qed.
Print Assumptions C06_truncating_zip_refuted.

Theorem C06_strict_zip_refuses_short_call :
  fn_to_sympy (facts_arity ArityStrict) [w_saturation; w_hill] 1 [SSym 1%N; SSym 3%N] = None /\
  fn_to_sympy (facts_arity ArityStrictNonEmpty) [w_saturation; w_hill] 1 [SSym 1%N; SSym 3%N] = None /\
  py_call [w_saturation; w_hill] 1 [2#1; 3#2] = Some (6#5).
Proof. exact strict_zip_refuses_short_call. Qed.
Print Assumptions C06_strict_zip_refuses_short_call.

Theorem C06_empty_call_refuted :
  exists e rho,
    fn_to_sympy (facts_arity ArityStrictNonEmpty) [w_allopt; w_caller0] 1 [SSym 1%N] = Some e /\
    py_call [w_allopt; w_caller0] 1 [1#1] = Some (7#1) /\
    Forall2 (fun m x => seval rho m = Some x) [SSym 1%N] [1#1] /\
    seval rho e <> Some (7#1).
Proof. exact lenient_empty_call_wrong. Qed.
Print Assumptions C06_empty_call_refuted.

Theorem C06_empty_call_repaired :
  fn_to_sympy (facts_arity ArityStrict) [w_allopt; w_caller0] 1 [SSym 1%N] = None /\
  ~ arity_ok (facts_arity ArityStrictNonEmpty) [w_allopt; w_caller0] /\
  arity_ok (facts_arity ArityStrictNonEmpty) [w_saturation; w_hill].
Proof. exact strict_refuses_empty_call. Qed.
Print Assumptions C06_empty_call_repaired.

(** CONTROL FLOW regression theorems ([wrong_on fs fd vs]: the model with facts fs translates fd to
    an expression whose value at vs differs from the function's).  Each is a shape the real code had
    or was seeded with; the witnesses are in harness/c06_corpus.py and run on every check. *)
(** one copy of the table handed to BOTH branches (seeded C07-2): branch leak on
    `b = 0; if a > 1: b = a; return b` at a = 1 *)
Theorem C06_shared_copy_refuted :
  exists ps e v rho,
    nth_error (summaries facts_shared_copy [w_leak]) 0 = Some (Some (ps, e)) /\
    py_call [w_leak] 0 [1#1] = Some v /\
    (forall x q, assoc x (combine ps [1#1]) = Some q -> rho x = Some q) /\
    seval rho e <> Some v.
Proof. exact shared_copy_leaks. Qed.
Print Assumptions C06_shared_copy_refuted.

(** the if-branch translated on the enclosing table itself: the same leak *)
Theorem C06_if_on_enclosing_table_refuted :
  exists ps e v rho,
    nth_error (summaries facts_if_on_ctx [w_leak]) 0 = Some (Some (ps, e)) /\
    py_call [w_leak] 0 [1#1] = Some v /\
    (forall x q, assoc x (combine ps [1#1]) = Some q -> rho x = Some q) /\
    seval rho e <> Some v.
Proof. exact if_on_ctx_leaks. Qed.
Print Assumptions C06_if_on_enclosing_table_refuted.

(** the translator before /repo cc17922 (pieces list, one table, code after if/else dropped):
    branch leak, and `if a > 1: b = a  else: b = a**2;  return b + 1` loses the + 1 at a = 2 *)
Theorem C06_old_control_flow_branch_leak_refuted :
  exists ps e v rho,
    nth_error (summaries facts_old_pieces [w_leak]) 0 = Some (Some (ps, e)) /\
    py_call [w_leak] 0 [1#1] = Some v /\
    (forall x q, assoc x (combine ps [1#1]) = Some q -> rho x = Some q) /\
    seval rho e <> Some v.
Proof. exact old_pieces_leaks. Qed.
Print Assumptions C06_old_control_flow_branch_leak_refuted.

Theorem C06_old_control_flow_dropped_code_refuted :
  exists ps e v rho,
    nth_error (summaries facts_old_pieces [w_after_else]) 0 = Some (Some (ps, e)) /\
    py_call [w_after_else] 0 [2#1] = Some v /\
    (forall x q, assoc x (combine ps [2#1]) = Some q -> rho x = Some q) /\
    seval rho e <> Some v.
Proof. exact old_pieces_drops_code. Qed.
Print Assumptions C06_old_control_flow_dropped_code_refuted.

(** the copy elided for a branch without a top-level assignment (seeded C06-1): a guard-style if
    (nested return-only if without else; or `pass`) followed by `x = x * 2; return x + 1` applies the
    reassignment twice on the path that skips the guard *)
Theorem C06_elided_copy_refuted :
  (exists ps e v rho,
    nth_error (summaries facts_copy_if_binds [w_guard]) 0 = Some (Some (ps, e)) /\
    py_call [w_guard] 0 [1#1; 0#1] = Some v /\
    (forall x q, assoc x (combine ps [1#1; 0#1]) = Some q -> rho x = Some q) /\
    seval rho e <> Some v) /\
  (exists ps e v rho,
    nth_error (summaries facts_copy_if_binds [w_pass_guard]) 0 = Some (Some (ps, e)) /\
    py_call [w_pass_guard] 0 [1#1] = Some v /\
    (forall x q, assoc x (combine ps [1#1]) = Some q -> rho x = Some q) /\
    seval rho e <> Some v).
Proof. exact (conj copy_if_binds_doubles copy_if_binds_doubles_pass). Qed.
Print Assumptions C06_elided_copy_refuted.

(** ... and with the shipped facts the model is right on all four witnesses at those points *)
Theorem C06_per_path_right_on_witnesses :
  ~ wrong_on expected_facts w_leak [1#1] /\ ~ wrong_on expected_facts w_after_else [2#1] /\
  ~ wrong_on expected_facts w_guard [1#1; 0#1] /\ ~ wrong_on expected_facts w_pass_guard [1#1].
Proof. exact per_path_right_on_witnesses. Qed.
Print Assumptions C06_per_path_right_on_witnesses.

(** CONSTANTS regression theorem (seeded C06-3): a translator that remembers a module's float table
    from its first lookup returns, after `K = 4.0`, the expression of the earlier translation, which
    is not the function any more *)
Theorem C06_cached_constants_refuted :
  exists first now ms i e vs v rho,
    translate facts_cached_consts [] first ms i [] = Some e /\
    translate facts_cached_consts first now ms i [] = Some e /\
    py_value now ms i vs = Some v /\
    (forall x q, assoc x (combine (mf_params w_uses_k) vs) = Some q -> rho x = Some q) /\
    seval rho e <> Some v.
Proof. exact cached_constants_wrong. Qed.
Print Assumptions C06_cached_constants_refuted.

(** non-vacuity: a two-function module with a branch-local assignment, an elif with ==, a tuple
    assignment, code after the if and a call whose arguments are swapped, translated with its
    arguments renamed onto each other; hypotheses of C06_sound hold and the values agree *)
Example C06_nonvacuous :
  exists e,
    fn_to_sympy expected_facts [nv_inner; nv_outer] 1 [SSym 2%N; SSym 1%N] = Some e /\
    py_call [nv_inner; nv_outer] 1 [3#1; 5#1] = Some (2#1) /\
    py_call [nv_inner; nv_outer] 1 [1#1; 1#1] = Some (0#1) /\
    Forall2 (fun m x => seval (fun x => assoc x [(2%N, 3#1); (1%N, 5#1)]) m = Some x) [SSym 2%N; SSym 1%N] [3#1; 5#1] /\
    seval (fun x => assoc x [(2%N, 3#1); (1%N, 5#1)]) e = Some (2#1) /\
    seval (fun x => assoc x [(2%N, 1#1); (1%N, 1#1)]) e = Some (0#1).
Proof. exact nonvacuous_witness. Qed.
Print Assumptions C06_nonvacuous.

(** non-vacuity of the constants theorem: translated after K was rebound from 5/2 to 4, under the
    renaming a -> v7; the hypotheses hold and the values agree (12 = 3 * 4) *)
Example C06_constants_nonvacuous :
  exists e,
    translate expected_facts [(0%N, [(50%N, 5#2)])] [(0%N, [(50%N, 4#1)])] [w_uses_k] 0 [SSym 7%N] = Some e /\
    py_value [(0%N, [(50%N, 4#1)])] [w_uses_k] 0 [3#1] = Some (12#1) /\
    seval (fun x => assoc x [(7%N, 3#1)]) e = Some (12#1).
Proof. exact constants_nonvacuous. Qed.
Print Assumptions C06_constants_nonvacuous.

(** non-vacuity of whole-body refusal: `a += 1` on one path behind two ifs, with a return after them *)
Example C06_refusal_body_nonvacuous :
  refuses_ss (fd_body w_deep_other) false = true /\
  refuses_ss (fd_body nv_outer) false = false /\
  fn_to_sympy expected_facts [w_deep_other] 0 [] = None.
Proof. exact (conj eq_refl (conj eq_refl eq_refl)). Qed.
Print Assumptions C06_refusal_body_nonvacuous.

(** every construct the property text names, inside the theorems at once (FnToSymRefuted.v, [cm_f]):
    a chain mixing <=, ==, != and <; a four-arm if/elif/elif/else with assignments in three arms and a
    return in the fourth, code after it; a tuple assignment that reads what it rebinds; a conditional
    expression; a call into ANOTHER module (its own constant K = 3/2, the caller's K = 5/2) with the
    arguments swapped; renaming onto the function's own names in another order.  One point per path:
    the hypotheses of C06_sound_every_constant_environment hold and the values agree; the same function
    with a keyword argument in the nested call is refused, and [refuses_ss] says so. *)
Example C06_constructs_nonvacuous :
  exists e,
    translate expected_facts [] cm_env [cm_g; cm_f] 1 cm_margs = Some e /\
    py_value cm_env [cm_g; cm_f] 1 [1#1; 1#1; 2#1] = Some (3#2) /\ seval (cm_rho (1#1) (1#1) (2#1)) e = Some (3#2) /\
    py_value cm_env [cm_g; cm_f] 1 [3#1; 2#1; 2#1] = Some ((-5)#2) /\ seval (cm_rho (3#1) (2#1) (2#1)) e = Some ((-5)#2) /\
    py_value cm_env [cm_g; cm_f] 1 [1#1; 2#1; 3#1] = Some (4#1) /\ seval (cm_rho (1#1) (2#1) (3#1)) e = Some (4#1) /\
    py_value cm_env [cm_g; cm_f] 1 [1#1; 2#1; 1#1] = Some (5#2) /\ seval (cm_rho (1#1) (2#1) (1#1)) e = Some (5#2) /\
    translate expected_facts [] cm_env [cm_g; cm_f_kw] 1 cm_margs = None /\
    refuses_ss (mf_body cm_f_kw) false = true /\ refuses_ss (mf_body cm_f) false = false.
Proof. exact constructs_witness. Qed.
Print Assumptions C06_constructs_nonvacuous.

(** non-vacuity with default arguments: `saturation(s, n=2.0)` called WITH the exponent from `hill_explicit`,
    renamed onto the own names in the other order; [arity_ok] holds; saturation(2) alone uses the default *)
Example C06_defaults_nonvacuous :
  exists e,
    arity_ok expected_facts [w_saturation; w_hill_explicit] /\
    fn_to_sympy expected_facts [w_saturation; w_hill_explicit] 1 [SSym 3%N; SSym 1%N] = Some e /\
    py_call [w_saturation; w_hill_explicit] 1 [2#1; 3#2] = Some (6#5) /\
    py_call [w_saturation] 0 [2#1] = Some (4#5) /\
    seval (fun x => assoc x [(3%N, 2#1); (1%N, 3#2)]) e = Some (6#5).
Proof. exact defaults_nonvacuous. Qed.
Print Assumptions C06_defaults_nonvacuous.

(** KEYWORD ARGUMENTS of nested calls.  PyLang gives a keyword call its Python meaning: all argument expressions are
    evaluated as written, then bound BY NAME ([slots]: which callee parameter each written argument goes to); the
    shipped translator refuses every keyword call ([C06_refusal_visible_expr]: [unsupported_e (ECallKw ..) = true]).
    (a) written in parameter order a keyword call means the positional call -- for every callee table, every state;
    (b) regression (seeded C06-7): a translator that APPENDS the keyword values to the positional arguments in the
        written order and binds them positionally is wrong on `mm(s, vmax=v, km=k)` and `mm(vmax=v, s=s, km=k)` for
        `def mm(s, km, vmax)`: Python 3/2 at (s, k, v) = (1, 1, 3), the expressions give 1/4 and 3/4. *)
Theorem C06_keywords_in_parameter_order_are_positional :
  forall F G rho f args,
    eval F G rho (ECallKw f (seq 0 (elen args)) args) = eval F G rho (ECall f args).
Proof. exact keywords_in_parameter_order. Qed.
Print Assumptions C06_keywords_in_parameter_order_are_positional.

Theorem C06_keywords_appended_refuted :
  (exists e,
    fn_to_sympy (facts_kw KwAppended) [w_mm; w_kw_other_order] 1 [SSym 1%N; SSym 4%N; SSym 5%N] = Some e /\
    py_call [w_mm; w_kw_other_order] 1 [1#1; 1#1; 3#1] = Some (3#2) /\
    Forall2 (fun m x => seval kw_rho m = Some x) [SSym 1%N; SSym 4%N; SSym 5%N] [1#1; 1#1; 3#1] /\
    seval kw_rho e <> Some (3#2)) /\
  (exists e,
    fn_to_sympy (facts_kw KwAppended) [w_mm; w_kw_only] 1 [SSym 1%N; SSym 4%N; SSym 5%N] = Some e /\
    py_call [w_mm; w_kw_only] 1 [1#1; 1#1; 3#1] = Some (3#2) /\
    seval kw_rho e <> Some (3#2)).
Proof. exact keywords_appended_wrong. Qed.
Print Assumptions C06_keywords_appended_refuted.

(** non-vacuity: the three callers have the value Python gives them (3/2 = mm(1, 1, 3), not mm(1, 3, 1) = 1/4), the
    shipped facts refuse all three, and in parameter order even the appending translator is right *)
Example C06_keywords_nonvacuous :
  fn_to_sympy expected_facts [w_mm; w_kw_other_order] 1 [SSym 1%N; SSym 4%N; SSym 5%N] = None /\
  fn_to_sympy expected_facts [w_mm; w_kw_only] 1 [SSym 1%N; SSym 4%N; SSym 5%N] = None /\
  fn_to_sympy expected_facts [w_mm; w_kw_param_order] 1 [SSym 1%N; SSym 4%N; SSym 5%N] = None /\
  py_call [w_mm; w_kw_other_order] 1 [1#1; 1#1; 3#1] = Some (3#2) /\
  py_call [w_mm; w_kw_only] 1 [1#1; 1#1; 3#1] = Some (3#2) /\
  py_call [w_mm; w_kw_param_order] 1 [1#1; 1#1; 3#1] = Some (3#2) /\
  py_call [w_mm] 0 [1#1; 3#1; 1#1] = Some (1#4) /\
  (exists e, fn_to_sympy (facts_kw KwAppended) [w_mm; w_kw_param_order] 1 [SSym 1%N; SSym 4%N; SSym 5%N] = Some e /\
             seval kw_rho e = Some (3#2)).
Proof. exact keywords_witnesses. Qed.
Print Assumptions C06_keywords_nonvacuous.

(** AN ASSIGNMENT WITHOUT AN EXPRESSION REFUSES THE BODY -- whatever made the right-hand side fail (an unsupported
    node, a refused callee, an arity mismatch, a call of something that is not a function of the module): the
    translator never goes on with a name it could not bind.  Semantic counterpart of [C06_refusal_visible_body]
    (which is about syntactically unsupported nodes). *)
Theorem C06_untranslatable_assignment_refuses :
  forall S G fuel body rest sigma,
    (forall x e, texpr gen_fnsym_facts S G sigma e = None ->
       tbody gen_fnsym_facts S G (Datatypes.S fuel) body (SCons (SAssign x e) rest) sigma = TRefused) /\
    (forall xs es, ttuple gen_fnsym_facts S G sigma xs es = None ->
       tbody gen_fnsym_facts S G (Datatypes.S fuel) body (SCons (STuple xs es) rest) sigma = TRefused).
Proof. exact (assign_without_expression_refuses gen_fnsym_facts C06_facts_pinned). Qed.
Print Assumptions C06_untranslatable_assignment_refuses.

(** regression (seeded C06-6): when the None of such a right-hand side is STORED in the symbol table, _handle_name's
    `ctx.symbols.get(id) is None` takes the local for "not a local" and reads the module constant of the same name:
    `vmax = scaled(s); return vmax * s` with the module constant vmax = 10 and `def scaled(x, n=2.0)` (the call relies
    on the default: no expression) becomes 10 * s, Python computes 2 * s * s (18 vs 30 at s = 3). *)
Theorem C06_stored_none_refuted :
  exists e rho,
    fn_to_sympy (facts_assign AnStore) [w_scaled; w_rate] 1 [SSym 7%N] = Some e /\
    py_call [w_scaled; w_rate] 1 [3#1] = Some (18#1) /\
    Forall2 (fun m x => seval rho m = Some x) [SSym 7%N] [3#1] /\
    seval rho e <> Some (18#1).
Proof. exact stored_none_wrong. Qed.
Print Assumptions C06_stored_none_refuted.

(** the shapes around it: the shipped rule refuses; `vmax = round(s)` (no function of the module) gets the constant
    substituted under the storing rule; without a constant of that name the read is a KeyError (no expression); a
    translatable local shadows the constant under either rule, as in Python (non-vacuity of the soundness theorem for
    locals named like module constants) *)
Example C06_stored_none_shapes :
  fn_to_sympy expected_facts [w_scaled; w_rate] 1 [SSym 7%N] = None /\
  fn_to_sympy expected_facts [w_scaled; w_rate_round] 1 [SSym 7%N] = None /\
  fn_to_sympy (facts_assign AnStore) [w_scaled; w_rate_round] 1 [SSym 7%N] = Some (SBin Mul (SNum (10#1)) (SSym 7%N)) /\
  fn_to_sympy (facts_assign AnStore) [w_scaled; w_rate_other] 1 [SSym 7%N] = None /\
  fn_to_sympy (facts_assign AnStore) [w_scaled; w_rate_local] 1 [SSym 7%N] =
    fn_to_sympy expected_facts [w_scaled; w_rate_local] 1 [SSym 7%N] /\
  (exists e, fn_to_sympy expected_facts [w_scaled; w_rate_local] 1 [SSym 7%N] = Some e /\
             py_call [w_scaled; w_rate_local] 1 [3#1] = Some (18#1) /\
             seval (fun x => assoc x [(7%N, 3#1)]) e = Some (18#1)).
Proof. exact stored_none_shapes. Qed.
Print Assumptions C06_stored_none_shapes.


(** ======================================================================================================
    NAME RESOLUTION and LAMBDAS (round-3 closing: seeded C06-9, C06-10; Resolve.v).
    [gen_fnsym_rfacts] is REGENERATED from source_tools.py like [gen_fnsym_facts]: the operand order of the three
    `dict(inspect.getmembers(ctx.parent_module, ...)) | ctx.fns / ctx.modules` merges (in _handle_attribute and, twice,
    in _handle_call), under which name `_handle_fn_body` records a function-local import written with `as`, and what
    `get_fn_ast` does when it is handed a lambda.  The last two are switches (ExpectedFacts.v) with recorded findings. *)
Theorem C06_rfacts_pinned :
  gen_fnsym_rfacts = mkRFacts ScopeLocalWins C06_expected_alias C06_expected_lambda.
Proof. vm_compute. reflexivity. Qed.
Print Assumptions C06_rfacts_pinned.

(** Every name of a function body -- the callee of `scale(x)`, the module of `consts.K` / `consts.sat(x)` -- is
    resolved by the translator to the object CPython uses: the function-local import (newest first) if there is one,
    else the member of the defining module; for EVERY module-level table, every list of import statements and every
    name.  [alias_ok] is [True] once fixes/C06-import-alias.diff is in; for the shipped code it is the guard "no import
    of the function is written with `as`" -- its complement is the recorded finding local-import-alias-ignored. *)
Theorem C06_names_resolved_as_python :
  forall modlevel ds x,
    alias_ok gen_fnsym_rfacts ds ->
    resolve gen_fnsym_rfacts modlevel ds x = py_resolve modlevel ds x.
Proof. exact (resolve_is_python gen_fnsym_rfacts C06_rfacts_pinned). Qed.
Print Assumptions C06_names_resolved_as_python.

(** SOUNDNESS for programs with function-local imports.  [ns]: functions with their import statements, calls carry
    NAMES; [resolve_prog] is the program as the translator resolves it, [py_resolve_prog] as CPython does;
    [modlevel m] are the members of module m.  What the translator returns equals the function CPython runs. *)
Theorem C06_sound_with_local_imports :
  forall modlevel ns first now i margs e vs v rho,
    Forall (fun nf => alias_ok gen_fnsym_rfacts (nf_imports nf)) ns ->
    arity_ok gen_fnsym_facts (map (at_env now) (py_resolve_prog modlevel ns)) ->
    margs <> [] ->
    translate gen_fnsym_facts first now (resolve_prog gen_fnsym_rfacts modlevel ns) i margs = Some e ->
    py_value now (py_resolve_prog modlevel ns) i vs = Some v ->
    Forall2 (fun m x => seval rho m = Some x) margs vs ->
    seval rho e = Some v.
Proof. exact (sound_named gen_fnsym_facts gen_fnsym_rfacts C06_facts_pinned C06_rfacts_pinned). Qed.
Print Assumptions C06_sound_with_local_imports.

(** why no test of the repository sees the operand order: unless a name is bound to DIFFERENT objects by a local
    import and at module level, `members | local` and `local | members` are the same table *)
Theorem C06_merge_orders_agree_without_collision :
  forall (modlevel loc : table) x,
    (forall o1 o2, assoc x loc = Some o1 -> assoc x modlevel = Some o2 -> o1 = o2) ->
    lookup_obj (loc ++ modlevel) x = lookup_obj (modlevel ++ loc) x.
Proof. exact merge_orders_agree. Qed.
Print Assumptions C06_merge_orders_agree_without_collision.

(** regression (seeded C06-9, operands swapped: the module-level binding shadows the local import):
      module level  `from fast import scale`  (scale(x) = 2 x);   def local_fn(s): from slow import scale; return scale(s)
    with slow.scale(x) = 3 x is translated to 2*S; Python computes 3 at s = 1. *)
Theorem C06_module_level_wins_refuted :
  exists e v rho,
    translate expected_facts [] [] (resolve_prog rf_module_wins w_modlevel [w_fast_scale; w_slow_scale; w_local_fn]) 2 [SSym 1%N] = Some e /\
    py_value [] (py_resolve_prog w_modlevel [w_fast_scale; w_slow_scale; w_local_fn]) 2 [1#1] = Some v /\
    Forall2 (fun m x => seval rho m = Some x) [SSym 1%N] [1#1] /\
    seval rho e <> Some v.
Proof. exact module_wins_wrong. Qed.
Print Assumptions C06_module_level_wins_refuted.

(** finding local-import-alias-ignored (the SHIPPED alias rule): `from slow import scale as sc; return scale(s)` --
    the translator binds `scale` to slow.scale (3*S), Python still calls the module-level scale (2 at s = 1) *)
Theorem C06_alias_ignored_refuted :
  exists e v rho,
    translate expected_facts [] [] (resolve_prog rf_alias_ignored w_modlevel [w_fast_scale; w_slow_scale; w_alias_fn]) 2 [SSym 1%N] = Some e /\
    py_value [] (py_resolve_prog w_modlevel [w_fast_scale; w_slow_scale; w_alias_fn]) 2 [1#1] = Some v /\
    Forall2 (fun m x => seval rho m = Some x) [SSym 1%N] [1#1] /\
    seval rho e <> Some v.
Proof. exact alias_ignored_wrong. Qed.
Print Assumptions C06_alias_ignored_refuted.

(** non-vacuity and the repaired side: with local-wins the local_fn witness is translated to Python's value under either
    alias rule; the shipped alias rule REFUSES a function that uses its alias (`return sc(s)`: visible); the repaired
    rule translates both alias witnesses to Python's value *)
Example C06_resolution_nonvacuous :
  (named_right_on expected_facts rf_repaired w_modlevel [w_fast_scale; w_slow_scale; w_local_fn] 2 [SSym 1%N] [1#1]
   /\ named_right_on expected_facts rf_alias_ignored w_modlevel [w_fast_scale; w_slow_scale; w_local_fn] 2 [SSym 1%N] [1#1])
  /\ (translate expected_facts [] [] (resolve_prog rf_alias_ignored w_modlevel [w_fast_scale; w_slow_scale; w_alias_use]) 2 [SSym 1%N] = None
      /\ py_value [] (py_resolve_prog w_modlevel [w_fast_scale; w_slow_scale; w_alias_use]) 2 [1#1] = Some (3#1))
  /\ (named_right_on expected_facts rf_repaired w_modlevel [w_fast_scale; w_slow_scale; w_alias_fn] 2 [SSym 1%N] [1#1]
      /\ named_right_on expected_facts rf_repaired w_modlevel [w_fast_scale; w_slow_scale; w_alias_use] 2 [SSym 1%N] [1#1]).
Proof. exact (conj local_wins_right (conj alias_ignored_refuses_use alias_honoured_right)). Qed.
Print Assumptions C06_resolution_nonvacuous.

(** LAMBDAS.  [st]: the source statement inspect.getsource returns for the lambda ([ls_def]: that statement is a `def`;
    [ls_lams]: its lambdas in ast.walk order); [translate_lambda .. st i margs] = fn_to_sympy(<i-th lambda>, margs).
    The translator REFUSES every lambda -- trivially sound.  [lambda_guard] is [True] once
    fixes/C06-lambda-not-a-def.diff is in; for the shipped code it is "the statement is not a def" -- its complement
    is the recorded finding lambda-on-def-line. *)
Theorem C06_lambda_refused :
  forall fs first now ms m st i margs,
    lambda_guard gen_fnsym_rfacts st ->
    translate_lambda gen_fnsym_rfacts fs first now ms m st i margs = None.
Proof. exact (lambda_refused gen_fnsym_rfacts C06_rfacts_pinned). Qed.
Print Assumptions C06_lambda_refused.

(** regression (seeded C06-10: the first ast.Lambda of the statement with the same parameter NAMES is wrapped as a def):
      RATES = {"fwd": lambda s, k: k * s, "bwd": lambda s, k: k * s / (1.0 + s)}
    RATES["bwd"] is translated to K*S (1 at S = K = 1), Python computes 1/2. *)
Theorem C06_first_matching_lambda_refuted :
  exists e v,
    translate_lambda rf_first_matching expected_facts [] [] [] 0 w_rates 1 [SSym 1%N; SSym 2%N] = Some e /\
    py_lambda [] [] 0 w_rates 1 [1#1; 1#1] = Some v /\
    Forall2 (fun m x => seval pt11 m = Some x) [SSym 1%N; SSym 2%N] [1#1; 1#1] /\
    seval pt11 e <> Some v.
Proof. exact first_matching_wrong. Qed.
Print Assumptions C06_first_matching_lambda_refuted.

(** ... and exactly that is what is wrong with the rule: a lambda that is the FIRST of its statement with its parameter
    list is translated from its own body, hence soundly (for every statement, module, renaming, point) *)
Theorem C06_first_matching_lambda_sound_when_unique :
  forall rf, f_lambda rf = LamFirstMatching ->
  forall first now ms m st i own margs e vs v rho,
    ls_def st = None -> nth_error (ls_lams st) i = Some own ->
    (forall j l, (j < i)%nat -> nth_error (ls_lams st) j = Some l -> lam_params l <> lam_params own) ->
    arity_ok gen_fnsym_facts (map (at_env now) (ms ++ [lam_fun m own])) ->
    margs <> [] ->
    translate_lambda rf gen_fnsym_facts first now ms m st i margs = Some e ->
    py_lambda now ms m st i vs = Some v ->
    Forall2 (fun a x => seval rho a = Some x) margs vs ->
    seval rho e = Some v.
Proof. exact (fun rf H => first_matching_sound_when_unique gen_fnsym_facts rf C06_facts_pinned H). Qed.
Print Assumptions C06_first_matching_lambda_sound_when_unique.

(** finding lambda-on-def-line (the SHIPPED get_fn_ast):  def rate(s, k, alt=lambda s, k: s + k): return k * s
    fn_to_sympy(<default value of alt>) with model_args = None returns k*s (2 at s = 1, k = 2), the lambda computes 3;
    the repaired rule refuses it *)
Theorem C06_lambda_on_def_line_refuted :
  (exists e v,
     nth_error (ls_lams w_def_line) 0 = Some w_alt /\
     translate_lambda rf_def_line expected_facts [] [] [] 0 w_def_line 0 [] = Some e /\
     py_lambda [] [] 0 w_def_line 0 [1#1; 2#1] = Some v /\
     (forall x q, assoc x (combine (lam_params w_alt) [1#1; 2#1]) = Some q -> pt12 x = Some q) /\
     seval pt12 e <> Some v)
  /\ (forall fs first now ms m i margs, translate_lambda rf_repaired fs first now ms m w_def_line i margs = None).
Proof. exact (conj def_line_wrong def_line_refused_when_repaired). Qed.
Print Assumptions C06_lambda_on_def_line_refuted.

Example C06_lambda_nonvacuous :
  (exists e, translate_lambda rf_first_matching expected_facts [] [] [] 0 w_rates 0 [SSym 1%N; SSym 2%N] = Some e
             /\ py_lambda [] [] 0 w_rates 0 [1#1; 1#1] = Some (1#1) /\ seval pt11 e = Some (1#1))
  /\ (exists e, translate_lambda rf_first_matching expected_facts [] [] [] 0 w_named 1 [SSym 1%N; SSym 2%N] = Some e
             /\ py_lambda [] [] 0 w_named 1 [1#1; 1#1] = Some (1#2) /\ seval pt11 e = Some (1#2)).
Proof. exact first_matching_right_when_unique. Qed.
Print Assumptions C06_lambda_nonvacuous.
