(** C06 -- Python-to-symbolic translation is sound: equal everywhere, or refused.

    ONLY theorem statements (written out in full), each closed by [exact <lemma>] and followed by
    [Print Assumptions].  All statements are about [gen_fnsym_facts], the facts REGENERATED from
    /repo/src/mxlpy/meta/source_tools.py on every run; [C06_facts_pinned] is the obligation that
    breaks when an operator table, the comparison table (symbolic Eq/Ne), [simultaneous=True],
    the tuple-assignment order, the treatment of unknown statements / keyword arguments or the
    shape of the if/return/assign blocks of [_handle_fn_body] is edited.

    Reading guide: [fds] is a module (list of definitions, calls go to earlier ones);
    [py_call fds i vs] is the value CPython gives function i on arguments vs ([None] = no numeric
    value); [fn_to_sympy fs fds i margs] is the translator's result ([None] = no expression; [margs = []]
    is model_args=None); [seval rho e] is the value of a SymPy expression under the valuation rho. *)
From FnSym Require Import FnToSym GenFnSymFacts SymProofs FnToSymProofs FnToSymRefuted.

Theorem C06_facts_pinned :
  gen_fnsym_facts =
  mkFacts
    [(Add, Add); (Sub, Sub); (Mul, Mul); (Div, Div); (Pow, Pow); (Mod, Mod); (FloorDiv, FloorDiv)]
    [(UAdd, UAdd); (USub, USub)]
    [(Gt, RelGt); (GtE, RelGe); (Lt, RelLt); (LtE, RelLe); (CEq, RelEq); (CNe, RelNe)]
    true SubsSim TupSim StmtRaise CfContinuation true true true.
Proof. vm_compute. reflexivity. Qed.
Print Assumptions C06_facts_pinned.

(** the translation of a body always terminates: the model's fuel (size of the body + 1) is never
    exhausted, whatever the facts (duplicating the continuation into both branches of an if is
    bounded by the size measure) *)
Theorem C06_translation_terminates :
  forall fs S G body sigma,
    tbody fs S G (Datatypes.S (ssize body)) body body sigma <> TOutOfFuel.
Proof. exact never_out_of_fuel. Qed.
Print Assumptions C06_translation_terminates.

(** SOUNDNESS, model_args = None.  For every module, every function i of it: if the translator
    returns an expression e over the function's own argument names ps, then at every argument
    point vs where the function has a value v, e has the value v (under every valuation that gives
    the arguments their values).  Covers local (re)assignments incl. of parameters, tuple
    assignments, if/elif/else with assignments and/or returns in any branch and code after them,
    conditional expressions, ==, != and chained comparisons, calls into earlier functions, module
    constants. *)
Theorem C06_sound_unrenamed :
  forall fds i ps e vs v rho,
    nth_error (summaries gen_fnsym_facts fds) i = Some (Some (ps, e)) ->
    py_call fds i vs = Some v ->
    (forall x q, assoc x (combine ps vs) = Some q -> rho x = Some q) ->
    length ps = length vs /\ seval rho e = Some v.
Proof. exact (sound_unrenamed gen_fnsym_facts C06_facts_pinned). Qed.
Print Assumptions C06_sound_unrenamed.

(** SOUNDNESS under renaming.  The arguments are replaced by arbitrary model expressions margs
    (in particular model NAMES, including the function's own argument names in another order, or
    the same name twice): wherever the model expressions denote the argument values vs and the
    function has a value there, the returned expression has that value. *)
Theorem C06_sound :
  forall fds i margs e vs v rho,
    margs <> [] ->
    fn_to_sympy gen_fnsym_facts fds i margs = Some e ->
    py_call fds i vs = Some v ->
    Forall2 (fun m x => seval rho m = Some x) margs vs ->
    seval rho e = Some v.
Proof. exact (sound_renamed gen_fnsym_facts C06_facts_pinned). Qed.
Print Assumptions C06_sound.

(** the substitution lemma the renaming rests on (simultaneous substitution = evaluation under the
    composed valuation) *)
Theorem C06_simultaneous_subs_meaning :
  forall m rho e,
    seval rho (subs_sim m e) =
    seval (fun x => match assoc x m with Some s => seval rho s | None => rho x end) e.
Proof. exact subs_sim_sound. Qed.
Print Assumptions C06_simultaneous_subs_meaning.

(** REFUSAL IS VISIBLE: an expression / condition containing ANYWHERE a node outside the subset
    (any other expression node, keyword call, unknown unary/binary operator, and/or/not,
    is/in comparison) has no translation; an unknown statement or a bare return reached by the
    translator refuses the function. *)
Theorem C06_refusal_visible_expr :
  forall S G e, unsupported_e e = true -> forall sigma, texpr gen_fnsym_facts S G sigma e = None.
Proof. exact (unsupported_expr_refused gen_fnsym_facts C06_facts_pinned). Qed.
Print Assumptions C06_refusal_visible_expr.

Theorem C06_refusal_visible_stmt :
  forall S G fuel body rest sigma,
    tbody gen_fnsym_facts S G (Datatypes.S fuel) body (SCons SOther rest) sigma = TRefused
    /\ tbody gen_fnsym_facts S G (Datatypes.S fuel) body (SCons SReturnNone rest) sigma = TRefused.
Proof. exact (unsupported_stmt_refused gen_fnsym_facts C06_facts_pinned). Qed.
Print Assumptions C06_refusal_visible_stmt.

(** The pinned facts are load-bearing: with the facts of the unrepaired source the same model
    returns a WRONG expression (witnesses = findings on the real unrepaired code, now fixed). *)
Theorem C06_sequential_subs_refuted :
  exists fds i margs e vs v rho,
    fn_to_sympy facts_seq_subs fds i margs = Some e /\
    py_call fds i vs = Some v /\
    Forall2 (fun m x => seval rho m = Some x) margs vs /\
    seval rho e <> Some v.
Proof. exact seq_subs_wrong. Qed.
Print Assumptions C06_sequential_subs_refuted.

Theorem C06_structural_eq_refuted :
  exists fds i ps e vs v rho,
    nth_error (summaries facts_struct_eq fds) i = Some (Some (ps, e)) /\
    py_call fds i vs = Some v /\
    (forall x q, assoc x (combine ps vs) = Some q -> rho x = Some q) /\
    seval rho e <> Some v.
Proof. exact struct_eq_wrong. Qed.
Print Assumptions C06_structural_eq_refuted.

Theorem C06_sequential_tuple_refuted :
  exists fds i ps e vs v rho,
    nth_error (summaries facts_seq_tuple fds) i = Some (Some (ps, e)) /\
    py_call fds i vs = Some v /\
    (forall x q, assoc x (combine ps vs) = Some q -> rho x = Some q) /\
    seval rho e <> Some v.
Proof. exact seq_tuple_wrong. Qed.
Print Assumptions C06_sequential_tuple_refuted.

(** non-vacuity: a two-function module with a branch-local assignment, an elif with ==, a tuple
    assignment, code after the if and a call whose arguments are swapped, translated with its
    arguments renamed onto each other; hypotheses of C06_sound hold and the values agree *)
Example C06_nonvacuous :
  exists e,
    fn_to_sympy expected_facts [nv_inner; nv_outer] 1 [SSym 2%N; SSym 1%N] = Some e /\
    py_call [nv_inner; nv_outer] 1 [3#1; 5#1] = Some (2#1) /\
    py_call [nv_inner; nv_outer] 1 [1#1; 1#1] = Some (0#1) /\
    Forall2 (fun m x => seval (fun x => assoc x [(2%N, 3#1); (1%N, 5#1)]) m = Some x) [SSym 2%N; SSym 1%N] [3#1; 5#1] /\
    seval (fun x => assoc x [(2%N, 3#1); (1%N, 5#1)]) e = Some (2#1) /\
    seval (fun x => assoc x [(2%N, 1#1); (1%N, 1#1)]) e = Some (0#1).
Proof. exact nonvacuous_witness. Qed.
Print Assumptions C06_nonvacuous.
