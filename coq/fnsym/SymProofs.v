(** Substitution lemma for SymLang: simultaneous substitution = evaluation under the
    valuation that first evaluates the substituted expressions. *)
From FnSym Require Import SymLang.

Section Subs.
  Variable m : list (name * sexpr).
  Variable rho : valuation.

  Definition ext_val : valuation :=
    fun x => match assoc x m with Some s => seval rho s | None => rho x end.

  Lemma subs_sound_all :
    (forall e, seval rho (subs_sim m e) = seval ext_val e) /\
    (forall c, sevalc rho (subs_c m c) = sevalc ext_val c) /\
    (forall ps, spw rho (subs_pw m ps) = spw ext_val ps).
  Proof.
    apply sym_mutind.
    - intros q. reflexivity.
    - intros x. unfold ext_val. simpl. destruct (assoc x m); reflexivity.
    - intros e IH. simpl. rewrite IH. reflexivity.
    - intros op a IHa b IHb. simpl. rewrite IHa, IHb. reflexivity.
    - intros ps IH. simpl. exact IH.
    - intros b. reflexivity.
    - intros op a IHa b IHb. simpl. rewrite IHa, IHb. reflexivity.
    - intros c1 IH1 c2 IH2. simpl. rewrite IH1, IH2. reflexivity.
    - reflexivity.
    - intros e IHe c IHc ps IHps. simpl. rewrite IHe, IHc, IHps. reflexivity.
  Qed.
End Subs.

Lemma subs_sim_sound : forall m rho e,
  seval rho (subs_sim m e) =
  seval (fun x => match assoc x m with Some s => seval rho s | None => rho x end) e.
Proof. intros m rho e. exact (proj1 (subs_sound_all m rho) e). Qed.

Lemma subs_c_sound : forall m rho c,
  sevalc rho (subs_c m c) =
  sevalc (fun x => match assoc x m with Some s => seval rho s | None => rho x end) c.
Proof. intros m rho c. exact (proj1 (proj2 (subs_sound_all m rho)) c). Qed.

Lemma subs_pw_sound : forall m rho ps,
  spw rho (subs_pw m ps) =
  spw (fun x => match assoc x m with Some s => seval rho s | None => rho x end) ps.
Proof. intros m rho ps. exact (proj2 (proj2 (subs_sound_all m rho)) ps). Qed.
