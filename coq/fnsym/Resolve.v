(** NAME RESOLUTION and LAMBDAS -- what happens before / around the translation proper (round-3 closing).

    (1) Which object does a name of the function body refer to?  CPython: a function-local `from m import a` /
        `import m` binds a LOCAL name, which shadows whatever the defining module binds under that name.  The translator
        builds, in three places (`_handle_attribute`; `_handle_call` for plain and for dotted names), the table

            dict(inspect.getmembers(ctx.parent_module, <predicate>)) | ctx.fns        (resp. ctx.modules)

        -- the right operand of `|` wins.  The code fact [f_scope] says which operand the function-local imports are:
          ScopeLocalWins    members-of-the-module | local imports                   (the shipped code)
          ScopeModuleWins   local imports | members-of-the-module                   (seeded C06-9)
        Objects (functions, modules) are numbers: a function is its index in the definition list, so a resolved
        call is PyLang's [ECall idx args].  [im_name]/[im_as]: `from m import name as asname` (asname = name without
        `as`); which of the two becomes the key is the code fact [f_alias] (ExpectedFacts.v).

    (2) A lambda.  [ls_def]: the source statement of the lambda is a `def` (that definition); [ls_lams]: the lambdas of
        the statement in ast.walk (breadth-first) order.  [f_lambda] (ExpectedFacts.v) decides what is translated.

    No proofs in this file. *)
From FnSym Require Export ConstEnv.

Inductive scope_mode := ScopeLocalWins | ScopeModuleWins | ScopeUnknown.

Record rfacts := mkRFacts { f_scope : scope_mode; f_alias : alias_mode; f_lambda : lambda_mode }.

Definition table := list (name * N).
Definition unresolved : N := 99.      (* `fns.get(name)` is None: _handle_call returns None (PyLang: ECall beyond the definitions) *)

Record import_decl := mkImp { im_name : name; im_as : name; im_obj : N }.

(** ctx.fns / ctx.modules after the import statements [ds] (a later import of the same key replaces the earlier:
    newest first, [assoc] finds the newest) *)
Definition bind_imports (key : import_decl -> name) (ds : list import_decl) : table :=
  fold_left (fun t d => (key d, im_obj d) :: t) ds [].

Definition local_table (am : alias_mode) (ds : list import_decl) : option table :=
  match am with
  | AliasHonoured => Some (bind_imports im_as ds)
  | AliasIgnored => Some (bind_imports im_name ds)
  | AliasUnknown => None
  end.

(** `A | B` on dicts, as an association list: B's entries are found first *)
Definition visible (sm : scope_mode) (modlevel loc : table) : option table :=
  match sm with
  | ScopeLocalWins => Some (loc ++ modlevel)
  | ScopeModuleWins => Some (modlevel ++ loc)
  | ScopeUnknown => None
  end.

Definition lookup_obj (t : table) (x : name) : N := match assoc x t with Some o => o | None => unresolved end.

(** the object the TRANSLATOR uses for the name x inside a function with the local imports ds, defined in a module
    whose members are [modlevel] *)
Definition resolve (rf : rfacts) (modlevel : table) (ds : list import_decl) (x : name) : N :=
  match local_table (f_alias rf) ds with
  | Some loc => match visible (f_scope rf) modlevel loc with Some t => lookup_obj t x | None => unresolved end
  | None => unresolved
  end.

(** the object CPYTHON uses: the local binding (under the name written after `as`), else the module's *)
Definition py_resolve (modlevel : table) (ds : list import_decl) (x : name) : N :=
  match assoc x (bind_imports im_as ds) with
  | Some o => o
  | None => lookup_obj modlevel x
  end.

(** the guard under which the shipped alias rule is Python's: no import of the function uses `as` *)
Definition alias_ok (rf : rfacts) (ds : list import_decl) : Prop :=
  match f_alias rf with
  | AliasHonoured => True
  | _ => Forall (fun d => im_as d = im_name d) ds
  end.

(** ---- programs with NAMED calls: [ECall x args] / [ECallKw x ..] carry a NAME x; [rn_*] replaces it by an object *)
Fixpoint rn_e (r : N -> N) (e : expr) : expr :=
  match e with
  | ENum q => ENum q
  | EVar x => EVar x
  | EUn op a => EUn op (rn_e r a)
  | EBin op a b => EBin op (rn_e r a) (rn_e r b)
  | EIfExp c a b => EIfExp (rn_c r c) (rn_e r a) (rn_e r b)
  | ECall f args => ECall (r f) (rn_es r args)
  | ECallKw f slots args => ECallKw (r f) slots (rn_es r args)
  | EOther => EOther
  end
with rn_c (r : N -> N) (c : cond) : cond :=
  match c with
  | CCmp l rest => CCmp (rn_e r l) (rn_ch r rest)
  | COther => COther
  end
with rn_ch (r : N -> N) (ch : chain) : chain :=
  match ch with
  | ChNil => ChNil
  | ChCons op e rest => ChCons op (rn_e r e) (rn_ch r rest)
  end
with rn_es (r : N -> N) (es : exprs) : exprs :=
  match es with
  | ENil => ENil
  | ECons e rest => ECons (rn_e r e) (rn_es r rest)
  end.

Fixpoint rn_s (r : N -> N) (s : stmt) : stmt :=
  match s with
  | SAssign x e => SAssign x (rn_e r e)
  | STuple xs es => STuple xs (rn_es r es)
  | SIf c a b => SIf (rn_c r c) (rn_ss r a) (rn_ss r b)
  | SReturn e => SReturn (rn_e r e)
  | SReturnNone => SReturnNone
  | SPass => SPass
  | SOther => SOther
  end
with rn_ss (r : N -> N) (ss : stmts) : stmts :=
  match ss with
  | SNil => SNil
  | SCons s rest => SCons (rn_s r s) (rn_ss r rest)
  end.

(** a function with its import statements (all at the top of the body: the names are local in the whole function) *)
Record nfun := mkNFun { nf_imports : list import_decl; nf_fun : mfun }.

Definition rn_fun (r : N -> N) (mf : mfun) : mfun :=
  mkMFun (mf_params mf) (mf_defaults mf) (mf_mod mf) (rn_ss r (mf_body mf)).

(** [modlevel m]: the members of module m.  What the translator sees / what CPython runs. *)
Definition resolve_prog (rf : rfacts) (modlevel : N -> table) (ns : list nfun) : list mfun :=
  map (fun nf => rn_fun (resolve rf (modlevel (mf_mod (nf_fun nf))) (nf_imports nf)) (nf_fun nf)) ns.
Definition py_resolve_prog (modlevel : N -> table) (ns : list nfun) : list mfun :=
  map (fun nf => rn_fun (py_resolve (modlevel (mf_mod (nf_fun nf))) (nf_imports nf)) (nf_fun nf)) ns.

(** ---- lambdas *)
Record lam := mkLam { lam_params : list name; lam_body : expr }.
Record lam_stmt := mkLamStmt { ls_def : option mfun; ls_lams : list lam }.

Definition names_eqb (a b : list name) : bool := if list_eq_dec N.eq_dec a b then true else false.

Definition lam_fun (m : N) (l : lam) : mfun := mkMFun (lam_params l) [] m (SCons (SReturn (lam_body l)) SNil).

(** the definition get_fn_ast hands to the translator for the i-th lambda of the statement ([None]: TypeError) *)
Definition lam_select (lm : lambda_mode) (m : N) (st : lam_stmt) (i : nat) : option mfun :=
  match nth_error (ls_lams st) i with
  | None => None
  | Some own =>
      match lm with
      | LamRefused => None
      | LamDefLine => ls_def st
      | LamFirstMatching =>
          match ls_def st with
          | Some d => Some d
          | None => option_map (lam_fun m) (find (fun l => names_eqb (lam_params l) (lam_params own)) (ls_lams st))
          end
      | LamUnknown => None
      end
  end.

(** fn_to_sympy(<the i-th lambda of st>, model_args = margs), the lambda written in module m next to the definitions ms *)
Definition translate_lambda (rf : rfacts) (fs : facts) (first now : cenv) (ms : list mfun) (m : N) (st : lam_stmt) (i : nat)
  (margs : list sexpr) : option sexpr :=
  match lam_select (f_lambda rf) m st i with
  | Some d => translate fs first now (ms ++ [d]) (length ms) margs
  | None => None
  end.

(** the value CPython gives the lambda *)
Definition py_lambda (now : cenv) (ms : list mfun) (m : N) (st : lam_stmt) (i : nat) (vs : list Q) : option Q :=
  match nth_error (ls_lams st) i with
  | Some own => py_value now (ms ++ [lam_fun m own]) (length ms) vs
  | None => None
  end.

(** ---- correspondence helpers (coq/fnsym/corr/c06_scope_*.v) *)
Record lcase := mkLCase {
  l_ms : list mfun; l_mod : N; l_stmt : lam_stmt; l_i : nat; l_margs : list name; l_argnames : list name;
  l_now : cenv; l_points : list (list (name * Q)); l_obs : option (list (option Q)); l_py : list (option Q) }.

Definition agree_at2 (m o : option Q) : bool :=
  match m with Some x => match o with Some y => Qeq_bool x y | None => false end | None => true end.

Definition lam_trans_ok (rf : rfacts) (fs : facts) (c : lcase) : bool :=
  match translate_lambda rf fs (l_now c) (l_now c) (l_ms c) (l_mod c) (l_stmt c) (l_i c) (map SSym (l_margs c)), l_obs c with
  | None, None => true
  | Some e, Some vals => all2 (fun pt o => agree_at2 (seval (val_of pt) e) o) (l_points c) vals
  | _, _ => false
  end.

Definition qat2 (pt : list (name * Q)) (x : name) : Q := match assoc x pt with Some q => q | None => 0 end.

Definition lam_py_ok (c : lcase) : bool :=
  all2 (fun pt o => oq_eqb (py_lambda (l_now c) (l_ms c) (l_mod c) (l_stmt c) (l_i c) (map (qat2 pt) (l_argnames c))) o)
       (l_points c) (l_py c).
