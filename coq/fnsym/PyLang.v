(** PyLang -- deep embedding of the Python subset that [fn_to_sympy] reads, with a big-step
    semantics over exact rationals ([None] = the function has no numeric value there: division
    by zero, unbound name, wrong arity, falling off the end / returning None, or a construct
    whose meaning is not modelled -- [EOther], [COther], [SOther], [BinOther] ...).
    A call of something that is not a function of the module (`round(x)`, `abs(x)`: no numeric meaning
    here) is [ECall f args] with [f] beyond the definitions.

    Reusable by other areas (C07, C11, C12, C08 take "per-function translation is sound" as a
    hypothesis and may import this file read-only).

    A module is a list of function definitions; a call [ECall f args] refers to the f-th
    definition and is only meaningful for EARLIER definitions (no recursion: the real
    translator would not terminate on it).  [fd_globals] are the module-level float constants
    of the function's own module ([_handle_name] falls back to them). *)
From FnSym Require Export QOps.

Inductive expr :=
| ENum (q : Q)                       (* ast.Constant int/float; resolved attribute constant *)
| EVar (x : name)                    (* ast.Name *)
| EUn (op : unop) (e : expr)
| EBin (op : binop) (a b : expr)
| EIfExp (c : cond) (a b : expr)
| ECall (f : N) (args : exprs)       (* positional call of a user function *)
| ECallKw (f : N) (slots : list nat) (args : exprs)
                                     (* a call with keyword arguments: [args] are ALL argument expressions in the
                                        order they are WRITTEN (positional ones, then the keyword values), [slots]
                                        gives for each of them the position of the callee parameter CPython binds it
                                        to (a positional argument: its own index; `km=e`: the index of `km` in the
                                        callee's signature -- resolved by the embedding, like the callee [f] itself) *)
| EOther                             (* any other expression node (BoolOp, Lambda, known-fn call on symbols ...) *)
with cond :=
| CCmp (l : expr) (rest : chain)     (* ast.Compare: l op1 e1 op2 e2 ... *)
| COther                             (* and/or/not/truthiness *)
with chain := ChNil | ChCons (op : cmpop) (e : expr) (rest : chain)
with exprs := ENil | ECons (e : expr) (es : exprs).

Inductive stmt :=
| SAssign (x : name) (e : expr)
| STuple (xs : list name) (es : exprs)   (* a, b = e1, e2 *)
| SIf (c : cond) (body orelse : stmts)   (* elif = an SIf alone in orelse *)
| SReturn (e : expr)
| SReturnNone
| SPass                                  (* pass / docstring *)
| SOther                                 (* while, for, augmented/annotated/chained assignment, ... *)
with stmts := SNil | SCons (s : stmt) (ss : stmts).

Scheme expr_mut := Induction for expr Sort Prop
  with cond_mut := Induction for cond Sort Prop
  with chain_mut := Induction for chain Sort Prop
  with exprs_mut := Induction for exprs Sort Prop.
Combined Scheme py_mutind from expr_mut, cond_mut, chain_mut, exprs_mut.

Scheme stmt_mut := Induction for stmt Sort Prop
  with stmts_mut := Induction for stmts Sort Prop.
Combined Scheme stmt_mutind from stmt_mut, stmts_mut.

Fixpoint sapp (a b : stmts) : stmts :=
  match a with SNil => b | SCons s r => SCons s (sapp r b) end.

(** [fd_defaults]: the default values of the LAST [length fd_defaults] parameters (`def f(s, n=2.0)`:
    params [s; n], defaults [2]); Python evaluates them once, at definition: numbers here. *)
Record fundef := mkFun { fd_params : list name; fd_defaults : list Q; fd_globals : list (name * Q); fd_body : stmts }.

Definition fsem := list Q -> option Q.
Definition env := list (name * Q).

Inductive outcome := Ret (v : Q) | Fall (rho : env) | Undef.

Fixpoint bind_all (xs : list name) (vs : list Q) (rho : env) : env :=
  match xs, vs with
  | x :: xs', v :: vs' => bind_all xs' vs' ((x, v) :: rho)
  | _, _ => rho
  end.

(** CPython's binding of a keyword call: parameter k gets the value of the written argument whose slot is k.
    Defined when the slots are a permutation of 0 .. n-1 for the n written arguments (anything else -- a
    parameter bound twice, a gap filled by a default -- is a TypeError or outside the model: [None]). *)
Fixpoint find_slot (k : nat) (slots : list nat) (vs : list Q) : option Q :=
  match slots, vs with
  | s :: slots', v :: vs' => if Nat.eqb s k then Some v else find_slot k slots' vs'
  | _, _ => None
  end.

Fixpoint arrange_from (ks : list nat) (slots : list nat) (vs : list Q) : option (list Q) :=
  match ks with
  | [] => Some []
  | k :: r =>
      match find_slot k slots vs, arrange_from r slots vs with
      | Some v, Some l => Some (v :: l)
      | _, _ => None
      end
  end.

Definition arrange (slots : list nat) (vs : list Q) : option (list Q) :=
  if Nat.eqb (length slots) (length vs) then arrange_from (seq 0 (length vs)) slots vs else None.

Section Semantics.
  Variable F : list fsem.               (* meaning of the earlier definitions *)
  Variable G : list (name * Q).         (* module float constants *)

  Definition lookup (rho : env) (x : name) : option Q :=
    match assoc x rho with
    | Some v => Some v
    | None => match assoc x G with Some q => Some (Qred q) | None => None end
    end.

  Fixpoint eval (rho : env) (e : expr) : option Q :=
    match e with
    | ENum q => Some (Qred q)
    | EVar x => lookup rho x
    | EUn op a =>
        match eval rho a with
        | Some v => match op with UAdd => Some v | USub => Some (qneg v) | UOther => None end
        | None => None
        end
    | EBin op a b =>
        match eval rho a, eval rho b with
        | Some x, Some y => bin_sem op x y
        | _, _ => None
        end
    | EIfExp c a b =>
        match evalc rho c with
        | Some true => eval rho a
        | Some false => eval rho b
        | None => None
        end
    | ECall f args =>
        match evals rho args with
        | Some vs => match nth_error F (N.to_nat f) with Some g => g vs | None => None end
        | None => None
        end
    | ECallKw f slots args =>
        (* all argument expressions are evaluated left to right as written, then bound BY NAME *)
        match evals rho args with
        | Some vs =>
            match arrange slots vs with
            | Some vs' => match nth_error F (N.to_nat f) with Some g => g vs' | None => None end
            | None => None
            end
        | None => None
        end
    | EOther => None
    end
  with evalc (rho : env) (c : cond) : option bool :=
    match c with
    | CCmp l rest => match eval rho l with Some v => evalch rho v rest | None => None end
    | COther => None
    end
  with evalch (rho : env) (prev : Q) (ch : chain) : option bool :=
    (* Python's chained comparison: left to right, short-circuit on the first false *)
    match ch with
    | ChNil => Some true
    | ChCons op e rest =>
        match eval rho e with
        | Some r =>
            match cmp_sem op prev r with
            | Some true => evalch rho r rest
            | Some false => Some false
            | None => None
            end
        | None => None
        end
    end
  with evals (rho : env) (es : exprs) : option (list Q) :=
    match es with
    | ENil => Some []
    | ECons e r =>
        match eval rho e, evals rho r with
        | Some v, Some vs => Some (v :: vs)
        | _, _ => None
        end
    end.

  Fixpoint exec1 (rho : env) (s : stmt) : outcome :=
    match s with
    | SAssign x e => match eval rho e with Some v => Fall ((x, v) :: rho) | None => Undef end
    | STuple xs es =>
        match evals rho es with
        | Some vs => if Nat.eqb (length xs) (length vs) then Fall (bind_all xs vs rho) else Undef
        | None => Undef
        end
    | SIf c a b =>
        match evalc rho c with
        | Some true => exec rho a
        | Some false => exec rho b
        | None => Undef
        end
    | SReturn e => match eval rho e with Some v => Ret v | None => Undef end
    | SReturnNone => Undef
    | SPass => Fall rho
    | SOther => Undef
    end
  with exec (rho : env) (ss : stmts) : outcome :=
    match ss with
    | SNil => Fall rho
    | SCons s r => match exec1 rho s with Fall rho' => exec rho' r | o => o end
    end.
End Semantics.

(** positional call: too many arguments, or a missing argument without default, is a TypeError;
    missing trailing arguments take their defaults *)
Definition fill_defaults (nparams : nat) (defaults : list Q) (vs : list Q) : option (list Q) :=
  let missing := Nat.sub nparams (length vs) in
  if Nat.leb (length vs) nparams && Nat.leb missing (length defaults)
  then Some (vs ++ map Qred (skipn (Nat.sub (length defaults) missing) defaults))
  else None.

(** calling a definition: the arguments (with defaults) must fit, the body must return a number *)
Definition run_fun (F : list fsem) (fd : fundef) (vs : list Q) : option Q :=
  match fill_defaults (length (fd_params fd)) (fd_defaults fd) vs with
  | Some vs' =>
      match exec F (fd_globals fd) (combine (fd_params fd) vs') (fd_body fd) with
      | Ret v => Some v
      | _ => None
      end
  | None => None
  end.

Fixpoint sems_from (fds : list fundef) (F : list fsem) : list fsem :=
  match fds with
  | [] => F
  | fd :: r => sems_from r (F ++ [run_fun F fd])
  end.
Definition sems (fds : list fundef) : list fsem := sems_from fds [].

(** the value of the i-th function of a module on arguments vs *)
Definition py_call (fds : list fundef) (i : nat) (vs : list Q) : option Q :=
  match nth_error (sems fds) i with Some g => g vs | None => None end.
