(** Each pinned fact is load-bearing: the translator model instantiated with the facts of the
    UNREPAIRED source (sequential subs, structural ==, sequential tuple assignment) returns a wrong
    expression on a concrete program.  The same programs are in harness/c06_corpus.py and were
    wrong on the real unrepaired code. *)
From FnSym Require Import FnToSym.
Local Open Scope N_scope.

Definition bin_tab := [(Add, Add); (Sub, Sub); (Mul, Mul); (Div, Div); (Pow, Pow); (Mod, Mod); (FloorDiv, FloorDiv)].
Definition un_tab := [(UAdd, UAdd); (USub, USub)].
Definition cmp_tab := [(Gt, RelGt); (GtE, RelGe); (Lt, RelLt); (LtE, RelLe); (CEq, RelEq); (CNe, RelNe)].
Definition cmp_tab_struct := [(Gt, RelGt); (GtE, RelGe); (Lt, RelLt); (LtE, RelLe); (CEq, StructEq); (CNe, StructNe)].

Definition facts_seq_subs : facts :=
  mkFacts bin_tab un_tab cmp_tab true SubsSeq TupSim StmtRaise CfContinuation true true true.
Definition facts_struct_eq : facts :=
  mkFacts bin_tab un_tab cmp_tab_struct true SubsSim TupSim StmtRaise CfContinuation true true true.
Definition facts_seq_tuple : facts :=
  mkFacts bin_tab un_tab cmp_tab true SubsSim TupSeq StmtRaise CfContinuation true true true.

(** def swap(a, b): return a - b *)
Definition w_swap : fundef := mkFun [1; 2] [] (SCons (SReturn (EBin Sub (EVar 1) (EVar 2))) SNil).
(** def eqf(a, b):  if a == b: return 1 ;  return 0 *)
Definition w_eqf : fundef :=
  mkFun [1; 2] []
    (SCons (SIf (CCmp (EVar 1) (ChCons CEq (EVar 2) ChNil)) (SCons (SReturn (ENum 1)) SNil) SNil)
       (SCons (SReturn (ENum 0)) SNil)).
(** def tuple_swap(a, b):  a, b = b, a ;  return a - b *)
Definition w_tswap : fundef :=
  mkFun [1; 2] []
    (SCons (STuple [1; 2] (ECons (EVar 2) (ECons (EVar 1) ENil)))
       (SCons (SReturn (EBin Sub (EVar 1) (EVar 2))) SNil)).

Lemma seq_subs_wrong :
  exists fds i margs e vs v rho,
    fn_to_sympy facts_seq_subs fds i margs = Some e /\
    py_call fds i vs = Some v /\
    Forall2 (fun m x => seval rho m = Some x) margs vs /\
    seval rho e <> Some v.
Proof.
  exists [w_swap], 0%nat, [SSym 2; SSym 1], (SBin Sub (SSym 1) (SSym 1)), [3#1; 5#1], ((-2)#1),
    (fun x => assoc x [(2, 3#1); (1, 5#1)]).
  split; [vm_compute; reflexivity|].
  split; [vm_compute; reflexivity|].
  split; [repeat constructor|].
  vm_compute. discriminate.
Qed.

Lemma struct_eq_wrong :
  exists fds i ps e vs v rho,
    nth_error (summaries facts_struct_eq fds) i = Some (Some (ps, e)) /\
    py_call fds i vs = Some v /\
    (forall x q, assoc x (combine ps vs) = Some q -> rho x = Some q) /\
    seval rho e <> Some v.
Proof.
  exists [w_eqf], 0%nat, [1; 2],
    (SPw (PCons (SNum 1) (SBool false) (PCons (SNum 0) (SBool true) PNil))), [2#1; 2#1], (1#1),
    (fun x => assoc x (combine [1; 2] [2#1; 2#1])).
  split; [vm_compute; reflexivity|].
  split; [vm_compute; reflexivity|].
  split; [intros x q H; exact H|].
  vm_compute. discriminate.
Qed.

Lemma seq_tuple_wrong :
  exists fds i ps e vs v rho,
    nth_error (summaries facts_seq_tuple fds) i = Some (Some (ps, e)) /\
    py_call fds i vs = Some v /\
    (forall x q, assoc x (combine ps vs) = Some q -> rho x = Some q) /\
    seval rho e <> Some v.
Proof.
  exists [w_tswap], 0%nat, [1; 2], (SBin Sub (SSym 2) (SSym 2)), [3#1; 5#1], (2#1),
    (fun x => assoc x (combine [1; 2] [3#1; 5#1])).
  split; [vm_compute; reflexivity|].
  split; [vm_compute; reflexivity|].
  split; [intros x q H; exact H|].
  vm_compute. discriminate.
Qed.

(** a non-trivial program for the non-vacuity example:
      def inner(a, b): return a - 2*b
      def outer(a, b):
          c = 0
          if a > 1:
              c = a            # assignment in one branch only
          elif a == b:
              a, b = b, a + 1
          d = inner(b, a) + c  # code after the if; arguments swapped onto the callee's names
          return d                                                              *)
Definition nv_inner : fundef :=
  mkFun [1; 2] [] (SCons (SReturn (EBin Sub (EVar 1) (EBin Mul (ENum 2) (EVar 2)))) SNil).
Definition nv_outer : fundef :=
  mkFun [1; 2] []
    (SCons (SAssign 3 (ENum 0))
    (SCons (SIf (CCmp (EVar 1) (ChCons Gt (ENum 1) ChNil))
              (SCons (SAssign 3 (EVar 1)) SNil)
              (SCons (SIf (CCmp (EVar 1) (ChCons CEq (EVar 2) ChNil))
                        (SCons (STuple [1; 2] (ECons (EVar 2) (ECons (EBin Add (EVar 1) (ENum 1)) ENil))) SNil)
                        SNil) SNil))
    (SCons (SAssign 4 (EBin Add (ECall 0 (ECons (EVar 2) (ECons (EVar 1) ENil))) (EVar 3)))
    (SCons (SReturn (EVar 4)) SNil)))).

Lemma nonvacuous_witness :
  exists e,
    fn_to_sympy expected_facts [nv_inner; nv_outer] 1 [SSym 2; SSym 1] = Some e /\
    py_call [nv_inner; nv_outer] 1 [3#1; 5#1] = Some (2#1) /\
    py_call [nv_inner; nv_outer] 1 [1#1; 1#1] = Some (0#1) /\
    Forall2 (fun m x => seval (fun x => assoc x [(2, 3#1); (1, 5#1)]) m = Some x) [SSym 2; SSym 1] [3#1; 5#1] /\
    seval (fun x => assoc x [(2, 3#1); (1, 5#1)]) e = Some (2#1) /\
    seval (fun x => assoc x [(2, 1#1); (1, 1#1)]) e = Some (0#1).
Proof.
  eexists. split; [vm_compute; reflexivity|].
  split; [vm_compute; reflexivity|].
  split; [vm_compute; reflexivity|].
  split; [repeat constructor|].
  split; vm_compute; reflexivity.
Qed.
