(** Each pinned fact is load-bearing: the translator model instantiated with the facts of the
    UNREPAIRED source (sequential subs, structural ==, sequential tuple assignment) returns a wrong
    expression on a concrete program.  The same programs are in harness/c06_corpus.py and were
    wrong on the real unrepaired code. *)
From FnSym Require Import FnToSym ConstEnv FnToSymProofs FnToSymProofs2.
Local Open Scope N_scope.

Definition bin_tab := [(Add, Add); (Sub, Sub); (Mul, Mul); (Div, Div); (Pow, Pow); (Mod, Mod); (FloorDiv, FloorDiv)].
Definition un_tab := [(UAdd, UAdd); (USub, USub)].
Definition cmp_tab := [(Gt, RelGt); (GtE, RelGe); (Lt, RelLt); (LtE, RelLe); (CEq, RelEq); (CNe, RelNe)].
Definition cmp_tab_struct := [(Gt, RelGt); (GtE, RelGe); (Lt, RelLt); (LtE, RelLe); (CEq, StructEq); (CNe, StructNe)].

Definition facts_seq_subs : facts :=
  mkFacts bin_tab un_tab cmp_tab true SubsSeq TupSim StmtRaise (CfContinuation BrCopy BrCopy) KwRefused true true ConstAtCall FbLastAssigned ArityStrictNonEmpty AnRefuse.
Definition facts_struct_eq : facts :=
  mkFacts bin_tab un_tab cmp_tab_struct true SubsSim TupSim StmtRaise (CfContinuation BrCopy BrCopy) KwRefused true true ConstAtCall FbLastAssigned ArityStrictNonEmpty AnRefuse.
Definition facts_seq_tuple : facts :=
  mkFacts bin_tab un_tab cmp_tab true SubsSim TupSeq StmtRaise (CfContinuation BrCopy BrCopy) KwRefused true true ConstAtCall FbLastAssigned ArityStrictNonEmpty AnRefuse.

(** def swap(a, b): return a - b *)
Definition w_swap : fundef := mkFun [1; 2] [] [] (SCons (SReturn (EBin Sub (EVar 1) (EVar 2))) SNil).
(** def eqf(a, b):  if a == b: return 1 ;  return 0 *)
Definition w_eqf : fundef :=
  mkFun [1; 2] [] []
    (SCons (SIf (CCmp (EVar 1) (ChCons CEq (EVar 2) ChNil)) (SCons (SReturn (ENum 1)) SNil) SNil)
       (SCons (SReturn (ENum 0)) SNil)).
(** def tuple_swap(a, b):  a, b = b, a ;  return a - b *)
Definition w_tswap : fundef :=
  mkFun [1; 2] [] []
    (SCons (STuple [1; 2] (ECons (EVar 2) (ECons (EVar 1) ENil)))
       (SCons (SReturn (EBin Sub (EVar 1) (EVar 2))) SNil)).

Lemma seq_subs_wrong :
  exists fds i margs e vs v rho,
    fn_to_sympy facts_seq_subs fds i margs = Some e /\
    py_call fds i vs = Some v /\
    Forall2 (fun m x => seval rho m = Some x) margs vs /\
    seval rho e <> Some v.
Proof.
  exists [w_swap], 0%nat, [SSym 2; SSym 1], (SBin Sub (SSym 1) (SSym 1)), [3#1; 5#1], ((-2)#1),
    (fun x => assoc x [(2, 3#1); (1, 5#1)]).
  split; [vm_compute; reflexivity|].
  split; [vm_compute; reflexivity|].
  split; [repeat constructor|].
  vm_compute. discriminate.
Qed.

Lemma struct_eq_wrong :
  exists fds i ps e vs v rho,
    nth_error (summaries facts_struct_eq fds) i = Some (Some (ps, e)) /\
    py_call fds i vs = Some v /\
    (forall x q, assoc x (combine ps vs) = Some q -> rho x = Some q) /\
    seval rho e <> Some v.
Proof.
  exists [w_eqf], 0%nat, [1; 2],
    (SPw (PCons (SNum 1) (SBool false) (PCons (SNum 0) (SBool true) PNil))), [2#1; 2#1], (1#1),
    (fun x => assoc x (combine [1; 2] [2#1; 2#1])).
  split; [vm_compute; reflexivity|].
  split; [vm_compute; reflexivity|].
  split; [intros x q H; exact H|].
  vm_compute. discriminate.
Qed.

Lemma seq_tuple_wrong :
  exists fds i ps e vs v rho,
    nth_error (summaries facts_seq_tuple fds) i = Some (Some (ps, e)) /\
    py_call fds i vs = Some v /\
    (forall x q, assoc x (combine ps vs) = Some q -> rho x = Some q) /\
    seval rho e <> Some v.
Proof.
  exists [w_tswap], 0%nat, [1; 2], (SBin Sub (SSym 2) (SSym 2)), [3#1; 5#1], (2#1),
    (fun x => assoc x (combine [1; 2] [3#1; 5#1])).
  split; [vm_compute; reflexivity|].
  split; [vm_compute; reflexivity|].
  split; [intros x q H; exact H|].
  vm_compute. discriminate.
Qed.

(** a non-trivial program for the non-vacuity example:
      def inner(a, b): return a - 2*b
      def outer(a, b):
          c = 0
          if a > 1:
              c = a            # assignment in one branch only
          elif a == b:
              a, b = b, a + 1
          d = inner(b, a) + c  # code after the if; arguments swapped onto the callee's names
          return d                                                              *)
Definition nv_inner : fundef :=
  mkFun [1; 2] [] [] (SCons (SReturn (EBin Sub (EVar 1) (EBin Mul (ENum 2) (EVar 2)))) SNil).
Definition nv_outer : fundef :=
  mkFun [1; 2] [] []
    (SCons (SAssign 3 (ENum 0))
    (SCons (SIf (CCmp (EVar 1) (ChCons Gt (ENum 1) ChNil))
              (SCons (SAssign 3 (EVar 1)) SNil)
              (SCons (SIf (CCmp (EVar 1) (ChCons CEq (EVar 2) ChNil))
                        (SCons (STuple [1; 2] (ECons (EVar 2) (ECons (EBin Add (EVar 1) (ENum 1)) ENil))) SNil)
                        SNil) SNil))
    (SCons (SAssign 4 (EBin Add (ECall 0 (ECons (EVar 2) (ECons (EVar 1) ENil))) (EVar 3)))
    (SCons (SReturn (EVar 4)) SNil)))).

Lemma nonvacuous_witness :
  exists e,
    fn_to_sympy expected_facts [nv_inner; nv_outer] 1 [SSym 2; SSym 1] = Some e /\
    py_call [nv_inner; nv_outer] 1 [3#1; 5#1] = Some (2#1) /\
    py_call [nv_inner; nv_outer] 1 [1#1; 1#1] = Some (0#1) /\
    Forall2 (fun m x => seval (fun x => assoc x [(2, 3#1); (1, 5#1)]) m = Some x) [SSym 2; SSym 1] [3#1; 5#1] /\
    seval (fun x => assoc x [(2, 3#1); (1, 5#1)]) e = Some (2#1) /\
    seval (fun x => assoc x [(2, 1#1); (1, 1#1)]) e = Some (0#1).
Proof.
  eexists. split; [vm_compute; reflexivity|].
  split; [vm_compute; reflexivity|].
  split; [vm_compute; reflexivity|].
  split; [repeat constructor|].
  split; vm_compute; reflexivity.
Qed.

(** ---- the shape of the ast.If block is load-bearing --------------------------------------------
    The translator model with the OTHER shapes the fact [f_cf] can take returns wrong expressions on
    the corpus witnesses (harness/c06_corpus.py: leak, after_else, guard_then_reassign). *)
Definition facts_cf (m : cf_mode) : facts :=
  mkFacts bin_tab un_tab cmp_tab true SubsSim TupSim StmtRaise m KwRefused true true ConstAtCall FbLastAssigned ArityStrictNonEmpty AnRefuse.
(** one copy handed to both recursive calls (seeded C07-2) *)
Definition facts_shared_copy : facts := facts_cf (CfContinuation BrShared BrShared).
(** the if-branch works on the enclosing table itself *)
Definition facts_if_on_ctx : facts := facts_cf (CfContinuation BrCtx BrCopy).
(** the copy is elided for a branch without a top-level assignment (seeded C06-1) *)
Definition facts_copy_if_binds : facts := facts_cf (CfContinuation BrCopyIfBinds BrCopyIfBinds).
(** the translator before /repo cc17922 *)
Definition facts_old_pieces : facts := facts_cf CfOldPieces.
(** constants through a per-module memo (seeded C06-3) *)
Definition facts_cached_consts : facts :=
  mkFacts bin_tab un_tab cmp_tab true SubsSim TupSim StmtRaise (CfContinuation BrCopy BrCopy) KwRefused true true ConstCached FbLastAssigned ArityStrictNonEmpty AnRefuse.

(** def leak(a):  b = 0 ; if a > 1: b = a ; return b *)
Definition w_leak : fundef :=
  mkFun [1] [] []
    (SCons (SAssign 2 (ENum 0))
    (SCons (SIf (CCmp (EVar 1) (ChCons Gt (ENum 1) ChNil)) (SCons (SAssign 2 (EVar 1)) SNil) SNil)
    (SCons (SReturn (EVar 2)) SNil))).
(** def after_else(a):  if a > 1: b = a   else: b = a**2 ;  return b + 1 *)
Definition w_after_else : fundef :=
  mkFun [1] [] []
    (SCons (SIf (CCmp (EVar 1) (ChCons Gt (ENum 1) ChNil))
              (SCons (SAssign 2 (EVar 1)) SNil)
              (SCons (SAssign 2 (EBin Pow (EVar 1) (ENum 2))) SNil))
    (SCons (SReturn (EBin Add (EVar 2) (ENum 1))) SNil)).
(** def guard_then_reassign(x, k):
        if x > 1:
            if k > 0: return k
        x = x * 2
        return x + 1 *)
Definition w_guard : fundef :=
  mkFun [1; 2] [] []
    (SCons (SIf (CCmp (EVar 1) (ChCons Gt (ENum 1) ChNil))
              (SCons (SIf (CCmp (EVar 2) (ChCons Gt (ENum 0) ChNil)) (SCons (SReturn (EVar 2)) SNil) SNil) SNil)
              SNil)
    (SCons (SAssign 1 (EBin Mul (EVar 1) (ENum 2)))
    (SCons (SReturn (EBin Add (EVar 1) (ENum 1))) SNil))).
(** def pass_then_reassign(x):  if x > 1: pass ;  x = x * 2 ;  return x + 1 *)
Definition w_pass_guard : fundef :=
  mkFun [1] [] []
    (SCons (SIf (CCmp (EVar 1) (ChCons Gt (ENum 1) ChNil)) (SCons SPass SNil) SNil)
    (SCons (SAssign 1 (EBin Mul (EVar 1) (ENum 2)))
    (SCons (SReturn (EBin Add (EVar 1) (ENum 1))) SNil))).

Definition wrong_on (fs : facts) (fd : fundef) (vs : list Q) : Prop :=
  exists ps e v rho,
    nth_error (summaries fs [fd]) 0 = Some (Some (ps, e)) /\
    py_call [fd] 0 vs = Some v /\
    (forall x q, assoc x (combine ps vs) = Some q -> rho x = Some q) /\
    seval rho e <> Some v.

Ltac wrong_witness ps e v vs :=
  exists ps, e, v, (fun x => assoc x (combine ps vs));
  split; [vm_compute; reflexivity|];
  split; [vm_compute; reflexivity|];
  split; [intros x q H; exact H|];
  vm_compute; discriminate.

(** branch leak: at a = 1 Python returns 0, the expression (a if a > 1 else a) returns 1 *)
Lemma shared_copy_leaks : wrong_on facts_shared_copy w_leak [1#1].
Proof.
  wrong_witness [1] (SPw (PCons (SSym 1) (SRel Gt (SSym 1) (SNum 1)) (PCons (SSym 1) (SBool true) PNil)))
                (0#1) [1#1].
Qed.
Lemma if_on_ctx_leaks : wrong_on facts_if_on_ctx w_leak [1#1].
Proof.
  wrong_witness [1] (SPw (PCons (SSym 1) (SRel Gt (SSym 1) (SNum 1)) (PCons (SSym 1) (SBool true) PNil)))
                (0#1) [1#1].
Qed.
Lemma old_pieces_leaks : wrong_on facts_old_pieces w_leak [1#1].
Proof.
  wrong_witness [1] (SPw (PCons (SSym 1) (SRel Gt (SSym 1) (SNum 1)) (PCons (SSym 1) (SBool true) PNil)))
                (0#1) [1#1].
Qed.
(** code after a complete if/else is dropped: at a = 2 Python returns 3, the expression 2 *)
Lemma old_pieces_drops_code : wrong_on facts_old_pieces w_after_else [2#1].
Proof.
  wrong_witness [1] (SPw (PCons (SSym 1) (SRel Gt (SSym 1) (SNum 1))
                         (PCons (SBin Pow (SSym 1) (SNum 2)) (SBool true) PNil)))
                (3#1) [2#1].
Qed.
(** guard-style if + self-referential reassignment: at (x, k) = (1, 0) Python returns 3, the
    expression applies  x = x * 2  twice on the path that skips the guard: 5 *)
Lemma copy_if_binds_doubles : wrong_on facts_copy_if_binds w_guard [1#1; 0#1].
Proof.
  unfold wrong_on. eexists [1; 2], _, (3#1), (fun x => assoc x (combine [1; 2] [1#1; 0#1])).
  split; [vm_compute; reflexivity|].
  split; [vm_compute; reflexivity|].
  split; [intros x q H; exact H|].
  vm_compute; discriminate.
Qed.
Lemma copy_if_binds_doubles_pass : wrong_on facts_copy_if_binds w_pass_guard [1#1].
Proof.
  unfold wrong_on. eexists [1], _, (3#1), (fun x => assoc x (combine [1] [1#1])).
  split; [vm_compute; reflexivity|].
  split; [vm_compute; reflexivity|].
  split; [intros x q H; exact H|].
  vm_compute; discriminate.
Qed.

(** with the shipped shape the same four programs are translated correctly at those points *)
Lemma per_path_right_on_witnesses :
  ~ wrong_on expected_facts w_leak [1#1] /\ ~ wrong_on expected_facts w_after_else [2#1] /\
  ~ wrong_on expected_facts w_guard [1#1; 0#1] /\ ~ wrong_on expected_facts w_pass_guard [1#1].
Proof.
  repeat split; intros [ps [e [v [rho [H1 [H2 [H3 H4]]]]]]];
    vm_compute in H1; vm_compute in H2; inversion H1; inversion H2; subst; apply H4;
    cbn [seval spw sevalc];
    repeat match goal with
           | |- context [rho ?x] => rewrite (H3 x _ eq_refl)
           end; vm_compute; reflexivity.
Qed.

(** ---- constants: a remembered table is a different function ------------------------------------
    def uses_k(a): return a * K     translated while K = 2.5, then K is rebound to 4 and the function
    is translated again: the memoised translator still embeds 2.5 *)
Definition w_uses_k : mfun := mkMFun [1] [] 0 (SCons (SReturn (EBin Mul (EVar 1) (EVar 50))) SNil).

Lemma cached_constants_wrong :
  exists first now ms i e vs v rho,
    translate facts_cached_consts [] first ms i [] = Some e /\     (* the earlier translation, K = 5/2 *)
    translate facts_cached_consts first now ms i [] = Some e /\    (* after rebinding: the SAME expression *)
    py_value now ms i vs = Some v /\
    (forall x q, assoc x (combine (mf_params w_uses_k) vs) = Some q -> rho x = Some q) /\
    seval rho e <> Some v.
Proof.
  exists [(0, [(50, 5#2)])], [(0, [(50, 4#1)])], [w_uses_k], 0%nat,
    (SBin Mul (SSym 1) (SNum (5#2))), [1#1], (4#1), (fun x => assoc x (combine [1] [1#1])).
  split; [vm_compute; reflexivity|].
  split; [vm_compute; reflexivity|].
  split; [vm_compute; reflexivity|].
  split; [intros x q H; exact H|].
  vm_compute. discriminate.
Qed.

(** non-vacuity for the constants theorem: with the shipped facts the second translation follows K *)
Lemma constants_nonvacuous :
  exists e,
    translate expected_facts [(0, [(50, 5#2)])] [(0, [(50, 4#1)])] [w_uses_k] 0 [SSym 7] = Some e /\
    py_value [(0, [(50, 4#1)])] [w_uses_k] 0 [3#1] = Some (12#1) /\
    seval (fun x => assoc x [(7, 3#1)]) e = Some (12#1).
Proof.
  eexists. split; [vm_compute; reflexivity|]. split; vm_compute; reflexivity.
Qed.

(** non-vacuity for whole-body refusal: an augmented assignment on ONE path behind two ifs
      def f(a):  if a > 1: (if a > 2: pass  else: a += 1) ;  return a          *)
Definition w_deep_other : fundef :=
  mkFun [1] [] []
    (SCons (SIf (CCmp (EVar 1) (ChCons Gt (ENum 1) ChNil))
              (SCons (SIf (CCmp (EVar 1) (ChCons Gt (ENum 2) ChNil)) (SCons SPass SNil) (SCons SOther SNil)) SNil)
              SNil)
    (SCons (SReturn (EVar 1)) SNil)).

(** ---- every construct the property text names, in ONE module pair, inside the theorems ----------
      module b (id 1, K = 3/2):   def g(x, y): return x * K - y
      module a (id 0, K = 5/2):   def f(a, b, c):
                                      if 0 <= a == b != c < 5:        # chain mixing <=, ==, !=, <
                                          r = g(b, a)                  # call into another module, arguments swapped
                                      elif a > b >= c:                 # elif chain (3 arms + else)
                                          a, b = b, a + K              # tuple assignment reading what it rebinds; constant
                                          r = a - b
                                      elif a != c:
                                          r = c if c > 2 else -c       # conditional expression
                                      else:
                                          return K                     # return in one branch only
                                      return r + 1                     # code after the if
    [w_constructs_kw] is the same with  g(b, y=a):  refused. *)
Definition cm_g : mfun := mkMFun [1; 2] [] 1 (SCons (SReturn (EBin Sub (EBin Mul (EVar 1) (EVar 50)) (EVar 2))) SNil).
Definition cm_f_with (call : expr) : mfun :=
  mkMFun [1; 2; 3] [] 0
    (SCons (SIf (CCmp (ENum 0) (ChCons LtE (EVar 1) (ChCons CEq (EVar 2) (ChCons CNe (EVar 3) (ChCons Lt (ENum 5) ChNil)))))
              (SCons (SAssign 4 call) SNil)
              (SCons (SIf (CCmp (EVar 1) (ChCons Gt (EVar 2) (ChCons GtE (EVar 3) ChNil)))
                        (SCons (STuple [1; 2] (ECons (EVar 2) (ECons (EBin Add (EVar 1) (EVar 50)) ENil)))
                        (SCons (SAssign 4 (EBin Sub (EVar 1) (EVar 2))) SNil))
                        (SCons (SIf (CCmp (EVar 1) (ChCons CNe (EVar 3) ChNil))
                                  (SCons (SAssign 4 (EIfExp (CCmp (EVar 3) (ChCons Gt (ENum 2) ChNil)) (EVar 3) (EUn USub (EVar 3)))) SNil)
                                  (SCons (SReturn (EVar 50)) SNil)) SNil)) SNil))
    (SCons (SReturn (EBin Add (EVar 4) (ENum 1))) SNil)).
Definition cm_f : mfun := cm_f_with (ECall 0 (ECons (EVar 2) (ECons (EVar 1) ENil))).
Definition cm_f_kw : mfun := cm_f_with (ECallKw 0 [0%nat; 1%nat] (ECons (EVar 2) (ECons (EVar 1) ENil))).
Definition cm_env : cenv := [(0, [(50, 5#2)]); (1, [(50, 3#2)])].
(** model names: a -> v2 (the name of the function's own b), b -> v1, c -> v9 *)
Definition cm_margs : list sexpr := [SSym 2; SSym 1; SSym 9].
Definition cm_rho (a b c : Q) : valuation := fun x => assoc x [(2, a); (1, b); (9, c)].

Lemma constructs_witness :
  exists e,
    translate expected_facts [] cm_env [cm_g; cm_f] 1 cm_margs = Some e /\
    (* one point per path *)
    py_value cm_env [cm_g; cm_f] 1 [1#1; 1#1; 2#1] = Some (3#2) /\ seval (cm_rho (1#1) (1#1) (2#1)) e = Some (3#2) /\
    py_value cm_env [cm_g; cm_f] 1 [3#1; 2#1; 2#1] = Some ((-5)#2) /\ seval (cm_rho (3#1) (2#1) (2#1)) e = Some ((-5)#2) /\
    py_value cm_env [cm_g; cm_f] 1 [1#1; 2#1; 3#1] = Some (4#1) /\ seval (cm_rho (1#1) (2#1) (3#1)) e = Some (4#1) /\
    py_value cm_env [cm_g; cm_f] 1 [1#1; 2#1; 1#1] = Some (5#2) /\ seval (cm_rho (1#1) (2#1) (1#1)) e = Some (5#2) /\
    (* keyword arguments in the nested call: refused, and the refusal predicate sees it *)
    translate expected_facts [] cm_env [cm_g; cm_f_kw] 1 cm_margs = None /\
    refuses_ss (mf_body cm_f_kw) false = true /\ refuses_ss (mf_body cm_f) false = false.
Proof.
  eexists. split; [vm_compute; reflexivity|].
  repeat split; vm_compute; reflexivity.
Qed.

(** ---- the arity rule of nested calls and DEFAULT arguments ---------------------------------------
      def saturation(s, n=2.0): return s**n / (1 + s**n)
      def hill(s, vmax):        return vmax * saturation(s)          # relies on the default
      def allopt(n=2.0):        return n * 3
      def caller0(a):           return a + allopt()                  # zero arguments, all defaulted *)
Definition facts_arity (m : arity_mode) : facts :=
  mkFacts bin_tab un_tab cmp_tab true SubsSim TupSim StmtRaise (CfContinuation BrCopy BrCopy) KwRefused true true
    ConstAtCall FbLastAssigned m AnRefuse.
Definition w_saturation : fundef :=
  mkFun [1; 2] [2#1] []
    (SCons (SReturn (EBin Div (EBin Pow (EVar 1) (EVar 2)) (EBin Add (ENum 1) (EBin Pow (EVar 1) (EVar 2))))) SNil).
Definition w_hill : fundef :=
  mkFun [1; 3] [] [] (SCons (SReturn (EBin Mul (EVar 3) (ECall 0 (ECons (EVar 1) ENil)))) SNil).
Definition w_allopt : fundef := mkFun [2] [2#1] [] (SCons (SReturn (EBin Mul (EVar 2) (ENum 3))) SNil).
Definition w_caller0 : fundef := mkFun [1] [] [] (SCons (SReturn (EBin Add (EVar 1) (ECall 0 ENil))) SNil).

(** zip without strict (seeded C07-6): hill is accepted, the helper's parameter n (name 2) stays a bare symbol;
    python hill(2, 3/2) = 3/2 * 4/5 = 6/5; under a valuation that also binds a model component called n to 4
    the expression gives 3/2 * 16/17 *)
Lemma truncating_zip_wrong :
  exists e rho,
    fn_to_sympy (facts_arity ArityTruncate) [w_saturation; w_hill] 1 [SSym 1; SSym 3] = Some e /\
    py_call [w_saturation; w_hill] 1 [2#1; 3#2] = Some (6#5) /\
    Forall2 (fun m x => seval rho m = Some x) [SSym 1; SSym 3] [2#1; 3#2] /\
    seval rho e <> Some (6#5).
Proof.
  eexists. exists (fun x => assoc x [(1, 2#1); (3, 3#2); (2, 4#1)]).
  split; [vm_compute; reflexivity|].
  split; [vm_compute; reflexivity|].
  split; [repeat constructor|].
  vm_compute. discriminate.
Qed.

(** both strict rules refuse hill *)
Lemma strict_zip_refuses_short_call :
  fn_to_sympy (facts_arity ArityStrict) [w_saturation; w_hill] 1 [SSym 1; SSym 3] = None /\
  fn_to_sympy (facts_arity ArityStrictNonEmpty) [w_saturation; w_hill] 1 [SSym 1; SSym 3] = None /\
  py_call [w_saturation; w_hill] 1 [2#1; 3#2] = Some (6#5).
Proof. repeat split; vm_compute; reflexivity. Qed.

(** the SHIPPED rule skips the zip for an empty argument list: caller0 is accepted with allopt's parameter n
    (name 2) as a free symbol; python caller0(1) = 7 *)
Lemma lenient_empty_call_wrong :
  exists e rho,
    fn_to_sympy (facts_arity ArityStrictNonEmpty) [w_allopt; w_caller0] 1 [SSym 1] = Some e /\
    py_call [w_allopt; w_caller0] 1 [1#1] = Some (7#1) /\
    Forall2 (fun m x => seval rho m = Some x) [SSym 1] [1#1] /\
    seval rho e <> Some (7#1).
Proof.
  eexists. exists (fun x => assoc x [(1, 1#1)]).
  split; [vm_compute; reflexivity|].
  split; [vm_compute; reflexivity|].
  split; [repeat constructor|].
  vm_compute. discriminate.
Qed.

Lemma strict_refuses_empty_call :
  fn_to_sympy (facts_arity ArityStrict) [w_allopt; w_caller0] 1 [SSym 1] = None /\
  ~ arity_ok (facts_arity ArityStrictNonEmpty) [w_allopt; w_caller0] /\
  arity_ok (facts_arity ArityStrictNonEmpty) [w_saturation; w_hill].
Proof.
  split; [vm_compute; reflexivity|]. split.
  - intro H. vm_compute in H. discriminate H.
  - vm_compute. reflexivity.
Qed.

(** non-vacuity with defaults: a helper with a defaulted trailing parameter called WITH the argument *)
Definition w_hill_explicit : fundef :=
  mkFun [1; 3] [] [] (SCons (SReturn (EBin Mul (EVar 3) (ECall 0 (ECons (EVar 1) (ECons (ENum 2) ENil))))) SNil).
Lemma defaults_nonvacuous :
  exists e,
    arity_ok expected_facts [w_saturation; w_hill_explicit] /\
    fn_to_sympy expected_facts [w_saturation; w_hill_explicit] 1 [SSym 3; SSym 1] = Some e /\
    py_call [w_saturation; w_hill_explicit] 1 [2#1; 3#2] = Some (6#5) /\
    py_call [w_saturation] 0 [2#1] = Some (4#5) /\
    seval (fun x => assoc x [(3, 2#1); (1, 3#2)]) e = Some (6#5).
Proof.
  eexists. split; [first [exact I | vm_compute; reflexivity]|].
  split; [vm_compute; reflexivity|].
  repeat split; vm_compute; reflexivity.
Qed.

(** ---- keyword arguments of a nested call (seeded C06-7) -------------------------------------------
      def mm(s, km, vmax):          return vmax * s / (km + s)
      def kw_other_order(s, k, v):  return mm(s, vmax=v, km=k)     # CPython binds BY NAME
      def kw_only(s, k, v):         return mm(vmax=v, s=s, km=k)
      def kw_param_order(s, k, v):  return mm(s, km=k, vmax=v)
    A translator that appends the keyword values to the positional arguments in the order they are written
    ([KwAppended]) reads the first two as mm(s, v, k) and mm(v, s, k). *)
Definition facts_kw (m : kw_mode) : facts :=
  mkFacts bin_tab un_tab cmp_tab true SubsSim TupSim StmtRaise (CfContinuation BrCopy BrCopy) m true true
    ConstAtCall C06_expected_fallback C06_expected_arity AnRefuse.
Definition w_mm : fundef :=
  mkFun [1; 2; 3] [] [] (SCons (SReturn (EBin Div (EBin Mul (EVar 3) (EVar 1)) (EBin Add (EVar 2) (EVar 1)))) SNil).
Definition w_kw_other_order : fundef :=
  mkFun [1; 4; 5] [] []
    (SCons (SReturn (ECallKw 0 [0; 2; 1]%nat (ECons (EVar 1) (ECons (EVar 5) (ECons (EVar 4) ENil))))) SNil).
Definition w_kw_only : fundef :=
  mkFun [1; 4; 5] [] []
    (SCons (SReturn (ECallKw 0 [2; 0; 1]%nat (ECons (EVar 5) (ECons (EVar 1) (ECons (EVar 4) ENil))))) SNil).
Definition w_kw_param_order : fundef :=
  mkFun [1; 4; 5] [] []
    (SCons (SReturn (ECallKw 0 [0; 1; 2]%nat (ECons (EVar 1) (ECons (EVar 4) (ECons (EVar 5) ENil))))) SNil).

Definition kw_rho : valuation := fun x => assoc x [(1, 1#1); (4, 1#1); (5, 3#1)].

(** python: mm(s=1, km=1, vmax=3) = 3/2;  appended: mm(1, 3, 1) = 1/4  and  mm(3, 1, 1) = 3/4 *)
Lemma keywords_appended_wrong :
  (exists e,
    fn_to_sympy (facts_kw KwAppended) [w_mm; w_kw_other_order] 1 [SSym 1; SSym 4; SSym 5] = Some e /\
    py_call [w_mm; w_kw_other_order] 1 [1#1; 1#1; 3#1] = Some (3#2) /\
    Forall2 (fun m x => seval kw_rho m = Some x) [SSym 1; SSym 4; SSym 5] [1#1; 1#1; 3#1] /\
    seval kw_rho e <> Some (3#2)) /\
  (exists e,
    fn_to_sympy (facts_kw KwAppended) [w_mm; w_kw_only] 1 [SSym 1; SSym 4; SSym 5] = Some e /\
    py_call [w_mm; w_kw_only] 1 [1#1; 1#1; 3#1] = Some (3#2) /\
    seval kw_rho e <> Some (3#2)).
Proof.
  split; eexists.
  - split; [vm_compute; reflexivity|].
    split; [vm_compute; reflexivity|].
    split; [repeat constructor|].
    vm_compute. discriminate.
  - split; [vm_compute; reflexivity|].
    split; [vm_compute; reflexivity|].
    vm_compute. discriminate.
Qed.

(** the shipped facts refuse all three callers (each HAS a value in Python: keywords are bound by name); written in
    parameter order even the appending translator is right *)
Lemma keywords_witnesses :
  fn_to_sympy expected_facts [w_mm; w_kw_other_order] 1 [SSym 1; SSym 4; SSym 5] = None /\
  fn_to_sympy expected_facts [w_mm; w_kw_only] 1 [SSym 1; SSym 4; SSym 5] = None /\
  fn_to_sympy expected_facts [w_mm; w_kw_param_order] 1 [SSym 1; SSym 4; SSym 5] = None /\
  py_call [w_mm; w_kw_other_order] 1 [1#1; 1#1; 3#1] = Some (3#2) /\
  py_call [w_mm; w_kw_only] 1 [1#1; 1#1; 3#1] = Some (3#2) /\
  py_call [w_mm; w_kw_param_order] 1 [1#1; 1#1; 3#1] = Some (3#2) /\
  py_call [w_mm] 0 [1#1; 3#1; 1#1] = Some (1#4) /\
  (exists e, fn_to_sympy (facts_kw KwAppended) [w_mm; w_kw_param_order] 1 [SSym 1; SSym 4; SSym 5] = Some e /\
             seval kw_rho e = Some (3#2)).
Proof.
  repeat (split; [vm_compute; reflexivity|]).
  eexists. split; vm_compute; reflexivity.
Qed.

(** ---- an assignment whose right-hand side has no expression (seeded C06-6) -------------------------
      vmax = 10.0                                    # module constant (name 50)
      def scaled(x, n=2.0): return x * n
      def rate(s):          vmax = scaled(s) ; return vmax * s     # relies on the default: None, not an exception
      def rate_round(s):    vmax = round(s)  ; return vmax * s     # round is no function of the module: None
      def rate_other(s):    w = scaled(s)    ; return w * s        # no module constant called w: KeyError
      def rate_local(s):    vmax = s * 2     ; return vmax * s     # a translatable local shadows the constant
    With [AnStore] the None is stored under `vmax`, the later read takes the local for "not a local" and
    substitutes the module constant: 10 * s  where Python computes 2 * s * s. *)
Definition facts_assign (m : assign_none_mode) : facts :=
  mkFacts bin_tab un_tab cmp_tab true SubsSim TupSim StmtRaise (CfContinuation BrCopy BrCopy) KwRefused true true
    ConstAtCall C06_expected_fallback C06_expected_arity m.
Definition w_scaled : fundef := mkFun [1; 2] [2#1] [(50, 10#1)] (SCons (SReturn (EBin Mul (EVar 1) (EVar 2))) SNil).
Definition w_rate_with (x : name) (rhs : expr) : fundef :=
  mkFun [1] [] [(50, 10#1)] (SCons (SAssign x rhs) (SCons (SReturn (EBin Mul (EVar x) (EVar 1))) SNil)).
Definition w_rate : fundef := w_rate_with 50 (ECall 0 (ECons (EVar 1) ENil)).
Definition w_rate_round : fundef := w_rate_with 50 (ECall 9 (ECons (EVar 1) ENil)).
Definition w_rate_other : fundef := w_rate_with 11 (ECall 0 (ECons (EVar 1) ENil)).
Definition w_rate_local : fundef := w_rate_with 50 (EBin Mul (EVar 1) (ENum 2)).

Lemma stored_none_wrong :
  exists e rho,
    fn_to_sympy (facts_assign AnStore) [w_scaled; w_rate] 1 [SSym 7] = Some e /\
    py_call [w_scaled; w_rate] 1 [3#1] = Some (18#1) /\
    Forall2 (fun m x => seval rho m = Some x) [SSym 7] [3#1] /\
    seval rho e <> Some (18#1).
Proof.
  eexists. exists (fun x => assoc x [(7, 3#1)]).
  split; [vm_compute; reflexivity|].
  split; [vm_compute; reflexivity|].
  split; [repeat constructor|].
  vm_compute. discriminate.
Qed.

Lemma stored_none_shapes :
  (* the shipped rule refuses both *)
  fn_to_sympy expected_facts [w_scaled; w_rate] 1 [SSym 7] = None /\
  fn_to_sympy expected_facts [w_scaled; w_rate_round] 1 [SSym 7] = None /\
  (* storing the None: the module constant takes the local's place (mm_rounded of the seeded demo) *)
  fn_to_sympy (facts_assign AnStore) [w_scaled; w_rate_round] 1 [SSym 7] = Some (SBin Mul (SNum (10#1)) (SSym 7)) /\
  (* without a constant of that name the read is a KeyError: still a visible failure *)
  fn_to_sympy (facts_assign AnStore) [w_scaled; w_rate_other] 1 [SSym 7] = None /\
  (* a translatable local shadows the constant under either rule, and that is what Python does *)
  fn_to_sympy (facts_assign AnStore) [w_scaled; w_rate_local] 1 [SSym 7] =
    fn_to_sympy expected_facts [w_scaled; w_rate_local] 1 [SSym 7] /\
  (exists e, fn_to_sympy expected_facts [w_scaled; w_rate_local] 1 [SSym 7] = Some e /\
             py_call [w_scaled; w_rate_local] 1 [3#1] = Some (18#1) /\
             seval (fun x => assoc x [(7, 3#1)]) e = Some (18#1)).
Proof.
  repeat (split; [vm_compute; reflexivity|]).
  eexists. repeat split; vm_compute; reflexivity.
Qed.
