(** Second batch of proofs for C06:
      - refusal is visible for whole BODIES: an unsupported statement / expression in any position the
        translator reaches (on ANY path through the ifs; code after a return is dead) refuses the function;
      - the table-threading model of the other if-block shapes ([tbody_sh]) specialised to "every branch
        gets its own copy" IS the pure model [tbody] the soundness theorem is about;
      - soundness for every constant environment (ConstEnv.v), and independence of the history. *)
From FnSym Require Import FnToSym ConstEnv SymProofs FnToSymProofs.
From Coq Require Import Lia.
Local Open Scope nat_scope.

Local Notation ef := expected_facts.

(** * Whole-body refusal *)

(** [refuses_ss ss k]: the translator is certain to refuse [ss] followed by a continuation whose
    refusal is [k].  A return ends the path (what follows is dead code and not looked at); an `if`
    sends BOTH branches into the continuation. *)
Fixpoint refuses_ss (ss : stmts) (k : bool) : bool :=
  match ss with
  | SNil => k
  | SCons s r => refuses_s s (refuses_ss r k)
  end
with refuses_s (s : stmt) (k : bool) : bool :=
  match s with
  | SReturn e => unsupported_e e
  | SReturnNone => true
  | SOther => true
  | SPass => k
  | SAssign _ e => unsupported_e e || k
  | STuple _ es => unsupported_es es || k
  | SIf c a b => unsupported_c c || refuses_ss a k || refuses_ss b k
  end.

Lemma refuses_sapp : forall a r k, refuses_ss (sapp a r) k = refuses_ss a (refuses_ss r k).
Proof.
  induction a as [|s a IH]; intros r k; cbn [sapp refuses_ss].
  - reflexivity.
  - rewrite IH. reflexivity.
Qed.

Lemma body_refused : forall S G fuel body rem sigma e,
  refuses_ss rem false = true -> tbody ef S G fuel body rem sigma <> TOk e.
Proof.
  intros S G. induction fuel as [|n IH]; intros body rem sigma e H.
  - discriminate.
  - destruct rem as [|s rest].
    + discriminate H.
    + rewrite tbody_SCons. cbn [refuses_ss] in H.
      destruct s as [x e0|xs es|c a b|e0| | |]; cbn [refuses_s] in H.
      * (* SAssign *) apply orb_true_iff in H. destruct H as [H|H].
        -- rewrite (proj1 (unsupported_all S G) e0 H sigma). discriminate.
        -- destruct (texpr ef S G sigma e0); [apply IH; exact H | rewrite assign_none_ef; discriminate].
      * (* STuple *) unfold ttuple. change (f_tuple ef) with TupSim. cbv beta iota.
        apply orb_true_iff in H. destruct H as [H|H].
        -- rewrite (proj2 (proj2 (proj2 (unsupported_all S G))) es H sigma). discriminate.
        -- destruct (targs ef S G sigma es) as [ss|]; [|discriminate].
           destruct (Nat.eqb (length xs) (length ss)); [apply IH; exact H | discriminate].
      * (* SIf *) change (f_cf ef) with (CfContinuation BrCopy BrCopy). cbv beta iota.
        apply orb_true_iff in H. destruct H as [H|H]; [apply orb_true_iff in H; destruct H as [H|H]|].
        -- rewrite (proj1 (proj2 (unsupported_all S G)) c H sigma).
           destruct (tbody ef S G n (sapp a rest) (sapp a rest) sigma);
             destruct (tbody ef S G n (sapp b rest) (sapp b rest) sigma); discriminate.
        -- rewrite <- refuses_sapp in H.
           pose proof (IH (sapp a rest) (sapp a rest) sigma) as Ha.
           destruct (tbody ef S G n (sapp a rest) (sapp a rest) sigma) as [ie| |].
           ++ exfalso. exact (Ha ie H eq_refl).
           ++ destruct (tbody ef S G n (sapp b rest) (sapp b rest) sigma); discriminate.
           ++ discriminate.
        -- rewrite <- refuses_sapp in H.
           pose proof (IH (sapp b rest) (sapp b rest) sigma) as Hb.
           destruct (tbody ef S G n (sapp b rest) (sapp b rest) sigma) as [ee| |].
           ++ exfalso. exact (Hb ee H eq_refl).
           ++ destruct (tbody ef S G n (sapp a rest) (sapp a rest) sigma); discriminate.
           ++ destruct (tbody ef S G n (sapp a rest) (sapp a rest) sigma); discriminate.
      * (* SReturn *) rewrite (proj1 (unsupported_all S G) e0 H sigma). discriminate.
      * (* SReturnNone *) discriminate.
      * (* SPass *) apply IH. exact H.
      * (* SOther *) discriminate.
Qed.

Lemma tfun_refused : forall S fd, refuses_ss (fd_body fd) false = true -> tfun ef S fd = None.
Proof.
  intros S fd H. unfold tfun, tbody_top.
  change (f_cf ef) with (CfContinuation BrCopy BrCopy). cbv beta iota.
  pose proof (body_refused S (fd_globals fd) (Datatypes.S (ssize (fd_body fd))) (fd_body fd) (fd_body fd)
                (map (fun p => (p, SSym p)) (fd_params fd))) as Hb.
  destruct (tbody ef S (fd_globals fd) (Datatypes.S (ssize (fd_body fd))) (fd_body fd) (fd_body fd)
              (map (fun p => (p, SSym p)) (fd_params fd))) as [e| |]; try reflexivity.
  exfalso. exact (Hb e H eq_refl).
Qed.

Lemma tfun_refused_fs : forall fs, fs = expected_facts ->
  forall S fd, refuses_ss (fd_body fd) false = true -> tfun fs S fd = None.
Proof. intros fs Hfs. subst fs. exact tfun_refused. Qed.

(** the i-th summary of a module is [tfun] of the i-th definition (over the summaries before it) *)
Lemma summaries_from_prefix : forall fs fds S j,
  j < length S -> nth_error (summaries_from fs fds S) j = nth_error S j.
Proof.
  intros fs. induction fds as [|fd r IH]; intros S j Hj.
  - reflexivity.
  - cbn [summaries_from]. rewrite IH by (rewrite app_length; simpl; lia).
    apply nth_error_app1. exact Hj.
Qed.

Lemma summaries_from_nth : forall fs fds S i fd,
  nth_error fds i = Some fd ->
  exists S', nth_error (summaries_from fs fds S) (length S + i) = Some (tfun fs S' fd).
Proof.
  intros fs. induction fds as [|fd0 r IH]; intros S i fd H.
  - destruct i; discriminate H.
  - cbn [summaries_from]. destruct i as [|i]; simpl in H.
    + inversion H; subst fd0. exists S.
      rewrite summaries_from_prefix by (rewrite app_length; simpl; lia).
      rewrite Nat.add_0_r, nth_error_app2 by lia. rewrite Nat.sub_diag. reflexivity.
    + destruct (IH (S ++ [tfun fs S fd0]) i fd H) as [S' HS'].
      exists S'. rewrite app_length in HS'. simpl in HS'.
      replace (length S + Datatypes.S i) with (length S + 1 + i) by lia. exact HS'.
Qed.

Lemma module_refused : forall fs, fs = expected_facts -> forall fds i fd margs,
  nth_error fds i = Some fd -> refuses_ss (fd_body fd) false = true ->
  fn_to_sympy fs fds i margs = None.
Proof.
  intros fs Hfs fds i fd margs Hn Hb. subst fs. unfold fn_to_sympy, summaries.
  destruct (summaries_from_nth ef fds [] i fd Hn) as [S' HS']. simpl in HS'.
  rewrite HS', (tfun_refused S' fd Hb). reflexivity.
Qed.

(** * The threaded model with copies = the pure model *)

Lemma tbody_sh_S : forall fs S G bi be n body s rest sigma,
  tbody_sh fs S G bi be (Datatypes.S n) body (SCons s rest) sigma =
  match s with
  | SIf c a b =>
      let cond := tcond fs S G sigma c in
      let r1 := tbody_sh fs S G bi be n (sapp a rest) (sapp a rest) sigma in
      let ctx1 := if on_ctx bi a then snd r1 else sigma in
      let shared := match bi with BrShared => snd r1 | _ => ctx1 end in
      let r2 := tbody_sh fs S G bi be n (sapp b rest) (sapp b rest)
                  (match be with BrShared => shared | _ => ctx1 end) in
      let ctx2 := if on_ctx be b then snd r2 else ctx1 in
      (join_if cond (fst r1) (fst r2), ctx2)
  | SReturn e => (lift (texpr fs S G sigma e), sigma)
  | SReturnNone => (TRefused, sigma)
  | SAssign x e =>
      match texpr fs S G sigma e with
      | Some v => tbody_sh fs S G bi be n body rest ((x, v) :: sigma)
      | None =>
          match assign_none fs S G sigma x e with
          | Some sigma' => tbody_sh fs S G bi be n body rest sigma'
          | None => (TRefused, sigma)
          end
      end
  | STuple xs es =>
      match ttuple fs S G sigma xs es with
      | Some sigma' => tbody_sh fs S G bi be n body rest sigma'
      | None => (TRefused, sigma)
      end
  | SPass => tbody_sh fs S G bi be n body rest sigma
  | SOther =>
      match f_stmt_else fs with
      | StmtSkip => tbody_sh fs S G bi be n body rest sigma
      | _ => (TRefused, sigma)
      end
  end.
Proof. reflexivity. Qed.

(** the fuel suffices for every sharing discipline, too *)
Lemma tbody_sh_fuel : forall fs S G bi be fuel body rem sigma,
  ssize rem < fuel -> fst (tbody_sh fs S G bi be fuel body rem sigma) <> TOutOfFuel.
Proof.
  intros fs S G bi be. induction fuel as [|n IH]; intros body rem sigma H.
  - lia.
  - destruct rem as [|s rest].
    + change (fst (fallback fs body sigma, sigma) <> TOutOfFuel). cbn [fst]. unfold fallback.
      destruct (f_fallback fs); try discriminate.
      destruct (last_assign body None) as [x|]; [destruct (assoc x sigma)|]; discriminate.
    + rewrite tbody_sh_S. destruct s as [x e|xs es|c a b|e| | |]; simpl in H.
      * destruct (texpr fs S G sigma e); [apply IH; lia |].
        destruct (assign_none fs S G sigma x e); [apply IH; lia | discriminate].
      * destruct (ttuple fs S G sigma xs es); [apply IH; lia | discriminate].
      * cbv zeta. cbn [fst].
        match goal with
        | |- join_if _ (fst ?r1) (fst ?r2) <> _ =>
            assert (H1 : fst r1 <> TOutOfFuel) by (apply IH; rewrite ssize_sapp; lia);
            assert (H2 : fst r2 <> TOutOfFuel) by (apply IH; rewrite ssize_sapp; lia);
            destruct (fst r1) as [ie| |]; destruct (fst r2) as [ee| |]; try congruence; try discriminate
        end.
        unfold join_if. destruct (tcond fs S G sigma c); [destruct ee|]; discriminate.
      * cbn [fst]. destruct (texpr fs S G sigma e); discriminate.
      * discriminate.
      * apply IH; lia.
      * destruct (f_stmt_else fs); try discriminate; apply IH; lia.
Qed.

Lemma threaded_never_out_of_fuel : forall fs S G bi be body sigma,
  fst (tbody_sh fs S G bi be (Datatypes.S (ssize body)) body body sigma) <> TOutOfFuel.
Proof. intros. apply tbody_sh_fuel. lia. Qed.

Lemma threaded_copy_is_pure : forall fs, f_cf fs = CfContinuation BrCopy BrCopy ->
  forall S G fuel body rem sigma,
    fst (tbody_sh fs S G BrCopy BrCopy fuel body rem sigma) = tbody fs S G fuel body rem sigma.
Proof.
  intros fs Hcf S G. induction fuel as [|n IH]; intros body rem sigma.
  - reflexivity.
  - destruct rem as [|s rest].
    + reflexivity.
    + rewrite tbody_sh_S, tbody_SCons.
      destruct s as [x e0|xs es|c a b|e0| | |].
      * destruct (texpr fs S G sigma e0); [apply IH |].
        destruct (assign_none fs S G sigma x e0); [apply IH | reflexivity].
      * destruct (ttuple fs S G sigma xs es); [apply IH | reflexivity].
      * rewrite Hcf. cbv beta iota zeta. cbn [on_ctx fst snd].
        rewrite !IH. unfold join_if. reflexivity.
      * reflexivity.
      * reflexivity.
      * apply IH.
      * destruct (f_stmt_else fs); try reflexivity. apply IH.
Qed.

(** * Constants: every environment, no history *)

Lemma sound_constants_renamed : forall fs, fs = expected_facts ->
  forall first now ms i margs e vs v rho,
    arity_ok fs (map (at_env now) ms) ->
    margs <> [] ->
    translate fs first now ms i margs = Some e ->
    py_value now ms i vs = Some v ->
    Forall2 (fun m x => seval rho m = Some x) margs vs ->
    seval rho e = Some v.
Proof.
  intros fs Hfs first now ms i margs e vs v rho Hok Hne Ht Hp HF. subst fs.
  unfold translate, env_used in Ht. change (f_const ef) with ConstAtCall in Ht. cbv beta iota in Ht.
  exact (sound_renamed ef eq_refl _ _ _ _ _ _ _ Hok Hne Ht Hp HF).
Qed.

Lemma sound_constants_unrenamed : forall fs, fs = expected_facts ->
  forall first now ms i ps e vs v rho,
    arity_ok fs (map (at_env now) ms) ->
    translate_summary fs first now ms i = Some (ps, e) ->
    py_value now ms i vs = Some v ->
    length ps = length vs ->
    (forall x q, assoc x (combine ps vs) = Some q -> rho x = Some q) ->
    seval rho e = Some v.
Proof.
  intros fs Hfs first now ms i ps e vs v rho Hok Ht Hp Hlen Hext. subst fs.
  unfold translate_summary, env_used in Ht. change (f_const ef) with ConstAtCall in Ht.
  cbv beta iota in Ht.
  destruct (nth_error (summaries ef (map (at_env now) ms)) i) as [su|] eqn:Hn; [|discriminate Ht].
  subst su.
  exact (sound_unrenamed ef eq_refl _ _ _ _ _ _ _ Hok Hn Hp Hlen Hext).
Qed.

Lemma translate_history_free : forall fs, fs = expected_facts ->
  forall first first' now ms i margs,
    translate fs first now ms i margs = translate fs first' now ms i margs.
Proof. intros fs Hfs. subst fs. reflexivity. Qed.

(** * An assignment without an expression refuses the body (whatever made the right-hand side fail) *)

Lemma assign_without_expression_refuses : forall fs, fs = expected_facts ->
  forall S G fuel body rest sigma,
    (forall x e, texpr fs S G sigma e = None ->
       tbody fs S G (Datatypes.S fuel) body (SCons (SAssign x e) rest) sigma = TRefused) /\
    (forall xs es, ttuple fs S G sigma xs es = None ->
       tbody fs S G (Datatypes.S fuel) body (SCons (STuple xs es) rest) sigma = TRefused).
Proof.
  intros fs Hfs S G fuel body rest sigma. subst fs. split.
  - intros x e H. rewrite tbody_SCons, H, assign_none_ef. reflexivity.
  - intros xs es H. rewrite tbody_SCons, H. reflexivity.
Qed.

(** * Keyword arguments written in parameter order mean the positional call *)

Lemma find_slot_seq : forall n k j (vs : list Q),
  length vs = n -> j < n -> find_slot (k + j) (seq k n) vs = nth_error vs j.
Proof.
  induction n as [|n IH]; intros k j vs Hl Hj.
  - lia.
  - destruct vs as [|v vs']; [discriminate Hl|]. cbn [seq find_slot].
    destruct j as [|j'].
    + rewrite Nat.add_0_r, Nat.eqb_refl. reflexivity.
    + destruct (Nat.eqb k (k + Datatypes.S j')) eqn:E; [apply Nat.eqb_eq in E; lia|].
      replace (k + Datatypes.S j') with (Datatypes.S k + j') by lia.
      cbn [nth_error]. apply IH; [simpl in Hl; lia | lia].
Qed.

Lemma arrange_from_seq : forall (vs : list Q) m j0,
  j0 + m = length vs ->
  arrange_from (seq j0 m) (seq 0 (length vs)) vs = Some (skipn j0 vs).
Proof.
  intros vs. induction m as [|m IH]; intros j0 H.
  - cbn [seq arrange_from]. rewrite skipn_all2 by lia. reflexivity.
  - cbn [seq arrange_from].
    pose proof (find_slot_seq (length vs) 0 j0 vs eq_refl ltac:(lia)) as Hf.
    cbn [Nat.add] in Hf. rewrite Hf. clear Hf.
    rewrite IH by lia.
    destruct (nth_error vs j0) as [v|] eqn:E.
    + f_equal. clear IH H. revert j0 E. induction vs as [|a vs IHv]; intros j0 E.
      * destruct j0; discriminate E.
      * destruct j0 as [|j0]; cbn [nth_error] in E.
        -- inversion E; subst. reflexivity.
        -- cbn [skipn]. apply IHv. exact E.
    + apply nth_error_None in E. lia.
Qed.

Lemma arrange_identity : forall vs : list Q, arrange (seq 0 (length vs)) vs = Some vs.
Proof.
  intros vs. unfold arrange. rewrite seq_length, Nat.eqb_refl.
  rewrite (arrange_from_seq vs (length vs) 0) by lia. reflexivity.
Qed.

Lemma evals_length : forall F G rho es vs, evals F G rho es = Some vs -> length vs = elen es.
Proof.
  intros F G rho. induction es as [|e r IH]; intros vs H.
  - rewrite evals_ENil in H. inversion H. reflexivity.
  - rewrite evals_ECons in H.
    destruct (eval F G rho e); [|discriminate H].
    destruct (evals F G rho r) as [vs'|]; [|discriminate H].
    inversion H; subst. cbn [length elen]. rewrite (IH vs' eq_refl). reflexivity.
Qed.

Lemma keywords_in_parameter_order : forall F G rho f args,
  eval F G rho (ECallKw f (seq 0 (elen args)) args) = eval F G rho (ECall f args).
Proof.
  intros F G rho f args. rewrite eval_ECallKw, eval_ECall.
  destruct (evals F G rho args) as [vs|] eqn:E; [|reflexivity].
  rewrite <- (evals_length _ _ _ _ _ E), arrange_identity. reflexivity.
Qed.
