(** The expectations of C06 that depend on whether a proposed repair is in /repo.

    fixes/C06-no-return-no-expression.diff removes the "return the last assigned variable" fallback of
    `_handle_fn_body` (a body that falls off its end returns None in Python, so there is nothing to
    translate).  The fact `f_fallback` says which of the two the source has; the pinned facts expect:

      FbLastAssigned   SNAPSHOT of the shipped code (finding C06-fallthrough-callee-compared is recorded)
      FbRaise          the repaired code

    Flip with  python3 tools/c06_switch.py fallback repaired <commit>   (and back with `snapshot`).  Every theorem of
    the area is proved for BOTH values (nothing in the proofs computes the fallback). *)
Inductive fb_mode := FbLastAssigned | FbRaise | FbUnknown.

(** SECOND expectation: the arity rule of fn_to_sympy's final substitution
      `if model_args is not None and len(model_args): expr.subs(dict(zip(fn_args, model_args, strict=True)), ...)`.

      ArityStrictNonEmpty  SNAPSHOT of the shipped code: the strict zip refuses every arity mismatch EXCEPT an empty
                           argument list, which skips the substitution -- a nested call `helper()` of a helper whose
                           parameters all have defaults leaves the helper's parameter symbols in the expression
                           (finding C06 zero-arg-call-of-defaulted-helper)
      ArityStrict          fixes/C06-empty-call-arity.diff: `if model_args is not None:` -- every mismatch refuses
      ArityTruncate        zip without strict (seeded C07-6): a missing trailing argument stays a bare symbol

    Flip with  python3 tools/c06_switch.py arity repaired <commit>.  The soundness theorems carry the hypothesis
    [arity_ok], which is [True] for ArityStrict and the guard "no function has ALL its parameters defaulted" for the
    snapshot. *)
Inductive arity_mode := ArityStrict | ArityStrictNonEmpty | ArityTruncate | ArityUnknown.

Definition C06_expected_fallback : fb_mode := FbRaise.
Definition C06_expected_arity : arity_mode := ArityStrict.
