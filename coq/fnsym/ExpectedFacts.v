(** The expectations of C06 that depend on whether a proposed repair is in /repo.

    fixes/C06-no-return-no-expression.diff removes the "return the last assigned variable" fallback of
    `_handle_fn_body` (a body that falls off its end returns None in Python, so there is nothing to
    translate).  The fact `f_fallback` says which of the two the source has; the pinned facts expect:

      FbLastAssigned   SNAPSHOT of the shipped code (finding C06-fallthrough-callee-compared is recorded)
      FbRaise          the repaired code

    Flip with  python3 tools/c06_switch.py fallback repaired <commit>   (and back with `snapshot`).  Every theorem of
    the area is proved for BOTH values (nothing in the proofs computes the fallback). *)
Inductive fb_mode := FbLastAssigned | FbRaise | FbUnknown.

(** SECOND expectation: the arity rule of fn_to_sympy's final substitution
      `if model_args is not None and len(model_args): expr.subs(dict(zip(fn_args, model_args, strict=True)), ...)`.

      ArityStrictNonEmpty  SNAPSHOT of the shipped code: the strict zip refuses every arity mismatch EXCEPT an empty
                           argument list, which skips the substitution -- a nested call `helper()` of a helper whose
                           parameters all have defaults leaves the helper's parameter symbols in the expression
                           (finding C06 zero-arg-call-of-defaulted-helper)
      ArityStrict          fixes/C06-empty-call-arity.diff: `if model_args is not None:` -- every mismatch refuses
      ArityTruncate        zip without strict (seeded C07-6): a missing trailing argument stays a bare symbol

    Flip with  python3 tools/c06_switch.py arity repaired <commit>.  The soundness theorems carry the hypothesis
    [arity_ok], which is [True] for ArityStrict and the guard "no function has ALL its parameters defaulted" for the
    snapshot. *)
Inductive arity_mode := ArityStrict | ArityStrictNonEmpty | ArityTruncate | ArityUnknown.

Definition C06_expected_fallback : fb_mode := FbRaise.
Definition C06_expected_arity : arity_mode := ArityStrict.

(** THIRD expectation (round-3 closing): function-local imports with an alias.  `_handle_fn_body` records a
    function-local `from m import a as b` / `import a.b as c` in ctx.fns / ctx.modules / ctx.symbols:

      AliasIgnored    SNAPSHOT of the shipped code: under `alias.name` -- the name b (c) the function really uses stays
                      unknown to the translator (or, worse, resolves to the MODULE-LEVEL binding of b), and the name a is
                      bound for the translator although Python did not bind it: `from slow import scale as sc; return scale(s)`
                      is translated with slow.scale while Python calls the module-level scale
                      (finding C06 local-import-alias-ignored)
      AliasHonoured   fixes/C06-import-alias.diff: under `alias.asname or alias.name`, as Python binds it

    Flip with  python3 tools/c06_switch.py alias repaired <commit>. *)
Inductive alias_mode := AliasHonoured | AliasIgnored | AliasUnknown.

(** FOURTH expectation: what `get_fn_ast` does with a LAMBDA.  inspect.getsource(lambda) is the whole source statement
    the lambda is written in:

      LamDefLine        SNAPSHOT of the shipped code: refused ("Not a function") unless that statement is a `def` (the lambda
                        is a default value or a decorator argument of it) -- then the DEF is translated in the lambda's
                        place (finding C06 lambda-on-def-line)
      LamRefused        fixes/C06-lambda-not-a-def.diff: a lambda is always refused
      LamFirstMatching  seeded C06-10: the first ast.Lambda (ast.walk order) of the statement whose parameter names equal
                        the lambda's is wrapped as a def -- every lambda of a statement with the same parameter list is
                        translated from the body of the first

    Flip with  python3 tools/c06_switch.py lambda repaired <commit>. *)
Inductive lambda_mode := LamRefused | LamDefLine | LamFirstMatching | LamUnknown.

Definition C06_expected_alias : alias_mode := AliasHonoured.
Definition C06_expected_lambda : lambda_mode := LamRefused.
