(** Regression witnesses for name resolution and lambdas: the variant rules are WRONG on concrete programs
    (computed inside Coq), the expected rules are right on the same programs. *)
From FnSym Require Import FnToSym ConstEnv Resolve ResolveProofs.
Open Scope N_scope.

Definition named_wrong_on (fs : facts) (rf : rfacts) (modlevel : N -> table) (ns : list nfun) (i : nat)
  (margs : list sexpr) (vs : list Q) : Prop :=
  exists e v rho,
    translate fs [] [] (resolve_prog rf modlevel ns) i margs = Some e /\
    py_value [] (py_resolve_prog modlevel ns) i vs = Some v /\
    Forall2 (fun m x => seval rho m = Some x) margs vs /\
    seval rho e <> Some v.

Definition named_right_on (fs : facts) (rf : rfacts) (modlevel : N -> table) (ns : list nfun) (i : nat)
  (margs : list sexpr) (vs : list Q) : Prop :=
  exists e v rho,
    translate fs [] [] (resolve_prog rf modlevel ns) i margs = Some e /\
    py_value [] (py_resolve_prog modlevel ns) i vs = Some v /\
    Forall2 (fun m x => seval rho m = Some x) margs vs /\
    seval rho e = Some v.

(** names: 1 = scale, 7 = sc; variables: 1 = s / x, 2 = k.
    module 1 (fast): def scale(x): return 2 * x       module 2 (slow): def scale(x): return 3 * x
    module 0 (rates): `from fast import scale` at module level *)
Definition w_fast_scale : nfun := mkNFun [] (mkMFun [1] [] 1 (SCons (SReturn (EBin Mul (ENum 2) (EVar 1))) SNil)).
Definition w_slow_scale : nfun := mkNFun [] (mkMFun [1] [] 2 (SCons (SReturn (EBin Mul (ENum 3) (EVar 1))) SNil)).
Definition w_modlevel : N -> table := fun m => if m =? 0 then [(1, 0)] else [].

(** def local_fn(s): from slow import scale; return scale(s) *)
Definition w_local_fn : nfun :=
  mkNFun [mkImp 1 1 1] (mkMFun [1] [] 0 (SCons (SReturn (ECall 1 (ECons (EVar 1) ENil))) SNil)).
(** def alias_fn(s): from slow import scale as sc; return scale(s)        -- Python calls the module-level scale *)
Definition w_alias_fn : nfun :=
  mkNFun [mkImp 1 7 1] (mkMFun [1] [] 0 (SCons (SReturn (ECall 1 (ECons (EVar 1) ENil))) SNil)).
(** def alias_use(s): from slow import scale as sc; return sc(s) *)
Definition w_alias_use : nfun :=
  mkNFun [mkImp 1 7 1] (mkMFun [1] [] 0 (SCons (SReturn (ECall 7 (ECons (EVar 1) ENil))) SNil)).

Definition rf_module_wins : rfacts := mkRFacts ScopeModuleWins AliasHonoured LamRefused.
Definition rf_alias_ignored : rfacts := mkRFacts ScopeLocalWins AliasIgnored LamRefused.
Definition rf_repaired : rfacts := mkRFacts ScopeLocalWins AliasHonoured LamRefused.

Definition pt1 : valuation := fun x => if x =? 1 then Some (1#1) else None.

Ltac named_witness e v :=
  exists e, v, pt1;
  split; [vm_compute; reflexivity|];
  split; [vm_compute; reflexivity|];
  split; [repeat constructor|].

(** seeded C06-9: with the operands of the merge swapped the module-level `scale` (2 x) is translated where
    Python calls the locally imported one (3 x) *)
Lemma module_wins_wrong :
  named_wrong_on expected_facts rf_module_wins w_modlevel [w_fast_scale; w_slow_scale; w_local_fn] 2 [SSym 1] [1#1].
Proof. named_witness (SBin Mul (SNum 2) (SSym 1)) (3#1). vm_compute. discriminate. Qed.

Lemma local_wins_right :
  named_right_on expected_facts rf_repaired w_modlevel [w_fast_scale; w_slow_scale; w_local_fn] 2 [SSym 1] [1#1]
  /\ named_right_on expected_facts rf_alias_ignored w_modlevel [w_fast_scale; w_slow_scale; w_local_fn] 2 [SSym 1] [1#1].
Proof. split; named_witness (SBin Mul (SNum 3) (SSym 1)) (3#1); vm_compute; reflexivity. Qed.

(** finding local-import-alias-ignored: the shipped rule binds `scale` (the name before `as`) for the translator *)
Lemma alias_ignored_wrong :
  named_wrong_on expected_facts rf_alias_ignored w_modlevel [w_fast_scale; w_slow_scale; w_alias_fn] 2 [SSym 1] [1#1].
Proof. named_witness (SBin Mul (SNum 3) (SSym 1)) (2#1). vm_compute. discriminate. Qed.

(** ... and does not know `sc`: a function that USES its alias is refused (visible, sound) *)
Lemma alias_ignored_refuses_use :
  translate expected_facts [] [] (resolve_prog rf_alias_ignored w_modlevel [w_fast_scale; w_slow_scale; w_alias_use]) 2 [SSym 1] = None
  /\ py_value [] (py_resolve_prog w_modlevel [w_fast_scale; w_slow_scale; w_alias_use]) 2 [1#1] = Some (3#1).
Proof. split; vm_compute; reflexivity. Qed.

Lemma alias_honoured_right :
  named_right_on expected_facts rf_repaired w_modlevel [w_fast_scale; w_slow_scale; w_alias_fn] 2 [SSym 1] [1#1]
  /\ named_right_on expected_facts rf_repaired w_modlevel [w_fast_scale; w_slow_scale; w_alias_use] 2 [SSym 1] [1#1].
Proof.
  split; [named_witness (SBin Mul (SNum 2) (SSym 1)) (2#1)|named_witness (SBin Mul (SNum 3) (SSym 1)) (3#1)];
    vm_compute; reflexivity.
Qed.

(** ---- lambdas.  RATES = {"fwd": lambda s, k: k * s, "bwd": lambda s, k: k * s / (1.0 + s)} *)
Definition w_fwd : lam := mkLam [1; 2] (EBin Mul (EVar 2) (EVar 1)).
Definition w_bwd : lam := mkLam [1; 2] (EBin Div (EBin Mul (EVar 2) (EVar 1)) (EBin Add (ENum 1) (EVar 1))).
Definition w_rates : lam_stmt := mkLamStmt None [w_fwd; w_bwd].
(** fwd_named, bwd_named = (lambda a, kf: kf * a), (lambda b, kr: kr * b / (1.0 + b)) *)
Definition w_bwd_named : lam := mkLam [3; 4] (EBin Div (EBin Mul (EVar 4) (EVar 3)) (EBin Add (ENum 1) (EVar 3))).
Definition w_named : lam_stmt := mkLamStmt None [w_fwd; w_bwd_named].

Definition rf_first_matching : rfacts := mkRFacts ScopeLocalWins AliasHonoured LamFirstMatching.
Definition rf_def_line : rfacts := mkRFacts ScopeLocalWins AliasHonoured LamDefLine.

Definition pt11 : valuation := fun x => if (x =? 1) || (x =? 2) then Some (1#1) else None.

Definition lambda_wrong_on (fs : facts) (rf : rfacts) (st : lam_stmt) (i : nat) (margs : list sexpr) (rho : valuation) (vs : list Q) : Prop :=
  exists e v,
    translate_lambda rf fs [] [] [] 0 st i margs = Some e /\
    py_lambda [] [] 0 st i vs = Some v /\
    Forall2 (fun m x => seval rho m = Some x) margs vs /\
    seval rho e <> Some v.

(** model_args = None: the expression is over the lambda's own parameter names *)
Definition lambda_wrong_unrenamed (fs : facts) (rf : rfacts) (st : lam_stmt) (i : nat) (own : lam) (rho : valuation) (vs : list Q) : Prop :=
  exists e v,
    nth_error (ls_lams st) i = Some own /\
    translate_lambda rf fs [] [] [] 0 st i [] = Some e /\
    py_lambda [] [] 0 st i vs = Some v /\
    (forall x q, assoc x (combine (lam_params own) vs) = Some q -> rho x = Some q) /\
    seval rho e <> Some v.

(** seeded C06-10: RATES["bwd"] is translated from the body of RATES["fwd"]: K*S where Python computes K*S/(1+S) *)
Lemma first_matching_wrong :
  lambda_wrong_on expected_facts rf_first_matching w_rates 1 [SSym 1; SSym 2] pt11 [1#1; 1#1].
Proof.
  exists (SBin Mul (SSym 2) (SSym 1)), (1#2).
  split; [vm_compute; reflexivity|]. split; [vm_compute; reflexivity|].
  split; [repeat constructor|]. vm_compute. discriminate.
Qed.

(** ... while the first lambda of the statement, and a later one with OTHER parameter names, are translated from
    their own bodies (instances of first_matching_sound_when_unique) *)
Lemma first_matching_right_when_unique :
  (exists e, translate_lambda rf_first_matching expected_facts [] [] [] 0 w_rates 0 [SSym 1; SSym 2] = Some e
             /\ py_lambda [] [] 0 w_rates 0 [1#1; 1#1] = Some (1#1) /\ seval pt11 e = Some (1#1))
  /\ (exists e, translate_lambda rf_first_matching expected_facts [] [] [] 0 w_named 1 [SSym 1; SSym 2] = Some e
             /\ py_lambda [] [] 0 w_named 1 [1#1; 1#1] = Some (1#2) /\ seval pt11 e = Some (1#2)).
Proof.
  split.
  - exists (SBin Mul (SSym 2) (SSym 1)). repeat split; vm_compute; reflexivity.
  - eexists. split; [vm_compute; reflexivity|]. split; vm_compute; reflexivity.
Qed.

(** finding lambda-on-def-line:  def rate(s, k, alt=lambda s, k: s + k): return k * s
    fn_to_sympy(<the default value of alt>) (model_args = None) returns k*s, the body of the DEF *)
Definition w_rate_def : mfun := mkMFun [1; 2; 3] [] 0 (SCons (SReturn (EBin Mul (EVar 2) (EVar 1))) SNil).
Definition w_alt : lam := mkLam [1; 2] (EBin Add (EVar 1) (EVar 2)).
Definition w_def_line : lam_stmt := mkLamStmt (Some w_rate_def) [w_alt].
Definition pt12 : valuation := fun x => if x =? 1 then Some (1#1) else if x =? 2 then Some (2#1) else None.

Lemma def_line_wrong :
  lambda_wrong_unrenamed expected_facts rf_def_line w_def_line 0 w_alt pt12 [1#1; 2#1].
Proof.
  exists (SBin Mul (SSym 2) (SSym 1)), (3#1).
  split; [reflexivity|]. split; [vm_compute; reflexivity|]. split; [vm_compute; reflexivity|].
  split.
  - intros x q Hx. cbn [combine lam_params w_alt assoc] in Hx. unfold pt12.
    destruct (x =? 1); [exact Hx|]. destruct (x =? 2); [exact Hx|discriminate].
  - vm_compute. discriminate.
Qed.

Lemma def_line_refused_when_repaired : forall fs first now ms m i margs,
  translate_lambda rf_repaired fs first now ms m w_def_line i margs = None.
Proof. intros. unfold translate_lambda, lam_select. cbn [f_lambda rf_repaired]. destruct (nth_error _ i); reflexivity. Qed.
