(* REGENERATED from src/mxlpy/meta/source_tools.py by harness/c06.py::extract_facts; do not edit.
   An unrecognised shape yields an *Unknown / *Other entry, which breaks C06_facts_pinned. *)
From FnSym Require Import FnToSym Resolve.
Definition gen_fnsym_facts : facts :=
  mkFacts
    [(Add, Add); (Sub, Sub); (Mul, Mul); (Div, Div); (Pow, Pow); (Mod, Mod); (FloorDiv, FloorDiv)]
    [(UAdd, UAdd); (USub, USub)]
    [(Gt, RelGt); (GtE, RelGe); (Lt, RelLt); (LtE, RelLe); (CEq, RelEq); (CNe, RelNe)]
    true SubsSim TupSim StmtRaise (CfContinuation BrCopy BrCopy) KwRefused true true ConstAtCall FbRaise ArityStrict AnRefuse.
(* name resolution (operand order of the `members | local imports` merges), aliases of function-local imports,
   what get_fn_ast does with a lambda: harness/c06_scope.py::extract_rfacts *)
Definition gen_fnsym_rfacts : rfacts := mkRFacts ScopeLocalWins AliasHonoured LamRefused.
