(** Exact rational arithmetic shared by the Python semantics (PyLang.v) and the symbolic
    semantics (SymLang.v).  Every result is normalised with [Qred], so two values are equal
    as numbers iff they are Leibniz-equal -- theorems and [vm_compute] comparisons can use [=].

    [bin_sem] / [cmp_sem] give ONE mathematical meaning to an operator; PyLang uses it for what
    CPython computes (on exact rationals: the harness oracle calls the real function on
    [fractions.Fraction]s) and SymLang for what the SymPy node of the same name denotes
    ([Add Mul Pow floor Mod], relationals).  That the two libraries implement this meaning is the
    trusted part (validated by the correspondence + a sympy.subs cross-check), not proved. *)
From Coq Require Export QArith Qround List NArith ZArith Bool.
Export ListNotations.

Definition name := N.

Inductive binop := Add | Sub | Mul | Div | Pow | Mod | FloorDiv | BinOther.
Inductive unop := UAdd | USub | UOther.
Inductive cmpop := Gt | GtE | Lt | LtE | CEq | CNe | CmpOther.

Definition qzero (a : Q) : bool := Qeq_bool a 0.
Definition qneg (a : Q) : Q := Qred (- a).

(** integer powers only (the generator never produces another exponent); a non-integral
    exponent is "undefined" on both sides, i.e. nothing is claimed about it *)
Definition qpow (a b : Q) : option Q :=
  match Qred b with
  | Qmake n 1%positive =>
      if Z.leb 0 n then Some (Qred (Qpower a n))
      else if qzero a then None else Some (Qred (Qpower a n))
  | _ => None
  end.

Definition bin_sem (op : binop) (a b : Q) : option Q :=
  match op with
  | Add => Some (Qred (a + b))
  | Sub => Some (Qred (a - b))
  | Mul => Some (Qred (a * b))
  | Div => if qzero b then None else Some (Qred (a / b))
  | Pow => qpow a b
  | FloorDiv => if qzero b then None else Some (inject_Z (Qfloor (a / b)))
  | Mod => if qzero b then None else Some (Qred (a - b * inject_Z (Qfloor (a / b))))
  | BinOther => None
  end.

Definition cmp_sem (op : cmpop) (a b : Q) : option bool :=
  match op with
  | Gt => Some (negb (Qle_bool a b))
  | GtE => Some (Qle_bool b a)
  | Lt => Some (negb (Qle_bool b a))
  | LtE => Some (Qle_bool a b)
  | CEq => Some (Qeq_bool a b)
  | CNe => Some (negb (Qeq_bool a b))
  | CmpOther => None
  end.

Fixpoint assoc {A} (x : name) (l : list (name * A)) : option A :=
  match l with
  | [] => None
  | (y, v) :: r => if N.eqb x y then Some v else assoc x r
  end.

Definition binop_eqb (a b : binop) : bool :=
  match a, b with
  | Add, Add | Sub, Sub | Mul, Mul | Div, Div | Pow, Pow | Mod, Mod | FloorDiv, FloorDiv
  | BinOther, BinOther => true
  | _, _ => false
  end.
Definition unop_eqb (a b : unop) : bool :=
  match a, b with UAdd, UAdd | USub, USub | UOther, UOther => true | _, _ => false end.
Definition cmpop_eqb (a b : cmpop) : bool :=
  match a, b with
  | Gt, Gt | GtE, GtE | Lt, Lt | LtE, LtE | CEq, CEq | CNe, CNe | CmpOther, CmpOther => true
  | _, _ => false
  end.

Fixpoint lookup_by {K V} (eqb : K -> K -> bool) (k : K) (l : list (K * V)) : option V :=
  match l with
  | [] => None
  | (k', v) :: r => if eqb k k' then Some v else lookup_by eqb k r
  end.
