(** Proofs about name resolution and lambdas (Resolve.v), for [rf = expected_rfacts] and the regression variants. *)
From FnSym Require Import FnToSym ConstEnv Resolve SymProofs FnToSymProofs FnToSymProofs2.

Definition expected_rfacts : rfacts := mkRFacts ScopeLocalWins C06_expected_alias C06_expected_lambda.

Lemma expected_alias_known : C06_expected_alias = AliasHonoured \/ C06_expected_alias = AliasIgnored.
Proof. unfold C06_expected_alias; auto. Qed.

Lemma expected_lambda_known : C06_expected_lambda = LamRefused \/ C06_expected_lambda = LamDefLine.
Proof. unfold C06_expected_lambda; auto. Qed.

Lemma assoc_app : forall A (x : name) (a b : list (name * A)),
  assoc x (a ++ b) = match assoc x a with Some o => Some o | None => assoc x b end.
Proof.
  intros A x a b. induction a as [|[k o] a IH]; cbn [assoc app]; [reflexivity|].
  destruct (N.eqb x k); [reflexivity|exact IH].
Qed.

Lemma bind_imports_acc_ext : forall (k1 k2 : import_decl -> name) ds acc,
  Forall (fun d => k1 d = k2 d) ds ->
  fold_left (fun t d => (k1 d, im_obj d) :: t) ds acc = fold_left (fun t d => (k2 d, im_obj d) :: t) ds acc.
Proof.
  intros k1 k2 ds. induction ds as [|d ds IH]; intros acc HF; cbn [fold_left]; [reflexivity|].
  inversion HF as [|d' ds' Hd Hds]; subst. rewrite Hd. apply IH. exact Hds.
Qed.

(** the table of local imports the translator builds IS Python's, under the alias guard *)
Lemma local_table_python : forall rf ds,
  f_alias rf = C06_expected_alias -> alias_ok rf ds ->
  local_table (f_alias rf) ds = Some (bind_imports im_as ds).
Proof.
  intros rf ds Ha Hok. unfold alias_ok in Hok. rewrite Ha in *.
  destruct expected_alias_known as [E|E]; rewrite E in *; cbn [local_table]; [reflexivity|].
  unfold bind_imports. f_equal. symmetry. apply bind_imports_acc_ext. exact Hok.
Qed.

(** (1) with the shipped merge order the translator resolves every name as CPython does *)
Lemma resolve_is_python : forall rf, rf = expected_rfacts ->
  forall modlevel ds x, alias_ok rf ds -> resolve rf modlevel ds x = py_resolve modlevel ds x.
Proof.
  intros rf Hrf modlevel ds x Hok. unfold resolve.
  rewrite (local_table_python rf ds); [|subst rf; reflexivity|exact Hok].
  subst rf. cbn [f_scope expected_rfacts visible]. unfold lookup_obj, py_resolve, lookup_obj.
  rewrite assoc_app. destruct (assoc x (bind_imports im_as ds)); reflexivity.
Qed.

(** (2) why no existing test sees the merge order: without a name bound to DIFFERENT objects on both sides
    the two orders give the same table *)
Lemma merge_orders_agree : forall (modlevel loc : table) x,
  (forall o1 o2, assoc x loc = Some o1 -> assoc x modlevel = Some o2 -> o1 = o2) ->
  lookup_obj (loc ++ modlevel) x = lookup_obj (modlevel ++ loc) x.
Proof.
  intros modlevel loc x H. unfold lookup_obj. rewrite !assoc_app.
  destruct (assoc x loc) as [o1|] eqn:E1, (assoc x modlevel) as [o2|] eqn:E2; try reflexivity.
  rewrite (H o1 o2 eq_refl eq_refl). reflexivity.
Qed.

(** renaming the calls of a program with two pointwise equal maps gives the same program *)
Lemma rn_ext_e : forall r r', (forall x, r x = r' x) ->
  (forall e, rn_e r e = rn_e r' e) /\ (forall c, rn_c r c = rn_c r' c) /\
  (forall ch, rn_ch r ch = rn_ch r' ch) /\ (forall es, rn_es r es = rn_es r' es).
Proof.
  intros r r' H. apply py_mutind; intros; cbn [rn_e rn_c rn_ch rn_es]; try reflexivity;
    repeat match goal with Hx : _ = _ |- _ => rewrite Hx; clear Hx end; try rewrite H; reflexivity.
Qed.

Lemma rn_ext_s : forall r r', (forall x, r x = r' x) ->
  (forall s, rn_s r s = rn_s r' s) /\ (forall ss, rn_ss r ss = rn_ss r' ss).
Proof.
  intros r r' H. destruct (rn_ext_e r r' H) as (He & Hc & _ & Hes).
  apply stmt_mutind; intros; cbn [rn_s rn_ss]; try reflexivity;
    repeat match goal with Hx : _ = _ |- _ => rewrite Hx; clear Hx end;
    try rewrite He; try rewrite Hc; try rewrite Hes; reflexivity.
Qed.

Lemma resolve_prog_is_python : forall rf, rf = expected_rfacts ->
  forall modlevel ns, Forall (fun nf => alias_ok rf (nf_imports nf)) ns ->
  resolve_prog rf modlevel ns = py_resolve_prog modlevel ns.
Proof.
  intros rf Hrf modlevel ns HF. unfold resolve_prog, py_resolve_prog.
  induction HF as [|nf ns Hnf HF IH]; cbn [map]; [reflexivity|]. rewrite IH. f_equal.
  unfold rn_fun. f_equal.
  apply (proj2 (rn_ext_s _ _ (fun x => resolve_is_python rf Hrf _ _ x Hnf))).
Qed.

(** (3) SOUNDNESS for programs whose functions import names locally: what the translator returns for the program
    as IT resolves the names equals the function as CPYTHON resolves them *)
Lemma sound_named : forall fs rf, fs = expected_facts -> rf = expected_rfacts ->
  forall modlevel ns first now i margs e vs v rho,
    Forall (fun nf => alias_ok rf (nf_imports nf)) ns ->
    arity_ok fs (map (at_env now) (py_resolve_prog modlevel ns)) ->
    margs <> [] ->
    translate fs first now (resolve_prog rf modlevel ns) i margs = Some e ->
    py_value now (py_resolve_prog modlevel ns) i vs = Some v ->
    Forall2 (fun m x => seval rho m = Some x) margs vs ->
    seval rho e = Some v.
Proof.
  intros fs rf Hfs Hrf modlevel ns first now i margs e vs v rho HF Hok Hne Ht Hp HF2.
  rewrite (resolve_prog_is_python rf Hrf modlevel ns HF) in Ht.
  exact (sound_constants_renamed fs Hfs first now _ i margs e vs v rho Hok Hne Ht Hp HF2).
Qed.

(** ---- lambdas *)
Definition lambda_guard (rf : rfacts) (st : lam_stmt) : Prop :=
  match f_lambda rf with LamRefused => True | _ => ls_def st = None end.

(** the shipped get_fn_ast refuses every lambda (whose source statement is not a def) *)
Lemma lambda_refused : forall rf, rf = expected_rfacts ->
  forall fs first now ms m st i margs, lambda_guard rf st ->
    translate_lambda rf fs first now ms m st i margs = None.
Proof.
  intros rf Hrf fs first now ms m st i margs Hg. unfold translate_lambda, lam_select, lambda_guard in *.
  subst rf. cbn [f_lambda expected_rfacts] in *.
  destruct (nth_error (ls_lams st) i); [|reflexivity].
  destruct expected_lambda_known as [E|E]; rewrite E in *; [reflexivity|]. rewrite Hg. reflexivity.
Qed.

Lemma names_eqb_refl : forall a, names_eqb a a = true.
Proof. intros a. unfold names_eqb. destruct (list_eq_dec N.eq_dec a a); [reflexivity|contradiction]. Qed.

Lemma names_eqb_false : forall a b, a <> b -> names_eqb a b = false.
Proof. intros a b H. unfold names_eqb. destruct (list_eq_dec N.eq_dec a b); [contradiction|reflexivity]. Qed.

Lemma find_first_own : forall (lams : list lam) i own,
  nth_error lams i = Some own ->
  (forall j l, (j < i)%nat -> nth_error lams j = Some l -> lam_params l <> lam_params own) ->
  find (fun l => names_eqb (lam_params l) (lam_params own)) lams = Some own.
Proof.
  induction lams as [|l0 lams IH]; intros i own Hn Hb; [destruct i; discriminate|].
  destruct i as [|i]; cbn [nth_error] in Hn.
  - inversion Hn; subst. cbn [find]. rewrite names_eqb_refl. reflexivity.
  - cbn [find]. rewrite (names_eqb_false _ _ (Hb 0%nat l0 (Nat.lt_0_succ i) eq_refl)).
    apply (IH i own Hn). intros j l Hj Hl. apply (Hb (S j) l); [apply ->Nat.succ_lt_mono; exact Hj|exact Hl].
Qed.

(** the "first lambda with my parameter names" rule (seeded C06-10) picks the lambda itself exactly when no EARLIER
    lambda of the statement has the same parameter list -- and is then sound *)
Lemma first_matching_selects_own : forall m st i own,
  ls_def st = None -> nth_error (ls_lams st) i = Some own ->
  (forall j l, (j < i)%nat -> nth_error (ls_lams st) j = Some l -> lam_params l <> lam_params own) ->
  lam_select LamFirstMatching m st i = Some (lam_fun m own).
Proof.
  intros m st i own Hd Hn Hb. unfold lam_select. rewrite Hn, Hd.
  rewrite (find_first_own _ i own Hn Hb). reflexivity.
Qed.

Lemma first_matching_sound_when_unique : forall fs rf, fs = expected_facts -> f_lambda rf = LamFirstMatching ->
  forall first now ms m st i own margs e vs v rho,
    ls_def st = None -> nth_error (ls_lams st) i = Some own ->
    (forall j l, (j < i)%nat -> nth_error (ls_lams st) j = Some l -> lam_params l <> lam_params own) ->
    arity_ok fs (map (at_env now) (ms ++ [lam_fun m own])) ->
    margs <> [] ->
    translate_lambda rf fs first now ms m st i margs = Some e ->
    py_lambda now ms m st i vs = Some v ->
    Forall2 (fun a x => seval rho a = Some x) margs vs ->
    seval rho e = Some v.
Proof.
  intros fs rf Hfs Hl first now ms m st i own margs e vs v rho Hd Hn Hb Hok Hne Ht Hp HF2.
  unfold translate_lambda in Ht. rewrite Hl, (first_matching_selects_own m st i own Hd Hn Hb) in Ht.
  unfold py_lambda in Hp. rewrite Hn in Hp.
  exact (sound_constants_renamed fs Hfs first now _ _ margs e vs v rho Hok Hne Ht Hp HF2).
Qed.
