(** Helpers evaluated by the correspondence files (coq/fnsym/corr/*.v written by harness/c06.py).
    No proofs here.  A case carries the program, the renaming, the evaluation points and what the
    IMPLEMENTATION did: [obs] = None (no expression) or the value of the returned SymPy expression
    at every point; [py] = the value of the real Python function (called on exact rationals) at
    every point.  Two things are checked inside Coq:
      (1) translator model vs fn_to_sympy: same acceptance, and wherever the model's expression is
          defined the implementation's has the same value (SymPy may simplify a singularity away,
          so the converse is not demanded);
      (2) PyLang semantics vs CPython: exact agreement for programs inside the modelled meaning
          ([pure]); for programs with unmodelled nodes the model may only be LESS defined.
    Programs are [mfun] lists (ConstEnv.v); a case names the constant environment [c_now] in force when
    fn_to_sympy and the function were run, and [c_first], the tables earlier translations in the same
    process saw (the generated-module stage rebinds module and attribute constants between two
    translations of the same function). *)
From FnSym Require Import FnToSym ConstEnv.

Definition agree_at' (m o : option Q) : bool :=
  match m with Some x => match o with Some y => Qeq_bool x y | None => false end | None => true end.

Definition py_ok (pure : bool) (m o : option Q) : bool :=
  match m, o with
  | Some x, Some y => Qeq_bool x y
  | None, None => true
  | None, Some _ => negb pure
  | Some _, None => false
  end.

Definition qat (pt : list (name * Q)) (x : name) : Q := match assoc x pt with Some q => q | None => 0 end.

Record ccase := mkCase {
  c_ms : list mfun; c_i : nat; c_margs : list name; c_argnames : list name; c_pure : bool;
  c_first : cenv; c_now : cenv;
  c_points : list (list (name * Q)); c_obs : option (list (option Q)); c_py : list (option Q) }.

Definition trans_ok (fs : facts) (c : ccase) : bool :=
  match translate fs (c_first c) (c_now c) (c_ms c) (c_i c) (map SSym (c_margs c)), c_obs c with
  | None, None => true
  | Some e, Some vals => all2 (fun pt o => agree_at' (seval (val_of pt) e) o) (c_points c) vals
  | _, _ => false
  end.

Definition pysem_ok (c : ccase) : bool :=
  all2 (fun pt o => py_ok (c_pure c) (py_value (c_now c) (c_ms c) (c_i c) (map (qat pt) (c_argnames c))) o)
       (c_points c) (c_py c).

(** 0 = fine, 1 = translator mismatch, 2 = Python-semantics mismatch, 3 = both *)
Definition case_code (fs : facts) (c : ccase) : nat :=
  (if trans_ok fs c then 0 else 1) + (if pysem_ok c then 0 else 2).
