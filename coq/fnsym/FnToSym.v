(** Executable model of src/mxlpy/meta/source_tools.py: [fn_to_sympy], [_handle_fn_body],
    [_handle_expr] (+ Compare / IfExp), [_handle_name], [_handle_unaryop], [_handle_binop],
    [_handle_call] -- statement by statement.

    Python                                           model
    ------                                           -----
    return None / raise (TypeError, ValueError,      [None] / [TRefused]  ("no expression";
      NotImplementedError, KeyError ...)               the property only asks that failure is visible)
    ctx.symbols (dict, mutated in place; each         [symtab] = assoc list, newest binding first;
      branch of an if gets  dict(ctx.symbols) )         immutable, so a branch cannot leak
    recursion fn_to_sympy(py_fn, model_args=...)      the summary of the (earlier) callee in [S]
    _handle_fn_body([*branch, *remaining], copy)      [tbody fuel'] on [sapp branch rest]; fuel =
                                                        size of the body + 1, [TOutOfFuel] proved unreachable
    sympy.Piecewise((e, c), *else_expr.args)          [SPw (PCons e c ps)]
    expr.subs(dict(zip(fn_args, model_args,           [apply_subs]: arity mismatch refuses, empty
      strict=True)), simultaneous=True)                 model_args = no substitution

    Everything the soundness argument hinges on and that is a small code fact is a field of
    [facts], REGENERATED from the source on every run (GenFnSymFacts.v) and pinned in PropsC06.v. *)
From FnSym Require Export PyLang SymLang ExpectedFacts.

Inductive crel := RelGt | RelGe | RelLt | RelLe | RelEq | RelNe | StructEq | StructNe | RelUnknown.
Inductive subs_mode := SubsSim | SubsSeq | SubsUnknown.
Inductive tuple_mode := TupSim | TupSeq | TupUnknown.
Inductive stmt_else := StmtRaise | StmtSkip | StmtUnknown.
(** On which symbol table a branch of an `if` is translated (together with the statements that
    follow the if):
      BrCopy         ctx.updated(symbols=dict(ctx.symbols))      -- its own copy (the shipped code)
      BrCtx          ctx                                          -- the enclosing table itself
      BrShared       one copy made before the if, handed to BOTH recursive calls (seeded C07-2)
      BrCopyIfBinds  a copy only if the branch has a top-level assignment, else ctx (seeded C06-1) *)
Inductive branch_ctx := BrCopy | BrCtx | BrShared | BrCopyIfBinds.
(** shape of the ast.If block of _handle_fn_body:
      CfContinuation bi be   both branches are translated WITH the statements after the if
                             ([*branch, *remaining_body]); bi / be = table of the if / else branch
      CfOldPieces            the translator before /repo cc17922: a `pieces` list, one table shared by
                             everything, the statements after a complete if/else never looked at *)
Inductive cf_mode := CfContinuation (bi be : branch_ctx) | CfOldPieces | CfUnknown.
(** when are module-level / attribute float constants read?
      ConstAtCall   inspect.getmembers(module, float) inside _handle_name/_handle_attribute: at every
                    translation (the shipped code)
      ConstCached   through a memoised helper keyed on the module: at the module's FIRST lookup in the
                    process (seeded C06-3) *)
Inductive const_mode := ConstAtCall | ConstCached | ConstUnknown.
(** keyword arguments of a nested call (_handle_call):
      KwRefused    `if node.keywords: raise NotImplementedError`                       (the shipped code)
      KwAppended   the keyword VALUES are appended to the positional arguments in the order they are written
                   and bound positionally by the recursive fn_to_sympy -- never matched by name (seeded C06-7) *)
Inductive kw_mode := KwRefused | KwAppended | KwUnknown.
(** a single-name assignment `x = e` whose right-hand side has no expression because _handle_expr RETURNED None
    (a call of something that is not a function of the module, a callee that is refused, an arity mismatch --
    not an exception):
      AnRefuse     `if value is None: return None`                                      (the shipped code)
      AnStore      the None is stored in the symbol table; _handle_name's `ctx.symbols.get(id) is None` then
                   takes the local for "not a local" and reads the module constant of that name (seeded C06-6) *)
Inductive assign_none_mode := AnRefuse | AnStore | AnUnknown.

Record facts := mkFacts {
  f_bin : list (binop * binop);      (* _handle_binop: ast operator -> sympy operation *)
  f_un : list (unop * unop);         (* _handle_unaryop *)
  f_cmp : list (cmpop * crel);       (* Compare branch of _handle_expr *)
  f_cmp_else_raises : bool;          (* an operator outside the table raises (else it is dropped silently) *)
  f_subs : subs_mode;                (* fn_to_sympy: .subs(..., simultaneous=True)? *)
  f_tuple : tuple_mode;              (* a, b = b, a : all right-hand sides first? *)
  f_stmt_else : stmt_else;           (* unknown statement: raise / skip *)
  f_cf : cf_mode;                    (* shape of the ast.If block of _handle_fn_body *)
  f_kw : kw_mode;                    (* _handle_call: keyword arguments refused / appended positionally *)
  f_const_float : bool;              (* ast.Constant int/float -> sympy.Float(val) *)
  f_known_wrapped : bool;            (* KNOWN_FNS results go through sympy.Float(...) (symbolic args refuse) *)
  f_const : const_mode;              (* when module / attribute float constants are read *)
  f_fallback : fb_mode;              (* a body that falls off its end: last assigned variable / ValueError *)
  f_arity : arity_mode;              (* zip(fn_args, model_args, strict=True) and when it is skipped *)
  f_assign_none : assign_none_mode   (* `x = e` where e translates to None: refuse / store the None *)
}.

Definition symtab := list (name * sexpr).
Definition summary := option (list name * sexpr).   (* translated callee: (fn_args, expr) *)

Inductive tresult := TOk (e : sexpr) | TRefused | TOutOfFuel.

Definition apply_subs (fs : facts) (ps : list name) (margs : list sexpr) (e : sexpr) : option sexpr :=
  match margs with
  | [] => Some e                                   (* `model_args is not None and len(model_args)` *)
  | _ =>
      let sub := match f_subs fs with
                 | SubsSim => Some (subs_sim (combine ps margs) e)
                 | SubsSeq => Some (subs_seq (combine ps margs) e)
                 | SubsUnknown => None
                 end in
      match f_arity fs with
      | ArityStrict | ArityStrictNonEmpty =>        (* zip(..., strict=True) -> ValueError *)
          if Nat.eqb (length ps) (length margs) then sub else None
      | ArityTruncate => sub                         (* zip(...) stops at the shorter list ([combine] does) *)
      | ArityUnknown => None
      end
  end.

(** a NESTED call hands over a list (never None): with `if model_args is not None:` (ArityStrict) the empty
    list is zipped strictly as well, so `helper()` of a helper with parameters refuses *)
Definition nested_arity_ok (fs : facts) (ps : list name) (sargs : list sexpr) : bool :=
  match f_arity fs, sargs, ps with
  | ArityStrict, [], _ :: _ => false
  | _, _, _ => true
  end.

Definition rel_of (r : crel) (a b : sexpr) : option scond :=
  match r with
  | RelGt => Some (SRel Gt a b) | RelGe => Some (SRel GtE a b)
  | RelLt => Some (SRel Lt a b) | RelLe => Some (SRel LtE a b)
  | RelEq => Some (SRel CEq a b) | RelNe => Some (SRel CNe a b)
  | StructEq => Some (SBool (sexpr_eqb a b))
  | StructNe => Some (SBool (negb (sexpr_eqb a b)))
  | RelUnknown => None
  end.

Section Translate.
  Variable fs : facts.
  Variable S : list summary.            (* summaries of the earlier definitions *)
  Variable G : list (name * Q).         (* module float constants of the function's module *)

  (** _handle_name *)
  Definition tname (sigma : symtab) (x : name) : option sexpr :=
    match assoc x sigma with
    | Some s => Some s
    | None => match assoc x G with Some q => Some (SNum q) | None => None (* KeyError *) end
    end.

  (** _handle_call after the arguments were translated: recursive fn_to_sympy(py_fn, model_args) *)
  Definition call_with (osargs : option (list sexpr)) (f : N) : option sexpr :=
    match osargs with
    | Some sargs =>
        match nth_error S (N.to_nat f) with
        | Some (Some (ps, body)) => if nested_arity_ok fs ps sargs then apply_subs fs ps sargs body else None
        | _ => None                     (* py_fn is None / callee has no expression *)
        end
    | None => None
    end.

  Fixpoint texpr (sigma : symtab) (e : expr) {struct e} : option sexpr :=
    match e with
    | ENum q => if f_const_float fs then Some (SNum q) else None
    | EVar x => tname sigma x
    | EUn op a =>
        match texpr sigma a with
        | Some s =>
            match lookup_by unop_eqb op (f_un fs) with
            | Some UAdd => Some s
            | Some USub => Some (SNeg s)
            | _ => None
            end
        | None => None
        end
    | EBin op a b =>
        match texpr sigma a, texpr sigma b with
        | Some x, Some y =>
            match lookup_by binop_eqb op (f_bin fs) with
            | Some BinOther | None => None
            | Some op' => Some (SBin op' x y)
            end
        | _, _ => None
        end
    | EIfExp c a b =>
        match tcond sigma c, texpr sigma a, texpr sigma b with
        | Some c', Some a', Some b' => Some (SPw (PCons a' c' (PCons b' (SBool true) PNil)))
        | _, _, _ => None
        end
    | ECall f args => call_with (targs sigma args) f
    | ECallKw f _ args =>
        match f_kw fs with
        | KwAppended => call_with (targs sigma args) f    (* written order, positional: the slots are ignored *)
        | _ => None
        end
    | EOther => None
    end
  with tcond (sigma : symtab) (c : cond) {struct c} : option scond :=
    match c with
    | CCmp l rest => match texpr sigma l with Some l' => tchain sigma l' rest None | None => None end
    | COther => None
    end
  with tchain (sigma : symtab) (prev : sexpr) (ch : chain) (acc : option scond) {struct ch} : option scond :=
    match ch with
    | ChNil => acc                      (* comparisons[0] on an empty list: IndexError *)
    | ChCons op e rest =>
        match texpr sigma e with
        | Some r =>
            match lookup_by cmpop_eqb op (f_cmp fs) with
            | Some rel =>
                match rel_of rel prev r with
                | Some c => tchain sigma r rest (Some (match acc with None => c | Some a => SAnd a c end))
                | None => None
                end
            | None => if f_cmp_else_raises fs then None else tchain sigma r rest acc
            end
        | None => None
        end
    end
  with targs (sigma : symtab) (es : exprs) {struct es} : option (list sexpr) :=
    match es with
    | ENil => Some []
    | ECons e r =>
        match texpr sigma e, targs sigma r with
        | Some s, Some ss => Some (s :: ss)
        | _, _ => None
        end
    end.

  (** Did `_handle_expr` RETURN None (rather than raise)?  Only meaningful where [texpr sigma e = None].
      _handle_call translates the arguments in order -- the first one without an expression decides (it returned
      None: `return None`; it raised: the exception propagates) -- and when all have one, every remaining way to
      fail is a `return None` (py_fn is None; the recursive fn_to_sympy catches its own TypeError / ValueError /
      NotImplementedError and returns None).  Every other node with a None operand raises (None + x, None > x,
      -None, sympy.Eq(None, x)), an unbound name is a KeyError, an unsupported node NotImplementedError.
      (Not modelled: a KeyError inside the CALLEE escapes the nested fn_to_sympy as well.) *)
  Fixpoint tnone (sigma : symtab) (e : expr) {struct e} : bool :=
    match e with
    | ECall _ args => tnone_args sigma args
    | ECallKw _ _ args => match f_kw fs with KwAppended => tnone_args sigma args | _ => false end
    | _ => false
    end
  with tnone_args (sigma : symtab) (es : exprs) {struct es} : bool :=
    match es with
    | ENil => true
    | ECons e r => match texpr sigma e with Some _ => tnone_args sigma r | None => tnone sigma e end
    end.

  (** `ctx.symbols[x] = None`: every reader goes through `ctx.symbols.get(x) is None`, for which a stored None
      and a missing key are the same thing *)
  Fixpoint remove_sym (x : name) (sigma : symtab) : symtab :=
    match sigma with
    | [] => []
    | (y, s) :: r => if N.eqb y x then remove_sym x r else (y, s) :: remove_sym x r
    end.

  (** the table after `x = e` when e has no expression ([None] = the body is refused) *)
  Definition assign_none (sigma : symtab) (x : name) (e : expr) : option symtab :=
    match f_assign_none fs with
    | AnStore => if tnone sigma e then Some (remove_sym x sigma) else None
    | _ => None
    end.

  Fixpoint bind_syms (xs : list name) (ss : list sexpr) (sigma : symtab) : symtab :=
    match xs, ss with
    | x :: xs', s :: ss' => bind_syms xs' ss' ((x, s) :: sigma)
    | _, _ => sigma
    end.

  (** the old tuple assignment: evaluate and bind one pair after the other *)
  Fixpoint ttuple_seq (sigma : symtab) (xs : list name) (es : exprs) : option symtab :=
    match xs, es with
    | [], ENil => Some sigma
    | x :: xs', ECons e es' =>
        match texpr sigma e with
        | Some s => ttuple_seq ((x, s) :: sigma) xs' es'
        | None => None
        end
    | _, _ => None
    end.

  Fixpoint elen (es : exprs) : nat := match es with ENil => O | ECons _ r => Datatypes.S (elen r) end.

  Definition ttuple (sigma : symtab) (xs : list name) (es : exprs) : option symtab :=
    match f_tuple fs with
    | TupSim =>
        match targs sigma es with
        | Some ss => if Nat.eqb (length xs) (length ss) then Some (bind_syms xs ss sigma) else None
        | None => None
        end
    | TupSeq => if Nat.eqb (length xs) (elen es) then ttuple_seq sigma xs es else None
    | TupUnknown => None
    end.

  (** "if no return was found but we have assignments, return the last assigned variable" *)
  Fixpoint last_assign (ss : stmts) (acc : option name) : option name :=
    match ss with
    | SNil => acc
    | SCons (SAssign x _) r => last_assign r (Some x)
    | SCons _ r => last_assign r acc
    end.

  Definition fallback (body : stmts) (sigma : symtab) : tresult :=
    match f_fallback fs with
    | FbLastAssigned =>
        match last_assign body None with
        | Some x => match assoc x sigma with Some s => TOk s | None => TRefused end
        | None => TRefused                   (* ValueError: No return value found *)
        end
    | _ => TRefused                          (* repaired code: always that ValueError *)
    end.

  Definition lift (o : option sexpr) : tresult := match o with Some e => TOk e | None => TRefused end.

  (** _handle_fn_body(body, ctx): [remaining] is `remaining_body`, [body] the list it was called with *)
  Fixpoint tbody (fuel : nat) (body remaining : stmts) (sigma : symtab) : tresult :=
    match fuel with
    | O => TOutOfFuel
    | Datatypes.S fuel' =>
        match remaining with
        | SNil => fallback body sigma
        | SCons s rest =>
            match s with
            | SIf c a b =>
                match f_cf fs with
                | CfContinuation BrCopy BrCopy =>
                    let cond := tcond sigma c in
                    let ie := tbody fuel' (sapp a rest) (sapp a rest) sigma in
                    let ee := tbody fuel' (sapp b rest) (sapp b rest) sigma in
                    match ie, ee with
                    | TOutOfFuel, _ | _, TOutOfFuel => TOutOfFuel
                    | TOk ie', TOk ee' =>
                        match cond with
                        | Some c' =>
                            match ee' with
                            | SPw ps => TOk (SPw (PCons ie' c' ps))
                            | _ => TOk (SPw (PCons ie' c' (PCons ee' (SBool true) PNil)))
                            end
                        | None => TRefused
                        end
                    | _, _ => TRefused
                    end
                | _ => TRefused          (* another shape: [tbody_sh] / [told] below, chosen by [tfun] *)
                end
            | SReturn e => lift (texpr sigma e)
            | SReturnNone => TRefused
            | SAssign x e =>
                match texpr sigma e with
                | Some v => tbody fuel' body rest ((x, v) :: sigma)
                | None =>
                    match assign_none sigma x e with
                    | Some sigma' => tbody fuel' body rest sigma'
                    | None => TRefused
                    end
                end
            | STuple xs es =>
                match ttuple sigma xs es with
                | Some sigma' => tbody fuel' body rest sigma'
                | None => TRefused
                end
            | SPass => tbody fuel' body rest sigma
            | SOther =>
                match f_stmt_else fs with
                | StmtSkip => tbody fuel' body rest sigma
                | _ => TRefused
                end
            end
        end
    end.

  (** ---- the other shapes of the ast.If block (regression variants) --------------------------
      The table is a mutable dict in Python; when a branch is NOT translated on its own copy its
      assignments stay visible afterwards, so these variants thread the table: the result is
      (expression, table of THIS call's ctx when it returns). *)

  (** `any(isinstance(stmt, (ast.Assign, ...)) for stmt in branch)` of seeded C06-1's _branch_ctx
      ([SOther] covers augmented/annotated assignments, which are not ast.Assign) *)
  Fixpoint binds_top (ss : stmts) : bool :=
    match ss with
    | SNil => false
    | SCons (SAssign _ _) _ => true
    | SCons (STuple _ _) _ => true
    | SCons _ r => binds_top r
    end.

  Definition on_ctx (b : branch_ctx) (branch : stmts) : bool :=
    match b with BrCtx => true | BrCopyIfBinds => negb (binds_top branch) | _ => false end.

  Definition join_if (cond : option scond) (ie ee : tresult) : tresult :=
    match ie, ee with
    | TOutOfFuel, _ | _, TOutOfFuel => TOutOfFuel
    | TOk ie', TOk ee' =>
        match cond with
        | Some c' =>
            match ee' with
            | SPw ps => TOk (SPw (PCons ie' c' ps))
            | _ => TOk (SPw (PCons ie' c' (PCons ee' (SBool true) PNil)))
            end
        | None => TRefused
        end
    | _, _ => TRefused
    end.

  Fixpoint tbody_sh (bi be : branch_ctx) (fuel : nat) (body remaining : stmts) (sigma : symtab)
    : tresult * symtab :=
    match fuel with
    | O => (TOutOfFuel, sigma)
    | Datatypes.S fuel' =>
        match remaining with
        | SNil => (fallback body sigma, sigma)
        | SCons s rest =>
            match s with
            | SIf c a b =>
                let cond := tcond sigma c in
                (* if-branch: always starts from the table as it is now *)
                let r1 := tbody_sh bi be fuel' (sapp a rest) (sapp a rest) sigma in
                let ctx1 := if on_ctx bi a then snd r1 else sigma in
                let shared := match bi with BrShared => snd r1 | _ => ctx1 end in
                let r2 := tbody_sh bi be fuel' (sapp b rest) (sapp b rest)
                            (match be with BrShared => shared | _ => ctx1 end) in
                let ctx2 := if on_ctx be b then snd r2 else ctx1 in
                (join_if cond (fst r1) (fst r2), ctx2)
            | SReturn e => (lift (texpr sigma e), sigma)
            | SReturnNone => (TRefused, sigma)
            | SAssign x e =>
                match texpr sigma e with
                | Some v => tbody_sh bi be fuel' body rest ((x, v) :: sigma)
                | None =>
                    match assign_none sigma x e with
                    | Some sigma' => tbody_sh bi be fuel' body rest sigma'
                    | None => (TRefused, sigma)
                    end
                end
            | STuple xs es =>
                match ttuple sigma xs es with
                | Some sigma' => tbody_sh bi be fuel' body rest sigma'
                | None => (TRefused, sigma)
                end
            | SPass => tbody_sh bi be fuel' body rest sigma
            | SOther =>
                match f_stmt_else fs with
                | StmtSkip => tbody_sh bi be fuel' body rest sigma
                | _ => (TRefused, sigma)
                end
            end
        end
    end.

  (** the translator before /repo cc17922 (`git show cc17922`), statement by statement:
        pieces = []; while remaining_body: node = pop(0)
          If:     pieces.append((_handle_fn_body(node.body, ctx), condition))          -- SAME ctx
                  orelse = [If]  -> push the elif back;   orelse = else-block -> pieces.append((..., True)); break
                  no orelse and nothing remaining: `body.index(node)` -- ValueError for a pushed-back elif
          Return: no pieces -> return the expression;  else pieces.append((expr, True)); break
          Assign: as now;  anything else: skipped or refused by [f_stmt_else] (pass was "anything else")
        if pieces: return sympy.Piecewise of the pieces;  else the last-assigned-variable fallback.
      [pushed] = the head of [remaining] is an elif that was pushed back (it is not an element of
      [body]).  A [None] inside a piece is modelled as refusal. *)
  Fixpoint pieces_of (l : list (sexpr * scond)) : pieces :=
    match l with [] => PNil | (e, c) :: r => PCons e c (pieces_of r) end.

  Definition told_finish (body : stmts) (pcs : list (sexpr * scond)) (sigma : symtab) : tresult * symtab :=
    match pcs with
    | [] => (fallback body sigma, sigma)
    | _ => (TOk (SPw (pieces_of pcs)), sigma)
    end.

  Fixpoint told (fuel : nat) (body remaining : stmts) (pushed : bool) (pcs : list (sexpr * scond))
           (sigma : symtab) : tresult * symtab :=
    match fuel with
    | O => (TOutOfFuel, sigma)
    | Datatypes.S fuel' =>
        match remaining with
        | SNil => told_finish body pcs sigma
        | SCons s rest =>
            match s with
            | SIf c a b =>
                match tcond sigma c, told fuel' a a false [] sigma with
                | Some c', (TOk ie, s1) =>
                    let pcs' := pcs ++ [(ie, c')] in
                    match b with
                    | SNil =>
                        match rest with
                        | SNil => if pushed then (TRefused, s1) (* body.index(node): ValueError *)
                                  else told_finish body pcs' s1
                        | _ => told fuel' body rest false pcs' s1
                        end
                    | SCons (SIf c2 a2 b2) SNil => told fuel' body (SCons (SIf c2 a2 b2) rest) true pcs' s1
                    | _ =>
                        match told fuel' b b false [] s1 with
                        | (TOk ee, s2) => told_finish body (pcs' ++ [(ee, SBool true)]) s2
                        | (r, s2) => (match r with TOutOfFuel => TOutOfFuel | _ => TRefused end, s2)
                        end
                    end
                | _, (TOutOfFuel, s1) => (TOutOfFuel, s1)
                | _, (_, s1) => (TRefused, s1)
                end
            | SReturn e =>
                match texpr sigma e with
                | Some v => match pcs with
                            | [] => (TOk v, sigma)
                            | _ => told_finish body (pcs ++ [(v, SBool true)]) sigma
                            end
                | None => (TRefused, sigma)
                end
            | SReturnNone => (TRefused, sigma)
            | SAssign x e =>
                match texpr sigma e with
                | Some v => told fuel' body rest false pcs ((x, v) :: sigma)
                | None => (TRefused, sigma)
                end
            | STuple xs es =>
                match ttuple sigma xs es with
                | Some sigma' => told fuel' body rest false pcs sigma'
                | None => (TRefused, sigma)
                end
            | SPass => told fuel' body rest false pcs sigma
            | SOther =>
                match f_stmt_else fs with
                | StmtSkip => told fuel' body rest false pcs sigma
                | _ => (TRefused, sigma)
                end
            end
        end
    end.

  (** _handle_fn_body(fn_def.body, ctx) as [fn_to_sympy] calls it, for whatever shape the facts say *)
  Definition tbody_top (fuel : nat) (body : stmts) (sigma : symtab) : tresult :=
    match f_cf fs with
    | CfContinuation BrCopy BrCopy => tbody fuel body body sigma
    | CfContinuation bi be => fst (tbody_sh bi be fuel body body sigma)
    | CfOldPieces => fst (told fuel body body false [] sigma)
    | CfUnknown => tbody fuel body body sigma      (* refuses at the first if *)
    end.
End Translate.

Fixpoint ssize (ss : stmts) : nat :=
  match ss with
  | SNil => O
  | SCons s r => Datatypes.S (stsize s + ssize r)
  end
with stsize (s : stmt) : nat :=
  match s with
  | SIf _ a b => Datatypes.S (ssize a + ssize b)
  | _ => O
  end.

(** fn_to_sympy(fn) with model_args = None: (fn_args, expression) *)
Definition tfun (fs : facts) (S : list summary) (fd : fundef) : summary :=
  match tbody_top fs S (fd_globals fd) (Datatypes.S (ssize (fd_body fd))) (fd_body fd)
          (map (fun p => (p, SSym p)) (fd_params fd)) with
  | TOk e => Some (fd_params fd, e)
  | _ => None
  end.

Fixpoint summaries_from (fs : facts) (fds : list fundef) (S : list summary) : list summary :=
  match fds with
  | [] => S
  | fd :: r => summaries_from fs r (S ++ [tfun fs S fd])
  end.
Definition summaries (fs : facts) (fds : list fundef) : list summary := summaries_from fs fds [].

(** fn_to_sympy(fds[i], model_args = margs)  ([] = None) *)
Definition fn_to_sympy (fs : facts) (fds : list fundef) (i : nat) (margs : list sexpr) : option sexpr :=
  match nth_error (summaries fs fds) i with
  | Some (Some (ps, e)) => apply_subs fs ps margs e
  | _ => None
  end.

(** the guard under which the shipped arity rule is sound: no definition has ALL its parameters defaulted
    (so `helper()` of a helper with parameters is a TypeError in Python, where nothing is claimed) *)
Definition guard_fd (fd : fundef) : bool :=
  match fd_params fd with
  | [] => true
  | _ => Nat.ltb (length (fd_defaults fd)) (length (fd_params fd))
  end.

Definition arity_ok (fs : facts) (fds : list fundef) : Prop :=
  match f_arity fs with
  | ArityStrict => True
  | ArityStrictNonEmpty => forallb guard_fd fds = true
  | _ => False
  end.

(** the facts of the code the theorems are proved for *)
Definition expected_facts : facts :=
  mkFacts
    [(Add, Add); (Sub, Sub); (Mul, Mul); (Div, Div); (Pow, Pow); (Mod, Mod); (FloorDiv, FloorDiv)]
    [(UAdd, UAdd); (USub, USub)]
    [(Gt, RelGt); (GtE, RelGe); (Lt, RelLt); (LtE, RelLe); (CEq, RelEq); (CNe, RelNe)]
    true SubsSim TupSim StmtRaise (CfContinuation BrCopy BrCopy) KwRefused true true ConstAtCall C06_expected_fallback C06_expected_arity AnRefuse.

(** --- helpers for the correspondence files ------------------------------------------------ *)
Definition val_of (l : list (name * Q)) : valuation := fun x => match assoc x l with Some q => Some (Qred q) | None => None end.

Definition oq_eqb (a b : option Q) : bool :=
  match a, b with
  | Some x, Some y => Qeq_bool x y
  | None, None => true
  | _, _ => false
  end.

(** observed: None = no expression; Some vals = value of the implementation's expression at each
    point (None = undefined there).  The model must agree on acceptance, and wherever the
    model's expression is defined the implementation's must have the same value (SymPy may
    simplify a singularity away, so the converse is not required). *)
Definition agree_at (m o : option Q) : bool :=
  match m with Some x => match o with Some y => Qeq_bool x y | None => false end | None => true end.

Fixpoint all2 {A B} (p : A -> B -> bool) (a : list A) (b : list B) : bool :=
  match a, b with
  | [], [] => true
  | x :: a', y :: b' => p x y && all2 p a' b'
  | _, _ => false
  end.

Definition case_ok (fs : facts) (fds : list fundef) (i : nat) (margs : list name)
           (points : list (list (name * Q))) (observed : option (list (option Q))) : bool :=
  match fn_to_sympy fs fds i (map SSym margs), observed with
  | None, None => true
  | Some e, Some vals => all2 (fun pt o => agree_at (seval (val_of pt) e) o) points vals
  | _, _ => false
  end.
