(** SymLang -- the fragment of SymPy expressions the translator builds, and its meaning.

    Piecewise is lazy (first piece whose condition is true; an undefined condition before it
    makes the value undefined; later pieces are not looked at).  [SAnd] is Kleene's strong
    conjunction (false as soon as one side is false) -- SymPy's [And] is unordered, so a
    left-to-right reading would not be faithful; Python's short-circuit chain implies it. *)
From FnSym Require Export QOps.

Inductive sexpr :=
| SNum (q : Q)
| SSym (x : name)
| SNeg (e : sexpr)
| SBin (op : binop) (a b : sexpr)
| SPw (ps : pieces)
with scond :=
| SBool (b : bool)
| SRel (op : cmpop) (a b : sexpr)
| SAnd (c1 c2 : scond)
with pieces := PNil | PCons (e : sexpr) (c : scond) (ps : pieces).

Scheme sexpr_mut := Induction for sexpr Sort Prop
  with scond_mut := Induction for scond Sort Prop
  with pieces_mut := Induction for pieces Sort Prop.
Combined Scheme sym_mutind from sexpr_mut, scond_mut, pieces_mut.

Definition valuation := name -> option Q.

Definition kand (a b : option bool) : option bool :=
  match a, b with
  | Some false, _ => Some false
  | _, Some false => Some false
  | Some true, Some true => Some true
  | _, _ => None
  end.

Fixpoint seval (rho : valuation) (e : sexpr) : option Q :=
  match e with
  | SNum q => Some (Qred q)
  | SSym x => rho x
  | SNeg a => match seval rho a with Some v => Some (qneg v) | None => None end
  | SBin op a b =>
      match seval rho a, seval rho b with
      | Some x, Some y => bin_sem op x y
      | _, _ => None
      end
  | SPw ps => spw rho ps
  end
with sevalc (rho : valuation) (c : scond) : option bool :=
  match c with
  | SBool b => Some b
  | SRel op a b =>
      match seval rho a, seval rho b with
      | Some x, Some y => cmp_sem op x y
      | _, _ => None
      end
  | SAnd c1 c2 => kand (sevalc rho c1) (sevalc rho c2)
  end
with spw (rho : valuation) (ps : pieces) : option Q :=
  match ps with
  | PNil => None
  | PCons e c r =>
      match sevalc rho c with
      | Some true => seval rho e
      | Some false => spw rho r
      | None => None
      end
  end.

(** simultaneous substitution of symbols (sympy: [expr.subs(d, simultaneous=True)]) *)
Fixpoint subs_sim (m : list (name * sexpr)) (e : sexpr) : sexpr :=
  match e with
  | SNum q => SNum q
  | SSym x => match assoc x m with Some s => s | None => SSym x end
  | SNeg a => SNeg (subs_sim m a)
  | SBin op a b => SBin op (subs_sim m a) (subs_sim m b)
  | SPw ps => SPw (subs_pw m ps)
  end
with subs_c (m : list (name * sexpr)) (c : scond) : scond :=
  match c with
  | SBool b => SBool b
  | SRel op a b => SRel op (subs_sim m a) (subs_sim m b)
  | SAnd c1 c2 => SAnd (subs_c m c1) (subs_c m c2)
  end
with subs_pw (m : list (name * sexpr)) (ps : pieces) : pieces :=
  match ps with
  | PNil => PNil
  | PCons e c r => PCons (subs_sim m e) (subs_c m c) (subs_pw m r)
  end.

(** sequential substitution (sympy: [expr.subs(d)] -- one key after the other, keys in sorted
    order); only used to show what the [simultaneous] fact buys *)
Fixpoint ins_by_name {A} (p : name * A) (l : list (name * A)) : list (name * A) :=
  match l with
  | [] => [p]
  | q :: r => if N.leb (fst p) (fst q) then p :: l else q :: ins_by_name p r
  end.
Definition sort_by_name {A} (l : list (name * A)) : list (name * A) := fold_right ins_by_name [] l.
Definition subs_seq (m : list (name * sexpr)) (e : sexpr) : sexpr :=
  fold_left (fun acc p => subs_sim [p] acc) (sort_by_name m) e.

(** structural equality (what Python's == does on SymPy objects), for the refuted variant *)
Fixpoint sexpr_eqb (a b : sexpr) : bool :=
  match a, b with
  | SNum p, SNum q => Qeq_bool p q
  | SSym x, SSym y => N.eqb x y
  | SNeg x, SNeg y => sexpr_eqb x y
  | SBin o x1 x2, SBin o' y1 y2 => binop_eqb o o' && sexpr_eqb x1 y1 && sexpr_eqb x2 y2
  | SPw p, SPw q => pieces_eqb p q
  | _, _ => false
  end
with scond_eqb (a b : scond) : bool :=
  match a, b with
  | SBool x, SBool y => Bool.eqb x y
  | SRel o x1 x2, SRel o' y1 y2 => cmpop_eqb o o' && sexpr_eqb x1 y1 && sexpr_eqb x2 y2
  | SAnd x1 x2, SAnd y1 y2 => scond_eqb x1 y1 && scond_eqb x2 y2
  | _, _ => false
  end
with pieces_eqb (a b : pieces) : bool :=
  match a, b with
  | PNil, PNil => true
  | PCons e c r, PCons e' c' r' => sexpr_eqb e e' && scond_eqb c c' && pieces_eqb r r'
  | _, _ => false
  end.
