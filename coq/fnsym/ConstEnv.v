(** Named constants and TIME.  `_handle_name` falls back to the float members of the function's
    module, `_handle_attribute` reads `module.CONST`: both look the value up WHEN THE FUNCTION IS
    TRANSLATED, and the Python function reads the same module attribute when it is CALLED.  The
    module namespace is mutable (notebook / parameter study: `mod.KEQ = 4.0`), so "the constant
    environment at the time of the call" is an argument of the translation, not a part of the program.

    A program is a list of [mfun] (parameters, module id, body); a constant environment [cenv] gives
    every module id its float table NOW.  [at_env E] closes a program over E, which yields the
    [fundef]s of PyLang/FnToSym.  Attribute constants (`cmod.KA`) are entries of the table of the
    module that reads them under a name no local can have (nothing can assign to `cmod.KA`'s name).

    What the translator actually sees is decided by the code fact [f_const]:
      ConstAtCall  the environment of the call                             (shipped code)
      ConstCached  for a module that was looked up before in this process: the table as of that FIRST
                   lookup ([first], a partial environment), else the current one     (seeded C06-3)
    No proofs in this file. *)
From FnSym Require Export FnToSym.

Definition cenv := list (N * list (name * Q)).

Record mfun := mkMFun { mf_params : list name; mf_defaults : list Q; mf_mod : N; mf_body : stmts }.

Definition consts_of (E : cenv) (m : N) : list (name * Q) :=
  match assoc m E with Some t => t | None => [] end.

Definition at_env (E : cenv) (mf : mfun) : fundef :=
  mkFun (mf_params mf) (mf_defaults mf) (consts_of E (mf_mod mf)) (mf_body mf).

(** the environment the translator reads: [first] = tables remembered from earlier lookups *)
Definition env_used (fs : facts) (first now : cenv) : option cenv :=
  match f_const fs with
  | ConstAtCall => Some now
  | ConstCached => Some (first ++ now)        (* [assoc] finds the remembered table first *)
  | ConstUnknown => None
  end.

(** fn_to_sympy(ms[i], model_args = margs) called while the module constants are [now], in a
    process whose earlier translations saw [first] *)
Definition translate (fs : facts) (first now : cenv) (ms : list mfun) (i : nat) (margs : list sexpr)
  : option sexpr :=
  match env_used fs first now with
  | Some E => fn_to_sympy fs (map (at_env E) ms) i margs
  | None => None
  end.

(** (fn_args, expression) for model_args = None *)
Definition translate_summary (fs : facts) (first now : cenv) (ms : list mfun) (i : nat) : summary :=
  match env_used fs first now with
  | Some E => match nth_error (summaries fs (map (at_env E) ms)) i with Some su => su | None => None end
  | None => None
  end.

(** the value CPython gives ms[i] on the arguments vs while the module constants are [now] *)
Definition py_value (now : cenv) (ms : list mfun) (i : nat) (vs : list Q) : option Q :=
  py_call (map (at_env now) ms) i vs.
